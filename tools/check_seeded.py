#!/usr/bin/env python3
"""For every seeded regression: apply patch.diff to a scratch copy of /repo and check that each rule
listed in meta.json's caught_by_rules reports a violation (only the properties of those rules are run).
usage: check_seeded.py [-j N] [SCnn ...]"""
import json, os, shutil, subprocess, sys, tempfile, re
from concurrent.futures import ThreadPoolExecutor
VERIF = os.path.dirname(os.path.dirname(os.path.abspath(__file__)))
ENV = dict(os.environ, GOFLAGS="-mod=mod", GOPROXY="off", GOSUMDB="off", GOTOOLCHAIN="local", GOWORK="off")
args = sys.argv[1:]
j = 2
if args[:1] == ["-j"]:
    j = int(args[1]); args = args[2:]
ids = args or sorted(d for d in os.listdir(os.path.join(VERIF, "seeded")) if os.path.exists(os.path.join(VERIF, "seeded", d, "meta.json")))
def one(sid):
    d = os.path.join(VERIF, "seeded", sid)
    meta = json.load(open(os.path.join(d, "meta.json")))
    rules = meta.get("caught_by_rules") or []
    if not rules:
        return sid, "NO-RULES", []
    tmp = tempfile.mkdtemp(prefix="lvseed-")
    try:
        dst = os.path.join(tmp, "repo")
        shutil.copytree("/repo", dst, ignore=shutil.ignore_patterns(".git"))
        a = subprocess.run(["patch", "-p1", "-s", "-i", os.path.join(d, "patch.diff")], cwd=dst, capture_output=True, text=True)
        if a.returncode != 0:
            return sid, "PATCH-FAILED" + (" (base %s)" % meta["base"] if meta.get("base") else ""), []
        missing = []
        for p in sorted(set(r[:3] for r in rules)):
            o = subprocess.run([os.path.join(VERIF, "bin/lvcheck"), "-repo", dst, "-verif", VERIF, "-out", os.path.join(tmp, "ev"), "-prop", p, "-nofixtures"], env=ENV, capture_output=True, text=True)
            fired = set(re.findall(r"^\s+FAIL (C\d\d\.\w+) ", o.stdout, re.M))
            for r in rules:
                if r.startswith(p) and r not in fired:
                    missing.append(r)
        return sid, "OK" if not missing else "MISSED", missing
    finally:
        shutil.rmtree(tmp, ignore_errors=True)
bad = 0
with ThreadPoolExecutor(max_workers=j) as ex:
    for sid, st, miss in ex.map(one, ids):
        if st != "OK":
            bad += 1
        print(sid, st, " ".join(miss), flush=True)
print("seeded: %d checked, %d not ok" % (len(ids), bad))
