#!/bin/bash
# For every `fixed:` entry of known_findings.txt: reverse-apply the fix commit to a scratch copy of
# /repo and check that the property's check fires again (the guard rule of each repaired defect is
# still armed). Where a later fix touched the same lines the reverse patch does not apply; those
# defects are covered by their "re-introduces Dn" mutants (mutants/src/*.py).
export GOFLAGS=-mod=mod GOPROXY=off GOSUMDB=off GOTOOLCHAIN=local GOWORK=off
V=/verif
grep "^fixed:" $V/known_findings.txt | sed 's/fixed: property=\(C[0-9]*\) \([0-9a-f]*\) \(D[0-9]*\).*/\3:\1:\2/' | while IFS=: read d prop commit; do
  t=$(mktemp -d /tmp/lvrev-XXXX)
  rsync -a --exclude .git /repo/ $t/repo/
  if git -C /repo show $commit --format= | (cd $t/repo && patch -p1 -R -s >/dev/null 2>&1); then
    n=$($V/bin/lvcheck -repo $t/repo -verif $V -prop $prop -nofixtures -out $t/ev | grep -c "FAIL")
    if [ "$n" -gt 0 ]; then echo "OK    $d $prop: reverting $commit makes the check fire ($n findings)"; else echo "MISS  $d $prop: reverting $commit is NOT detected"; fi
  else
    echo "SKIP  $d $prop: reverse patch of $commit no longer applies (covered by its re-introduction mutant)"
  fi
  rm -rf $t
done
