#!/usr/bin/env python3
"""Generate /verif/MANIFEST.json from the table below (one row per property).
A property with claim=None goes to not_applicable with its reason."""
import json, os, sys

VERIF = os.path.dirname(os.path.dirname(os.path.abspath(__file__)))
ENVP = "GOFLAGS=-mod=mod GOPROXY=off GOSUMDB=off GOTOOLCHAIN=local GOWORK=off"

TRUST = ("Trusted base: go/types + golang.org/x/tools/go/ssa v0.29.0 (SSA, VTA call graph); the rule tables in /verif/checker "
         "(anchors confirmed by reading, each with a vacuity floor and an unresolved-anchor failure mode); positive/negative control "
         "fixtures run on every invocation. Assumes linux/amd64 build of ./leveldb/... without test files.")

P = {
 "C01": dict(
   technique="SSA path rules (must-precede, early-return), guard extraction over SSA branch structure, value-origin flow, who-may-compare scan",
   text="Decides structural necessary conditions of the ordered-map behaviour on every CFG path of the read path, the level-0/deeper-level lookup callbacks, the compaction drop/cut guards, manifest rotation, transaction open and journal replay; plus comparer discipline over all engine functions. It does NOT decide map equivalence over histories: that quantifies over runtime contents; a broken clause here is a guaranteed wrong read for some history, a passing one is not a proof of the property.",
   ref="DESIGN.md §2 C01"),
 "C04": dict(
   technique="SSA must-precede / must-pass-through with mode assumptions (NoSync=false, sync=true), error-edge pruning, guard extraction",
   text="Decides the durability ORDERING obligations (write→flush→sync→acknowledge/install/delete) of the journal, table, manifest, flush, recovery and transaction-commit paths on every CFG path, including all error exits. Crash-point enumeration and the post-crash images are dynamic and NOT decided; a broken ordering is a crash point that loses an acknowledged write.",
   ref="DESIGN.md §2 C04"),
 "C09": dict(
   technique="path-sensitive typestate on SSA (mutexes, channel write-lock token with per-function contracts, open transaction), exhaustive blocking-channel-op inventory, call-graph reachability, lock-order graph (held-set typestate x transitive may-acquire over the VTA call graph) with cycle detection, inventory of channel waits under a mutex checked against the partner goroutine's may-acquire set",
   text="Decides that on every CFG path (every error exit included) whatever an operation acquired is released or handed over per a reviewed contract, that every blocking channel operation has a close/timeout alternative or is a reviewed rendezvous, that locks held across the exit-panic protocol are deferred, that Close's steps are ordered, and that the lock-order graph over the module's mutexes is acyclic with no mutex re-acquired while held (the cache/table-reader layer collapsed to one node), and that no goroutine waits on a channel under a mutex that the goroutine on the other end can need. Liveness under schedules is NOT decided; a broken clause is a guaranteed hang for some fault position.",
   ref="DESIGN.md §2 C09"),
 "C10": dict(
   technique="path-sensitive typestate on SSA for the four-channel writer protocol, guard extraction, sibling comparison of Write/putRec",
   text="Decides the per-path accounting of the merge protocol: each received request answered exactly once, each merged writer acknowledged exactly once with the group's result, exactly one unlock/hand-off per leader exit carrying the loop's own state, sync flag or-ed over the group. Cross-goroutine rendezvous order is NOT decided.",
   ref="DESIGN.md §2 C10"),
 "C02": dict(
   technique="guard extraction over SSA (visibility/tombstone guards), value-origin flow (probes, merged sources), exhaustiveness over all iterator implementations (go/types method sets)",
   text="Decides structural necessary conditions of iterator correctness: visibility/tombstone guards of dbIter.next/prev, probe and range-bound construction, that no source iterator is lost before merging, heap order of the merged iterator, and that all 35 movement methods of the 7 iterator implementations test the released state before touching their sources. Cursor equivalence over arbitrary movement sequences (direction-change state machines, block/table boundary slicing) is value-dependent and NOT decided.",
   ref="DESIGN.md §2 C02"),
 "C03": dict(
   technique="typestate pairing (snapshot registration), guard extraction (drop guard, list bookkeeping), ownership-transfer flow (releasers), value-origin flow at every read call site",
   text="Decides the structural necessary conditions of frozen views: reads register a snapshot element for their duration, the snapshot list is oldest-first with remove-at-zero, the compaction drop guard refers to the oldest live snapshot and the base level, iterators pin version and buffers through releasers without early release, and every read is filtered by the view's own sequence. Sufficiency of the guard for all snapshot sets × layouts and behaviour over time are NOT decided.",
   ref="DESIGN.md §2 C03"),
 "C05": dict(
   technique="must-precede on SSA (acquisition/publication orders), guarded-by lockset analysis with requires-lock summaries, who-may-call reachability for the sequence helpers, size-model check of 64-bit atomics",
   text="Decides the publication/acquisition ORDERS (sequence → buffers → version for readers; insert → publish for writers; install → drop for flushes; install → publish for transactions), the guarded-by discipline of the shared pointers and reference counts, the atomic-only discipline of DB.seq and the single-writer token contracts. Also, module-wide: every field touched through sync/atomic is touched through it everywhere (fresh objects excepted) and is overwritten by a plain atomic store only in reviewed places; the file-number counter goes back only by a compare-and-swap from num+1 to num. Interleavings and linearizability as such are NOT decided; a broken clause is a schedule with an inconsistent cut.",
   ref="DESIGN.md §2 C05"),
 "C06": dict(
   technique="comparer-discipline scan, guard extraction (writer order check, sort-by-level, insertion shortcut), value-origin flow (bounds, levels of the compaction edit), who-may-call for the trivial flag",
   text="Decides the code shapes that establish the LSM invariant: comparer used for every key comparison, outputs cut at user-key boundaries, writer rejects disorder and records true bounds, levels sorted (or legally inserted) on install, a compaction edit deletes exactly its inputs and adds outputs one level down after expanding inputs, recovered tables at level 0. A file number has one owner: the allocation counter is lowered only atomically and only from num+1 to num. The invariant on actual versions is NOT decided.",
   ref="DESIGN.md §2 C06"),
 "C07": dict(
   technique="typestate pairing of version/buffer references, who-may-delete reachability with a reviewed deleter table, guard extraction (remove-at-zero, startup sweep keep-conditions), must-precede (install before release, discard before unlock)",
   text="Decides structural necessary conditions of file lifetime management: reference before release on version install; removal of tables only through the file cache's deletion callback and only at zero references; every version()/buffer reference released or transferred exactly once on every CFG path; partial outputs dropped/reverted on every failure exit; the startup sweep's keep-conditions and its ordering after the missing-table check. refLoop's delta arithmetic over histories is NOT decided.",
   ref="DESIGN.md §2 C07"),
 "C08": dict(
   technique="error-discipline sweep over all error-returning calls (go/ssa referrers) against a reviewed list, not-on-error path rules, guard extraction for checksum gates and error classification, constant evaluation of the default strict set",
   text="Decides that no error of any call in the engine packages is silently dropped outside a reviewed teardown list, that failed log/manifest writes are not applied/acknowledged/installed, that a failed journal write consumes its sequence numbers, that the journal writer latches errors, that block bytes are used only behind the CRC gate with verification flags plumbed from the options, and that a source iterator's read error is consulted before end-of-data or a candidate is reported. Which answers are returned under which fault sequence is NOT decided.",
   ref="DESIGN.md §2 C08"),
 "C11": dict(
   technique="shared path rules (commit order, sequence capture, token contracts), exhaustiveness over *Transaction's exported method set, guarded-by lockset analysis for the transaction's fields, exactly-once counting in setDone",
   text="Decides the structural necessary conditions of transaction isolation/atomicity/no-residue: sequence isolation, commit order, closed-check-first in every exported method under tr.lk, own buffer/tables layered first, discard removes tables before unlocking, Close discards before locking, the internal large-batch transaction is always finished. Runtime visibility and crash images are NOT decided.",
   ref="DESIGN.md §2 C11"),
 "C18": dict(
   technique="exhaustiveness over *DB's exported method set (go/types), guard extraction (closed/released/read-only gates), VTA call-graph reachability from the read-only open path, pairing of the storage lock",
   text="Decides that every fallible exported DB method tests the closed flag before touching anything, Close is gated by a compare-and-swap, snapshot and iterator handles test their own state first, the storage lock is taken first/released on failure/exclusive in both storages, the read-only open path cannot reach any storage mutation and the file storage's mutators refuse when read-only, and that the read-only state rejects writers. Read-only recovery replays every live journal into the one buffer it then serves from and never empties it. Races with Close and drain timing are NOT decided.",
   ref="DESIGN.md §2 C18"),
 "C20": dict(
   technique="interprocedural value-flow: freshness summaries for returned buffers, per-(function,parameter) taint summaries for retained/modified arguments with callbacks resolved at call sites, store-shape check for iterator buffers",
   text="Decides buffer ownership across the API boundary on every path: Get results are fresh copies; key/value/batch arguments are never retained or modified (only read or copied from), including through the write-merge hand-off; iterator key/value are private buffers; the memdb arena is append-only. Heap modelled field-/cell-based (no points-to): aliasing through interface-typed cache values beyond summarised paths is NOT covered.",
   ref="DESIGN.md §2 C20"),
 "C12": dict(
   technique='guard extraction (acceptance gates of the journal reader), sibling comparison of normalised offset expressions between journal writer and reader, constant agreement, sticky-error check',
   text='Decides the gates and agreements journal framing rests on: the reader accepts a chunk only after header/type/length/CRC checks and first-chunk typing; the writer never lets a header straddle a block; checksummed range, length field, type byte and payload start sit at the same offsets on both sides with the same constants; the writer latches errors. Also what a record reader does when a continuation chunk cannot be fetched: the call ends in an error (no retry, no payload, never nil or io.EOF), io.ErrUnexpectedEOF — the "skip this record" value — is substituted for the internal skip marker only, and every other error passes unchanged. Round-trip equality and damage containment over all byte streams are not decided.',
   ref="DESIGN.md §2 C12"),
 "C13": dict(
   technique='guard extraction with exactness (converse) checks on block/entry decoding and Seek, checksum-gate plumbing via call-site argument flow, sibling comparison of table writer/reader trailer/footer layout, must-follow rules for restart points and index entries',
   text='Decides structural necessary conditions of the sorted-table format: checksum gate and verification-flag plumbing, entry decoding rejects truncated/overflowing entries before use, index keys are separator/successor with full-key fallback and carry the handle of the block just written, writer/reader agree on block trailer/footer/constants, restart points exactly every interval with only non-restart entries sharing a prefix, comparer discipline. Round-trip under all layouts, range slicing, approximate offsets and behaviour on altered bytes beyond the presence of the gates are not decided.',
   ref="DESIGN.md §2 C13"),
 "C14": dict(
   technique="guarded-by lockset analysis with requires-lock summaries, path-sensitive lock pairing, constant-flag call-site check (findGE prev), argument taint (copy-in), store-shape check (append-only arena), guard extraction for the counters",
   text="Decides the lock discipline and bookkeeping shape of the in-memory buffer: shared fields only under mu (exclusive for writes), predecessor-recording search only under the write lock, lock paired on every exit, arguments copied and arena append-only, n/kvSize updated only for new/existing keys respectively. Also the iterator's direction flag (every move leaves it at its own direction; Next/Prev wrap around exactly from the opposite end) and the skip-list search decisions (advance / hit / end-of-tower tables). Skip-list order, Len/Size arithmetic over histories and iterator results under concurrent inserts are not decided.",
   ref="DESIGN.md §2 C14"),
 "C15": dict(
   technique="abstract interpretation of iComparer.Compare's loop-free CFG over the finite sign domain, guard extraction for the Separator/Successor shortening conditions, sibling comparison of trailer encode/decode, constant evaluation, comparer-discipline scan",
   text="Decides the sign table of the internal-key comparison (user key ascending via the configured comparer, then sequence|kind descending, operands in the right order), the shortening guards of iComparer.Separator/Successor (shortened key only when shorter and strictly greater than the left key, maximal trailer appended, else nil), trailer encode/decode agreement and range checks, and the key constants. Also the guard of the built-in bytewise shortening (prefix + incremented byte only when the result stays below b / above b). Totality/transitivity for arbitrary user comparers, the laws of other shortening constructions, and 'the index routes every lookup' are not decided.",
   ref="DESIGN.md §2 C15"),
 "C16": dict(
   technique='sibling comparison of normalised SSA expression signatures (bloom generator vs probe; filter block writer vs reader), call-site argument flow (user key on both sides), must-precede (add-to-filter before success; flush per block; finish before metaindex), guard extraction for the fail-open rules',
   text="Decides filter build/probe agreement and fail-open behaviour: the internal-key wrappers pass the user key both ways, bloom generator and probe share hash/rotation/bit-position expressions and the probe count byte, every appended key is added to the filter before success, partitions flush with each data block, writer/reader agree on the partition index, out-of-range or inconsistent filter data answers 'maybe', a filter miss becomes not-found only when a filter exists and filtering was requested, a corrupted filter block disables filtering. The no-false-negative law over all key sets (hash behaviour) is not decided.",
   ref="DESIGN.md §2 C16"),
 "C17": dict(
   technique="guarded-by lockset analysis and lock pairing for the cache/LRU, guard extraction (constructor once, finalise at zero refs, ban flag), lockset query for calls reaching Handle.Release, exactly-once path rules for the deletion callback, must-pass-through for the capacity trim",
   text="Decides the structural conditions of the cache guarantees: fields under their locks, constructor only under the node lock when empty, handle release never under the policy lock, idempotent finalisation only at zero references followed by removal, deletion callback queued-or-called exactly once per path, capacity trim loop before every unlock, admission only if it fits, banned nodes never re-admitted. The ban record itself is permanent (flag only ever set, record cleared only where tested not banned). Per-key uniqueness across concurrent resizes and run-time ordering of finalisation vs. handle release are not decided.",
   ref="DESIGN.md §2 C17"),
 "C19": dict(
   technique="value-origin flow (level constant, file number, running maxima identified by SSA phi/branch shape), must-precede / not-on-error path rules (rebuild→close→rename, create→commit, recoverTable→openDB), guard extraction with exactness checks for registration/rebuild/abort decisions",
   text="Decides the structure Recover rests on: level-0 registration under the table's own number and scanned range, recorded sequence = running maximum of parsed sequences over all tables, file-number allocator advanced past the highest table, rebuilt tables closed+synced before rename, fresh manifest before commit, I/O errors abort while corruption is counted, tables with good keys registered unless strict recovery saw damage, damaged tables rebuilt first, StrictReader masked on a private options copy, Recover ends in the ordinary open path. Equality of recovered contents is not decided.",
   ref="DESIGN.md §2 C19"),
}

PENDING = "rules for this property are not armed in this revision of /verif (work in progress); it is not claimed until its checks are silent on the tree and kill their own mutants"

def main():
    props = [json.loads(l) for l in open(os.path.join(VERIF, "properties.jsonl"))]
    checks, na = [], []
    for p in props:
        pid = p["id"]
        row = P.get(pid)
        if not row:
            na.append(dict(property_id=pid, reason=NA.get(pid, PENDING)))
            continue
        checks.append(dict(
            property_id=pid,
            quick_cmd="%s /verif/bin/lvcheck -repo /repo -verif /verif -prop %s -tier quick" % (ENVP, pid),
            thorough_cmd="%s /verif/bin/lvcheck -repo /repo -verif /verif -prop %s -tier thorough" % (ENVP, pid),
            evidence_file="/verif/evidence/%s.json" % pid,
            replay_cmd_template="cat {path}",
            engine="lvcheck",
            level_claimed=dict(category="other", text=row["text"], design_ref=row["ref"]),
            level_note=TRUST,
            technique="static analysis: " + row["technique"],
        ))
    m = dict(
        version=1,
        setup_cmd="cd /verif/checker && %s go build -o /verif/bin/lvcheck ." % ENVP,
        hooks=dict(guard="verif", enable="none needed: the checks read /repo's source (go/packages + go/ssa); nothing is compiled into goleveldb",
                   baseline_off_cmd="cd /repo && go test -vet=off -count=1 -timeout 25m ./...", source_commits=[], add_only=True),
        engines=[dict(name="lvcheck", path="/verif/checker", serves_properties=[c["property_id"] for c in checks],
                      kind_free_text="repository-specific static analyzer over go/types + go/ssa: typestate/pairing, must-precede, guard extraction, value-origin flow, call-graph reachability, exhaustiveness; mutation self-test in the thorough tier")],
        checks=checks,
        not_applicable=na,
        notes="All claims are level 'other': each check decides structural necessary conditions of its property from /repo's current source on every run and reports a specific construct. Genuine defects found are listed in /verif/known_findings.txt (fixed: entries have a 'fix:' commit in /repo; known: entries print KNOWN-FINDING; there are none at present). The thorough tier adds: the same rules on linux/386, windows/amd64 and darwin/amd64 loads of the current tree, a CHA call-graph cross-check, and a self-test that applies the property's catalogued breaking edits (/verif/mutants) and confirmed seeded regressions (/verif/seeded) to the current tree and re-analyses them (SELFTEST-MISS lines report a checker defect, never a property violation). No not_applicable entries: every property is claimed only for the structural clauses named in its level text; the behavioural remainder (model equality, crash images, schedules, laws over all byte strings) is stated there and in DESIGN.md section 9.3 as not decided.",
    )
    json.dump(m, open(os.path.join(VERIF, "MANIFEST.json"), "w"), indent=1)
    print("checks:", len(checks), "not_applicable:", len(na))

NA = {}
main()
