#!/usr/bin/env python3
"""Prepare one round of blind seeding experiments: for each property a scratch worktree of /repo
HEAD under /tmp/seedwt/R<round>C<nn>, the property's JSON alone, and a prompt built from
tools/seed_prompt_template.txt plus the list of functions earlier rounds already changed.
usage: gen_seed_prompts.py <round> <first SC number> [C01 C02 ...]"""
import json, glob, os, subprocess, sys, collections
rnd, first = int(sys.argv[1]), int(sys.argv[2])
only = sys.argv[3:]
base = '/tmp/seedwt'
os.makedirs(base, exist_ok=True)
props = [json.loads(l) for l in open('/verif/properties.jsonl')]
used = collections.defaultdict(list)
allused = []
for f in sorted(glob.glob('/verif/seeded/SC*/meta.json')):
    d = json.load(open(f))
    used[d['breaks_property']].append('%s in %s' % (d['function'], d['file']))
    e = '%s (%s)' % (d['function'], d['file'].split('/')[-1])
    if e not in allused:
        allused.append(e)
tmpl = open('/verif/tools/seed_prompt_template.txt').read()
subprocess.run(['git', '-C', '/repo', 'worktree', 'prune'])
for i, p in enumerate(props):
    pid = p['id']
    if only and pid not in only:
        continue
    sc = 'SC%02d' % (first + i)
    wt = '%s/R%d%s' % (base, rnd, pid)
    pf = '%s/%s.prop.json' % (base, pid)
    json.dump(p, open(pf, 'w'), indent=1)
    if not os.path.isdir(wt):
        subprocess.run(['git', '-C', '/repo', 'worktree', 'add', '--detach', wt, 'HEAD', '-q'], check=True)
    os.makedirs(wt + '/_seeded', exist_ok=True)
    t = tmpl.replace('__WT__', wt).replace('__PROP__', pf).replace('__IDL__', sc.lower()).replace('__ID__', sc)
    avoid = ('\n\nEarlier experiments on this property already changed the following functions; choose a DIFFERENT function and a different '
             'mechanism of the property (study ALL the anchors, mechanisms and state the property names; helper functions, codecs, option '
             'handling, error paths, platform-specific files and rarely used public methods are all fair game): ' + '; '.join(used[pid]) + '. '
             'Experiments on OTHER properties already changed these functions, so avoid them too (several independent experimenters landed on the same edit): ' + '; '.join(allused) + '.')
    t = t.replace('remove it when done.', 'remove it when done.' + avoid, 1)
    open('%s/prompt-R%d%s.txt' % (base, rnd, pid), 'w').write(t)
    print(pid, sc, wt)
