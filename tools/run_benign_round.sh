#!/bin/bash
# usage: run_benign_round.sh <dir with bNN.diff> — applies each patch alone to a scratch copy of /repo
# and runs every property's quick rules on it; prints the alarms (there must be none).
export GOFLAGS=-mod=mod GOPROXY=off GOSUMDB=off GOTOOLCHAIN=local GOWORK=off
dir=$1; shift
T=$(mktemp -d /tmp/lvs-benign.XXXX)
for d in $dir/b*.diff; do
  n=$(basename $d .diff)
  rm -rf $T/src; rsync -a --exclude .git /repo/ $T/src/
  (cd $T/src && patch -p1 -s < $d) || { echo "$n PATCHFAIL"; continue; }
  out=""
  for i in 01 02 03 04 05 06 07 08 09 10 11 12 13 14 15 16 17 18 19 20; do
    o=$(/verif/bin/lvcheck -repo $T/src -prop C$i -nofixtures -out $T/ev 2>&1 | grep -E "^   FAIL|^panic:|VIOLATION" | cut -c1-300)
    [ -n "$o" ] && out="$out"$'\n'"$o"
  done
  if [ -z "$out" ]; then echo "$n silent"; else echo "$n ALARM:$out"; fi
done
rm -rf $T
