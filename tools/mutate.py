#!/usr/bin/env python3
"""Development/self-test harness: apply catalogue mutants to scratch copies of /repo's current
working tree and check that the named rule fires (or, for benign refactorings, stays silent).
Usage: mutate.py [-j N] [id-substring ...]"""
import json, os, shutil, subprocess, sys, tempfile, concurrent.futures as cf

VERIF = os.path.dirname(os.path.dirname(os.path.abspath(__file__)))
REPO = os.environ.get("LV_REPO", "/repo")
ENV = dict(os.environ, GOFLAGS="-mod=mod", GOPROXY="off", GOSUMDB="off", GOTOOLCHAIN="local", GOWORK="off")

def load():
    out = []
    d = os.path.join(VERIF, "mutants")
    for fn in sorted(os.listdir(d)):
        if fn.endswith(".json"):
            out += json.load(open(os.path.join(d, fn)))
    return out

def run_one(m):
    tmp = tempfile.mkdtemp(prefix="lvmut-")
    try:
        dst = os.path.join(tmp, "repo")
        shutil.copytree(REPO, dst, ignore=shutil.ignore_patterns(".git"))
        for ed in m["edits"]:
            path = os.path.join(dst, ed["file"])
            src = open(path).read()
            n = src.count(ed["find"])
            if n != ed.get("count", 1):
                return m["id"], "SKIP", "context not found exactly (%d matches) in %s" % (n, ed["file"])
            src = src.replace(ed["find"], ed["replace"])
            open(path, "w").write(src)
        b = subprocess.run(["go", "build", "./leveldb/..."], cwd=dst, env=ENV, capture_output=True, text=True)
        if b.returncode != 0:
            return m["id"], "NOBUILD", b.stderr[-400:]
        res = []
        ok = True
        for prop, rule in m.get("expect", []):
            o = subprocess.run([os.path.join(VERIF, "bin/lvcheck"), "-repo", dst, "-verif", VERIF, "-out", os.path.join(tmp, "ev"), "-prop", prop, "-nofixtures"], env=ENV, capture_output=True, text=True)
            fired = [l for l in o.stdout.splitlines() if l.strip().startswith("FAIL " + rule + " ")]
            if o.returncode == 1 and fired:
                res.append("%s fires: %s" % (rule, fired[0].strip()[:160]))
            else:
                ok = False
                res.append("%s MISSED (exit %d)" % (rule, o.returncode))
        for prop in m.get("silent", []):
            o = subprocess.run([os.path.join(VERIF, "bin/lvcheck"), "-repo", dst, "-verif", VERIF, "-out", os.path.join(tmp, "ev"), "-prop", prop, "-nofixtures"], env=ENV, capture_output=True, text=True)
            if o.returncode != 0:
                ok = False
                fl = [l.strip()[:200] for l in o.stdout.splitlines() if l.strip().startswith("FAIL ")]
                res.append("%s FALSE ALARM: %s" % (prop, "; ".join(fl[:3])))
            else:
                res.append("%s silent" % prop)
        return m["id"], "OK" if ok else "BAD", " | ".join(res)
    finally:
        shutil.rmtree(tmp, ignore_errors=True)

def main():
    args = sys.argv[1:]
    j = 6
    if args and args[0] == "-j":
        j = int(args[1]); args = args[2:]
    ms = [m for m in load() if not args or any(a in m["id"] for a in args)]
    bad = 0
    with cf.ThreadPoolExecutor(max_workers=j) as ex:
        for mid, st, info in ex.map(run_one, ms):
            print("%-8s %-40s %s" % (st, mid, info), flush=True)
            if st in ("BAD", "NOBUILD"):
                bad += 1
    print("mutants: %d run, %d bad" % (len(ms), bad))
    sys.exit(1 if bad else 0)

main()
