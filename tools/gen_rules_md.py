#!/usr/bin/env python3
"""Regenerate the as-built rule inventory in DESIGN.md (between the AUTO-RULES markers) from the
evidence files the checker wrote on its last run (so the table is measured, not typed)."""
import json, os, glob, re
VERIF = os.path.dirname(os.path.dirname(os.path.abspath(__file__)))
out = []
tot_r = tot_o = 0
for f in sorted(glob.glob(os.path.join(VERIF, "evidence", "C*.json"))):
    e = json.load(open(f))
    cov = e["coverage"]
    out.append("\n**%s** — %d obligations, %d functions analysed\n" % (e["property_id"], cov["obligations"], len(cov["functions_analysed"])))
    out.append("| rule | engine | sites/floor | obligations | what is decided |")
    out.append("|---|---|---|---|---|")
    for r in cov["rules"]:
        if ".cfg[" in r["rule"]:
            continue
        tot_r += 1; tot_o += r["obligations"]
        out.append("| %s | %s | %d/%d | %d | %s |" % (r["rule"], r["engine"], r["sites"], r["floor"], r["obligations"], r["text"].replace("|", "\\|")))
    out.append("\nNot decided: " + cov.get("not_covered", ""))
txt = "\n".join(out) + "\n\nTotal: %d rules, %d obligations.\n" % (tot_r, tot_o)
p = os.path.join(VERIF, "DESIGN.md")
s = open(p).read()
a, b = "<!-- AUTO-RULES BEGIN -->", "<!-- AUTO-RULES END -->"
if a in s:
    s = s[:s.index(a) + len(a)] + "\n" + txt + s[s.index(b):]
    open(p, "w").write(s)
    print("updated", tot_r, "rules", tot_o, "obligations")
else:
    print("markers not found")
