#!/usr/bin/env python3
"""Apply each seeded regression under /verif/seeded/<id>/patch.diff (or /tmp/seeded) to a scratch
copy of /repo and report which property checks fire."""
import json, os, shutil, subprocess, sys, tempfile
VERIF = os.path.dirname(os.path.dirname(os.path.abspath(__file__)))
ENV = dict(os.environ, GOFLAGS="-mod=mod", GOPROXY="off", GOSUMDB="off", GOTOOLCHAIN="local", GOWORK="off")
props = [c["property_id"] for c in json.load(open(os.path.join(VERIF, "MANIFEST.json")))["checks"]]
roots = sys.argv[1:] or [os.path.join(VERIF, "seeded")]
for root in roots:
    for sid in sorted(os.listdir(root)):
        pd = os.path.join(root, sid, "patch.diff")
        if not os.path.exists(pd):
            continue
        tmp = tempfile.mkdtemp(prefix="lvseed-")
        try:
            dst = os.path.join(tmp, "repo")
            shutil.copytree("/repo", dst, ignore=shutil.ignore_patterns(".git"))
            a = subprocess.run(["patch", "-p1", "-s", "-i", pd], cwd=dst, capture_output=True, text=True)
            if a.returncode != 0:
                print(sid, "PATCH FAILED", a.stdout[-200:], a.stderr[-200:]); continue
            fired = []
            for p in props:
                o = subprocess.run([os.path.join(VERIF, "bin/lvcheck"), "-repo", dst, "-verif", VERIF, "-out", os.path.join(tmp, "ev"), "-prop", p, "-nofixtures"], env=ENV, capture_output=True, text=True)
                fl = [l.strip() for l in o.stdout.splitlines() if l.strip().startswith("FAIL ")]
                if o.returncode != 0:
                    fired.append((p, fl))
            print("==", sid, "fired:", [p for p, _ in fired] or "NONE")
            for p, fl in fired:
                for l in fl[:3]:
                    print("     ", l[:230])
        finally:
            shutil.rmtree(tmp, ignore_errors=True)
