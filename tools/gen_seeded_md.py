#!/usr/bin/env python3
"""Regenerate the seeded-regression catch matrix in DESIGN.md (between the AUTO-SEEDED markers)
from /verif/seeded/*/meta.json."""
import json, os, glob
VERIF = os.path.dirname(os.path.dirname(os.path.abspath(__file__)))
rows = []
stats = {}
for f in sorted(glob.glob(os.path.join(VERIF, "seeded", "*", "meta.json"))):
    m = json.load(open(f))
    rnd = m.get("round", 1)
    first = "caught"
    if m.get("initially_missed"):
        first = "**missed**"
    elif m.get("strengthening"):
        first = "caught (rule refined)"
    st = stats.setdefault(rnd, dict(n=0, missed=0))
    st["n"] += 1
    st["missed"] += 1 if m.get("initially_missed") else 0
    conf = "yes" if os.path.exists(os.path.join(os.path.dirname(f), "confirm.txt")) else "pending"
    props = m["breaks_property"] + ("".join(", " + a for a in m.get("also_breaks", [])))
    rows.append("| %s | %d | %s | `%s` | %s | %s | %s | %s |" % (
        m["id"], rnd, props, m["function"].replace("|", "\\|"), m["change"].replace("|", "\\|"),
        ", ".join(m["caught_by_rules"]), first, (m.get("strengthening") or "").replace("|", "\\|")))
hdr = ["| id | round | breaks | function | change | caught by (now) | first exposure | what was strengthened |", "|---|---|---|---|---|---|---|---|"]
summ = "\n".join("Round %d: %d seeded changes, %d caught on first exposure, %d missed (all caught now)." % (k, v["n"], v["n"] - v["missed"], v["missed"]) for k, v in sorted(stats.items()))
txt = "\n".join(hdr + rows) + "\n\n" + summ + "\n"
p = os.path.join(VERIF, "DESIGN.md")
s = open(p).read()
a, b = "<!-- AUTO-SEEDED BEGIN -->", "<!-- AUTO-SEEDED END -->"
if a in s:
    s = s[:s.index(a) + len(a)] + "\n" + txt + s[s.index(b):]
    open(p, "w").write(s)
    print("updated", len(rows), "rows;", summ)
else:
    print("markers not found")
