#!/usr/bin/env python3
"""Regenerate mutants/*.json from mutants/src/*.py (the catalogue is edited as Python for
readable multi-line strings; the JSON is what the checker's self-test reads)."""
import json, os, runpy
d = os.path.join(os.path.dirname(os.path.dirname(os.path.abspath(__file__))), "mutants")
for fn in sorted(os.listdir(os.path.join(d, "src"))):
    if fn.endswith(".py"):
        g = runpy.run_path(os.path.join(d, "src", fn))
        json.dump(g["M"], open(os.path.join(d, fn[:-3] + ".json"), "w"), indent=1)
        print(fn, len(g["M"]))
