#!/bin/bash
# Confirm seeded regressions: for each /verif/seeded/<id>: in a scratch worktree of /repo's HEAD,
#  (1) demo passes on the unmodified tree, (2) patch applies and builds, (3) demo fails with the
#  patch, (4) the existing suite passes with the patch. Results in /verif/seeded/<id>/confirm.txt
export GOFLAGS=-mod=mod GOPROXY=off GOSUMDB=off GOTOOLCHAIN=local
for d in "$@"; do
  d=$(readlink -f $d)
  id=$(basename $d)
  out=$d/confirm.txt
  wt=/tmp/wt-confirm-$id
  rm -rf $wt; git -C /repo worktree prune
  base=$(python3 -c "import json,sys; print(json.load(open('$d/meta.json')).get('base','HEAD'))" 2>/dev/null || echo HEAD)
  git -C /repo worktree add --detach $wt $base -q || { echo "worktree failed" > $out; continue; }
  mkdir -p /tmp/confirm-tmp-$id
  dst=$(grep -o 'leveldb[a-z/_]*seeded_[a-z0-9_]*_test.go' $d/demo_test.go | head -1)
  [ -z "$dst" ] && dst=leveldb/seeded_$(echo $id | tr A-Z a-z)_test.go
  cp $d/demo_test.go $wt/$dst
  {
    echo "seeded $id  repo HEAD $(git -C /repo rev-parse --short HEAD)  base $base  demo at $dst"
    pkg=./$(dirname $dst)/
    echo "--- (1) demo on unmodified tree (expect PASS)"
    (cd $wt && TMPDIR=/tmp/confirm-tmp-$id timeout 600 go test -vet=off -count=1 -run 'TestSeeded' $pkg 2>&1 | tail -3)
    echo "--- (2) apply patch + build"
    (cd $wt && git apply $d/patch.diff && go build ./... && echo BUILD-OK)
    echo "--- (3) demo with patch (expect FAIL)"
    (cd $wt && TMPDIR=/tmp/confirm-tmp-$id timeout 600 go test -vet=off -count=1 -run 'TestSeeded' $pkg 2>&1 | grep -a -E "^(--- FAIL|FAIL|ok|PASS)" | head -5)
    echo "--- (4) existing suite with patch (demo removed; expect all ok)"
    rm -f $wt/$dst
    (cd $wt && TMPDIR=/tmp/confirm-tmp-$id go test -vet=off -count=1 -timeout 25m ./... 2>&1 | grep -a -E "^(--- FAIL|FAIL|ok|panic:)" | tail -16)
  } > $out 2>&1
  git -C /repo worktree remove --force $wt
  rm -rf /tmp/confirm-tmp-$id
done
echo ALL-DONE
