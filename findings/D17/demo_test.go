// place at: leveldb/verif_d17_test.go
//
// D17: Get concurrent with Close can deadlock — for ever, both calls.
//
// cache.Cache.Get holds the cache's RWMutex for reading (r.mu.RLock) for its whole duration. When
// the lookup makes the LRU evict another node, lru.Promote releases the LRU's own handle of that
// node: Handle.Release → Node.unRefExternal → r.mu.RLock() AGAIN, on the same cache, by the same
// goroutine. Go's RWMutex does not allow recursive read locking: as soon as a writer is waiting —
// Cache.Close does r.mu.Lock() — the second RLock queues behind the writer, and the writer waits
// for the first RLock to be released. DB.Close (session.close → tOps.close → fileCache.Close)
// never returns, the reader never returns. The same re-entry exists on the Delete/Evict paths.
//
// The schedule needs a cache miss that evicts (more tables than OpenFilesCacheCapacity, or more
// blocks than the block cache holds) exactly while Close is entering Cache.Close; the test makes
// that likely (16 readers over 20+ tables with a file cache of 2) and repeats the experiment; each
// round has a watchdog. On the unmodified tree a round hangs within a few hundred rounds (seen
// after 10–90 s on this machine); the goroutine dump shows the three parties.
package leveldb

import (
	"fmt"
	"runtime"
	"sync"
	"testing"
	"time"

	"github.com/syndtr/goleveldb/leveldb/opt"
	"github.com/syndtr/goleveldb/leveldb/storage"
	"github.com/syndtr/goleveldb/leveldb/util"
)

func TestVerifD17_GetDuringCloseMustReturn(t *testing.T) {
	deadline := time.Now().Add(4 * time.Minute)
	for round := 0; time.Now().Before(deadline); round++ {
		stor := storage.NewMemStorage()
		o := &opt.Options{WriteBuffer: 64 << 10, CompactionTableSize: 16 << 10, Compression: opt.NoCompression, OpenFilesCacheCapacity: 2, DisableBlockCache: true}
		db, err := Open(stor, o)
		if err != nil {
			t.Fatal(err)
		}
		for i := 0; i < 1500; i++ {
			db.Put([]byte(fmt.Sprintf("k%06d", i)), make([]byte, 200), nil)
		}
		db.CompactRange(util.Range{})
		var wg sync.WaitGroup
		start := make(chan struct{})
		for g := 0; g < 16; g++ {
			wg.Add(1)
			go func(g int) {
				defer wg.Done()
				defer func() { recover() }()
				<-start
				for i := 0; ; i++ {
					if _, err := db.Get([]byte(fmt.Sprintf("k%06d", (i*97+g*131)%1500)), nil); err != nil {
						return
					}
				}
			}(g)
		}
		close(start)
		for i := 0; i < 200; i++ {
			runtime.Gosched()
		}
		done := make(chan struct{})
		go func() {
			db.Close()
			wg.Wait()
			close(done)
		}()
		select {
		case <-done:
		case <-time.After(20 * time.Second):
			buf := make([]byte, 1<<20)
			n := runtime.Stack(buf, true)
			t.Fatalf("round %d: Close and the concurrent Gets did not return within 20s (deadlock):\n%s", round, buf[:n])
		}
	}
}
