package leveldb

import (
	"bytes"
	"testing"

	"github.com/syndtr/goleveldb/leveldb/opt"
)

// TestVerifD9GetValueIsPrivateCopy checks the documented contract of DB.Get:
// "The returned slice is its own copy, it is safe to modify the contents of
// the returned slice."
//
// With the buffer pool disabled and the block cache enabled (the default),
// a value read from a table must still be a private copy: scribbling over it
// must not change what a later Get of the same key returns.
func TestVerifD9GetValueIsPrivateCopy(t *testing.T) {
	for _, tc := range []struct {
		name        string
		compression opt.Compression
	}{
		{"NoCompression", opt.NoCompression},
		{"Snappy", opt.SnappyCompression},
	} {
		tc := tc
		t.Run(tc.name, func(t *testing.T) {
			h := newDbHarnessWopt(t, &opt.Options{
				DisableLargeBatchTransaction: true,
				DisableBufferPool:            true,
				Compression:                  tc.compression,
			})
			defer h.close()

			key := []byte("verif-d9-key")
			want := []byte("value-original-0123456789-abcdefghijklmnopqrstuvwxyz")

			h.put(string(key), string(want))
			// Move the entry out of the write buffer and into a table.
			h.compactMem()

			v1, err := h.db.Get(key, nil)
			if err != nil {
				t.Fatalf("first Get: %v", err)
			}
			if !bytes.Equal(v1, want) {
				t.Fatalf("first Get: got %q, want %q", v1, want)
			}

			// The caller is explicitly allowed to modify the returned slice.
			for i := range v1 {
				v1[i] = 'X'
			}

			v2, err := h.db.Get(key, nil)
			if err != nil {
				t.Fatalf("second Get: %v", err)
			}
			if !bytes.Equal(v2, want) {
				t.Fatalf("second Get after modifying the slice returned by the first Get: got %q, want %q", v2, want)
			}

			// Same expectation through a snapshot.
			snap, err := h.db.GetSnapshot()
			if err != nil {
				t.Fatalf("GetSnapshot: %v", err)
			}
			v3, err := snap.Get(key, nil)
			snap.Release()
			if err != nil {
				t.Fatalf("Snapshot.Get: %v", err)
			}
			if !bytes.Equal(v3, want) {
				t.Fatalf("Snapshot.Get after modifying the slice returned by DB.Get: got %q, want %q", v3, want)
			}
		})
	}
}
