package leveldb

import (
	"errors"
	"testing"
	"time"

	"github.com/syndtr/goleveldb/leveldb/storage"
	"github.com/syndtr/goleveldb/leveldb/testutil"
)

// A failed OpenTransaction must release the DB write lock: once the injected
// storage failure is lifted, later writes and Close must return.
func TestVerifD4OpenTransactionErrorReleasesWriteLock(t *testing.T) {
	h := newDbHarness(t)

	// Make the effective memdb non-empty so that OpenTransaction has to
	// rotate it (which creates a new journal file).
	h.put("k1", "v1")

	// Creating the new journal file fails -> OpenTransaction fails.
	h.stor.EmulateError(testutil.ModeCreate, storage.TypeJournal, errors.New("journal create error"))
	tr, err := h.db.OpenTransaction()
	if err == nil {
		tr.Discard()
		h.stor.EmulateError(testutil.ModeCreate, storage.TypeJournal, nil)
		h.close()
		t.Fatal("OpenTransaction: expected an error while journal creation fails")
	}
	t.Logf("OpenTransaction failed as expected: %v", err)

	// Failures stop.
	h.stor.EmulateError(testutil.ModeCreate, storage.TypeJournal, nil)

	const timeout = 5 * time.Second

	// A subsequent Put must return (successfully, the failure was transient).
	putC := make(chan error, 1)
	go func() {
		putC <- h.db.Put([]byte("k2"), []byte("v2"), nil)
	}()
	select {
	case err := <-putC:
		if err != nil {
			t.Errorf("Put after failed OpenTransaction: got error: %v", err)
		}
	case <-time.After(timeout):
		t.Fatalf("Put after failed OpenTransaction did not return within %v: write lock leaked", timeout)
	}

	// A subsequent OpenTransaction must work too.
	trC := make(chan error, 1)
	go func() {
		tr, err := h.db.OpenTransaction()
		if err == nil {
			tr.Discard()
		}
		trC <- err
	}()
	select {
	case err := <-trC:
		if err != nil {
			t.Errorf("second OpenTransaction: got error: %v", err)
		}
	case <-time.After(timeout):
		t.Fatalf("second OpenTransaction did not return within %v: write lock leaked", timeout)
	}

	h.getVal("k1", "v1")
	h.getVal("k2", "v2")

	// Close must return.
	closeC := make(chan struct{})
	go func() {
		h.close()
		close(closeC)
	}()
	select {
	case <-closeC:
	case <-time.After(timeout):
		t.Fatalf("Close after failed OpenTransaction did not return within %v", timeout)
	}
}
