package leveldb

import (
	"errors"
	"strings"
	"testing"

	"github.com/syndtr/goleveldb/leveldb/opt"
	"github.com/syndtr/goleveldb/leveldb/storage"
	"github.com/syndtr/goleveldb/leveldb/testutil"
)

// TestVerifD10ReverseIterSwallowsReadError demonstrates that stepping an
// iterator backwards (Prev) across a user key whose newest version could not
// be reached because of a storage read error presents an older, overwritten
// (or deleted) version of that key as a valid entry, with Error() == nil.
//
// Layout (two level-0 tables, one entry per block, no block cache):
//
//	table A (older): j=vj  k=OLD  z=vz
//	table B (newer): k=NEW          (or: a tombstone for k)
//
// Raw (internal key) order is  j  k@new(B)  k@old(A)  z , so walking
// backwards from z the iterator meets k@old (table A) first.  To look further
// back it has to step table A to its previous block; that read fails.  The
// scan stops, but the already captured candidate k=OLD is returned as valid
// and the read error is dropped.
func TestVerifD10ReverseIterSwallowsReadError(t *testing.T) {
	for _, newerIsDelete := range []bool{false, true} {
		name := "overwritten"
		if newerIsDelete {
			name = "deleted"
		}
		t.Run(name, func(t *testing.T) {
			h := newDbHarnessWopt(t, &opt.Options{
				DisableLargeBatchTransaction: true,
				DisableBlockCache:            true,
				DisableSeeksCompaction:       true,
				BlockSize:                    32,
				Compression:                  opt.NoCompression,
			})
			defer h.close()

			pad := strings.Repeat("x", 100) // every entry gets a block of its own
			oldV, newV := "OLD-"+pad, "NEW-"+pad

			// Older table A.
			h.put("j", "vj-"+pad)
			h.put("k", oldV)
			h.put("z", "vz-"+pad)
			h.compactMem()
			// Newer table B.
			if newerIsDelete {
				h.delete("k")
			} else {
				h.put("k", newV)
			}
			h.compactMem()
			h.tablesPerLevel("2")

			// Control: with a healthy storage reverse iteration is correct.
			{
				it := h.db.NewIterator(nil, nil)
				var got []string
				for ok := it.Last(); ok; ok = it.Prev() {
					got = append(got, string(it.Key())+"="+string(it.Value()[:3]))
				}
				if err := it.Error(); err != nil {
					t.Fatalf("control: unexpected error: %v", err)
				}
				it.Release()
				want := "z=vz- k=NEW j=vj-"
				if newerIsDelete {
					want = "z=vz- j=vj-"
				}
				if s := strings.Join(got, " "); s != want {
					t.Fatalf("control: reverse scan = %q, want %q", s, want)
				}
			}

			it := h.db.NewIterator(nil, nil)
			defer it.Release()
			if !it.Last() || string(it.Key()) != "z" {
				t.Fatalf("Last: valid=%v key=%q err=%v", it.Valid(), it.Key(), it.Error())
			}

			// From now on every read of a table file fails.
			ioErr := errors.New("injected table read error")
			h.stor.EmulateError(testutil.ModeRead, storage.TypeTable, ioErr)
			defer h.stor.EmulateError(testutil.ModeRead, storage.TypeTable, nil)

			ok := it.Prev()
			key, val, err := string(it.Key()), string(it.Value()), it.Error()
			t.Logf("Prev() = %v, Valid() = %v, key = %q, value = %.3q, Error() = %v", ok, it.Valid(), key, val, err)

			if ok || it.Valid() {
				// A valid position is only acceptable if it is the right one.
				switch {
				case newerIsDelete && key == "k":
					t.Fatalf("deleted key surfaced: Prev() returned %q=%.3q with Error()=%v; the read error was swallowed", key, val, err)
				case !newerIsDelete && key == "k" && val != newV:
					t.Fatalf("stale value served: Prev() returned %q=%.3q (want %.3q) with Error()=%v; the read error was swallowed", key, val, newV, err)
				}
				if err == nil {
					t.Fatalf("Prev() returned %q although the storage read failed, and Error() is nil", key)
				}
			} else if err == nil {
				t.Fatalf("Prev() stopped because of a read error but Error() is nil")
			}
		})
	}
}
