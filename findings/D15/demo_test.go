// place at: leveldb/verif_d15_test.go
//
// D15: a table's file number is handed back for reuse (tOps.remove → session.reuseFileNum) while
// the blocks of the removed table are still in the shared block cache, which is keyed by
// (file number, block offset) and is only purged when opt.BlockCacheEvictRemoved is set (default:
// off). The next table created gets the same number; a read of it at an offset that is still cached
// is served the REMOVED table's block.
//
// History (public API only): transaction 1 writes enough to spill one table, reads from it (the
// block enters the cache) and is discarded — its table is removed and, being the newest file, its
// number goes back to the allocator. Transaction 2 writes the same keys with other values, spills a
// table that gets the same number, and reads: it sees transaction 1's discarded values, and so does
// everybody after it commits.
package leveldb

import (
	"bytes"
	"fmt"
	"testing"

	"github.com/syndtr/goleveldb/leveldb/opt"
	"github.com/syndtr/goleveldb/leveldb/storage"
)

func TestVerifD15_ReusedTableNumberMustNotServeStaleBlocks(t *testing.T) {
	stor := storage.NewMemStorage()
	o := &opt.Options{
		WriteBuffer: 64 << 10,
		Compression: opt.NoCompression,
	}
	db, err := Open(stor, o)
	if err != nil {
		t.Fatal(err)
	}
	defer db.Close()

	const n = 400 // 400 * ~250 bytes > 64 KiB: at least one table is spilled by each transaction
	key := func(i int) []byte { return []byte(fmt.Sprintf("key%05d", i)) }
	val := func(c byte) []byte { return bytes.Repeat([]byte{c}, 240) }

	fill := func(c byte) *Transaction {
		tr, err := db.OpenTransaction()
		if err != nil {
			t.Fatal(err)
		}
		for i := 0; i < n; i++ {
			if err := tr.Put(key(i), val(c), nil); err != nil {
				t.Fatal(err)
			}
		}
		return tr
	}
	tables := func() []storage.FileDesc {
		fds, _ := stor.List(storage.TypeTable)
		return fds
	}

	tr1 := fill('A')
	t1 := tables()
	if len(t1) == 0 {
		t.Fatal("transaction 1 spilled no table; raise n")
	}
	// read through the spilled table: its blocks enter the block cache
	for i := 0; i < n; i += 7 {
		if v, err := tr1.Get(key(i), nil); err != nil || !bytes.Equal(v, val('A')) {
			t.Fatalf("tr1.Get(%s) = %q, %v", key(i), v, err)
		}
	}
	tr1.Discard()
	if left := tables(); len(left) != 0 {
		t.Fatalf("discarded transaction left tables behind: %v", left)
	}

	tr2 := fill('B')
	t2 := tables()
	t.Logf("tables of transaction 1: %v, of transaction 2: %v", t1, t2)
	for i := 0; i < n; i++ {
		v, err := tr2.Get(key(i), nil)
		if err != nil {
			t.Fatalf("tr2.Get(%s): %v", key(i), err)
		}
		if !bytes.Equal(v, val('B')) {
			t.Fatalf("tr2.Get(%s) returned %q…: the value written by the DISCARDED transaction 1 (want %q…)", key(i), v[:8], val('B')[:8])
		}
	}
	if err := tr2.Commit(); err != nil {
		t.Fatal(err)
	}
	for i := 0; i < n; i++ {
		v, err := db.Get(key(i), nil)
		if err != nil {
			t.Fatalf("db.Get(%s): %v", key(i), err)
		}
		if !bytes.Equal(v, val('B')) {
			t.Fatalf("db.Get(%s) after commit returned %q…: a value of the discarded transaction (want %q…)", key(i), v[:8], val('B')[:8])
		}
	}
}
