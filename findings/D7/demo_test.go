package leveldb

import (
	"errors"
	"testing"

	"github.com/syndtr/goleveldb/leveldb/opt"
	"github.com/syndtr/goleveldb/leveldb/storage"
	"github.com/syndtr/goleveldb/leveldb/testutil"
)

// TestVerifD7SyncErrorThenAckedWriteLostOnReopen demonstrates that a write
// which was acknowledged (returned nil, Sync:true) is lost after a reopen when
// the write just before it failed with a journal Sync error.
//
// The failed write's record is already in the journal file (it was flushed
// before the Sync was attempted) but its sequence numbers are not consumed, so
// the next, acknowledged record is journaled with the very same sequence
// number. Journal replay applies the first record, then rejects the second one
// ("invalid sequence number"): silently dropped in the default mode, Open
// error with opt.StrictJournal.
func TestVerifD7SyncErrorThenAckedWriteLostOnReopen(t *testing.T) {
	run := func(t *testing.T, o *opt.Options) {
		h := newDbHarnessWopt(t, o)
		defer h.close()

		wo := &opt.WriteOptions{Sync: true}

		// Some durable base data, so that the sequence number is not zero.
		if err := h.db.Put([]byte("k0"), []byte("v0"), wo); err != nil {
			t.Fatalf("Put k0: %v", err)
		}

		// A synced write that fails because the journal cannot be synced.
		syncErr := errors.New("emulated journal sync error")
		h.stor.EmulateError(testutil.ModeSync, storage.TypeJournal, syncErr)
		if err := h.db.Put([]byte("k1"), []byte("v1"), wo); err == nil {
			t.Fatal("Put k1: expected an error while journal sync is failing")
		}
		// The storage recovers.
		h.stor.EmulateError(testutil.ModeSync, storage.TypeJournal, nil)

		// This write is reported as successful, and durable.
		if err := h.db.Put([]byte("k2"), []byte("v2"), wo); err != nil {
			t.Fatalf("Put k2: %v", err)
		}
		h.getVal("k0", "v0")
		h.getVal("k2", "v2")

		// Close and reopen. Close does not flush the memdb, so the journal
		// replay is what has to bring k0 and k2 back.
		if err := h.closeDB0(); err != nil {
			t.Fatalf("Close: %v", err)
		}
		h.db = nil
		h.stor.CloseCheck()
		if err := h.openDB0(); err != nil {
			h.db = nil
			t.Fatalf("reopen after an acknowledged write failed: %v", err)
		}

		// Acknowledged writes must survive.
		h.getVal("k0", "v0")
		v, err := h.db.Get([]byte("k2"), nil)
		if err != nil {
			t.Errorf("acknowledged write k2 lost after reopen: Get: %v", err)
		} else if string(v) != "v2" {
			t.Errorf("acknowledged write k2 has wrong value after reopen: %q", v)
		}

		// The write that returned an error may be applied or absent, but
		// nothing else.
		v, err = h.db.Get([]byte("k1"), nil)
		switch {
		case err == ErrNotFound:
		case err == nil && string(v) == "v1":
		default:
			t.Errorf("failed write k1 is neither absent nor wholly applied: v=%q err=%v", v, err)
		}
	}

	t.Run("default", func(t *testing.T) {
		run(t, &opt.Options{DisableLargeBatchTransaction: true})
	})
	t.Run("strict-journal", func(t *testing.T) {
		run(t, &opt.Options{DisableLargeBatchTransaction: true, Strict: opt.StrictJournal})
	})
}
