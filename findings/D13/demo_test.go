package leveldb

import (
	"sort"
	"testing"
	"time"

	"github.com/syndtr/goleveldb/leveldb/storage"
)

// Demonstration for D13: a table that is created by the journal replay of
// DB.Open is referenced twice by the session's reference loop, because the
// first commit after a reopen (s.manifest == nil) hands its own edit record to
// newManifest, which appends every table of the new version -- including the
// tables that the edit itself just added -- to that record; setVersion then
// builds the reference delta from the polluted record. Once such a table
// becomes obsolete its counter only drops to 1, tOps.remove is never called
// and the file stays on storage until the next reopen.

func verifD13LiveTables(h *dbHarness) map[int64]bool {
	live := make(map[int64]bool)
	v := h.db.s.version()
	for _, tables := range v.levels {
		for _, t := range tables {
			live[t.fd.Num] = true
		}
	}
	v.release()
	return live
}

func verifD13StoredTables(h *dbHarness) map[int64]bool {
	fds, err := h.stor.List(storage.TypeTable)
	if err != nil {
		h.t.Fatal("List: got error: ", err)
	}
	stored := make(map[int64]bool)
	for _, fd := range fds {
		stored[fd.Num] = true
	}
	return stored
}

func verifD13FileRef(h *dbHarness) map[int64]int {
	refc := make(chan map[int64]int)
	h.db.s.fileRefCh <- refc
	return <-refc
}

func verifD13Keys(m map[int64]bool) []int64 {
	var nums []int64
	for num := range m {
		nums = append(nums, num)
	}
	sort.Slice(nums, func(i, j int) bool { return nums[i] < nums[j] })
	return nums
}

// Waits (bounded) until no obsolete table file is left on storage and returns
// the obsolete ones that are still there when the wait is over.
func verifD13Leftover(h *dbHarness, wait time.Duration) []int64 {
	deadline := time.Now().Add(wait)
	for {
		live := verifD13LiveTables(h)
		leftover := make(map[int64]bool)
		for num := range verifD13StoredTables(h) {
			if !live[num] {
				leftover[num] = true
			}
		}
		if len(leftover) == 0 || time.Now().After(deadline) {
			return verifD13Keys(leftover)
		}
		time.Sleep(20 * time.Millisecond)
	}
}

// The failing history: write; flush; write (journal only); close; open (the
// journal is replayed into a new table, and the commit of that replay is the
// first commit of the session); compact everything; the replayed table is now
// obsolete and must be removed.
func TestVerifD13_ReplayedTableRemovedOnceObsolete(t *testing.T) {
	h := newDbHarness(t)
	defer h.close()

	h.put("a", "v1")
	h.put("z", "v1")
	h.compactMem()
	before := verifD13LiveTables(h)
	if len(before) != 1 {
		t.Fatalf("want exactly one table before reopen, got %v", verifD13Keys(before))
	}

	// Those stay in the journal only.
	h.put("a", "v2")
	h.put("z", "v2")

	h.reopenDB()

	afterOpen := verifD13LiveTables(h)
	replayed := make(map[int64]bool)
	for num := range afterOpen {
		if !before[num] {
			replayed[num] = true
		}
	}
	if len(replayed) != 1 || len(afterOpen) != 2 {
		t.Fatalf("want one old and one replayed table after reopen, got old=%v all=%v", verifD13Keys(before), verifD13Keys(afterOpen))
	}
	t.Logf("tables after reopen: old=%v replayed=%v fileRef=%v", verifD13Keys(before), verifD13Keys(replayed), verifD13FileRef(h))

	// Merge everything; both the old and the replayed table become obsolete.
	h.compactRange("", "")
	h.waitCompaction()

	live := verifD13LiveTables(h)
	for num := range afterOpen {
		if live[num] {
			t.Fatalf("table @%d is still live after the compaction (live=%v), the scenario is void", num, verifD13Keys(live))
		}
	}
	h.getVal("a", "v2")
	h.getVal("z", "v2")

	leftover := verifD13Leftover(h, 3*time.Second)
	t.Logf("after compaction: live=%v stored=%v fileRef=%v", verifD13Keys(live), verifD13Keys(verifD13StoredTables(h)), verifD13FileRef(h))
	if len(leftover) > 0 {
		t.Errorf("obsolete table files are still on storage: %v (old=%v replayed=%v, live=%v)",
			leftover, verifD13Keys(before), verifD13Keys(replayed), verifD13Keys(live))
	}

	// Every live table is referenced exactly once when nothing but the
	// session holds the current version.
	for num, ref := range verifD13FileRef(h) {
		if ref != 1 || !live[num] {
			t.Errorf("table @%d: reference counter %d, live=%v", num, ref, live[num])
		}
	}
}

// Guard: tables that were recovered from the manifest (they existed before the
// reopen and nothing was replayed) must be released as well once they are
// obsolete -- without a panic of the reference loop ("negative ref").
func TestVerifD13_RecoveredTableRemovedOnceObsolete(t *testing.T) {
	h := newDbHarness(t)
	defer h.close()

	h.put("a", "v1")
	h.put("z", "v1")
	h.compactMem()
	h.put("a", "v2")
	h.put("z", "v2")
	h.compactMem()
	before := verifD13LiveTables(h)
	if len(before) != 2 {
		t.Fatalf("want two tables before reopen, got %v", verifD13Keys(before))
	}

	h.reopenDB()

	afterOpen := verifD13LiveTables(h)
	if len(afterOpen) != 2 {
		t.Fatalf("want the same two tables after reopen, got %v", verifD13Keys(afterOpen))
	}
	t.Logf("tables after reopen: %v fileRef=%v", verifD13Keys(afterOpen), verifD13FileRef(h))

	h.compactRange("", "")
	h.waitCompaction()

	live := verifD13LiveTables(h)
	for num := range before {
		if live[num] {
			t.Fatalf("table @%d is still live after the compaction (live=%v), the scenario is void", num, verifD13Keys(live))
		}
	}
	h.getVal("a", "v2")
	h.getVal("z", "v2")

	leftover := verifD13Leftover(h, 3*time.Second)
	t.Logf("after compaction: live=%v stored=%v fileRef=%v", verifD13Keys(live), verifD13Keys(verifD13StoredTables(h)), verifD13FileRef(h))
	if len(leftover) > 0 {
		t.Errorf("obsolete table files are still on storage: %v (live=%v)", leftover, verifD13Keys(live))
	}
	for num, ref := range verifD13FileRef(h) {
		if ref != 1 || !live[num] {
			t.Errorf("table @%d: reference counter %d, live=%v", num, ref, live[num])
		}
	}
}
