package leveldb

import (
	"fmt"
	"strings"
	"testing"

	"github.com/onsi/gomega"

	"github.com/syndtr/goleveldb/leveldb/opt"
	"github.com/syndtr/goleveldb/leveldb/storage"
	"github.com/syndtr/goleveldb/leveldb/testutil"
)

// TestVerifD11ReadOnlyOpenWithTwoJournals demonstrates that a read-only Open fails with a bare
// io.EOF whenever two journal files are live (the DB was closed, or crashed, between a memdb
// rotation and the commit of its flush). recoverJournalRO returns the result of
// journal.Reader.Reset, which is the PREVIOUS journal's latched end-of-file; the read-write
// recovery deliberately ignores that value. Nothing is wrong with the stored data: a read-write
// Open of the same storage recovers every key.
func TestVerifD11ReadOnlyOpenWithTwoJournals(t *testing.T) {
	gomega.RegisterTestingT(t)
	stor := testutil.NewStorage()
	defer stor.Close()
	o := &opt.Options{WriteBuffer: 32 << 10, DisableLargeBatchTransaction: true}

	db, err := Open(stor, o)
	if err != nil {
		t.Fatal(err)
	}
	// Make the memdb flush fail, so that the frozen journal stays live next to the new one.
	stor.EmulateError(testutil.ModeCreate, storage.TypeTable, fmt.Errorf("emulated: cannot create table"))
	val := strings.Repeat("v", 512)
	n := 0
	journals := func() int {
		fds, _ := stor.List(storage.TypeJournal)
		return len(fds)
	}
	for journals() < 2 && n < 1000 {
		if err := db.Put([]byte(fmt.Sprintf("key%05d", n)), []byte(val), nil); err != nil {
			t.Fatalf("Put %d: %v", n, err)
		}
		n++
	}
	if journals() < 2 {
		t.Skip("could not produce two live journals")
	}
	for i := 0; i < 5; i++ { // a few records in the second journal
		if err := db.Put([]byte(fmt.Sprintf("key%05d", n)), []byte(val), nil); err != nil {
			t.Fatalf("Put %d: %v", n, err)
		}
		n++
	}
	db.Close()
	stor.EmulateError(testutil.ModeCreate, storage.TypeTable, nil)

	ro := &opt.Options{ReadOnly: true}
	db, err = Open(stor, ro)
	if err != nil {
		t.Fatalf("read-only Open with %d live journals failed: %v (the stored data is intact)", journals(), err)
	}
	defer db.Close()
	for i := 0; i < n; i++ {
		k := fmt.Sprintf("key%05d", i)
		v, err := db.Get([]byte(k), nil)
		if err != nil || string(v) != val {
			t.Fatalf("read-only DB: Get(%s) = %d bytes, %v; want the acknowledged value", k, len(v), err)
		}
	}
	if err := db.Put([]byte("x"), []byte("y"), nil); err != ErrReadOnly {
		t.Fatalf("Put on read-only DB: %v, want ErrReadOnly", err)
	}
}
