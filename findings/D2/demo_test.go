package leveldb

import (
	"fmt"
	"testing"

	"github.com/syndtr/goleveldb/leveldb/opt"
)

// TestVerifD2ManifestRotationOnFlushLosesSeq demonstrates that when the commit
// of a memtable flush happens to rotate the MANIFEST (manifest size has reached
// Options.MaxManifestFileSize), the journal number and sequence number carried
// by the flush's session record are dropped. After a clean close/reopen every
// flushed key is invisible to Get/Has, and new writes reuse sequence numbers.
func TestVerifD2ManifestRotationOnFlushLosesSeq(t *testing.T) {
	h := newDbHarnessWopt(t, &opt.Options{
		DisableLargeBatchTransaction: true,
		// Tiny limit: every commit after the first one rotates the manifest.
		// (<= 0 would mean "use the 64MiB default".)
		MaxManifestFileSize: 1,
	})
	defer h.close()

	const n = 10
	model := make(map[string]string)
	for i := 0; i < n; i++ {
		k, v := fmt.Sprintf("key%02d", i), fmt.Sprintf("val%02d", i)
		h.put(k, v)
		model[k] = v
	}
	h.delete("key03")
	delete(model, "key03")

	// Flush the memtable. The commit of this flush rotates the manifest.
	h.compactMem()

	// Sanity: everything is still visible before the reopen.
	for k, v := range model {
		h.getVal(k, v)
	}
	h.get("key03", false)
	if t.Failed() {
		t.Fatal("unexpected failure before reopen")
	}

	// Clean close and reopen; nothing has been written after the flush.
	h.reopenDB()

	for i := 0; i < n; i++ {
		k := fmt.Sprintf("key%02d", i)
		want, ok := model[k]
		got, err := h.db.Get([]byte(k), nil)
		switch {
		case ok && err != nil:
			t.Errorf("after reopen: Get(%q): got error %v, want %q", k, err, want)
		case ok && string(got) != want:
			t.Errorf("after reopen: Get(%q): got %q, want %q", k, got, want)
		case !ok && err != ErrNotFound:
			t.Errorf("after reopen: Get(%q): got (%q, %v), want ErrNotFound", k, got, err)
		}
		has, err := h.db.Has([]byte(k), nil)
		if err != nil || has != ok {
			t.Errorf("after reopen: Has(%q): got (%v, %v), want (%v, nil)", k, has, err, ok)
		}
	}

	// A later delete of a flushed key must win over the flushed value, also
	// across one more flush + reopen (this breaks when sequence numbers are reused).
	h.delete("key00")
	delete(model, "key00")
	h.put("key01", "new01")
	model["key01"] = "new01"
	h.compactMem()
	h.reopenDB()
	for i := 0; i < n; i++ {
		k := fmt.Sprintf("key%02d", i)
		want, ok := model[k]
		got, err := h.db.Get([]byte(k), nil)
		switch {
		case ok && err != nil:
			t.Errorf("after 2nd reopen: Get(%q): got error %v, want %q", k, err, want)
		case ok && string(got) != want:
			t.Errorf("after 2nd reopen: Get(%q): got %q, want %q", k, got, want)
		case !ok && err != ErrNotFound:
			t.Errorf("after 2nd reopen: Get(%q): got (%q, %v), want ErrNotFound", k, got, err)
		}
	}
}
