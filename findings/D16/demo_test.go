// place at: leveldb/verif_d16_test.go
//
// D16: Recover fails ("file missing") on a DB whose damaged table still has its legacy name
// (NNNNNN.sst — written by goleveldb before the .ldb suffix, or by LevelDB <= 1.13; the file storage
// reads both names). recoverTable rebuilds the damaged table into a temporary file and renames it
// over the table's descriptor; fileStorage.Rename creates NNNNNN.ldb and leaves NNNNNN.sst in place,
// so List reports the table twice and the consistency check at the end of the recovery counts more
// table files than live tables: ErrMissingFiles with an empty list. C19: "If some table data blocks
// are damaged as well, Recover still succeeds, every entry that sits in an undamaged block … is
// returned".
package leveldb

import (
	"fmt"
	"io/ioutil"
	"os"
	"path/filepath"
	"strings"
	"testing"

	"github.com/syndtr/goleveldb/leveldb/opt"
	"github.com/syndtr/goleveldb/leveldb/util"
)

func TestVerifD16_RecoverDamagedLegacyNamedTable(t *testing.T) {
	dir, err := ioutil.TempDir("", "goleveldb-d16")
	if err != nil {
		t.Fatal(err)
	}
	defer os.RemoveAll(dir)
	o := &opt.Options{BlockSize: 1024, Compression: opt.NoCompression}
	const n = 400
	key := func(i int) []byte { return []byte(fmt.Sprintf("key%06d", i)) }
	val := []byte(strings.Repeat("v", 100))

	db, err := OpenFile(dir, o)
	if err != nil {
		t.Fatal(err)
	}
	for i := 0; i < n; i++ {
		if err := db.Put(key(i), val, nil); err != nil {
			t.Fatal(err)
		}
	}
	if err := db.CompactRange(util.Range{}); err != nil {
		t.Fatal(err)
	}
	if err := db.Close(); err != nil {
		t.Fatal(err)
	}

	// the table gets its legacy name, one data block is damaged, the manifest is lost
	tables, _ := filepath.Glob(filepath.Join(dir, "*.ldb"))
	if len(tables) != 1 {
		t.Fatalf("want one table, have %v", tables)
	}
	b, err := ioutil.ReadFile(tables[0])
	if err != nil {
		t.Fatal(err)
	}
	b[2000] ^= 0xff
	legacy := strings.TrimSuffix(tables[0], ".ldb") + ".sst"
	if err := ioutil.WriteFile(legacy, b, 0644); err != nil {
		t.Fatal(err)
	}
	os.Remove(tables[0])
	manifests, _ := filepath.Glob(filepath.Join(dir, "MANIFEST-*"))
	for _, m := range manifests {
		os.Remove(m)
	}
	os.Remove(filepath.Join(dir, "CURRENT"))

	db, err = RecoverFile(dir, o)
	if err != nil {
		t.Fatalf("RecoverFile of a DB with one damaged block in a legacy-named table: %v", err)
	}
	got := 0
	for i := 0; i < n; i++ {
		v, err := db.Get(key(i), nil)
		if err == nil {
			if string(v) != string(val) {
				t.Errorf("key %s: a value that was never written", key(i))
			}
			got++
		} else if err != ErrNotFound {
			t.Errorf("Get(%s): %v", key(i), err)
		}
	}
	// a 1 KiB block holds 9 of these entries; everything else must be back
	if got < n-12 {
		t.Errorf("only %d of %d entries recovered", got, n)
	}
	if err := db.Close(); err != nil {
		t.Fatal(err)
	}
	if _, err := os.Stat(legacy); err == nil {
		t.Errorf("the damaged legacy-named original %s is still next to the rebuilt table", filepath.Base(legacy))
	}
	db, err = OpenFile(dir, o)
	if err != nil {
		t.Fatalf("reopen after Recover: %v", err)
	}
	db.Close()
}
