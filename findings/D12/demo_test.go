package leveldb

import (
	"bytes"
	"fmt"
	"testing"

	"github.com/syndtr/goleveldb/leveldb/filter"
	"github.com/syndtr/goleveldb/leveldb/opt"
	"github.com/syndtr/goleveldb/leveldb/storage"
)

// Demonstration for the "Recover rebuilds a damaged table with the user's
// comparer/filter instead of the internal-key ones" defect.
//
// Property checked (public behaviour only): after one data block of a table
// is damaged and the manifest is lost, Recover (StrictRecovery off) succeeds,
// every entry that sits in an undamaged block and has no newer version is
// returned by Get, and nothing is returned that was never written.

const verifD12N = 100

// verifD12Get calls db.Get, turning a panic into a reported value.
func verifD12Get(db *DB, key []byte) (value []byte, err error, panicked interface{}) {
	defer func() {
		if x := recover(); x != nil {
			panicked = x
		}
	}()
	value, err = db.Get(key, nil)
	return
}

// verifD12Check scans the recovered DB with a plain forward iterator (which
// never consults the table index keys nor the filter) and then asks Get for
// every key the scan has shown to be present.
func verifD12Check(t *testing.T, h *dbCorruptHarness, extra map[string]string, maxLost int) {
	t.Helper()
	db := h.db

	want := func(k []byte) ([]byte, bool) {
		if v, ok := extra[string(k)]; ok {
			return []byte(v), true
		}
		var i int
		if _, err := fmt.Sscanf(string(k), "%d", &i); err != nil || i < 0 || i >= verifD12N || !bytes.Equal(tkey(i), k) {
			return nil, false
		}
		return tval(i, ctValSize), true
	}

	// 1. What a forward scan sees.
	var present [][]byte
	iter := db.NewIterator(nil, nil)
	for iter.Next() {
		k := append([]byte(nil), iter.Key()...)
		v, ok := want(k)
		if !ok {
			t.Errorf("scan: key %q was never written", k)
			continue
		}
		if !bytes.Equal(v, iter.Value()) {
			t.Errorf("scan: key %q has a value that was never written", k)
			continue
		}
		present = append(present, k)
	}
	if err := iter.Error(); err != nil {
		t.Errorf("scan: iterator error: %v", err)
	}
	iter.Release()

	total := verifD12N + len(extra)
	if lost := total - len(present); lost < 0 || lost > maxLost {
		t.Errorf("scan: %d of %d keys present, expected to lose at most %d (one data block)", len(present), total, maxLost)
	}
	t.Logf("scan: %d of %d keys present", len(present), total)

	// 2. Every key that the scan has shown must be returned by Get.
	var notFound, wrong, good int
	for _, k := range present {
		v, err, p := verifD12Get(db, k)
		if p != nil {
			t.Errorf("Get(%q) panicked although the scan shows the key: %v", k, p)
			// The DB may be left in an odd state after a panic; stop here.
			break
		}
		switch {
		case err == ErrNotFound:
			notFound++
			if notFound <= 3 {
				t.Errorf("Get(%q) = not found although the scan shows the key", k)
			}
		case err != nil:
			t.Errorf("Get(%q): unexpected error: %v", k, err)
		default:
			if w, _ := want(k); !bytes.Equal(w, v) {
				wrong++
				t.Errorf("Get(%q) returned a value that was never written for it", k)
			} else {
				good++
			}
		}
	}
	t.Logf("Get over the %d scanned keys: ok=%d notfound=%d wrongvalue=%d", len(present), good, notFound, wrong)
	if notFound > 0 {
		t.Errorf("Get: %d keys present in the scan were reported not found", notFound)
	}
}

// verifD12Run builds a one-table DB, optionally damages the first data block
// of that table, loses the manifest and runs Recover.
func verifD12Run(t *testing.T, o *opt.Options, damage bool, versions bool) {
	h := newDbCorruptHarnessWopt(t, o)
	defer h.close()

	extra := map[string]string{}
	h.build(verifD12N)
	if versions {
		// Three versions of one user key; the memdb flush keeps all of
		// them (a snapshot is held as well). They sort after every
		// tkey, i.e. they live in the last, undamaged, data block.
		h.put("zzz", "v1")
		snap := h.getSnapshot()
		defer snap.Release()
		h.put("zzz", "v2")
		h.put("zzz", "v3")
		extra["zzz"] = "v3"
	}
	h.compactMem()
	if n := h.totalTables(); n != 1 {
		t.Fatalf("expected exactly one table, got %d", n)
	}
	h.closeDB()

	if damage {
		// Flip one bit inside the first data block of the table.
		h.corrupt(storage.TypeTable, 0, 100, 1)
	}
	h.forceRemoveAll(storage.TypeManifest)
	h.openAssert(false)

	db, err := Recover(h.stor, h.o)
	if err != nil {
		t.Fatalf("Recover failed: %v", err)
	}
	h.db = db

	maxLost := 0
	if damage {
		maxLost = 10 // one 4 KiB block of ~1 KiB entries
	}
	verifD12Check(t, h, extra, maxLost)
}

// Control: no damage, so Recover does not rebuild the table. Passes.
func TestVerifD12_Control_NoDamage(t *testing.T) {
	verifD12Run(t, &opt.Options{Filter: filter.NewBloomFilter(10)}, false, true)
}

// (a) The rebuilt table's index keys are computed by the user comparer over
// internal keys; the last one (Successor) is a single byte, which is not an
// internal key, so a point lookup routed through it panics.
func TestVerifD12_RecoverRebuiltTable_Get(t *testing.T) {
	verifD12Run(t, &opt.Options{}, true, false)
}

// (b) Several versions of one user key in an undamaged block: the rebuild
// rejects them as "not in increasing order" and Recover fails.
func TestVerifD12_RecoverRebuiltTable_Versions(t *testing.T) {
	verifD12Run(t, &opt.Options{}, true, true)
}

// (c) With a bloom filter the rebuilt table's filter is built over internal
// keys but probed with user keys: surviving keys are reported not found.
func TestVerifD12_RecoverRebuiltTable_Bloom(t *testing.T) {
	verifD12Run(t, &opt.Options{Filter: filter.NewBloomFilter(10)}, true, false)
}
