package leveldb

import (
	"errors"
	"testing"
	"time"

	"github.com/syndtr/goleveldb/leveldb/storage"
	"github.com/syndtr/goleveldb/leveldb/testutil"
	"github.com/syndtr/goleveldb/leveldb/util"
)

// TestVerifD5TransactionCommitFailureReleasesCommitLock demonstrates that a
// Transaction.Commit which fails after exhausting its internal retries must
// release everything it acquired: per its documentation the transaction "can
// then either be retried or discarded", and once the injected storage fault is
// lifted the DB must serve subsequent calls (retry Commit, Put, memtable
// flush, Close) again instead of hanging.
func TestVerifD5TransactionCommitFailureReleasesCommitLock(t *testing.T) {
	const hangTimeout = 10 * time.Second

	h := newDbHarness(t)
	closed := false
	defer func() {
		// Only close when nothing is wedged; closing a wedged DB would hang
		// the whole test binary instead of reporting the failure.
		if closed {
			return
		}
		if t.Failed() {
			t.Log("leaving DB open: it is (possibly) deadlocked")
			return
		}
		h.close()
	}()

	// withTimeout runs f in a goroutine and reports whether it returned in time.
	withTimeout := func(what string, f func() error) (error, bool) {
		done := make(chan error, 1)
		go func() { done <- f() }()
		select {
		case err := <-done:
			return err, true
		case <-time.After(hangTimeout):
			t.Errorf("%s did not return within %v (deadlock)", what, hangTimeout)
			return nil, false
		}
	}

	h.put("base", "v0")

	tr, err := h.db.OpenTransaction()
	if err != nil {
		t.Fatalf("OpenTransaction: %v", err)
	}
	if err := tr.Put([]byte("tr-key"), []byte("tr-val"), nil); err != nil {
		t.Fatalf("tr.Put: %v", err)
	}

	// Make every manifest sync fail: session.commit fails, Commit retries three
	// times (1s apart) and then gives up, returning the error to the caller.
	injected := errors.New("injected manifest sync error")
	h.stor.EmulateError(testutil.ModeSync, storage.TypeManifest, injected)
	err, ok := withTimeout("first tr.Commit (faulty storage)", tr.Commit)
	if !ok {
		t.FailNow()
	}
	if err == nil {
		t.Fatal("tr.Commit: expected an error while manifest sync fails, got nil")
	}
	t.Logf("tr.Commit failed as expected: %v", err)

	// Faults stop here.
	h.stor.EmulateError(testutil.ModeSync, storage.TypeManifest, nil)

	// Documented: a failed Commit may be retried. It must not hang.
	err, ok = withTimeout("retry of tr.Commit after the fault was lifted", tr.Commit)
	if !ok {
		t.FailNow()
	}
	if err != nil {
		t.Fatalf("retry of tr.Commit after the fault was lifted: %v", err)
	}

	// The transaction's data is visible and the DB is fully usable again:
	// plain write, forced memtable flush (needs a version commit), reads, Close.
	h.getVal("tr-key", "tr-val")
	h.getVal("base", "v0")

	err, ok = withTimeout("db.Put after failed+retried Commit", func() error {
		return h.db.Put([]byte("after"), []byte("v1"), nil)
	})
	if !ok {
		t.FailNow()
	}
	if err != nil {
		t.Fatalf("db.Put: %v", err)
	}

	err, ok = withTimeout("db.CompactRange (memtable flush + compaction commit)", func() error {
		return h.db.CompactRange(util.Range{})
	})
	if !ok {
		t.FailNow()
	}
	if err != nil {
		t.Fatalf("db.CompactRange: %v", err)
	}
	h.getVal("after", "v1")
	h.getVal("tr-key", "tr-val")

	_, ok = withTimeout("db.Close", func() error {
		h.close()
		return nil
	})
	if !ok {
		t.FailNow()
	}
	closed = true
}
