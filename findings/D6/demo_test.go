package leveldb

import (
	"errors"
	"sync/atomic"
	"testing"
	"time"

	"github.com/onsi/gomega"

	"github.com/syndtr/goleveldb/leveldb/opt"
	"github.com/syndtr/goleveldb/leveldb/storage"
	"github.com/syndtr/goleveldb/leveldb/testutil"
)

// verifD6Stor wraps the test storage and fails the creation of table files
// once the configured number of successful table creations has been used up.
// A negative budget means "never fail".
type verifD6Stor struct {
	*testutil.Storage
	tableCreateBudget int32
}

var errVerifD6 = errors.New("verif D6: injected table create error")

func (s *verifD6Stor) Create(fd storage.FileDesc) (storage.Writer, error) {
	if fd.Type == storage.TypeTable {
		for {
			n := atomic.LoadInt32(&s.tableCreateBudget)
			if n < 0 {
				break
			}
			if n == 0 {
				return nil, errVerifD6
			}
			if atomic.CompareAndSwapInt32(&s.tableCreateBudget, n, n-1) {
				break
			}
		}
	}
	return s.Storage.Create(fd)
}

// TestVerifD6LargeBatchCommitFailureReleasesWriteLock checks that a DB.Write
// of a batch larger than the write buffer (which is internally routed through
// a transaction) that fails while committing
//   - releases what it had acquired (later writes do not block forever),
//   - is all-or-nothing: none of its records is visible and none of its table
//     files is left behind in the storage,
//   - once the fault is lifted the DB serves writes again.
func TestVerifD6LargeBatchCommitFailureReleasesWriteLock(t *testing.T) {
	const writeBuffer = 64 * opt.KiB

	gomega.RegisterTestingT(t) // testutil.NewStorage asserts through gomega
	stor := &verifD6Stor{Storage: testutil.NewStorage(), tableCreateBudget: -1}
	stor.OnLog(testingLogger(t))
	stor.OnClose(testingPreserveOnFailed(t))
	defer stor.Close()

	db, err := Open(stor, &opt.Options{
		WriteBuffer:              writeBuffer,
		DisableBlockCache:        true,
		DisableCompactionBackoff: true,
	})
	if err != nil {
		t.Fatalf("Open: %v", err)
	}
	closed := false
	closeDB := func() {
		if !closed {
			closed = true
			// Close discards any transaction that is still open, so this
			// always gets out, even on the defective code.
			if err := db.Close(); err != nil {
				t.Errorf("Close: %v", err)
			}
		}
	}
	defer closeDB()

	// A small record written the ordinary way, must survive everything.
	if err := db.Put([]byte("base"), []byte("base-value"), nil); err != nil {
		t.Fatalf("Put(base): %v", err)
	}

	// Flush the DB memdb now (opening a transaction does that), so that the
	// large write below creates table files for its own records only.
	if tr, err := db.OpenTransaction(); err != nil {
		t.Fatalf("OpenTransaction: %v", err)
	} else {
		tr.Discard()
	}

	tablesBefore, err := stor.List(storage.TypeTable)
	if err != nil {
		t.Fatalf("List: %v", err)
	}

	// Three records of 40 KiB each: 120 KiB > 64 KiB write buffer, so DB.Write
	// routes the batch through an internal transaction. The transaction's
	// memdb (64 KiB) takes one record; each further record forces a flush of
	// the previous one into a table file while the batch is being applied;
	// the last record is flushed by the commit itself.
	big := new(Batch)
	for i := 0; i < 3; i++ {
		big.Put([]byte{'b', 'i', 'g', byte('0' + i)}, tval(i, 40*opt.KiB))
	}

	// Let the two table files written while applying the batch succeed, make
	// the table file written by the commit step fail.
	atomic.StoreInt32(&stor.tableCreateBudget, 2)

	werr := make(chan error, 1)
	go func() { werr <- db.Write(big, nil) }()
	select {
	case err := <-werr:
		if err == nil {
			t.Fatal("Write(big): expected the injected error, got nil")
		}
		t.Logf("Write(big) failed as intended: %v", err)
	case <-time.After(20 * time.Second):
		t.Fatal("Write(big) did not return")
	}

	// Injected failures stop here.
	atomic.StoreInt32(&stor.tableCreateBudget, -1)

	// The DB must serve subsequent writes again.
	perr := make(chan error, 1)
	go func() { perr <- db.Put([]byte("after"), []byte("after-value"), nil) }()
	select {
	case err := <-perr:
		if err != nil {
			t.Fatalf("Put(after) once the fault is lifted: %v", err)
		}
	case <-time.After(5 * time.Second):
		t.Fatal("Put(after) is blocked forever: the failed DB.Write(large batch) " +
			"did not release the DB write lock (its internal transaction was left open)")
	}

	// All-or-nothing: nothing of the failed batch is visible ...
	for i := 0; i < 3; i++ {
		key := []byte{'b', 'i', 'g', byte('0' + i)}
		if _, err := db.Get(key, nil); err != ErrNotFound {
			t.Errorf("Get(%s) after failed Write: want ErrNotFound, got err=%v", key, err)
		}
	}
	// ... the other records are intact ...
	for k, v := range map[string]string{"base": "base-value", "after": "after-value"} {
		got, err := db.Get([]byte(k), nil)
		if err != nil || string(got) != v {
			t.Errorf("Get(%s): got %q, %v; want %q", k, got, err, v)
		}
	}
	// ... and the failed write left no table file behind.
	tablesAfter, err := stor.List(storage.TypeTable)
	if err != nil {
		t.Fatalf("List: %v", err)
	}
	if len(tablesAfter) != len(tablesBefore) {
		t.Errorf("failed Write(big) left table files behind: before=%v after=%v", tablesBefore, tablesAfter)
	}

	// A large batch works again, too.
	go func() { werr <- db.Write(big, nil) }()
	select {
	case err := <-werr:
		if err != nil {
			t.Fatalf("Write(big) once the fault is lifted: %v", err)
		}
	case <-time.After(20 * time.Second):
		t.Fatal("second Write(big) did not return")
	}
	for i := 0; i < 3; i++ {
		key := []byte{'b', 'i', 'g', byte('0' + i)}
		got, err := db.Get(key, nil)
		if err != nil || string(got) != string(tval(i, 40*opt.KiB)) {
			t.Errorf("Get(%s) after successful Write: err=%v len=%d", key, err, len(got))
		}
	}

	closeDB()
}
