// place at: leveldb/verif_d18_test.go
//
// D18: Recover with Options.Strict == opt.StrictReader (exactly that one flag) reads the tables with
// a STRICT iterator. recoverTable masks StrictReader out of a copy of the options ("lets
// StrictRecovery doing its job"); when StrictReader was the only flag the masked value is 0, and 0
// means DefaultStrict to Options.GetStrict — which contains StrictReader. The scan and the rebuild of
// a damaged table then stop at the first damaged block, and every entry in the undamaged blocks
// behind it is lost. C19: "If some table data blocks are damaged as well, Recover still succeeds,
// every entry that sits in an undamaged block and has no newer version is returned".
package leveldb

import (
	"fmt"
	"io/ioutil"
	"os"
	"path/filepath"
	"strings"
	"testing"

	"github.com/syndtr/goleveldb/leveldb/opt"
	"github.com/syndtr/goleveldb/leveldb/util"
)

func verifD18Recover(t *testing.T, strict opt.Strict) (got, n int) {
	dir, err := ioutil.TempDir("", "goleveldb-d18")
	if err != nil {
		t.Fatal(err)
	}
	defer os.RemoveAll(dir)
	// restart interval 1: no prefix sharing, so every entry takes 3+17+100 bytes, a block holds 9
	// entries (9*120 + 9*4 + 4 = 1120 >= 1024) and, with its 5-byte trailer, 1125 bytes
	wo := &opt.Options{BlockSize: 1024, BlockRestartInterval: 1, Compression: opt.NoCompression}
	n = 400
	key := func(i int) []byte { return []byte(fmt.Sprintf("key%06d", i)) }
	val := []byte(strings.Repeat("v", 100))
	db, err := OpenFile(dir, wo)
	if err != nil {
		t.Fatal(err)
	}
	for i := 0; i < n; i++ {
		if err := db.Put(key(i), val, nil); err != nil {
			t.Fatal(err)
		}
	}
	if err := db.CompactRange(util.Range{}); err != nil {
		t.Fatal(err)
	}
	if err := db.Close(); err != nil {
		t.Fatal(err)
	}
	tables, _ := filepath.Glob(filepath.Join(dir, "*.ldb"))
	if len(tables) != 1 {
		t.Fatalf("want one table, have %v", tables)
	}
	b, err := ioutil.ReadFile(tables[0])
	if err != nil {
		t.Fatal(err)
	}
	// damage the third data block so that it is rejected with or without checksum verification:
	// its compression-type byte (first byte of the trailer) becomes an unknown type
	const blockLen, typeOff = 1125, 1120
	for k := 0; k < 4; k++ {
		if b[k*blockLen+typeOff] != 0 {
			t.Fatalf("layout assumption broken: block %d has no type byte at %d", k, k*blockLen+typeOff)
		}
	}
	b[2*blockLen+typeOff] = 0x7f
	if err := ioutil.WriteFile(tables[0], b, 0644); err != nil {
		t.Fatal(err)
	}
	manifests, _ := filepath.Glob(filepath.Join(dir, "MANIFEST-*"))
	for _, m := range manifests {
		os.Remove(m)
	}
	os.Remove(filepath.Join(dir, "CURRENT"))

	ro := *wo
	ro.Strict = strict
	db, err = RecoverFile(dir, &ro)
	if err != nil {
		t.Fatalf("RecoverFile (Strict=%#x): %v", uint(strict), err)
	}
	defer db.Close()
	for i := 0; i < n; i++ {
		v, err := db.Get(key(i), nil)
		if err == nil {
			if string(v) != string(val) {
				t.Errorf("key %s: a value that was never written", key(i))
			}
			got++
		} else if err != ErrNotFound {
			t.Errorf("Get(%s): %v", key(i), err)
		}
	}
	return got, n
}

func TestVerifD18_RecoverWithOnlyStrictReader(t *testing.T) {
	// reference: any other non-zero combination salvages everything but the damaged block
	if got, n := verifD18Recover(t, opt.StrictReader|opt.StrictBlockChecksum); got != n-9 {
		t.Errorf("Strict=StrictReader|StrictBlockChecksum: %d of %d entries recovered, want %d", got, n, n-9)
	}
	if got, n := verifD18Recover(t, opt.StrictReader); got != n-9 {
		t.Errorf("Strict=StrictReader: %d of %d entries recovered, want %d (all but the 9 of the damaged block)", got, n, n-9)
	}
}
