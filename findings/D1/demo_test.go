package leveldb

import (
	"bytes"
	"testing"

	"github.com/syndtr/goleveldb/leveldb/opt"
	"github.com/syndtr/goleveldb/leveldb/util"
)

// verifD1ReverseComparer orders user keys in reverse bytewise order. It is a
// perfectly valid total order; Separator/Successor return nil (= "do not
// shorten"), exactly like the numberComparer already used by
// TestDB_CustomComparer.
type verifD1ReverseComparer struct{}

func (verifD1ReverseComparer) Name() string                      { return "verif.D1.ReverseBytewiseComparer" }
func (verifD1ReverseComparer) Compare(a, b []byte) int           { return bytes.Compare(b, a) }
func (verifD1ReverseComparer) Separator(dst, a, b []byte) []byte { return nil }
func (verifD1ReverseComparer) Successor(dst, b []byte) []byte    { return nil }

// TestVerifD1GetOverlapsIgnoresComparer: with a non-bytewise comparer a
// compaction from level 0 into level 1 does not see the level-1 table that it
// overlaps (tFiles.getOverlaps compares with bytes.Compare in its sorted-level
// branch). The newer data is therefore written as a second, overlapping
// level-1 table and subsequent Gets are answered from the older table.
func TestVerifD1GetOverlapsIgnoresComparer(t *testing.T) {
	h := newDbHarnessWopt(t, &opt.Options{
		DisableLargeBatchTransaction: true,
		Comparer:                     verifD1ReverseComparer{},
	})
	defer h.close()

	model := map[string]string{}
	put := func(k, v string) {
		h.put(k, v)
		model[k] = v
	}
	check := func(stage string) {
		for _, k := range []string{"d", "c", "b", "a"} {
			want, ok := model[k]
			if !ok {
				continue
			}
			got, err := h.db.Get([]byte(k), nil)
			if err != nil {
				t.Errorf("%s: Get(%q): unexpected error %v (want %q)", stage, k, err, want)
				continue
			}
			if string(got) != want {
				t.Errorf("%s: Get(%q) = %q, want %q (most recent write)", stage, k, got, want)
			}
		}
	}

	compactAll := func(stage string) {
		// Public API: flushes the memdb and then compacts every level that
		// overlaps the (here: unbounded) range into the next one.
		if err := h.db.CompactRange(util.Range{}); err != nil {
			t.Fatalf("%s: CompactRange: %v", stage, err)
		}
		t.Logf("%s: tables per level: %s", stage, h.getTablesPerLevel())
	}

	// In comparer order: "d" < "c" < "b" < "a".
	// First table covers ["d".."a"] (comparer order) and is compacted into
	// level 1.
	put("d", "old-d")
	put("c", "old-c")
	put("b", "old-b")
	put("a", "old-a")
	compactAll("first compaction")
	check("after first compaction")

	// Newer values for "c" and "b": a range strictly inside the level-1
	// table's range. Flushing gives a level-0 table ["c".."b"]; compacting it
	// into level 1 must merge it with the existing level-1 table.
	put("c", "new-c")
	put("b", "new-b")
	check("before second compaction")
	compactAll("second compaction")
	check("after second compaction")

	// The wrong answer must not be persisted either.
	h.reopenDB()
	check("after reopen")

	// Iteration must agree with the model as well (one entry per key, newest
	// value, comparer order).
	iter := h.db.NewIterator(nil, nil)
	var keys []string
	for iter.Next() {
		k, v := string(iter.Key()), string(iter.Value())
		keys = append(keys, k)
		if model[k] != v {
			t.Errorf("iterator: key %q has value %q, want %q", k, v, model[k])
		}
	}
	iter.Release()
	if err := iter.Error(); err != nil {
		t.Errorf("iterator error: %v", err)
	}
	if got, want := len(keys), len(model); got != want {
		t.Errorf("iterator returned %d entries %q, want %d", got, keys, want)
	}
}
