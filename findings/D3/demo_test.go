package leveldb

import (
	"bytes"
	"fmt"
	"io/ioutil"
	"os"
	"path/filepath"
	"sync"
	"testing"
	"time"

	"github.com/syndtr/goleveldb/leveldb/opt"
	"github.com/syndtr/goleveldb/leveldb/storage"
)

// verifD3Storage is a thin wrapper around a real file storage that holds back
// the FIRST table-file creation (which, in the scenario below, is the
// background flush of the frozen memtable) until release() is called. Every
// later table-file creation passes straight through. It models a flush that
// is simply slow / has not been completed yet at the instant of the crash.
type verifD3Storage struct {
	storage.Storage

	mu       sync.Mutex
	taken    bool          // first table creation already seen (or gate disarmed)
	entered  chan struct{} // closed when the first table creation is being held
	released chan struct{} // closed by release()
	relOnce  sync.Once
}

func newVerifD3Storage(stor storage.Storage) *verifD3Storage {
	return &verifD3Storage{
		Storage:  stor,
		entered:  make(chan struct{}),
		released: make(chan struct{}),
	}
}

func (s *verifD3Storage) Create(fd storage.FileDesc) (storage.Writer, error) {
	if fd.Type == storage.TypeTable {
		s.mu.Lock()
		first := !s.taken
		s.taken = true
		s.mu.Unlock()
		if first {
			close(s.entered)
			<-s.released
		}
	}
	return s.Storage.Create(fd)
}

// disarm makes the gate a no-op if nobody has been caught by it yet. It
// returns false if a table creation is already being held.
func (s *verifD3Storage) disarm() bool {
	s.mu.Lock()
	defer s.mu.Unlock()
	if s.taken {
		return false
	}
	s.taken = true
	return true
}

func (s *verifD3Storage) release() {
	s.relOnce.Do(func() { close(s.released) })
}

// verifD3CopyDir copies every regular file of src into a fresh directory dst.
// The result is what a process kill (SIGKILL) at this instant leaves behind.
func verifD3CopyDir(t *testing.T, src, dst string) {
	t.Helper()
	if err := os.MkdirAll(dst, 0o755); err != nil {
		t.Fatal(err)
	}
	ents, err := ioutil.ReadDir(src)
	if err != nil {
		t.Fatal(err)
	}
	for _, e := range ents {
		if !e.Mode().IsRegular() || e.Name() == "LOCK" {
			continue
		}
		b, err := ioutil.ReadFile(filepath.Join(src, e.Name()))
		if err != nil {
			t.Fatal(err)
		}
		if err := ioutil.WriteFile(filepath.Join(dst, e.Name()), b, 0o644); err != nil {
			t.Fatal(err)
		}
	}
}

// Scenario:
//
//  1. A series of Put(..., Sync:true) fills the write buffer exactly; the last
//     Put freezes the buffer, installs a new empty one and merely *triggers*
//     the background flush of the frozen buffer (it does not wait for it).
//     All these Puts are acknowledged.
//  2. The background flush has not completed yet (here: its table-file
//     creation is held back by the storage).
//  3. A transaction is opened, one key is written, the transaction is
//     committed (acknowledged).
//  4. The process dies (we take a copy of the DB directory).
//  5. The DB is opened again from the crash image.
//
// Expected: Open succeeds (also with strict journal checking) and every
// acknowledged key is there.
func TestVerifD3TransactionWhileFrozenMemtableUnflushedLosesAckedWrites(t *testing.T) {
	const (
		nKeys       = 16
		recLen      = 256                 // internal length of each record
		writeBuffer = nKeys * recLen      // the nKeys records fill it exactly
		keyLen      = 4                   // "k%03d"
		valueLen    = recLen - keyLen - 8 // 8 = internal key trailer
		waitBlocked = 1500 * time.Millisecond
	)

	base, err := ioutil.TempDir("", "goleveldb-verif-d3-")
	if err != nil {
		t.Fatal(err)
	}
	defer os.RemoveAll(base)
	liveDir := filepath.Join(base, "live")

	fs, err := storage.OpenFile(liveDir, false)
	if err != nil {
		t.Fatal(err)
	}
	stor := newVerifD3Storage(fs)
	defer stor.Close()

	db, err := Open(stor, &opt.Options{WriteBuffer: writeBuffer})
	if err != nil {
		t.Fatal(err)
	}
	defer func() {
		// Never leave the background goroutine stuck, whatever happens below.
		stor.release()
		db.Close()
	}()

	key := func(i int) []byte { return []byte(fmt.Sprintf("k%03d", i)) }
	value := func(i int) []byte { return bytes.Repeat([]byte{byte('a' + i)}, valueLen) }
	wo := &opt.WriteOptions{Sync: true}

	// 1. Acknowledged, synced writes that fill the write buffer exactly.
	for i := 0; i < nKeys; i++ {
		if err := db.Put(key(i), value(i), wo); err != nil {
			t.Fatalf("Put(%s): %v", key(i), err)
		}
	}

	// 2. The background flush of the frozen buffer is now held at its table
	// creation. (The flush trigger is a non-blocking send and could in
	// principle have been dropped; then no flush is running at all, which
	// serves the scenario equally well: just make sure the gate can't catch
	// the transaction's own table instead.)
	select {
	case <-stor.entered:
	case <-time.After(waitBlocked):
		if !stor.disarm() {
			<-stor.entered
		}
	}

	// 3. Open a transaction, write a key, commit.
	type openRes struct {
		tr  *Transaction
		err error
	}
	openC := make(chan openRes, 1)
	go func() {
		tr, err := db.OpenTransaction()
		openC <- openRes{tr, err}
	}()
	var res openRes
	select {
	case res = <-openC:
		// OpenTransaction did not wait for the pending flush.
	case <-time.After(waitBlocked):
		// OpenTransaction is (correctly) waiting for the pending flush; let
		// the flush proceed.
		stor.release()
		select {
		case res = <-openC:
		case <-time.After(20 * time.Second):
			t.Fatal("OpenTransaction did not return after the pending flush was let through")
		}
	}
	if res.err != nil {
		t.Fatalf("OpenTransaction: %v", res.err)
	}
	tr := res.tr
	txKey, txValue := []byte("tx-key"), []byte("tx-value")
	if err := tr.Put(txKey, txValue, nil); err != nil {
		tr.Discard()
		t.Fatalf("tr.Put: %v", err)
	}
	if err := tr.Commit(); err != nil {
		tr.Discard()
		t.Fatalf("tr.Commit: %v", err)
	}

	// Sanity: the live DB sees everything.
	for i := 0; i < nKeys; i++ {
		if v, err := db.Get(key(i), nil); err != nil || !bytes.Equal(v, value(i)) {
			t.Fatalf("live DB: Get(%s) = %d bytes, err=%v", key(i), len(v), err)
		}
	}

	// 4. The process dies here: snapshot the directory (twice, because
	// opening a DB modifies it).
	crashA := filepath.Join(base, "crash-default")
	crashB := filepath.Join(base, "crash-strict")
	verifD3CopyDir(t, liveDir, crashA)
	verifD3CopyDir(t, liveDir, crashB)

	// Let the original instance finish and go away.
	stor.release()
	if err := db.Close(); err != nil {
		t.Logf("closing live DB: %v", err)
	}

	// 5a. Re-open the crash image with default options.
	check := func(name, dir string, o *opt.Options) {
		db2, err := OpenFile(dir, o)
		if err != nil {
			t.Errorf("[%s] re-opening the DB after the crash failed: %v", name, err)
			return
		}
		defer db2.Close()
		var lost []string
		for i := 0; i < nKeys; i++ {
			v, err := db2.Get(key(i), nil)
			if err == ErrNotFound {
				lost = append(lost, string(key(i)))
				continue
			}
			if err != nil {
				t.Errorf("[%s] Get(%s): %v", name, key(i), err)
				continue
			}
			if !bytes.Equal(v, value(i)) {
				t.Errorf("[%s] Get(%s): wrong value", name, key(i))
			}
		}
		if len(lost) != 0 {
			t.Errorf("[%s] %d of %d writes acknowledged with Sync:true before the crash are gone after re-open: %v",
				name, len(lost), nKeys, lost)
		}
		if v, err := db2.Get(txKey, nil); err != nil || !bytes.Equal(v, txValue) {
			t.Errorf("[%s] committed transaction key: Get = %q, err=%v", name, v, err)
		}
	}
	check("default", crashA, nil)
	// 5b. And with strict journal checking.
	check("strict-journal", crashB, &opt.Options{Strict: opt.StrictJournal})
}
