package leveldb

import (
	"errors"
	"testing"
	"time"

	"github.com/syndtr/goleveldb/leveldb/opt"
	"github.com/syndtr/goleveldb/leveldb/storage"
	"github.com/syndtr/goleveldb/leveldb/testutil"
	"github.com/syndtr/goleveldb/leveldb/util"
)

// A single, transient write error on the MANIFEST file must not disable the
// DB for the rest of its life: once the storage is healthy again the pending
// memtable flush has to commit and CompactRange / Put have to succeed again.
func TestVerifD8ManifestTransientWriteError(t *testing.T) {
	h := newDbHarnessWopt(t, &opt.Options{DisableLargeBatchTransaction: true})
	defer h.close()

	h.put("foo", "bar")
	h.getVal("foo", "bar")

	// Exactly ONE write to a manifest file fails; the emulated fault clears
	// itself after it has fired once, i.e. the storage is healthy afterwards.
	h.stor.EmulateErrorOnce(testutil.ModeWrite, storage.TypeManifest, errors.New("transient manifest write error"))

	// Flush the memtable (needs a manifest commit). The first attempts may
	// report the transient error; after the fault is gone the DB must recover
	// by itself (the commit is retried with 1s, 2s, 4s ... backoff).
	deadline := time.Now().Add(12 * time.Second)
	failed := 0
	for {
		err := h.db.CompactRange(util.Range{})
		if err == nil {
			break
		}
		failed++
		if time.Now().After(deadline) {
			t.Fatalf("DB did not recover from a single transient manifest write error: "+
				"CompactRange still fails after 12s (%d failed calls), last error: %v", failed, err)
		}
		time.Sleep(20 * time.Millisecond)
	}
	t.Logf("CompactRange succeeded after %d failed calls", failed)

	if n := h.totalTables(); n == 0 {
		t.Errorf("memtable flush reported success but there are no tables")
	}

	// The DB serves calls again, and nothing was lost.
	h.getVal("foo", "bar")
	h.put("foo2", "bar2")
	if err := h.db.CompactRange(util.Range{}); err != nil {
		t.Fatalf("second CompactRange: %v", err)
	}
	h.reopenDB()
	h.getVal("foo", "bar")
	h.getVal("foo2", "bar2")
}
