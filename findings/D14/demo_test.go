// place at: leveldb/verif_d14_test.go
//
// D14: a damaged (torn) manifest entry that session.recover skips in non-strict mode still
// leaves the scalar fields decoded before the damage (journal number, sequence number, next file
// number) in the record that recover accumulates, and recordCommited installs them.
//
// Crash image: a memdb-flush edit {journal: N (the new journal), next-file: N+2, seq, add table
// N+1} is appended to the manifest so that it straddles a 32 KiB journal block. journal.Writer
// writes such a record with two storage writes (the full block holding the "first" chunk, then the
// rest at Flush) before the one Sync; the machine dies between them. The durable manifest ends with
// a well-formed, CRC-correct first chunk whose continuation is missing. The edit was never
// acknowledged: reopen must ignore it as a whole, replay journal 1 and serve the 20 keys written
// with Sync before the crash. Instead recover adopts journal number N from the torn edit without
// its table: journal 1 is "obsolete", is never replayed and is deleted; every key is lost.
package leveldb

import (
	"bytes"
	"fmt"
	"io"
	"io/ioutil"
	"testing"

	"github.com/syndtr/goleveldb/leveldb/journal"
	"github.com/syndtr/goleveldb/leveldb/opt"
	"github.com/syndtr/goleveldb/leveldb/storage"
)

const d14BlockSize = 32 * 1024
const d14HeaderSize = 7

func d14Key(i int) []byte   { return []byte(fmt.Sprintf("key-%04d", i)) }
func d14Value(i int) []byte { return []byte(fmt.Sprintf("value-%04d", i)) }

func d14Encode(t *testing.T, rec *sessionRecord) []byte {
	buf := &bytes.Buffer{}
	if err := rec.encode(buf); err != nil {
		t.Fatal(err)
	}
	return buf.Bytes()
}

func TestVerifD14_TornFlushEditMustNotMoveTheJournalPointer(t *testing.T) {
	stor := storage.NewMemStorage()
	o := &opt.Options{DisableLargeBatchTransaction: true}
	db, err := Open(stor, o)
	if err != nil {
		t.Fatal(err)
	}
	for i := 0; i < 20; i++ {
		if err := db.Put(d14Key(i), d14Value(i), &opt.WriteOptions{Sync: true}); err != nil {
			t.Fatal(err)
		}
	}
	nextFileNum := db.s.nextFileNum()
	seq := db.seq
	jnum := db.journalFd.Num
	db.Close()

	mfd, _ := stor.GetMeta()
	mr, _ := stor.Open(mfd)
	var records [][]byte
	jr := journal.NewReader(mr, nil, true, true)
	for {
		r, err := jr.Next()
		if err == io.EOF {
			break
		}
		b, _ := ioutil.ReadAll(r)
		records = append(records, b)
	}
	mr.Close()

	// in-flight memdb flush edit: journal -> nextFileNum (new journal), table nextFileNum+1
	edit := &sessionRecord{}
	edit.setJournalNum(nextFileNum)
	edit.setNextFileNum(nextFileNum + 2)
	edit.setSeqNum(seq)
	edit.addTable(0, nextFileNum+1, 500, makeInternalKey(nil, d14Key(0), 1, keyTypeVal), makeInternalKey(nil, d14Key(19), 20, keyTypeVal))
	editBytes := d14Encode(t, edit)
	pre := &sessionRecord{}
	pre.setJournalNum(nextFileNum)
	pre.setNextFileNum(nextFileNum + 2)
	pre.setSeqNum(seq)
	firstPayload := len(d14Encode(t, pre)) + 3
	target := int64(d14BlockSize - d14HeaderSize - firstPayload)
	build := func(padLen int) ([]byte, int64) {
		buf := &bytes.Buffer{}
		jw := journal.NewWriter(buf)
		write := func(b []byte) {
			w, _ := jw.Next()
			w.Write(b)
			jw.Flush()
		}
		for _, b := range records {
			write(b)
		}
		pad := &sessionRecord{}
		pad.addCompPtr(3, makeInternalKey(nil, bytes.Repeat([]byte{'p'}, padLen), 1, keyTypeVal))
		write(d14Encode(t, pad))
		off := jw.Size()
		write(editBytes)
		return buf.Bytes(), off
	}
	padLen := 1000
	var data []byte
	for try := 0; ; try++ {
		var off int64
		data, off = build(padLen)
		if off == target {
			break
		}
		if try == 5 {
			t.Fatal("cannot position")
		}
		padLen += int(target - off)
	}
	w, _ := stor.Create(mfd)
	w.Write(data[:d14BlockSize])
	w.Close()
	t.Logf("journal num %d", jnum)

	db, err = Open(stor, o)
	if err != nil {
		t.Fatalf("reopen: %v", err)
	}
	defer db.Close()
	for i := 0; i < 20; i++ {
		if _, err := db.Get(d14Key(i), nil); err != nil {
			t.Fatalf("key %q lost: %v", d14Key(i), err)
		}
	}
}
