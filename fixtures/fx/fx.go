// Package fx holds tiny known-bad and known-good functions used as positive and negative
// controls for the checker's engines. It is never linked into anything.
package fx
