// Package fx holds tiny known-bad and known-good functions used as positive and negative
// controls for the checker's engines. It is never linked into anything.
package fx

import (
	"bytes"
	"errors"
	"sync"
)

type S struct {
	mu   sync.Mutex
	rw   sync.RWMutex
	tok  chan struct{}
	n    int
	seq  uint64
	min  uint64
	data []byte
}

var errX = errors.New("x")

func work() error   { return nil }
func syncIt() error { return nil }
func setMeta() error { return nil }
func publish()      {}
func drop()         {}

// ---- E-PAIR ----

// BadLockLeak returns with mu held on the error exit.
func (s *S) BadLockLeak() error {
	s.mu.Lock()
	if err := work(); err != nil {
		return err
	}
	s.mu.Unlock()
	return nil
}

// GoodLockDefer releases by defer.
func (s *S) GoodLockDefer() error {
	s.mu.Lock()
	defer s.mu.Unlock()
	if err := work(); err != nil {
		return err
	}
	return nil
}

// GoodLockExplicit releases explicitly on every exit.
func (s *S) GoodLockExplicit() error {
	s.rw.RLock()
	if err := work(); err != nil {
		s.rw.RUnlock()
		return err
	}
	s.rw.RUnlock()
	return nil
}

// BadDoubleUnlock unlocks twice on one path.
func (s *S) BadDoubleUnlock(b bool) {
	s.mu.Lock()
	if b {
		s.mu.Unlock()
	}
	s.mu.Unlock()
}

// BadTokenLeak acquires the channel token and leaks it on the error exit.
func (s *S) BadTokenLeak() error {
	s.tok <- struct{}{}
	if err := work(); err != nil {
		return err
	}
	<-s.tok
	return nil
}

// GoodToken releases on all exits.
func (s *S) GoodToken() error {
	s.tok <- struct{}{}
	err := work()
	<-s.tok
	return err
}

// ---- E-ORD ----

// BadOrder switches the pointer before syncing.
func BadOrder() error {
	if err := work(); err != nil {
		return err
	}
	if err := setMeta(); err != nil {
		return err
	}
	return syncIt()
}

// GoodOrder syncs first.
func GoodOrder() error {
	if err := work(); err != nil {
		return err
	}
	if err := syncIt(); err != nil {
		return err
	}
	return setMeta()
}

// BadSkipSync has a success path without the sync.
func BadSkipSync(fast bool) error {
	if err := work(); err != nil {
		return err
	}
	if !fast {
		if err := syncIt(); err != nil {
			return err
		}
	}
	publish()
	return nil
}

// BadPublishOnError publishes although the sync failed.
func BadPublishOnError() error {
	err := syncIt()
	publish()
	return err
}

// GoodPublish publishes only after a successful sync.
func GoodPublish() error {
	if err := syncIt(); err != nil {
		return err
	}
	publish()
	return nil
}

// ---- E-GUARD ----

// GoodGuard drops only under a<=m && (del && base()).
func (s *S) GoodGuard(del bool, base func() bool) {
	if s.seq <= s.min && del && base() {
		drop()
	}
}

// BadGuardWeakened lost one conjunct.
func (s *S) BadGuardWeakened(del bool, base func() bool) {
	if s.seq <= s.min && del {
		drop()
	}
}

// BadGuardOperator uses >= where <= is required.
func (s *S) BadGuardOperator(del bool, base func() bool) {
	if s.seq >= s.min && del && base() {
		drop()
	}
}

// GoodGuardStrengthened uses < where <= is required (accepted: stronger).
func (s *S) GoodGuardStrengthened(del bool, base func() bool) {
	switch {
	case s.seq < s.min && del && base():
		drop()
	}
}

// ---- comparer discipline ----

// BadRawCompare orders keys bytewise.
func BadRawCompare(a, b []byte) bool { return bytes.Compare(a, b) < 0 }

// BadStringCompare orders keys through string conversion.
func BadStringCompare(a, b []byte) bool { return string(a) < string(b) }

// ---- E-FLOW freshness ----

// BadAlias returns a sub-slice of shared storage.
func (s *S) BadAlias(i, j int) []byte { return s.data[i:j] }

// GoodCopy returns a private copy.
func (s *S) GoodCopy(i, j int) []byte { return append([]byte(nil), s.data[i:j]...) }

// BadRetain keeps the caller's buffer.
func (s *S) BadRetain(p []byte) { s.data = p }

// BadScribble modifies the caller's buffer.
func (s *S) BadScribble(p []byte) {
	if len(p) > 0 {
		p[0] = 0
	}
}

// GoodCopyIn only copies from the caller's buffer.
func (s *S) GoodCopyIn(p []byte) { s.data = append(s.data[:0], p...) }

// ---- E-GBY ----

// BadUnguarded writes the guarded field without the lock.
func (s *S) BadUnguarded() { s.n++ }

// GoodGuarded writes it under the lock.
func (s *S) GoodGuarded() {
	s.mu.Lock()
	s.n++
	s.mu.Unlock()
}

// ---- E-ERR ----

// BadDroppedError ignores the error of a durability call.
func BadDroppedError() {
	syncIt()
	publish()
}

// ---- channel inventory ----

// BadBlockingSend blocks forever if nobody listens.
func (s *S) BadBlockingSend(c chan int) { c <- 1 }

// GoodSelectSend has an exit.
func (s *S) GoodSelectSend(c chan int, closeC chan struct{}) {
	select {
	case c <- 1:
	case <-closeC:
	}
}

// ---- exactness (converse of a guard) ----

// GoodExact: drop() happens for every qualifying case.
func (s *S) GoodExact(del bool) {
	if s.seq <= s.min {
		drop()
	}
}

// BadExactSkips: a qualifying case (seq == min) is skipped.
func (s *S) BadExactSkips(del bool) {
	if s.seq <= s.min && del {
		drop()
	}
}

// ---- sibling agreement ----

// EncodeHdr / DecodeHdrGood agree on the offsets; DecodeHdrBad reads the length one byte off.
func EncodeHdr(b []byte, i int, n uint16) {
	b[i+4] = byte(n)
	b[i+5] = byte(n >> 8)
}

func DecodeHdrGood(b []byte, i int) uint16 { return uint16(b[i+4]) | uint16(b[i+5])<<8 }

func DecodeHdrBad(b []byte, i int) uint16 { return uint16(b[i+5]) | uint16(b[i+6])<<8 }

// ---- running maximum ----

func GoodRunningMax(xs []uint64) uint64 {
	var m uint64
	for _, x := range xs {
		if x > m {
			m = x
		}
	}
	return m
}

func BadRunningMin(xs []uint64) uint64 {
	var m uint64
	for _, x := range xs {
		if x < m {
			m = x
		}
	}
	return m
}
