module fixtures

go 1.14
