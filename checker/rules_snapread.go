package main

import (
	"fmt"
	"strings"

	"golang.org/x/tools/go/ssa"
)

// ruleSnapshotReadsUnderLock: a snapshot keeps its element in the DB's snapshot list, which is what
// makes compactions keep the entries it can see. Release removes the element under snap.mu. A read
// through the snapshot (Get, Has, NewIterator) must therefore hold snap.mu (shared) from the
// released-test until the underlying read has pinned its version — i.e. across the call into the DB —
// or a concurrent Release lets a compaction drop the very entries the in-flight read is about to
// look for, and the read answers "not found" for a key that existed all along.
func ruleSnapshotReadsUnderLock(p *Prog, r *Report, rule string) {
	r.Begin(rule, "E-PAIR", "snapshot reads hold the snapshot's lock across the read: in Snapshot.Get, Has and NewIterator the call into the DB (db.get / db.has / db.newIterator) is made with snap.mu held", 3)
	defer r.End()
	sp := lockSpec()
	n := 0
	for _, m := range []struct{ name, callee string }{
		{"(*Snapshot).Get", "(*leveldb.DB).get"},
		{"(*Snapshot).Has", "(*leveldb.DB).has"},
		{"(*Snapshot).NewIterator", "(*leveldb.DB).newIterator"},
	} {
		fn := resolveFn(p, r, "leveldb", m.name)
		if fn == nil {
			continue
		}
		watch := func(in ssa.Instruction) bool {
			_, isCall := in.(*ssa.Call)
			return isCall && isCallTo(in, m.callee)
		}
		res := sp.Analyze(fn, nil, watch)
		if len(res.At) == 0 {
			r.Fail(fnName(fn), "reads-under-lock:unresolved-anchor", "the read into the DB is made under snap.mu", "no call to "+m.callee+" found", p.Pos(fn.Pos()), nil)
			continue
		}
		for in, states := range res.At {
			n++
			bad := false
			for _, st := range states {
				held := false
				for lk, c := range st.cnt {
					if c > 0 && strings.Contains(lk, "leveldb.Snapshot.mu") {
						held = true
					}
				}
				if !held {
					bad = true
				}
			}
			r.Check(!bad, fnName(fn), "reads-under-lock", "the read into the DB is made under snap.mu", fmt.Sprintf("%s is called on a path where snap.mu is not held: a concurrent Release unregisters the snapshot while the read is between fixing its sequence and pinning a version", m.callee), p.Pos(in.Pos()))
		}
	}
	r.Site(n)
}

// ruleSnapshotReadsFrozenSeq: a snapshot read answers from the sequence fixed when the snapshot was
// taken. Snapshot.Get / Has / NewIterator therefore (a) hand the DB's internal read a sequence that
// originates in snap.elem.seq, and (b) never reach (*DB).acquireSnapshot — the entry point of a
// FRESH view, which the exported DB.Get / Has / NewIterator / GetSnapshot go through. Delegating a
// snapshot read to one of those answers from the live DB: writes made after the snapshot show.
func ruleSnapshotReadsFrozenSeq(p *Prog, r *Report, rule string) {
	r.Begin(rule, "E-REACH", "snapshot reads use the frozen sequence: Snapshot.Get / Has / NewIterator pass snap.elem.seq to the DB's internal read and reach no fresh-view entry point ((*DB).acquireSnapshot) through static calls", 3)
	defer r.End()
	fresh := "(*leveldb.DB).acquireSnapshot"
	// functions that (transitively, statically, within package leveldb) take a fresh view
	takes := map[*ssa.Function]bool{}
	var reaches func(fn *ssa.Function, depth int, seen map[*ssa.Function]bool) bool
	reaches = func(fn *ssa.Function, depth int, seen map[*ssa.Function]bool) bool {
		if fn == nil || depth == 0 || seen[fn] || len(fn.Blocks) == 0 {
			return false
		}
		if v, ok := takes[fn]; ok && v {
			return true
		}
		seen[fn] = true
		found := false
		instrs(fn, func(_ *ssa.BasicBlock, _ int, in ssa.Instruction) {
			if found {
				return
			}
			cc := callCommon(in)
			if cc == nil {
				return
			}
			if isCallTo(in, fresh) {
				found = true
				return
			}
			if f := staticCallee(cc); f != nil && f.Pkg != nil && f.Pkg == fn.Pkg {
				if reaches(f, depth-1, seen) {
					found = true
				}
			}
		})
		if found {
			takes[fn] = true
		}
		return found
	}
	if resolveFn(p, r, "leveldb", "(*DB).acquireSnapshot") == nil {
		return
	}
	for _, m := range []string{"(*Snapshot).Get", "(*Snapshot).Has", "(*Snapshot).NewIterator"} {
		fn := resolveFn(p, r, "leveldb", m)
		if fn == nil {
			continue
		}
		r.Site(1)
		r.Check(!reaches(fn, 4, map[*ssa.Function]bool{}), fnName(fn), "no-fresh-view", "the snapshot read reaches no fresh-view entry point", "a static call chain from "+m+" reaches "+fresh+": the read is answered at the DB's current sequence, not the snapshot's", p.Pos(fn.Pos()))
		// some call into the DB receives snap.elem.seq
		n := countInstr(fn, func(in ssa.Instruction) bool {
			cc := callCommon(in)
			if cc == nil {
				return false
			}
			f := staticCallee(cc)
			if f == nil || f.Signature.Recv() == nil || namedOf(derefT(f.Signature.Recv().Type())) != tDB {
				return false
			}
			for _, a := range cc.Args {
				if isFieldLoad(a, "leveldb.snapshotElement", "seq") {
					return true
				}
			}
			return false
		})
		r.Check(n >= 1, fnName(fn), "frozen-seq-passed", "a DB read is called with snap.elem.seq", "no method of *DB is called with the snapshot element's sequence", p.Pos(fn.Pos()))
	}
}
