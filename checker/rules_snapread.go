package main

import (
	"fmt"
	"strings"

	"golang.org/x/tools/go/ssa"
)

// ruleSnapshotReadsUnderLock: a snapshot keeps its element in the DB's snapshot list, which is what
// makes compactions keep the entries it can see. Release removes the element under snap.mu. A read
// through the snapshot (Get, Has, NewIterator) must therefore hold snap.mu (shared) from the
// released-test until the underlying read has pinned its version — i.e. across the call into the DB —
// or a concurrent Release lets a compaction drop the very entries the in-flight read is about to
// look for, and the read answers "not found" for a key that existed all along.
func ruleSnapshotReadsUnderLock(p *Prog, r *Report, rule string) {
	r.Begin(rule, "E-PAIR", "snapshot reads hold the snapshot's lock across the read: in Snapshot.Get, Has and NewIterator the call into the DB (db.get / db.has / db.newIterator) is made with snap.mu held", 3)
	defer r.End()
	sp := lockSpec()
	n := 0
	for _, m := range []struct{ name, callee string }{
		{"(*Snapshot).Get", "(*leveldb.DB).get"},
		{"(*Snapshot).Has", "(*leveldb.DB).has"},
		{"(*Snapshot).NewIterator", "(*leveldb.DB).newIterator"},
	} {
		fn := resolveFn(p, r, "leveldb", m.name)
		if fn == nil {
			continue
		}
		watch := func(in ssa.Instruction) bool {
			_, isCall := in.(*ssa.Call)
			return isCall && isCallTo(in, m.callee)
		}
		res := sp.Analyze(fn, nil, watch)
		if len(res.At) == 0 {
			r.Fail(fnName(fn), "reads-under-lock:unresolved-anchor", "the read into the DB is made under snap.mu", "no call to "+m.callee+" found", p.Pos(fn.Pos()), nil)
			continue
		}
		for in, states := range res.At {
			n++
			bad := false
			for _, st := range states {
				held := false
				for lk, c := range st.cnt {
					if c > 0 && strings.Contains(lk, "leveldb.Snapshot.mu") {
						held = true
					}
				}
				if !held {
					bad = true
				}
			}
			r.Check(!bad, fnName(fn), "reads-under-lock", "the read into the DB is made under snap.mu", fmt.Sprintf("%s is called on a path where snap.mu is not held: a concurrent Release unregisters the snapshot while the read is between fixing its sequence and pinning a version", m.callee), p.Pos(in.Pos()))
		}
	}
	r.Site(n)
}
