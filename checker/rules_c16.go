package main

import (
	"fmt"
	"go/constant"
	"go/token"
	"strings"

	"golang.org/x/tools/go/ssa"
)

func init() {
	register(&propDef{
		id:          "C16",
		run:         runC16,
		explanation: "Static analysis of filter build/probe agreement and fail-open behaviour: (1) the internal-key filter wrappers pass the USER key both when adding and when probing, and the session wraps the configured filter and every alternative filter; (2) the bloom generator and the bloom probe use the same hash function, the same delta rotation, the same bit-position / byte-index / mask expressions and the same per-probe advance, the probe count is read from the byte the generator wrote, the filter's bit count is a multiple of 8 ≥ 64 on both sides, and a probe count above 30 answers 'maybe' (sibling comparison of normalised SSA expression signatures); (3) every key appended to a table is added to the filter before success is returned, every finished data block flushes the filter partitions, and Close finishes the filter block before the metaindex is written; (4) writer and reader agree on the partition index (offset / 2^baseLg vs offset >> baseLg) and on where baseLg is stored; (5) fail open: a filter-block probe answers 'absent' only as the policy's own answer or for an empty partition, out-of-range / inconsistent offsets answer 'maybe', Reader.find turns a filter miss into not-found only when filtering was requested and a filter exists, and a corrupted filter block disables filtering instead of failing the read. The no-false-negative law over all key sets (hash distribution) is NOT decided.",
		notCovered:  "the hash's distribution; that changing policies never changes results at runtime; third-party filter policies",
		assumptions: []string{"util.Hash is deterministic (shared by generator and probe)"},
	})
}

func runC16(p *Prog, r *Report) {
	if want("C16.9") {
		ruleOptGetters(p, r, "C16.9", "the filter policy and its base", "Options.GetFilter", "Options.GetAltFilters", "Options.GetFilterBaseLg")
	}
	if want("C16.8") {
		// every added key is recorded for the next filter
		ruleFilterAddRecordsEveryKey(p, r, "C16.8")
	}
	if want("C16.1") {
		r.Begin("C16.1", "E-SIB", "wrapper agreement: iFilterGenerator.Add and iFilter.Contains both hand internalKey(key).ukey() to the wrapped policy; session.setOptions wraps Filter and every AltFilters element", 4)
		for _, spec := range []struct {
			name, method string
			argIdx       int
		}{{"iFilterGenerator.Add", "Add", 0}, {"iFilter.Contains", "Contains", 1}} {
			fn := resolveFn(p, r, "leveldb", spec.name)
			if fn == nil {
				continue
			}
			okv := false
			instrs(fn, func(_ *ssa.BasicBlock, _ int, in ssa.Instruction) {
				c, ok := in.(*ssa.Call)
				if ok && c.Call.IsInvoke() && c.Call.Method.Name() == spec.method && spec.argIdx < len(c.Call.Args) {
					if u, ok := callValue(c.Call.Args[spec.argIdx], "(leveldb.internalKey).ukey"); ok && mParam("key")(stripConv(u.Call.Args[0])) {
						okv = true
					}
				}
			})
			r.Site(1)
			r.Check(okv, fnName(fn), "strips-trailer", spec.name+" passes the user key (trailer stripped) to the wrapped policy", "the wrapped policy does not receive internalKey(key).ukey(): build and probe would hash different bytes", p.Pos(fn.Pos()))
			// the wrapper is a pure pass-through: every call reaches the wrapped policy (a wrapper that
			// skips keys — e.g. "same user key as last time" across Generate() calls — leaves later
			// filter partitions without the key), and it keeps no state of its own between calls
			m := spec.method
			ordOnSuccess(p, r, fn, "always-delegates", nil, func(in ssa.Instruction) bool {
				c, ok := in.(*ssa.Call)
				return ok && c.Call.IsInvoke() && c.Call.Method.Name() == m
			}, "the wrapped policy's "+m)
			r.Site(1)
			stateful := ""
			instrs(fn, func(_ *ssa.BasicBlock, _ int, in ssa.Instruction) {
				if st, ok := in.(*ssa.Store); ok {
					if t, f, _, ok := fieldOf(st.Addr); ok && (t == "leveldb.iFilterGenerator" || t == "leveldb.iFilter") {
						stateful = f
					}
				}
			})
			r.Check(stateful == "", fnName(fn), "stateless-wrapper", spec.name+" keeps no state between calls (the table writer reuses one generator for all filter partitions)", "writes field "+stateful, p.Pos(fn.Pos()))
		}
		if fn := resolveFn(p, r, "leveldb", "iFilter.NewGenerator"); fn != nil {
			okv := false
			instrs(fn, func(_ *ssa.BasicBlock, _ int, in ssa.Instruction) {
				if st, ok := in.(*ssa.Store); ok {
					if t, f, _, ok := fieldOf(st.Addr); ok && t == "leveldb.iFilterGenerator" && f == "FilterGenerator" {
						okv = true
					}
				}
				if mi, ok := in.(*ssa.MakeInterface); ok && namedOf(mi.X.Type()) == "leveldb.iFilterGenerator" {
					okv = true
				}
			})
			r.Site(1)
			r.Check(okv, fnName(fn), "wraps-generator", "the generator handed to the table writer is the trailer-stripping wrapper", "NewGenerator does not return an iFilterGenerator", p.Pos(fn.Pos()))
		}
		if fn := resolveFn(p, r, "leveldb", "(*session).setOptions"); fn != nil {
			n := 0
			instrs(fn, func(_ *ssa.BasicBlock, _ int, in ssa.Instruction) {
				if st, ok := in.(*ssa.Store); ok {
					if t, f, _, ok := fieldOf(st.Addr); ok && t == "leveldb.iFilter" && f == "Filter" {
						n++
					}
				}
			})
			r.Site(n)
			r.Check(n == 2, fnName(fn), "wraps-all-filters", "both the configured filter and the alternative filters are wrapped in iFilter", fmt.Sprintf("%d iFilter wrappings (want 2: Filter and each AltFilters element)", n), p.Pos(fn.Pos()))
			// the wrapped ones are what the options hand out
			okF, okA := false, false
			instrs(fn, func(_ *ssa.BasicBlock, _ int, in ssa.Instruction) {
				if st, ok := in.(*ssa.Store); ok {
					if isFieldAddr(st.Addr, "leveldb/opt.Options", "Filter") {
						okF = true
					}
					if isFieldAddr(st.Addr, "leveldb/opt.Options", "AltFilters") {
						okA = true
					}
				}
			})
			r.Check(okF && okA, fnName(fn), "installs-wrapped", "the session's options carry the wrapped filters", fmt.Sprintf("Filter set:%v AltFilters set:%v", okF, okA), p.Pos(fn.Pos()))
		}
		r.End()
	}
	if want("C16.2") {
		ruleBloomAgreement(p, r, "C16.2")
	}
	if want("C16.3") {
		r.Begin("C16.3", "E-ORD", "every appended key is added to the filter: in table.Writer.Append filterBlock.add(key) lies on every success path after dataBlock.append; finishBlock flushes the filter partitions after every data block; Close finishes the filter block before writing the metaindex", 4)
		if fn := resolveFn(p, r, "leveldb/table", "(*Writer).Append"); fn != nil {
			app := evCall("(*leveldb/table.blockWriter).append")
			add := evCall("(*leveldb/table.filterWriter).add")
			ordFollow(p, r, fn, "key-added-after-append", nil, app, "dataBlock.append(key, value)", add, "filterBlock.add(key)")
			checkCallArg(p, r, fn, "adds-same-key", "(*leveldb/table.filterWriter).add", 1, mParam("key"), "the appended key")
			// the key is added before the block can be finished (so it lands in this block's partition)
			ordPrecede(p, r, fn, "added-before-block-finish", nil, add, "filterBlock.add(key)", evCall("(*leveldb/table.Writer).finishBlock"), "finishBlock()")
		}
		if fn := resolveFn(p, r, "leveldb/table", "(*filterWriter).add"); fn != nil {
			genNil := nilAtom("generator==nil", mFieldLoad("leveldb/table.filterWriter", "generator"))
			addInv := func(in ssa.Instruction) bool { return isInvokeNamed(in, "Add") }
			if w := findPath(entryPoint(fn), atomEdges([]Atom{genNil}, []bool{false}), addInv, isReturn); w != nil {
				r.Fail(fnName(fn), "key-not-forwarded", "with a filter configured every key reaches the generator", "with generator != nil a path returns without generator.Add(key)", p.posOfLast(w, isReturn), p.renderPath(w))
			} else {
				r.OK(fnName(fn), "key-forwarded", "with a filter configured every key reaches the generator")
			}
			r.Site(1)
		}
		if fn := resolveFn(p, r, "leveldb/table", "(*Writer).finishBlock"); fn != nil {
			ordFollow(p, r, fn, "partitions-flushed", nil, evCall("(*leveldb/table.Writer).writeBlock"), "writeBlock(data block)", evCall("(*leveldb/table.filterWriter).flush"), "filterBlock.flush(offset)")
			checkCallArg(p, r, fn, "flush-at-new-offset", "(*leveldb/table.filterWriter).flush", 1, mFieldLoad("leveldb/table.Writer", "offset"), "the offset after the block just written")
		}
		if fn := resolveFn(p, r, "leveldb/table", "(*Writer).Close"); fn != nil {
			fin := evCall("(*leveldb/table.filterWriter).finish")
			ordOnSuccess(p, r, fn, "filter-finished", nil, fin, "filterBlock.finish()")
			// finish precedes the filter block write, which precedes the metaindex entry
			wrFilter := andPred(evCall("(*leveldb/table.Writer).writeBlock"), predArg(1, func(v ssa.Value) bool {
				fa, ok := v.(*ssa.FieldAddr)
				if !ok {
					return false
				}
				_, f, base, ok := fieldOf(fa)
				return ok && f == "buf" && isFieldAddr(base, "leveldb/table.Writer", "filterBlock")
			}))
			ordPrecede(p, r, fn, "finish-before-filter-write", nil, fin, "filterBlock.finish()", wrFilter, "writeBlock(filter block)")
			// last data block is finished before the filter is finished
			ordPrecede(p, r, fn, "last-block-before-filter-finish", nil, evCall("(*leveldb/table.Writer).flushPendingBH"), "flushPendingBH(nil)", fin, "filterBlock.finish()")
			// the filter block is never compressed (the reader indexes into it directly)
			for _, c := range findCalls(fn, "(*leveldb/table.Writer).writeBlock") {
				if wrFilter(c) {
					r.Site(1)
					r.Check(argIs(c, 2, mConstInt(int64(noCompressionConst(p)))), fnName(fn), "filter-block-uncompressed", "the filter block is written uncompressed", "filter block written with a compression setting", p.Pos(c.Pos()))
				}
			}
		}
		if fn := resolveFn(p, r, "leveldb/table", "(*filterWriter).finish"); fn != nil {
			pending := cmpAtom("nKeys>0", token.GTR, mFieldLoad("leveldb/table.filterWriter", "nKeys"), mConstInt(0))
			gen := evCall("(*leveldb/table.filterWriter).generate")
			genNil := nilAtom("generator==nil", mFieldLoad("leveldb/table.filterWriter", "generator"))
			if w := findPathV(entryPoint(fn), atomEdges([]Atom{pending, genNil}, []bool{true, false}), gen, isReturn, atomVals([]Atom{pending, genNil}, []bool{true, false})); w != nil {
				r.Fail(fnName(fn), "pending-keys-dropped", "keys added since the last partition are generated into a final partition", "with nKeys > 0 finish can return without generate(): the last keys of the table are missing from the filter (false negatives)", p.posOfLast(w, isReturn), p.renderPath(w))
			} else {
				r.OK(fnName(fn), "pending-keys-generated", "keys added since the last partition are generated into a final partition")
			}
			r.Site(1)
		}
		r.End()
	}
	if want("C16.4") {
		ruleFilterPartition(p, r, "C16.4")
	}
	if want("C16.7") {
		ruleTableOptions(p, r, "C16.7")
	}
	if want("C16.6") {
		r.Begin("C16.6", "E-GUARD", "filter policy selection: table.NewReader installs a filter policy for a table only if that policy's Name() equals the filter name recorded in the table's metaindex (primary or alternative policy); with no matching policy the table is read unfiltered — never probed with a different policy's Contains", 2)
		if fn := resolveFn(p, r, "leveldb/table", "NewReader"); fn != nil {
			nameEq := cmpAtom("policy.Name()==recorded name", token.EQL, func(v ssa.Value) bool {
				c, ok := v.(*ssa.Call)
				return ok && c.Call.IsInvoke() && c.Call.Method.Name() == "Name"
			}, func(v ssa.Value) bool { return !isConstString(v) })
			install := func(in ssa.Instruction) bool {
				st, ok := in.(*ssa.Store)
				return ok && isFieldAddr(st.Addr, "leveldb/table.Reader", "filter") && !isNilConst(st.Val)
			}
			checkGuard(p, r, GuardSpec{Rule: "policy-installed-only-by-name", Fn: fn, Target: install, TargetDesc: "r.filter = <policy>", Atoms: []Atom{nameEq}, G: func(a []bool) bool { return a[0] }, GDesc: "the policy's name equals the name stored in the table", MinTargets: 1})
			// the recorded name is taken from the metaindex key after the "filter." prefix
			r.Site(1)
			n := countInstr(fn, func(in ssa.Instruction) bool {
				c, ok := in.(*ssa.Call)
				return ok && isCallTo(c, "strings.HasPrefix")
			})
			r.Check(n >= 1, fnName(fn), "name-from-metaindex", "the recorded filter name is read from the metaindex (\"filter.<name>\")", "no prefix test on the metaindex key", p.Pos(fn.Pos()))
		}
		r.End()
	}
	if want("C16.5") {
		r.Begin("C16.5", "E-GUARD", "fail open: filterBlock.contains answers false only with the policy's own answer (for an in-range, well-formed partition) or for an empty partition; Reader.find reports not-found from the filter only when filtering was requested, a filter exists and the filter block was readable; a corrupted filter block does not fail the read", 4)
		if fn := resolveFn(p, r, "leveldb/table", "(*filterBlock).contains"); fn != nil {
			inRange := cmpAtom("i<filtersNum", token.LSS, func(v ssa.Value) bool { return !isFieldLoad(v, "leveldb/table.filterBlock", "filtersNum") }, mFieldLoad("leveldb/table.filterBlock", "filtersNum"))
			isOff := func(v ssa.Value) bool { _, ok := stripConv(v).(*ssa.Call); return ok }
			nLtM := cmpAtom("n<m", token.LSS, isOff, isOff)
			mOK := cmpAtom("m<=oOffset", token.LEQ, isOff, mFieldLoad("leveldb/table.filterBlock", "oOffset"))
			nEqM := cmpAtom("n==m", token.EQL, isOff, isOff)
			retFalseConst := retConstBool(false)
			checkGuard(p, r, GuardSpec{Rule: "false-only-for-empty-partition", Fn: fn, Target: retFalseConst, TargetDesc: "return false (constant)", Atoms: []Atom{inRange, nEqM}, G: func(a []bool) bool { return a[0] && a[1] }, GDesc: "partition in range ∧ empty (n == m)", MinTargets: 1})
			policy := func(in ssa.Instruction) bool {
				ret, ok := in.(*ssa.Return)
				if !ok || len(ret.Results) != 1 {
					return false
				}
				c, ok := ret.Results[0].(*ssa.Call)
				return ok && c.Call.IsInvoke() && c.Call.Method.Name() == "Contains"
			}
			checkGuard(p, r, GuardSpec{Rule: "policy-asked-only-for-wellformed-partition", Fn: fn, Target: policy, TargetDesc: "return filter.Contains(partition, key)", Atoms: []Atom{inRange, nLtM, mOK}, G: func(a []bool) bool { return a[0] && a[1] && a[2] }, GDesc: "i < filtersNum ∧ n < m ∧ m <= oOffset", MinTargets: 1})
			// everything else answers true
			other := func(in ssa.Instruction) bool {
				ret, ok := in.(*ssa.Return)
				return ok && !retFalseConst(in) && !policy(in) && !retConstBool(true)(in) && ret != nil
			}
			n := countInstr(fn, other)
			r.Check(n == 0, fnName(fn), "otherwise-maybe", "every other case answers true (maybe present)", fmt.Sprintf("%d return(s) that are neither the policy's answer, the empty-partition false, nor true", n), p.Pos(fn.Pos()))
			r.Site(1)
		}
		if fn := resolveFn(p, r, "leveldb/table", "(*Reader).find"); fn != nil {
			filtered := boolAtom("filtered", mParam("filtered"))
			hasFilter := nilAtom("r.filter==nil", mFieldLoad("leveldb/table.Reader", "filter"))
			ferrNil := nilAtom("ferr==nil", mExtract(2, "(*leveldb/table.Reader).getFilterBlock"))
			contains := boolAtom("filterBlock.contains", mCall("(*leveldb/table.filterBlock).contains"))
			nf := func(in ssa.Instruction) bool {
				ret, ok := in.(*ssa.Return)
				if !ok || len(ret.Results) != 3 {
					return false
				}
				v := retValue(ret, ret.Results[2])
				u, ok := v.(*ssa.UnOp)
				if !ok {
					return false
				}
				g, ok := u.X.(*ssa.Global)
				if !ok || g.Name() != "ErrNotFound" {
					return false
				}
				// only the filter's return: it returns nil,nil explicitly for key/value
				return isNilConst(retValue(ret, ret.Results[0])) && isNilConst(retValue(ret, ret.Results[1]))
			}
			if countInstr(fn, nf) == 0 {
				r.Fail(fnName(fn), "filter-miss:unresolved-anchor", "Reader.find has a filter-miss exit", "return nil, nil, ErrNotFound not found", p.Pos(fn.Pos()), nil)
			} else {
				checkGuard(p, r, GuardSpec{Rule: "filter-miss-only-when-filtering", Fn: fn, Target: nf, TargetDesc: "return nil, nil, ErrNotFound (filter miss)", Atoms: []Atom{filtered, hasFilter, ferrNil, contains}, G: func(a []bool) bool { return a[0] && !a[1] && a[2] && !a[3] }, GDesc: "filtered ∧ r.filter≠nil ∧ filter block readable ∧ ¬contains", MinTargets: 1})
			}
			// a corrupted filter block does not abort: the ferr return is under ¬IsCorrupted
			corrupted := boolAtom("IsCorrupted(ferr)", mCall("leveldb/errors.IsCorrupted"))
			ferrRet := func(in ssa.Instruction) bool {
				ret, ok := in.(*ssa.Return)
				if !ok || len(ret.Results) != 3 {
					return false
				}
				return mExtract(2, "(*leveldb/table.Reader).getFilterBlock")(retValue(ret, ret.Results[2]))
			}
			if countInstr(fn, ferrRet) > 0 {
				checkGuard(p, r, GuardSpec{Rule: "corrupted-filter-does-not-fail-read", Fn: fn, Target: ferrRet, TargetDesc: "returning the filter block's read error", Atoms: []Atom{corrupted}, G: func(a []bool) bool { return !a[0] }, GDesc: "¬IsCorrupted(ferr)", MinTargets: 1})
			}
			// the probe uses the data block's offset and the sought key
			checkCallArg(p, r, fn, "probe-key", "(*leveldb/table.filterBlock).contains", 3, mParam("key"), "the sought key")
			checkCallArg(p, r, fn, "probe-policy", "(*leveldb/table.filterBlock).contains", 1, mFieldLoad("leveldb/table.Reader", "filter"), "the reader's filter policy")
		}
		// who asks for filtering: table lookups through tOps.find/findKey pass filtered=true
		for _, name := range []string{"(*tOps).find", "(*tOps).findKey"} {
			if fn := resolveFn(p, r, "leveldb", name); fn != nil {
				_ = fn
			}
		}
		r.End()
	}
}

func noCompressionConst(p *Prog) int {
	s := constString(p, "leveldb/opt", "NoCompression")
	var v int
	fmt.Sscan(s, &v)
	return v
}

// ruleBloomAgreement: C16.2.
func ruleBloomAgreement(p *Prog, r *Report, rule string) {
	r.Begin(rule, "E-SIB", "bloom build/probe agreement: same hash (bloomHash), same delta rotation, same bit position (kh % nBits), byte index (/8) and mask (1 << %8), same advance (kh += delta), nBits = 8*nBytes on both sides, probe count stored at / read from byte nBytes, k > 30 answers maybe", 8)
	defer r.End()
	gen := resolveFn(p, r, "leveldb/filter", "(*bloomFilterGenerator).Generate")
	con := resolveFn(p, r, "leveldb/filter", "bloomFilter.Contains")
	add := resolveFn(p, r, "leveldb/filter", "(*bloomFilterGenerator).Add")
	if gen == nil || con == nil || add == nil {
		return
	}
	pick := func(fn *ssa.Function, pred func(v ssa.Value) bool) []string { return findShapes(fn, 3, pred) }
	cmp := func(kind, what string, pred func(v ssa.Value) bool) {
		a, b := pick(gen, pred), pick(con, pred)
		if kind == "bitpos" {
			a, b = findShapes(gen, 2, pred), findShapes(con, 2, pred)
		}
		r.Site(1)
		ok := len(a) >= 1 && strings.Join(a, "|") == strings.Join(b, "|")
		r.Check(ok, "filter.bloomFilterGenerator.Generate~filter.bloomFilter.Contains", kind, "generator and probe compute the same "+what, fmt.Sprintf("generator: %v; probe: %v", a, b), p.Pos(gen.Pos()))
	}
	cmp("delta", "delta = (kh>>17)|(kh<<15)", func(v ssa.Value) bool {
		b, ok := isBin(v, token.OR)
		if !ok {
			return false
		}
		_, s1 := isBin(b.X, token.SHR)
		_, s2 := isBin(b.Y, token.SHL)
		_, s3 := isBin(b.X, token.SHL)
		_, s4 := isBin(b.Y, token.SHR)
		return (s1 && s2) || (s3 && s4)
	})
	cmp("bitpos", "bit position kh % nBits", func(v ssa.Value) bool {
		b, ok := isBin(v, token.REM)
		if !ok {
			return false
		}
		_, isConst := constInt(b.Y)
		return !isConst
	})
	cmp("byte-index", "byte index bitpos/8", func(v ssa.Value) bool {
		b, ok := isBin(v, token.QUO)
		if !ok || !mConstInt(8)(b.Y) {
			return false
		}
		_, isRem := isBin(stripConv(b.X), token.REM)
		return isRem
	})
	cmp("mask", "bit mask 1 << (bitpos % 8)", func(v ssa.Value) bool {
		b, ok := isBin(v, token.SHL)
		return ok && mConstInt(1)(stripConv(b.X))
	})
	cmp("advance", "per-probe advance kh += delta", func(v ssa.Value) bool {
		b, ok := isBin(v, token.ADD)
		if !ok {
			return false
		}
		isDelta := func(x ssa.Value) bool { _, ok := isBin(x, token.OR); return ok }
		return isDelta(b.X) || isDelta(b.Y)
	})
	// same hash function on both sides
	nAdd := len(findCalls(add, "leveldb/filter.bloomHash"))
	nCon := len(findCalls(con, "leveldb/filter.bloomHash"))
	r.Site(2)
	r.Check(nAdd == 1 && nCon == 1, "filter.bloomFilterGenerator.Add~filter.bloomFilter.Contains", "same-hash", "both sides hash keys with bloomHash", fmt.Sprintf("Add: %d call(s), Contains: %d call(s)", nAdd, nCon), p.Pos(add.Pos()))
	// the generator hashes the key it is given (Add) and Generate iterates over exactly those hashes
	okStore := false
	instrs(add, func(_ *ssa.BasicBlock, _ int, in ssa.Instruction) {
		if st, ok := in.(*ssa.Store); ok && isFieldAddr(st.Addr, "leveldb/filter.bloomFilterGenerator", "keyHashes") {
			okStore = true
		}
	})
	r.Check(okStore, fnName(add), "hash-recorded", "Add records the key's hash for Generate", "keyHashes not appended", p.Pos(add.Pos()))
	// nBits is a multiple of 8: generator nBits = nBytes*8 ; probe nBits = nBytes*8
	mul8 := func(v ssa.Value) bool {
		b, ok := isBin(v, token.MUL)
		return ok && (mConstInt(8)(b.X) || mConstInt(8)(b.Y))
	}
	r.Site(2)
	r.Check(len(pick(gen, mul8)) >= 1 && len(pick(con, mul8)) >= 1, "filter.bloomFilterGenerator.Generate~filter.bloomFilter.Contains", "nbits-from-bytes", "both sides use nBits = nBytes*8", fmt.Sprintf("generator %v probe %v", pick(gen, mul8), pick(con, mul8)), p.Pos(gen.Pos()))
	// k position: generator stores g.k at dest[nBytes]; probe reads filter[nBytes] with nBytes = len(filter)-1
	okK := false
	instrs(gen, func(_ *ssa.BasicBlock, _ int, in ssa.Instruction) {
		if st, ok := in.(*ssa.Store); ok && isFieldLoad(st.Val, "leveldb/filter.bloomFilterGenerator", "k") {
			if _, ok := st.Addr.(*ssa.IndexAddr); ok {
				okK = true
			}
		}
	})
	okKr := false
	instrs(con, func(_ *ssa.BasicBlock, _ int, in ssa.Instruction) {
		if b, ok := in.(*ssa.BinOp); ok && b.Op == token.SUB && mConstInt(1)(b.Y) {
			if c, ok := b.X.(*ssa.Call); ok && isCallTo(c, "builtin:len") && mParam("filter")(c.Call.Args[0]) {
				okKr = true
			}
		}
	})
	r.Check(okK && okKr, "filter.bloomFilterGenerator.Generate~filter.bloomFilter.Contains", "k-position", "the probe count is stored after the bit array and read from filter[len-1]", fmt.Sprintf("stored:%v read:%v", okK, okKr), p.Pos(gen.Pos()))
	// the allocation is nBytes+1
	okAlloc := false
	instrs(gen, func(_ *ssa.BasicBlock, _ int, in ssa.Instruction) {
		if c, ok := in.(*ssa.Call); ok && c.Call.IsInvoke() && c.Call.Method.Name() == "Alloc" {
			if b, ok := isBin(c.Call.Args[0], token.ADD); ok && mConstInt(1)(b.Y) {
				okAlloc = true
			}
		}
	})
	r.Check(okAlloc, fnName(gen), "alloc-bytes-plus-k", "the generator allocates nBytes+1 (bits plus the k byte)", "Alloc(nBytes+1) not found", p.Pos(gen.Pos()))
	// k > 30 → maybe ; false only when a probed bit is clear (or the filter is too short to be a bloom filter)
	kBig := cmpAtom("k>30", token.GTR, func(v ssa.Value) bool {
		u, ok := stripConv(v).(*ssa.UnOp)
		if !ok {
			return false
		}
		_, isIA := u.X.(*ssa.IndexAddr)
		return isIA
	}, mConstInt(30))
	bitClear := cmpAtom("bit==0", token.EQL, func(v ssa.Value) bool { _, ok := isBin(stripConv(v), token.AND); return ok }, mConstInt(0))
	short := cmpAtom("nBytes<1", token.LSS, func(v ssa.Value) bool { b, ok := isBin(v, token.SUB); return ok && mConstInt(1)(b.Y) }, mConstInt(1))
	checkGuard(p, r, GuardSpec{Rule: "absent-only-if-bit-clear", Fn: con, Target: retConstBool(false), TargetDesc: "answering 'definitely absent'", Atoms: []Atom{kBig, bitClear, short}, G: func(a []bool) bool { return a[2] || (!a[0] && a[1]) }, GDesc: "a probed bit is clear (and k<=30), or the filter is degenerate", MinTargets: 1})
	// the generator sets (ORs) bits, never clears
	okOr := false
	instrs(gen, func(_ *ssa.BasicBlock, _ int, in ssa.Instruction) {
		if st, ok := in.(*ssa.Store); ok {
			if b, ok := isBin(st.Val, token.OR); ok {
				if _, isIA := st.Addr.(*ssa.IndexAddr); isIA && b != nil {
					okOr = true
				}
			}
		}
	})
	r.Check(okOr, fnName(gen), "sets-bits", "the generator ORs bits into the array", "no dest[i] |= mask", p.Pos(gen.Pos()))
	// same number of probes: generator loops j < g.k, probe loops j < k (the stored byte)
	loopK := func(fn *ssa.Function, m VMatch) bool {
		found := false
		instrs(fn, func(_ *ssa.BasicBlock, _ int, in ssa.Instruction) {
			if b, ok := in.(*ssa.BinOp); ok && b.Op == token.LSS && m(b.Y) {
				if _, isPhi := b.X.(*ssa.Phi); isPhi {
					found = true
				}
			}
		})
		return found
	}
	r.Check(loopK(gen, mFieldLoad("leveldb/filter.bloomFilterGenerator", "k")) && loopK(con, func(v ssa.Value) bool {
		u, ok := stripConv(v).(*ssa.UnOp)
		if !ok {
			return false
		}
		_, isIA := u.X.(*ssa.IndexAddr)
		return isIA
	}), "filter.bloomFilterGenerator.Generate~filter.bloomFilter.Contains", "probe-count", "the generator sets k bits per key and the probe tests the k stored in the filter", "loop bounds differ", p.Pos(gen.Pos()))
}

func isConstString(v ssa.Value) bool {
	c, ok := v.(*ssa.Const)
	return ok && c.Value != nil && c.Value.Kind() == constant.String
}

// ruleFilterPartition: C16.4 / C13.17 — writer and reader of the filter block agree on the partition a data block's keys go to.
func ruleFilterPartition(p *Prog, r *Report, rule string) {
	r.Begin(rule, "E-SIB", "partition agreement: the writer starts partition offset/(1<<baseLg), the reader probes partition offset>>baseLg; baseLg is the last byte of the filter block on both sides; the offset array position is the 4 bytes before it", 4)
	if fn := resolveFn(p, r, "leveldb/table", "(*filterWriter).flush"); fn != nil {
		// the writer keeps generating partitions while fewer than floor(offset / 2^baseLg) exist.
		// Two spellings of that loop condition are recognised (operands by role):
		//   (A)  offset / (1<<baseLg)  >  len(offsets)      (also offset >> baseLg)
		//   (B)  (len(offsets)+1) << baseLg  <=  offset     (also … * (1<<baseLg))
		isLenOffsets := func(v ssa.Value) bool {
			c, ok := stripConv(v).(*ssa.Call)
			return ok && isCallTo(c, "builtin:len") && isFieldLoad(c.Call.Args[0], "leveldb/table.filterWriter", "offsets")
		}
		isBase := func(v ssa.Value) bool { return isFieldLoad(stripConv(v), "leveldb/table.filterWriter", "baseLg") }
		isOffset := func(v ssa.Value) bool { return mParam("offset")(stripConv(v)) }
		pow := func(v ssa.Value) bool { // 1 << baseLg
			sh, ok := isBin(stripConv(v), token.SHL)
			return ok && mConstInt(1)(sh.X) && isBase(sh.Y)
		}
		partIdx := func(v ssa.Value) bool { // offset / 2^b
			v = stripConv(v)
			if q, ok := isBin(v, token.QUO); ok && isOffset(q.X) && pow(q.Y) {
				return true
			}
			if sh, ok := isBin(v, token.SHR); ok && isOffset(sh.X) && isBase(sh.Y) {
				return true
			}
			return false
		}
		nextStart := func(v ssa.Value) bool { // (len+1) * 2^b
			v = stripConv(v)
			lenPlus1 := func(x ssa.Value) bool {
				a, ok := isBin(stripConv(x), token.ADD)
				return ok && ((isLenOffsets(a.X) && mConstInt(1)(a.Y)) || (isLenOffsets(a.Y) && mConstInt(1)(a.X)))
			}
			if sh, ok := isBin(v, token.SHL); ok && lenPlus1(sh.X) && isBase(sh.Y) {
				return true
			}
			if m, ok := isBin(v, token.MUL); ok && ((lenPlus1(m.X) && pow(m.Y)) || (lenPlus1(m.Y) && pow(m.X))) {
				return true
			}
			return false
		}
		verdict, detail := "", "no loop condition relating offset, baseLg and len(offsets) found"
		for _, b := range fn.Blocks {
			cond, neg, ok := ifCond(b)
			if !ok {
				continue
			}
			bo, isB := cond.(*ssa.BinOp)
			if !isB || !isCmpOp(bo.Op) {
				continue
			}
			op := bo.Op
			if neg {
				op = map[token.Token]token.Token{token.LSS: token.GEQ, token.LEQ: token.GTR, token.GTR: token.LEQ, token.GEQ: token.LSS, token.EQL: token.NEQ, token.NEQ: token.EQL}[op]
			}
			flip := map[token.Token]token.Token{token.LSS: token.GTR, token.LEQ: token.GEQ, token.GTR: token.LSS, token.GEQ: token.LEQ, token.EQL: token.EQL, token.NEQ: token.NEQ}
			X, Y := bo.X, bo.Y
			// normalise so that the "partition side" is on the left
			switch {
			case partIdx(Y) && isLenOffsets(X), nextStart(Y) && isOffset(X):
				X, Y, op = Y, X, flip[op]
			}
			switch {
			case partIdx(X) && isLenOffsets(Y):
				if op == token.GTR {
					verdict = "ok"
				} else {
					verdict, detail = "bad", "the loop continues while offset/2^baseLg "+op.String()+" len(offsets) (want >)"
				}
			case nextStart(X) && isOffset(Y):
				if op == token.LEQ {
					verdict = "ok"
				} else {
					verdict, detail = "bad", "the loop continues while (len(offsets)+1)<<baseLg "+op.String()+" offset (want <=): when a data block ends exactly on a multiple of 2^baseLg one partition too few is started and the next block's keys land in the previous filter — filtered lookups miss stored keys"
				}
			}
		}
		r.Site(1)
		r.Check(verdict == "ok", fnName(fn), "writer-partition-index", "the writer starts partitions until floor(offset / 2^baseLg) exist — offset/(1<<baseLg) > len(offsets), or (len(offsets)+1)<<baseLg <= offset", detail, p.Pos(fn.Pos()))
		// generate() only inside that loop
		n := 0
		for _, c := range findCalls(fn, "(*leveldb/table.filterWriter).generate") {
			n++
			_ = c
		}
		r.Check(n == 1, fnName(fn), "one-partition-per-round", "flush starts partitions only through that loop (one generate() call site)", fmt.Sprintf("%d generate() call sites", n), p.Pos(fn.Pos()))
	}
	if fn := resolveFn(p, r, "leveldb/table", "(*filterBlock).contains"); fn != nil {
		okv := false
		instrs(fn, func(_ *ssa.BasicBlock, _ int, in ssa.Instruction) {
			if b, ok := in.(*ssa.BinOp); ok && b.Op == token.SHR && mParam("offset")(b.X) && isFieldLoad(b.Y, "leveldb/table.filterBlock", "baseLg") {
				okv = true
			}
		})
		r.Site(1)
		r.Check(okv, fnName(fn), "reader-partition-index", "reader partition index = offset >> baseLg", "different expression", p.Pos(fn.Pos()))
	}
	if fn := resolveFn(p, r, "leveldb/table", "(*filterWriter).finish"); fn != nil {
		okv := false
		instrs(fn, func(_ *ssa.BasicBlock, _ int, in ssa.Instruction) {
			if c, ok := in.(*ssa.Call); ok && isCallTo(c, "(*leveldb/util.Buffer).WriteByte") && isFieldLoad(stripConv(c.Call.Args[1]), "leveldb/table.filterWriter", "baseLg") {
				okv = true
			}
		})
		r.Site(1)
		r.Check(okv, fnName(fn), "baseLg-last-byte-written", "the writer appends baseLg as the block's last byte", "WriteByte(baseLg) not found", p.Pos(fn.Pos()))
		// it is the LAST thing written
		ordNeverAfter(p, r, fn, "baseLg-is-last", nil, evCall("(*leveldb/util.Buffer).WriteByte"), "WriteByte(baseLg)", evCall("(*leveldb/util.Buffer).Alloc", "(*leveldb/util.Buffer).Write"), "another write to the filter block", nil, "")
	}
	if fn := resolveFn(p, r, "leveldb/table", "(*Reader).readFilterBlock"); fn != nil {
		okLg, okOff := false, false
		instrs(fn, func(_ *ssa.BasicBlock, _ int, in ssa.Instruction) {
			if st, ok := in.(*ssa.Store); ok && isFieldAddr(st.Addr, "leveldb/table.filterBlock", "baseLg") {
				// data[n-1]
				if u, ok := stripConv(st.Val).(*ssa.UnOp); ok {
					if ia, ok := u.X.(*ssa.IndexAddr); ok {
						if b, ok := isBin(ia.Index, token.SUB); ok && mConstInt(1)(b.Y) {
							okLg = true
						}
					}
				}
			}
			// m = n - 5 ; oOffset = Uint32(data[m:])
			if b, ok := in.(*ssa.BinOp); ok && b.Op == token.SUB && mConstInt(5)(b.Y) {
				okOff = true
			}
		})
		r.Site(2)
		r.Check(okLg, fnName(fn), "baseLg-last-byte-read", "the reader takes baseLg from the block's last byte", "baseLg not read from data[n-1]", p.Pos(fn.Pos()))
		r.Check(okOff, fnName(fn), "offset-array-position", "the offsets' offset is the 4 bytes before baseLg (n-5)", "n-5 not found", p.Pos(fn.Pos()))
		// always checksummed
		checkCallArg(p, r, fn, "filter-block-verified", "(*leveldb/table.Reader).readRawBlock", 2, func(v ssa.Value) bool { b, ok := constBool(v); return ok && b }, "verifyChecksum = true")
	}
	r.End()
}
