package main

import (
	"fmt"
	"go/token"

	"golang.org/x/tools/go/ssa"
)

// ruleRangePlumbing: a ranged iterator is the merge of ranged sources; dbIter itself does not
// re-check the bounds. So every source iterator must be created with the caller's range: a source
// created with nil (or another) range leaks out-of-range entries into the walk.
func ruleRangePlumbing(p *Prog, r *Report, rule string) {
	r.Begin(rule, "E-FLOW", "range plumbing: in DB.newRawIterator and version.getIterators every source iterator (memdb.NewIterator, tOps.newIterator, tFiles.newIndexIterator, version.getIterators) is created with the function's own slice parameter; DB.newIterator hands the converted internal range to newRawIterator; tFilesArrayIndexer.Get passes its slice on to the table iterator", 8)
	defer r.End()
	type site struct {
		callee string
		idx    int
	}
	sites := []site{
		{"(*leveldb/memdb.DB).NewIterator", 1},
		{"(*leveldb.tOps).newIterator", 2},
		{"(leveldb.tFiles).newIndexIterator", 3},
		{"(*leveldb.version).getIterators", 1},
	}
	for _, name := range []string{"(*DB).newRawIterator", "(*version).getIterators"} {
		fn := resolveFn(p, r, "leveldb", name)
		if fn == nil {
			continue
		}
		n := 0
		for _, s := range sites {
			for _, c := range findCalls(fn, s.callee) {
				n++
				r.Site(1)
				ok := mParam("slice")(callCommon(c).Args[s.idx])
				r.Check(ok, fnName(fn), "source-ranged:"+s.callee+"@"+branchLabel(c), "the source iterator is created with the caller's range", "the source created at "+p.Pos(c.Pos())+" does not receive the function's slice parameter: out-of-range entries leak into ranged iterators", p.Pos(c.Pos()))
			}
		}
		r.Check(n >= 2, fnName(fn), "sources", "the function creates its source iterators", fmt.Sprintf("%d source creations found", n), p.Pos(fn.Pos()))
	}
	if fn := resolveFn(p, r, "leveldb", "(*DB).newIterator"); fn != nil {
		checkCallArg(p, r, fn, "internal-range-handed-on", "(*leveldb.DB).newRawIterator", 3, func(v ssa.Value) bool {
			// nil when slice == nil, else the freshly built internal range
			return originsAll(v, func(l ssa.Value) bool {
				if isNilConst(l) {
					return true
				}
				al, ok := l.(*ssa.Alloc)
				return ok && namedOf(al.Type()) == "leveldb/util.Range"
			})
		}, "the internal-key range built from the caller's range (or nil)")
	}
	if fn := resolveFn(p, r, "leveldb", "tFiles.newIndexIterator"); fn != nil {
		// tf[start:limit]: start = first table whose LARGEST key is >= Start (it may span Start),
		// limit = first table whose SMALLEST key is >= Limit (exclusive)
		bound := func(field string) VMatch {
			return func(v ssa.Value) bool {
				u, ok := stripConv(v).(*ssa.UnOp)
				if !ok {
					return false
				}
				_, f, _, ok := fieldOf(u.X)
				return ok && f == field
			}
		}
		checkCallArg(p, r, fn, "level-start-spanning-table", "(leveldb.tFiles).searchMax", 2, bound("Start"), "slice.Start (searchMax: the first table that ends at or after Start)")
		checkCallArg(p, r, fn, "level-limit-exclusive", "(leveldb.tFiles).searchMin", 2, bound("Limit"), "slice.Limit (searchMin: the first table that begins at or after Limit)")
		r.Site(1)
		okSl := false
		instrs(fn, func(_ *ssa.BasicBlock, _ int, in ssa.Instruction) {
			sl, ok := in.(*ssa.Slice)
			if !ok || sl.Low == nil || sl.High == nil || namedOf(sl.Type()) != "leveldb.tFiles" {
				return
			}
			lo := mOriginAny(func(v ssa.Value) bool { _, ok := callValue(v, "(leveldb.tFiles).searchMax"); return ok })(sl.Low)
			hi := mOriginAny(func(v ssa.Value) bool { _, ok := callValue(v, "(leveldb.tFiles).searchMin"); return ok })(sl.High)
			if lo && hi {
				okSl = true
			}
		})
		r.Check(okSl, fnName(fn), "level-slice-bounds", "the level is sliced tf[searchMax(Start) : searchMin(Limit)]", "the slice bounds have other origins", p.Pos(fn.Pos()))
	}
	if fn := resolveFn(p, r, "leveldb", "(*tFilesArrayIndexer).Get"); fn != nil {
		for _, c := range findCalls(fn, "(*leveldb.tOps).newIterator") {
			r.Site(1)
			a := callCommon(c).Args[2]
			ok := originsAll(a, func(l ssa.Value) bool {
				return isNilConst(l) || isFieldLoad(l, "leveldb.tFilesArrayIndexer", "slice")
			})
			r.Check(ok, fnName(fn), "indexer-passes-range", "tables reached through the level index are iterated with the indexer's range (nil only for interior tables)", "newIterator receives another range", p.Pos(c.Pos()))
		}
		first := cmpAtom("i==0", token.EQL, mParam("i"), mConstInt(0))
		last := cmpAtom("i==Len()-1", token.EQL, mParam("i"), func(v ssa.Value) bool {
			b, ok := isBin(v, token.SUB)
			return ok && mConstInt(1)(b.Y)
		})
		checkGuard(p, r, GuardSpec{Rule: "unranged-only-interior", Fn: fn, Target: func(in ssa.Instruction) bool {
			return isCallTo(in, "(*leveldb.tOps).newIterator") && isNilConst(callCommon(in).Args[2])
		}, TargetDesc: "iterating a table without the range", Atoms: []Atom{first, last}, G: func(a []bool) bool { return !a[0] && !a[1] }, GDesc: "the table is neither the first nor the last of the slice (only the edge tables can hold out-of-range keys)", MinTargets: 1})
	}
}
