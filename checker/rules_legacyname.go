package main

import (
	"fmt"

	"golang.org/x/tools/go/ssa"
)

// ruleRenameReplacesLegacyName: a table descriptor names NNNNNN.ldb or, for files of old versions,
// NNNNNN.sst; Open, List and Remove understand both. fileStorage.Rename puts a file under the
// descriptor's CURRENT name — if the destination still existed under its legacy name it must be
// removed, or the descriptor names two files: List reports the table twice, and Recover (which
// rebuilds a damaged table and renames the result over it) fails its final consistency check (D16).
func ruleRenameReplacesLegacyName(p *Prog, r *Report, rule string) {
	r.Begin(rule, "E-ORD", "fileStorage.Rename leaves one file per descriptor: after a successful rename every path to a nil return removes the destination's legacy-named file when the descriptor has a legacy name (fsHasOldName → os.Remove(fsGenOldName(newfd))); the legacy and current suffixes of tables are both parsed as tables", 3)
	defer r.End()
	fn := resolveFn(p, r, "leveldb/storage", "(*fileStorage).Rename")
	if fn == nil {
		return
	}
	ren := evCall("leveldb/storage.rename")
	if !requireSites(p, r, fn, "rename", "rename(old, new)", ren, 1) {
		return
	}
	hasOld := boolAtom("fsHasOldName(newfd)", mCall("leveldb/storage.fsHasOldName"))
	rmOld := func(in ssa.Instruction) bool {
		c, ok := in.(*ssa.Call)
		if !ok {
			return false
		}
		f := staticCallee(&c.Call)
		if f == nil || f.Pkg == nil || f.Pkg.Pkg.Path() != "os" || f.Name() != "Remove" {
			return false
		}
		// the path is built from fsGenOldName(...)
		return dependsOnCall(c.Call.Args[0], "leveldb/storage.fsGenOldName", 8)
	}
	r.Site(1)
	nilRet := func(in ssa.Instruction) bool {
		ret, ok := in.(*ssa.Return)
		return ok && len(ret.Results) == 1 && isNilConst(retValue(ret, ret.Results[0]))
	}
	as := []Atom{hasOld}
	vs := []bool{true}
	if w := findPathV(after(fn, ren), andEdges(noErrEdges, atomEdges(as, vs)), rmOld, nilRet, atomVals(as, vs)); w != nil {
		r.Fail(fnName(fn), "legacy-named-destination-removed", "after a successful rename the destination's legacy-named file is removed", "with fsHasOldName(newfd) a success path returns nil without os.Remove(fsGenOldName(newfd)): the descriptor then names two files (NNNNNN.ldb and NNNNNN.sst)", p.posOfLast(w, nilRet), p.renderPath(w))
	} else {
		r.OK(fnName(fn), "legacy-named-destination-removed", "after a successful rename the destination's legacy-named file is removed")
	}
	// the remove follows the rename (not the other way round: the old file must survive a failed rename)
	ordPrecede(p, r, fn, "remove-after-rename", nil, ren, "rename(old, new)", rmOld, "os.Remove(legacy name)")
	// both suffixes are tables for the parser, and the generators produce exactly those
	if gen := resolveFn(p, r, "leveldb/storage", "fsGenOldName"); gen != nil {
		r.Site(1)
		ok := false
		instrs(gen, func(_ *ssa.BasicBlock, _ int, in ssa.Instruction) {
			if c, isC := in.(*ssa.Call); isC && isCallTo(c, "fmt.Sprintf") {
				if k, isK := c.Call.Args[0].(*ssa.Const); isK && k.Value != nil && k.Value.ExactString() == `"%06d.sst"` {
					ok = true
				}
			}
		})
		r.Check(ok, fnName(gen), "legacy-suffix", "the legacy table name is NNNNNN.sst", "format string changed", p.Pos(gen.Pos()))
	}
	if ps := resolveFn(p, r, "leveldb/storage", "fsParseName"); ps != nil {
		r.Site(1)
		// the switch on the suffix compares with "ldb" and "sst" (both → TypeTable is checked by the table type constant store)
		seen := map[string]bool{}
		instrs(ps, func(_ *ssa.BasicBlock, _ int, in ssa.Instruction) {
			if b, ok := in.(*ssa.BinOp); ok {
				for _, v := range []ssa.Value{b.X, b.Y} {
					if k, isK := v.(*ssa.Const); isK && k.Value != nil {
						seen[k.Value.ExactString()] = true
					}
				}
			}
		})
		r.Check(seen[`"ldb"`] && seen[`"sst"`], fnName(ps), "both-suffixes-parsed", "List recognises both table suffixes", fmt.Sprintf("suffix constants compared: %v", seen), p.Pos(ps.Pos()))
	}
}

// dependsOnCall: v is computed (through calls, conversions, slices and variadic argument arrays)
// from the result of a call to callee.
func dependsOnCall(v ssa.Value, callee string, depth int) bool {
	if depth == 0 || v == nil {
		return false
	}
	v = stripConv(v)
	switch x := v.(type) {
	case *ssa.Call:
		if isCallTo(x, callee) {
			return true
		}
		for _, a := range x.Call.Args {
			if dependsOnCall(a, callee, depth-1) {
				return true
			}
		}
	case *ssa.Slice:
		return dependsOnCall(x.X, callee, depth-1)
	case *ssa.Alloc:
		// variadic argument array: look at what is stored into its elements
		for _, ref := range *x.Referrers() {
			if ia, ok := ref.(*ssa.IndexAddr); ok {
				for _, r2 := range *ia.Referrers() {
					if st, ok := r2.(*ssa.Store); ok && st.Addr == ia && dependsOnCall(st.Val, callee, depth-1) {
						return true
					}
				}
			}
		}
	case *ssa.Phi:
		for _, e := range x.Edges {
			if dependsOnCall(e, callee, depth-1) {
				return true
			}
		}
	case *ssa.MakeInterface:
		return dependsOnCall(x.X, callee, depth-1)
	case *ssa.BinOp:
		return dependsOnCall(x.X, callee, depth-1) || dependsOnCall(x.Y, callee, depth-1)
	}
	return false
}
