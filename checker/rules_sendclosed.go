package main

import (
	"fmt"

	"golang.org/x/tools/go/ssa"
)

// ruleNoSendOnClosedChannel: a channel held in a DB / session field that some goroutine closes
// (builtin close) must not be sent on afterwards — a send on a closed channel panics, also inside a
// select with a default. Today that is db.memPool: mpoolDrain closes it about a second after Close,
// and iterators, snapshots' readers and transactions may drop the last reference to a buffer (which
// returns it to the pool) long after Close. Every send on such a channel sits behind a test of the
// closed flag. (closeC channels are closed too but never sent on — checked as well.)
func ruleNoSendOnClosedChannel(p *Prog, r *Report, rule string) {
	r.Begin(rule, "E-GUARD", "no send on a channel that gets closed: for every DB/session field channel with a close() site, each send (plain or select case) is reached only where isClosed() was tested false", 2)
	defer r.End()
	type fkey struct{ typ, field string }
	closed := map[fkey]string{}
	n := 0
	for _, fn := range p.SrcFuncs("leveldb") {
		fn := fn
		instrs(fn, func(_ *ssa.BasicBlock, _ int, in ssa.Instruction) {
			cc := callCommon(in)
			if cc == nil {
				return
			}
			b, ok := cc.Value.(*ssa.Builtin)
			if !ok || b.Name() != "close" || len(cc.Args) != 1 {
				return
			}
			u, ok := stripConv(cc.Args[0]).(*ssa.UnOp)
			if !ok {
				return
			}
			if t, f, _, ok := fieldOf(u.X); ok {
				closed[fkey{t, f}] = p.Pos(in.Pos())
			}
		})
	}
	r.Site(len(closed))
	isClosedChan := func(v ssa.Value) (fkey, bool) {
		u, ok := stripConv(v).(*ssa.UnOp)
		if !ok {
			return fkey{}, false
		}
		t, f, _, ok := fieldOf(u.X)
		if !ok {
			return fkey{}, false
		}
		_, isC := closed[fkey{t, f}]
		return fkey{t, f}, isC
	}
	flag := boolAtom("isClosed()", mCall("(*leveldb.DB).isClosed"))
	for _, fn := range p.SrcFuncs("leveldb") {
		var sends []ssa.Instruction
		var which []fkey
		instrs(fn, func(_ *ssa.BasicBlock, _ int, in ssa.Instruction) {
			switch x := in.(type) {
			case *ssa.Send:
				if k, ok := isClosedChan(x.Chan); ok {
					sends, which = append(sends, in), append(which, k)
				}
			case *ssa.Select:
				for _, st := range x.States {
					if st.Dir == 1 { // types.SendOnly
						if k, ok := isClosedChan(st.Chan); ok {
							sends, which = append(sends, in), append(which, k)
						}
					}
				}
			}
		})
		for i, s := range sends {
			n++
			r.Fn(fnName(fn))
			this := s
			k := which[i]
			checkGuard(p, r, GuardSpec{Rule: fmt.Sprintf("send-only-while-open@%s.%s#%d", k.typ, k.field, i), Fn: fn,
				Target: func(in ssa.Instruction) bool { return in == this }, TargetDesc: "sending on " + k.typ + "." + k.field + " (closed at " + closed[k] + ")",
				Atoms: []Atom{flag}, G: func(a []bool) bool { return !a[0] }, GDesc: "the DB is not closed", MinTargets: 1})
		}
	}
	r.Site(n)
	r.Check(len(closed) >= 2, "leveldb", "closable-channels", "the closed channel fields were found (closeC, memPool)", fmt.Sprintf("%d", len(closed)), "")
	r.Check(n >= 1, "leveldb", "send-sites", "sends on a closable channel were found (mpoolPut)", fmt.Sprintf("%d", n), "")
}
