package main

import (
	"fmt"
	"go/token"

	"golang.org/x/tools/go/ssa"
)

func init() {
	register(&propDef{
		id:          "C14",
		run:         runC14,
		explanation: "Static analysis of the in-memory buffer's lock discipline and bookkeeping shape: (1) guarded-by — kvData, nodeData, n, kvSize, maxHeight are read under mu (R or W) and written only under mu.Lock; prevNode is touched only under mu.Lock; the search helpers and the iterator's fill carry a requires-lock summary that is checked at every call site; (2) the predecessor-recording search findGE(…, prev=true) is called only with the write lock held; (3) every exported method pairs its lock on every exit and iterator methods test Released() first and re-acquire the read lock on every step; (4) Put copies the caller's key/value into the arena and the arena is append-only (readers hold sub-slices of it); (5) the counters: n is incremented only for a new key and decremented only for an existing one, an overwrite repoints the node without touching the links. These are the conditions the concurrent-reader safety argument needs; the skip-list link order, Len/Size arithmetic and iterator results under concurrent inserts are NOT decided.",
		notCovered:  "skip-list link order and search correctness; Len/Size accounting over all histories; iterator results under concurrent inserts",
		assumptions: []string{"sync.RWMutex semantics"},
	})
}

const tMem = "leveldb/memdb.DB"
const lkMem = "leveldb/memdb.DB.mu"

var gbyMemdb = gbyTable{
	fields: []gbyField{
		{tMem, "kvData", lkMem}, {tMem, "nodeData", lkMem}, {tMem, "n", lkMem}, {tMem, "kvSize", lkMem}, {tMem, "maxHeight", lkMem}, {tMem, "prevNode", lkMem},
	},
	requires: map[string][]string{
		"(*leveldb/memdb.DB).findGE":     {lkMem + "/R"},
		"(*leveldb/memdb.DB).findLT":     {lkMem + "/R"},
		"(*leveldb/memdb.DB).findLast":   {lkMem + "/R"},
		"(*leveldb/memdb.DB).randHeight": {lkMem},
		"(*leveldb/memdb.dbIter).fill":   {lkMem + "/R"},
	},
	// Put repoints an existing node in place (offset and value length), so node words are guarded data
	elems: map[string]bool{tMem + ".nodeData": true},
	exceptions: map[string]string{
		"leveldb/memdb.New|*": "construction before the value is shared",
		"(*leveldb/memdb.DB).findGE|leveldb/memdb.DB.prevNode": "written only under the prev flag (C14.5 predecessors-only-when-asked); every prev=true caller holds the write lock (C14.2)",
	},
}

func runC14(p *Prog, r *Report) {
	if want("C14.1") {
		ruleGuardedBy(p, r, "C14.1", "guarded-by: memdb.DB.{kvData,nodeData,n,kvSize,maxHeight,prevNode} accessed only under DB.mu (exclusive for writes); findGE/findLT/findLast/randHeight/dbIter.fill require the lock from their callers", []string{"leveldb/memdb"}, gbyMemdb, 30)
	}
	if want("C14.2") {
		r.Begin("C14.2", "E-PAIR", "findGE(key, prev=true) records predecessors in the shared prevNode array: it is called only with the WRITE lock held; all other searches pass prev=false", 4)
		sp := lockSpec()
		for _, fn := range p.SrcFuncs("leveldb/memdb") {
			calls := findCalls(fn, "(*leveldb/memdb.DB).findGE")
			if len(calls) == 0 {
				continue
			}
			r.Fn(fnName(fn))
			res := sp.Analyze(fn, nil, func(in ssa.Instruction) bool { return isCallTo(in, "(*leveldb/memdb.DB).findGE") })
			for _, c := range calls {
				r.Site(1)
				cc := callCommon(c)
				bv, isC := constBool(cc.Args[2])
				if !isC {
					r.Fail(fnName(fn), "prev-flag-not-constant", "the prev flag of findGE is a reviewed constant", "non-constant prev flag at "+p.Pos(c.Pos()), p.Pos(c.Pos()), nil)
					continue
				}
				if !bv {
					r.OK(fnName(fn), "read-search@"+branchLabel(c), "search without predecessor recording")
					continue
				}
				ok := true
				for _, st := range res.At[c] {
					if st.cnt[lkMem] <= 0 {
						ok = false
					}
				}
				r.Check(ok && len(res.At[c]) > 0, fnName(fn), "prev-search-under-write-lock", "findGE(…, true) runs with mu.Lock held", "findGE(…, true) at "+p.Pos(c.Pos())+" without the write lock: concurrent searches would scribble over each other's predecessor array", p.Pos(c.Pos()))
			}
		}
		r.End()
	}
	if want("C14.3") {
		ruleLockPairing(p, r, "C14.3", []string{"leveldb/memdb"}, 20)
		r.Begin("C14.3b", "E-GUARD", "memdb iterator steps re-acquire the read lock: every movement method that reads the arena takes p.mu.RLock first", 5)
		for _, name := range []string{"(*dbIter).First", "(*dbIter).Last", "(*dbIter).Seek", "(*dbIter).Next", "(*dbIter).Prev"} {
			if fn := resolveFn(p, r, "leveldb/memdb", name); fn != nil {
				rlock := func(in ssa.Instruction) bool { res, d, ok := mutexOp(in); return ok && d > 0 && res == lkMem+"/R" }
				reads := evCall("(*leveldb/memdb.dbIter).fill")
				ordPrecede(p, r, fn, "rlock-before-read", nil, rlock, "p.mu.RLock()", reads, "reading the arena (fill)")
			}
		}
		r.End()
	}
	if want("C14.4") {
		r.Begin("C14.4", "E-FLOW", "Put copies and the arena is append-only: memdb.Put / Delete never retain or modify the caller's key/value; no element of kvData is ever overwritten in place (only append and re-slicing to [:0] in Reset)", 4)
		tc := newTaint(p)
		for _, name := range []string{"(*DB).Put", "(*DB).Delete", "(*DB).Get", "(*DB).Find", "(*DB).Contains"} {
			fn := resolveFn(p, r, "leveldb/memdb", name)
			if fn == nil {
				continue
			}
			for i, pa := range fn.Params {
				if !isByteSlice(pa.Type()) {
					continue
				}
				r.Site(1)
				s := tc.analyzeParam(fn, i)
				r.Check(len(s.issues) == 0, fnName(fn), "param:"+pa.Name(), "parameter "+pa.Name()+" is neither retained nor modified", fmt.Sprint(s.issues), p.Pos(fn.Pos()))
			}
		}
		bad := ""
		for _, fn := range p.SrcFuncs("leveldb/memdb") {
			instrs(fn, func(_ *ssa.BasicBlock, _ int, in ssa.Instruction) {
				if ia, ok := in.(*ssa.IndexAddr); ok && isFieldLoad(ia.X, tMem, "kvData") {
					for _, ref := range *ia.Referrers() {
						if st, ok := ref.(*ssa.Store); ok && st.Addr == ia {
							bad = p.Pos(st.Pos())
						}
					}
				}
				if c, ok := in.(*ssa.Call); ok && isCallTo(c, "builtin:copy") && len(c.Call.Args) == 2 {
					if sl, ok := c.Call.Args[0].(*ssa.Slice); ok && isFieldLoad(sl.X, tMem, "kvData") {
						bad = p.Pos(c.Pos())
					}
				}
			})
		}
		r.Site(1)
		r.Check(bad == "", "leveldb/memdb.DB.kvData", "arena-append-only", "existing bytes of the arena are never overwritten (concurrent readers and earlier results hold sub-slices of it)", "in-place write into kvData at "+bad, bad)
		// stores to kvData are appends onto kvData (or the reset to [:0] / initial make)
		okAll := true
		n := 0
		for _, fn := range p.SrcFuncs("leveldb/memdb") {
			instrs(fn, func(_ *ssa.BasicBlock, _ int, in ssa.Instruction) {
				st, ok := in.(*ssa.Store)
				if !ok || !isFieldAddr(st.Addr, tMem, "kvData") {
					return
				}
				n++
				switch v := st.Val.(type) {
				case *ssa.Call:
					if !(isCallTo(v, "builtin:append") && isFieldLoad(v.Call.Args[0], tMem, "kvData")) {
						okAll = false
					}
				case *ssa.Slice, *ssa.MakeSlice:
				default:
					okAll = false
				}
			})
		}
		r.Site(n)
		r.Check(okAll && n >= 4, "leveldb/memdb.DB.kvData", "arena-grows-by-append", "kvData is only ever assigned append(kvData, …), a re-slice or a fresh make", fmt.Sprintf("%d stores, all of the allowed forms: %v", n, okAll), "")
		r.End()
	}
	if want("C14.10") {
		ruleMemdbIterDirection(p, r, "C14.10")
	}
	if want("C14.9") {
		ruleMemdbReset(p, r, "C14.9")
	}
	if want("C14.8") {
		ruleSkipListSearch(p, r, "C14.8")
	}
	if want("C14.7") {
		ruleMemdbIterRange(p, r, "C14.7")
	}
	if want("C14.6") {
		ruleMemdbComparer(p, r, "C14.6")
	}
	if want("C14.5") {
		r.Begin("C14.5", "E-GUARD", "counters and links: Put increments n (and adds key+value to kvSize) only for a new key and leaves the links untouched on an overwrite; Delete unlinks and decrements only for an existing key and reports ErrNotFound otherwise", 4)
		exact := func(callee string) Atom {
			return boolAtom("exact", mExtract(1, callee))
		}
		if fn := resolveFn(p, r, "leveldb/memdb", "(*DB).Put"); fn != nil {
			ex := exact("(*leveldb/memdb.DB).findGE")
			incN := func(in ssa.Instruction) bool {
				st, ok := in.(*ssa.Store)
				if !ok || !isFieldAddr(st.Addr, tMem, "n") {
					return false
				}
				b, ok := isBin(st.Val, token.ADD)
				return ok && mConstInt(1)(b.Y)
			}
			checkGuard(p, r, GuardSpec{Rule: "count-only-new-keys", Fn: fn, Target: incN, TargetDesc: "p.n++", Atoms: []Atom{ex}, G: func(a []bool) bool { return !a[0] }, GDesc: "key not present (¬exact)", MinTargets: 1})
			checkGuard(p, r, GuardSpec{Rule: "height-only-new-keys", Fn: fn, Target: evCall("(*leveldb/memdb.DB).randHeight"), TargetDesc: "choosing a tower height / linking a new node", Atoms: []Atom{ex}, G: func(a []bool) bool { return !a[0] }, GDesc: "¬exact", MinTargets: 1})
			// a new key IS counted
			if w := findPathV(entryPoint(fn), atomEdges([]Atom{ex}, []bool{false}), incN, isReturn, atomVals([]Atom{ex}, []bool{false})); w != nil {
				r.Fail(fnName(fn), "new-key-not-counted", "a newly inserted key increments n", "with ¬exact a path returns without p.n++", p.posOfLast(w, isReturn), p.renderPath(w))
			} else {
				r.OK(fnName(fn), "new-key-counted", "a newly inserted key increments n")
			}
			checkCallArg(p, r, fn, "search-records-predecessors", "(*leveldb/memdb.DB).findGE", 2, func(v ssa.Value) bool { b, ok := constBool(v); return ok && b }, "prev=true (the insertion needs the predecessors)")
		}
		if fn := resolveFn(p, r, "leveldb/memdb", "(*DB).Delete"); fn != nil {
			ex := exact("(*leveldb/memdb.DB).findGE")
			decN := func(in ssa.Instruction) bool {
				st, ok := in.(*ssa.Store)
				if !ok || !isFieldAddr(st.Addr, tMem, "n") {
					return false
				}
				b, ok := isBin(st.Val, token.SUB)
				return ok && mConstInt(1)(b.Y)
			}
			checkGuard(p, r, GuardSpec{Rule: "uncount-only-existing", Fn: fn, Target: decN, TargetDesc: "p.n--", Atoms: []Atom{ex}, G: func(a []bool) bool { return a[0] }, GDesc: "key present (exact)", MinTargets: 1})
			okRet := func(in ssa.Instruction) bool {
				ret, ok := in.(*ssa.Return)
				return ok && len(ret.Results) == 1 && isNilConst(retValue(ret, ret.Results[0]))
			}
			checkGuard(p, r, GuardSpec{Rule: "absent-key-reported", Fn: fn, Target: okRet, TargetDesc: "return nil", Atoms: []Atom{ex}, G: func(a []bool) bool { return a[0] }, GDesc: "exact", MinTargets: 1})
		}
		for _, name := range []string{"(*DB).Get", "(*DB).Contains"} {
			if fn := resolveFn(p, r, "leveldb/memdb", name); fn != nil {
				checkCallArg(p, r, fn, "read-search", "(*leveldb/memdb.DB).findGE", 2, func(v ssa.Value) bool { b, ok := constBool(v); return ok && !b }, "prev=false")
			}
		}
		if fn := resolveFn(p, r, "leveldb/memdb", "(*DB).findGE"); fn != nil {
			// uses the configured comparer on the stored key vs the probe
			n := countInstr(fn, func(in ssa.Instruction) bool {
				c, ok := in.(*ssa.Call)
				return ok && c.Call.IsInvoke() && c.Call.Method.Name() == "Compare"
			})
			r.Site(1)
			r.Check(n == 1, fnName(fn), "uses-comparer", "the skip-list search orders keys with the configured comparer", fmt.Sprintf("%d comparer calls", n), p.Pos(fn.Pos()))
			prev := boolAtom("prev", mParam("prev"))
			checkGuard(p, r, GuardSpec{Rule: "predecessors-only-when-asked", Fn: fn, Target: func(in ssa.Instruction) bool {
				st, ok := in.(*ssa.Store)
				if !ok {
					return false
				}
				ia, ok := st.Addr.(*ssa.IndexAddr)
				return ok && isFieldAddr(ia.X, tMem, "prevNode")
			}, TargetDesc: "writing the shared predecessor array", Atoms: []Atom{prev}, G: func(a []bool) bool { return a[0] }, GDesc: "prev", MinTargets: 1})
		}
		r.End()
	}
}
