package main

import (
	"fmt"
	"go/token"
	"strconv"

	"golang.org/x/tools/go/ssa"
)

func fmtInt(n int) string { return strconv.Itoa(n) }

func indexOf(in ssa.Instruction) int {
	for i, x := range in.Block().Instrs {
		if x == in {
			return i
		}
	}
	return -1
}

func isWriteInvoke(in ssa.Instruction) bool {
	cc := callCommon(in)
	return cc != nil && cc.IsInvoke() && cc.Method.Name() == "Write"
}

// checkCallArg: every call in fn to callee (>= 1 required) passes an idx-th argument
// (receiver = 0 for static method calls; interface invokes exclude the receiver) matching m.
func checkCallArg(p *Prog, r *Report, fn *ssa.Function, kind, callee string, idx int, m VMatch, desc string) {
	what := fmt.Sprintf("argument %d of every %s call is %s", idx, callee, desc)
	calls := findCalls(fn, callee)
	if len(calls) == 0 {
		r.Fail(fnName(fn), kind+":unresolved-anchor", what, "no call to "+callee+" found", p.Pos(fn.Pos()), nil)
		return
	}
	r.Site(len(calls))
	for _, c := range calls {
		if !argIs(c, idx, m) {
			r.Fail(fnName(fn), kind+":wrong-origin", what, fmt.Sprintf("call at %s passes a value of a different origin", p.Pos(c.Pos())), p.Pos(c.Pos()), nil)
			return
		}
	}
	r.OK(fnName(fn), kind, what)
}

func checkCallArgAll(p *Prog, r *Report, fn *ssa.Function, kind, callee string, idx int, m VMatch, desc string) {
	checkCallArg(p, r, fn, kind, callee, idx, m, desc)
}

// testedValue: for a nil-test on a load of a local cell, the value most recently stored into
// that cell earlier in the same block (the `err = f(); if err != nil` idiom with a heap-spilled
// named result).
func testedValue(x ssa.Value) ssa.Value {
	u, ok := stripConv(x).(*ssa.UnOp)
	if !ok || u.Op != token.MUL {
		return x
	}
	cell := resolveCell(u.X)
	if cell == nil {
		return x
	}
	b := u.Block()
	idx := indexOf(u)
	for i := idx - 1; i >= 0; i-- {
		if st, ok := b.Instrs[i].(*ssa.Store); ok && resolveCell(st.Addr) == cell {
			return st.Val
		}
	}
	return x
}

// ---- C01.4 / C04.10 ------------------------------------------------------------------

// ruleRotatingCommitCarriesRecord: in session.commit, every record handed to newManifest is the
// edit r itself, or a fresh record that was fed r's journal and sequence numbers.
func ruleRotatingCommitCarriesRecord(p *Prog, r *Report, rule string) {
	r.Begin(rule, "E-FLOW", "a manifest-rotating commit carries the edit's own journal number and sequence number: the record passed to newManifest is r, or a fresh record whose setJournalNum/setSeqNum were fed from r", 2)
	defer r.End()
	fn := resolveFn(p, r, "leveldb", "(*session).commit")
	if fn == nil {
		return
	}
	var rparam *ssa.Parameter
	for _, pa := range fn.Params {
		if namedOf(pa.Type()) == "leveldb.sessionRecord" {
			rparam = pa
		}
	}
	if rparam == nil {
		r.Fail(fnName(fn), "unresolved-anchor", "commit has a *sessionRecord parameter", "not found", p.Pos(fn.Pos()), nil)
		return
	}
	calls := findCalls(fn, fNewMan)
	if len(calls) == 0 {
		r.Fail(fnName(fn), "unresolved-anchor", "commit calls newManifest", "no call found", p.Pos(fn.Pos()), nil)
		return
	}
	_ = func(field string) VMatch {
		return func(v ssa.Value) bool {
			u, ok := stripConv(v).(*ssa.UnOp)
			if !ok || u.Op != token.MUL {
				return false
			}
			fa, ok := u.X.(*ssa.FieldAddr)
			if !ok {
				return false
			}
			_, f, base, ok := fieldOf(fa)
			return ok && f == field && base == rparam
		}
	}
	for _, c := range calls {
		r.Site(1)
		cc := callCommon(c)
		arg := cc.Args[1]
		what := "record passed to newManifest carries r's journal and sequence numbers"
		switch {
		case arg == rparam:
			r.OK(fnName(fn), "record-is-r@"+branchLabel(c), what)
		case isNilConst(arg) && func() bool { _, ok := callValue(cc.Args[2], "(*leveldb.session).version"); return ok }():
			// a snapshot of the CURRENT version (before this edit): legal only if the edit itself is
			// still written afterwards (flushManifest(r) / newManifest carrying r) before it is installed
			writesR := func(in ssa.Instruction) bool {
				if in == c {
					return false
				}
				if isCallTo(in, fFlushMan) {
					return argIs(in, 1, func(v ssa.Value) bool { return v == rparam })
				}
				return isCallTo(in, fNewMan)
			}
			if w := findPath([]point{{c.Block(), indexOf(c) + 1}}, nil, writesR, evCall(fSetVer)); w != nil {
				r.Fail(fnName(fn), "rotation-drops-record", what, "after newManifest(nil, currentVersion) at "+p.Pos(c.Pos())+" the version can be installed without the edit being written", p.Pos(c.Pos()), p.renderPath(w))
			} else {
				r.OK(fnName(fn), "pre-edit-snapshot@"+branchLabel(c), "a snapshot of the current (pre-edit) version is followed by a write of the edit itself before install")
			}
		case isNilConst(arg):
			r.Fail(fnName(fn), "rotation-drops-record", what,
				fmt.Sprintf("newManifest(nil, ..) at %s: the snapshot record is filled from the OLD session state (stJournalNum/stSeqNum); the edit's journal/sequence numbers are lost from the manifest and the session", p.Pos(c.Pos())), p.Pos(c.Pos()), nil)
		default:
			// the fresh record may be built in place, or by a helper that is handed r
			scope, base := fn, ssa.Value(rparam)
			al, ok := arg.(*ssa.Alloc)
			if hc, isCall := arg.(*ssa.Call); isCall && !ok {
				if callee := staticCallee(&hc.Call); callee != nil && len(callee.Blocks) > 0 {
					for i, a := range hc.Call.Args {
						if a == ssa.Value(rparam) && i < len(callee.Params) {
							scope, base = callee, callee.Params[i]
						}
					}
					if scope == callee {
						instrs(callee, func(_ *ssa.BasicBlock, _ int, in ssa.Instruction) {
							if ret, isRet := in.(*ssa.Return); isRet && len(ret.Results) == 1 {
								if a2, isAl := retValue(ret, ret.Results[0]).(*ssa.Alloc); isAl {
									al, ok = a2, true
								}
							}
						})
					}
				}
			}
			fromBase := func(field string) VMatch {
				return func(v ssa.Value) bool {
					u, ok := stripConv(v).(*ssa.UnOp)
					if !ok || u.Op != token.MUL {
						return false
					}
					fa, ok := u.X.(*ssa.FieldAddr)
					if !ok {
						return false
					}
					_, f, b, ok := fieldOf(fa)
					return ok && f == field && b == base
				}
			}
			okJ, okS := false, false
			if ok {
				for _, in := range findCalls(scope, fSetJournalNum) {
					if argIs(in, 0, func(v ssa.Value) bool { return v == al }) && argIs(in, 1, fromBase("journalNum")) {
						okJ = true
					}
				}
				for _, in := range findCalls(scope, fSetSeqNum) {
					if argIs(in, 0, func(v ssa.Value) bool { return v == al }) && argIs(in, 1, fromBase("seqNum")) {
						okS = true
					}
				}
			}
			if okJ && okS {
				r.OK(fnName(fn), "record-fed-from-r@"+branchLabel(c), what)
			} else {
				r.Fail(fnName(fn), "rotation-drops-record", what,
					fmt.Sprintf("record passed at %s is neither r nor a fresh record fed from r.journalNum and r.seqNum (journal fed: %v, seq fed: %v)", p.Pos(c.Pos()), okJ, okS), p.Pos(c.Pos()), nil)
			}
		}
	}
}

func branchLabel(in ssa.Instruction) string {
	return in.Block().Comment + "#" + fmtInt(in.Block().Index)
}

// ---- C01.5 / C04.11 / C11.3 ------------------------------------------------------------

// ruleTrSeqAfterFlush: OpenTransaction captures db.seq only after waiting for an in-flight
// frozen buffer (or after establishing that there is none).
func ruleTrSeqAfterFlush(p *Prog, r *Report, rule string) {
	r.Begin(rule, "E-ORD", "a transaction never records a sequence number ahead of an unflushed frozen buffer: in OpenTransaction every path to the capture of db.seq waits for the flush of the buffer frozen LAST (compTriggerWait(mcompCmdC) directly, or a helper that — with the constants passed at the call site — waits after its last newMem: rotateMem(n, true), not rotateMem(n, false)) or has found no frozen buffer", 1)
	defer r.End()
	fn := resolveFn(p, r, "leveldb", "(*DB).OpenTransaction")
	if fn == nil {
		return
	}
	capture := func(in ssa.Instruction) bool {
		u, ok := in.(*ssa.UnOp)
		return ok && u.Op == token.MUL && isFieldAddr(u.X, tDB, "seq")
	}
	// paths on which getFrozenMem() returned nil are exempt: nothing is in flight (and nothing can
	// appear: only the write-lock holder freezes buffers)
	noFrozen := func(b *ssa.BasicBlock, succ int) bool {
		cond, neg, ok := ifCond(b)
		if !ok {
			return true
		}
		x, trueNonNil, ok := condNilTest(cond)
		if !ok {
			return true
		}
		if _, isCall := callValue(x, "(*leveldb.DB).getFrozenMem"); !isCall {
			return true
		}
		if neg {
			trueNonNil = !trueNonNil
		}
		nilEdge := 0
		if trueNonNil {
			nilEdge = 1
		}
		return succ != nilEdge
	}
	ordPrecede(p, r, fn, "wait-before-seq-capture", noFrozen, evMemFlushWait(), "a wait for the frozen-buffer flush", capture, "the capture of db.seq")
	// a wait that FAILED is not a flush: wherever the wait is issued on behalf of a caller that goes
	// on (rotateMem with wait=true, OpenTransaction itself), its error is what the function returns
	for _, name := range []string{"(*DB).rotateMem", "(*DB).OpenTransaction"} {
		f := resolveFn(p, r, "leveldb", name)
		if f == nil {
			continue
		}
		wait := andPred(evCall("(*leveldb.DB).compTriggerWait"), predArg(1, mChanField(tDB, "mcompCmdC")))
		if countInstr(f, wait) == 0 {
			continue
		}
		r.Site(1)
		if w := failedCallEscapes(f, wait, "(*leveldb.DB).compTriggerWait"); w != nil {
			r.Fail(fnName(f), "failed-wait-is-failure", "when the wait for the frozen-buffer flush fails, the function returns that error", "a path on which compTriggerWait(mcompCmdC) returned an error reaches a return that does not carry it: the caller takes the buffer for flushed, a transaction records a sequence number ahead of writes that exist only in the old journal, and they are skipped at the next recovery", p.posOfLast(w, isReturn), p.renderPath(w))
		} else {
			r.OK(fnName(f), "failed-wait-is-failure", "when the wait for the frozen-buffer flush fails, the function returns that error")
		}
	}
}

// failedCallEscapes: a path from a call (matching `call`, callee `calleeName`) on which the call's
// error result is non-nil wherever it is tested, to a return whose error result is not that error:
// the value is neither returned directly nor stored into the returned result cell on the path.
func failedCallEscapes(fn *ssa.Function, call InstrPred, calleeName string) []*ssa.BasicBlock {
	isErr := mErrOfCall(calleeName)
	edges := onlyWhenErr(func(v ssa.Value) bool { return isErr(v) || isErr(testedValue(v)) })
	var witness []*ssa.BasicBlock
	for _, st := range after(fn, call) {
		// was the error stored into a cell right away (err = call())? then the cell carries it
		storedTo := map[*ssa.Alloc]bool{}
		fieldCarries := map[string]bool{} // "T.f" written with the error on this path (path-insensitive within the DFS: conservative enough for `w.err = f(); return w.err`)
		onPath := map[*ssa.BasicBlock]bool{}
		var path []*ssa.BasicBlock
		count := 0
		var dfs func(b *ssa.BasicBlock, from int, cells map[*ssa.Alloc]bool)
		dfs = func(b *ssa.BasicBlock, from int, cells map[*ssa.Alloc]bool) {
			if witness != nil || count > 2000 {
				return
			}
			count++
			onPath[b] = true
			path = append(path, b)
			defer func() { onPath[b] = false; path = path[:len(path)-1] }()
			cur := map[*ssa.Alloc]bool{}
			for k, v := range cells {
				cur[k] = v
			}
			for i := from; i < len(b.Instrs); i++ {
				switch x := b.Instrs[i].(type) {
				case *ssa.Store:
					if t, f, _, okF := fieldOf(x.Addr); okF {
						v := stripConv(resolveAlong(stripConv(x.Val), path))
						fieldCarries[t+"."+f] = isErr(v)
					}
					if al := resolveCell(x.Addr); al != nil {
						v := stripConv(resolveAlong(stripConv(x.Val), path))
						carried := isErr(v)
						if u, isU := v.(*ssa.UnOp); isU {
							// copied from another cell (e.g. `return nil, err` into named results)
							if src := resolveCell(u.X); src != nil && cur[src] {
								carried = true
							}
						}
						cur[al] = carried
					}
				case *ssa.Return:
					ok := false
					for _, res := range x.Results {
						if !isErrorType(res.Type()) {
							continue
						}
						for _, cand := range []ssa.Value{stripConv(res), stripConv(retValue(x, res))} {
							v := stripConv(resolveAlong(cand, path))
							if isErr(v) {
								ok = true
							}
							if u, isU := v.(*ssa.UnOp); isU {
								if al := resolveCell(u.X); al != nil && cur[al] {
									ok = true
								}
								if t, f, _, okF := fieldOf(u.X); okF && fieldCarries[t+"."+f] {
									ok = true
								}
							}
						}
					}
					if !ok {
						witness = append([]*ssa.BasicBlock(nil), path...)
					}
					return
				}
			}
			// a test of the failed call's error — directly, through the phis of this path, or through a
			// cell that carries it — is followed on its non-nil edge only
			nonNilOnly := -1
			if iff, ok := b.Instrs[len(b.Instrs)-1].(*ssa.If); ok {
				if x, trueNonNil, isTest := condNilTest(iff.Cond); isTest && isErrorType(x.Type()) {
					carried := false
					for _, cand := range []ssa.Value{stripConv(x), stripConv(testedValue(x))} {
						v := stripConv(resolveAlong(cand, path))
						if isErr(v) {
							carried = true
						}
						if u, isU := v.(*ssa.UnOp); isU {
							if al := resolveCell(u.X); al != nil && cur[al] {
								carried = true
							}
						}
					}
					if carried {
						nonNilOnly = 1
						if trueNonNil {
							nonNilOnly = 0
						}
					}
				}
			}
			for si, s := range b.Succs {
				if !edges(b, si) || onPath[s] {
					continue
				}
				if nonNilOnly >= 0 && si != nonNilOnly {
					continue
				}
				dfs(s, 0, cur)
			}
		}
		dfs(st.b, st.i, storedTo)
		if witness != nil {
			return witness
		}
	}
	return nil
}

// ---- C04.12 -----------------------------------------------------------------------------

func mStrictFlag(which string) VMatch {
	// value originates from GetStrict(opt.<which>)
	return mOriginAny(func(v ssa.Value) bool {
		c, ok := callValue(v, "(*leveldb/opt.Options).GetStrict")
		if !ok {
			return false
		}
		_ = c
		return true
	})
}

// ruleTornTailTolerance: recovery returns a decode error only under strict ∨ ¬corrupted.
func ruleTornTailTolerance(p *Prog, r *Report, rule string) {
	r.Begin(rule, "E-GUARD", "recovery tolerates a torn tail: a corrupted manifest/journal record aborts recovery only in strict mode; non-corruption errors always abort", 3)
	defer r.End()
	type site struct {
		pkg, fn  string
		decode   string
		nextCall string
	}
	sites := []site{
		{"leveldb", "(*session).recover", "(*leveldb.sessionRecord).decode", "(*leveldb/journal.Reader).Next"},
		{"leveldb", "(*DB).recoverJournal", "leveldb.decodeBatchToMem", "(*leveldb/journal.Reader).Next"},
		{"leveldb", "(*DB).recoverJournalRO", "leveldb.decodeBatchToMem", "(*leveldb/journal.Reader).Next"},
	}
	for _, s := range sites {
		fn := resolveFn(p, r, s.pkg, s.fn)
		if fn == nil {
			continue
		}
		dec := evCall(s.decode)
		if !requireSites(p, r, fn, "decode", s.decode, dec, 1) {
			continue
		}
		errOfDecode := func(v ssa.Value) bool {
			return mErrOfCall(s.decode)(testedValue(v)) || mErrOfCall(s.decode)(v)
		}
		atoms := []Atom{
			boolAtom("strict", mStrictFlag("")),
			boolAtom("IsCorrupted(err)", mCall("leveldb/errors.IsCorrupted")),
		}
		checkGuard(p, r, GuardSpec{
			Rule: "abort-only-if-strict-or-not-corrupted", Fn: fn,
			Starts: after(fn, dec), Target: isReturn, TargetDesc: "a return in the iteration in which " + s.decode + " failed",
			Atoms: atoms, G: func(a []bool) bool { return a[0] || !a[1] }, GDesc: "strict ∨ ¬IsCorrupted(err)",
			Extra: onlyWhenErr(errOfDecode), Avoid: evCall(s.nextCall), MinTargets: 1,
		})
		// and conversely: the record is skipped (next record read) after a failure only when !strict ∧ corrupted
		checkGuard(p, r, GuardSpec{
			Rule: "skip-only-if-tolerant-and-corrupted", Fn: fn,
			Starts: after(fn, dec), Target: evCall(s.nextCall), TargetDesc: "continuing with the next record after " + s.decode + " failed",
			Atoms: atoms, G: func(a []bool) bool { return !a[0] && a[1] }, GDesc: "¬strict ∧ IsCorrupted(err)",
			Extra: onlyWhenErr(errOfDecode), MinTargets: 1,
		})
	}
}
