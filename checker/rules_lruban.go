package main

import (
	"fmt"

	"golang.org/x/tools/go/ssa"
)

// ruleBanPermanent: Cache.Delete bans a node in the replacement policy: the policy drops its own
// handle and must never admit the node again, so that the value is finalised and the deletion
// callback runs as soon as the users' handles are gone. The ban lives in one place only — the
// lruNode hanging off Node.CacheData with ban = true. Hence: the flag is never cleared, and a
// function that is handed a Node clears that node's CacheData only where the record is known not
// to be a ban (otherwise the next Promote sees "not resident" and re-admits a deleted node).
func ruleBanPermanent(p *Prog, r *Report, rule string) {
	r.Begin(rule, "E-GUARD", "lru ban is permanent: lruNode.ban is only ever set to true; a policy method given a Node clears that node's CacheData only on paths where its record's ban flag was tested false (the eviction loops clear records taken from the recency list, which holds no banned record: Ban unlinks before it sets the flag)", 3)
	defer r.End()
	tN, tNode := "leveldb/cache.lruNode", "leveldb/cache.Node"
	n := 0
	for _, fn := range p.SrcFuncs("leveldb/cache") {
		fn := fn
		// (a) the flag is never cleared
		instrs(fn, func(_ *ssa.BasicBlock, _ int, in ssa.Instruction) {
			st, ok := in.(*ssa.Store)
			if !ok || !isFieldAddr(st.Addr, tN, "ban") {
				return
			}
			n++
			b, isC := constBool(st.Val)
			r.Check(isC && b, fnName(fn), "ban-only-set", "lruNode.ban is only ever set to true", "the ban flag is assigned something other than the constant true", p.Pos(st.Pos()))
		})
		// (b) clearing the record of a node passed in
		clearsParamRecord := func(in ssa.Instruction) bool {
			st, ok := in.(*ssa.Store)
			if !ok || !isNilConst(st.Val) || !isFieldAddr(st.Addr, tNode, "CacheData") {
				return false
			}
			_, _, base, _ := fieldOf(st.Addr)
			_, isParam := stripConv(base).(*ssa.Parameter)
			return isParam
		}
		if countInstr(fn, clearsParamRecord) == 0 {
			continue
		}
		n++
		banned := boolAtom("record.ban", mFieldLoad(tN, "ban"))
		checkGuard(p, r, GuardSpec{Rule: "ban-record-kept", Fn: fn, Target: clearsParamRecord, TargetDesc: "n.CacheData = nil for the node passed in", Atoms: []Atom{banned}, G: func(a []bool) bool { return !a[0] }, GDesc: "the record is not a ban", MinTargets: 1})
	}
	r.Site(n)
	r.Check(n >= 3, "leveldb/cache", "ban-sites", "the ban flag's stores and the record-clearing policy method were found", fmt.Sprintf("%d", n), "")
}
