package main

import (
	"go/token"

	"golang.org/x/tools/go/ssa"
)

// ruleMemdbIterDirection: the memdb iterator has no "before first" / "after last" states — when it
// is on no node, the flag `forward` says which end it left: Next from "before first" (¬forward)
// wraps to First and is exhausted otherwise, Prev from "after last" (forward) wraps to Last.
// So every move must leave the flag telling the side a miss is on: First, Seek, Next → forward,
// Last, Prev → ¬forward; a move that forgets it (a Seek past the end on a fresh iterator) makes
// the next step wrap around to the other end.
func ruleMemdbIterDirection(p *Prog, r *Report, rule string) {
	r.Begin(rule, "E-ORD", "memdb iterator direction flag: every return of First/Seek/Next leaves forward = true and of Last/Prev forward = false (set on the path, established by a test on the path, or delegated to First/Last; the released-iterator exit excepted); Next wraps to First only from an unpositioned ¬forward iterator and Prev to Last only from an unpositioned forward one", 7)
	defer r.End()
	tIt := "leveldb/memdb.dbIter"
	fwd := boolAtom("forward", mFieldLoad(tIt, "forward"))
	unpos := cmpAtom("node==0", token.EQL, mFieldLoad(tIt, "node"), mConstInt(0))
	isRet := func(in ssa.Instruction) bool { _, ok := in.(*ssa.Return); return ok }
	for _, m := range []struct {
		name   string
		expect bool
		wrap   string
	}{{"First", true, ""}, {"Seek", true, ""}, {"Next", true, "First"}, {"Last", false, ""}, {"Prev", false, "Last"}} {
		fn := resolveFn(p, r, "leveldb/memdb", "(*dbIter)."+m.name)
		if fn == nil {
			continue
		}
		exp := m.expect
		setsFlag := func(in ssa.Instruction) bool {
			st, ok := in.(*ssa.Store)
			if !ok || !isFieldAddr(st.Addr, tIt, "forward") {
				return false
			}
			b, ok := constBool(st.Val)
			return ok && b == exp
		}
		// every store to the flag in this move is the expected constant
		wrong := ""
		instrs(fn, func(_ *ssa.BasicBlock, _ int, in ssa.Instruction) {
			if st, ok := in.(*ssa.Store); ok && isFieldAddr(st.Addr, tIt, "forward") && !setsFlag(in) {
				wrong = p.Pos(st.Pos())
			}
		})
		r.Site(1)
		r.Check(wrong == "", fnName(fn), "direction-constant", "the flag is only ever set to this move's direction ("+boolStr(exp)+")", "a store to forward with another value", wrong)
		settled := func(in ssa.Instruction) bool {
			if setsFlag(in) {
				return true
			}
			// delegation to the sibling that sets the same direction, or the released exit
			if m.wrap != "" && isCallTo(in, "(*leveldb/memdb.dbIter)."+m.wrap) {
				return true
			}
			if st, ok := in.(*ssa.Store); ok && isFieldAddr(st.Addr, tIt, "err") {
				return true
			}
			return false
		}
		as, vs := []Atom{fwd}, []bool{!exp}
		if w := findPathV(entryPoint(fn), atomEdges(as, vs), settled, isRet, atomVals(as, vs)); w != nil {
			r.Fail(fnName(fn), "leaves-direction", "every return leaves the flag at this move's direction", "a path returns with forward possibly "+boolStr(!exp)+": after a miss the next step wraps around to the wrong end", p.posOfLast(w, isRet), p.renderPath(w))
		} else {
			r.OK(fnName(fn), "leaves-direction", "every return leaves the flag at this move's direction")
		}
		if m.wrap != "" {
			wrapCall := evCall("(*leveldb/memdb.dbIter)." + m.wrap)
			if !requireSites(p, r, fn, "wraps", m.wrap+"()", wrapCall, 1) {
				continue
			}
			// only from the opposite side …
			as, vs = []Atom{fwd}, []bool{exp}
			if w := findPathV(entryPoint(fn), atomEdges(as, vs), nil, wrapCall, atomVals(as, vs)); w != nil {
				r.Fail(fnName(fn), "wraps-from-other-side-only", m.name+" wraps to "+m.wrap+" only when the iterator left the other end", "with forward = "+boolStr(exp)+" (the iterator already ran off this end) the move wraps around", p.posOfLast(w, wrapCall), p.renderPath(w))
			} else {
				r.OK(fnName(fn), "wraps-from-other-side-only", m.name+" wraps to "+m.wrap+" only when the iterator left the other end")
			}
			// … and only when on no node
			as, vs = []Atom{unpos}, []bool{false}
			if w := findPathV(entryPoint(fn), atomEdges(as, vs), nil, wrapCall, atomVals(as, vs)); w != nil {
				r.Fail(fnName(fn), "wraps-unpositioned-only", m.name+" wraps only when on no node", "a positioned iterator can reach the wrap-around", p.posOfLast(w, wrapCall), p.renderPath(w))
			} else {
				r.OK(fnName(fn), "wraps-unpositioned-only", m.name+" wraps only when on no node")
			}
			// … and it does wrap then (exactness): unpositioned on the other side → the sibling is called
			as2, vs2 := []Atom{fwd, unpos}, []bool{!exp, true}
			rel := func(in ssa.Instruction) bool {
				st, ok := in.(*ssa.Store)
				return wrapCall(in) || (ok && isFieldAddr(st.Addr, tIt, "err"))
			}
			if w := findPathV(entryPoint(fn), atomEdges(as2, vs2), rel, isRet, atomVals(as2, vs2)); w != nil {
				r.Fail(fnName(fn), "wraps-when-on-other-side", m.name+" from the other end re-enters at "+m.wrap, "an unpositioned iterator on the other side returns without wrapping", p.posOfLast(w, isRet), p.renderPath(w))
			} else {
				r.OK(fnName(fn), "wraps-when-on-other-side", m.name+" from the other end re-enters at "+m.wrap)
			}
		}
	}
}
