package main

import (
	"fmt"

	"golang.org/x/tools/go/ssa"
)

// usedAfterCall reports a position where v (an SSA value passed to call) is used by an instruction
// reachable from the call, or "" if it is dead afterwards. Re-entering the block that defines v
// (a loop-carried phi) creates a new instance and is a barrier.
func usedAfterCall(p *Prog, call ssa.Instruction, v ssa.Value, skip func(ssa.Instruction) bool) string {
	reach := map[*ssa.BasicBlock]bool{}
	var stack []*ssa.BasicBlock
	var barrier *ssa.BasicBlock
	if di, ok := v.(ssa.Instruction); ok {
		barrier = di.Block()
	}
	push := func(s *ssa.BasicBlock) {
		if s != barrier && !reach[s] {
			reach[s] = true
			stack = append(stack, s)
		}
	}
	for _, s := range call.Block().Succs {
		push(s)
	}
	for len(stack) > 0 {
		b := stack[len(stack)-1]
		stack = stack[:len(stack)-1]
		for _, s := range b.Succs {
			push(s)
		}
	}
	after := func(in ssa.Instruction) bool {
		return reach[in.Block()] || (in.Block() == call.Block() && indexOf(in) > indexOf(call))
	}
	refs := v.Referrers()
	if refs == nil {
		return ""
	}
	for _, ref := range *refs {
		if ref == call || (skip != nil && skip(ref)) {
			continue
		}
		switch x := ref.(type) {
		case *ssa.DebugRef:
		case *ssa.Phi:
			for k, e := range x.Edges {
				if e == v {
					pb := x.Block().Preds[k]
					if reach[pb] || pb == call.Block() {
						// the merged value is used later only if the phi itself is used after the call
						if s := usedAfterCall(p, call, x, skip); s != "" {
							return s
						}
					}
				}
			}
		default:
			if after(ref) {
				pos := p.Pos(ref.Pos())
				if pos == "-" || pos == "" {
					pos = fmt.Sprintf("block %d", ref.Block().Index)
				}
				return pos
			}
		}
	}
	return ""
}

// diagnosticOnly: the instruction reads ONE element of the buffer and the value read flows only
// into the arguments of fmt.Sprintf / fmt.Errorf (an error text). Such a read after Put can at
// worst print a wrong byte in a corruption message; it cannot change what a table returns.
func diagnosticOnly(in ssa.Instruction) bool {
	ia, ok := in.(*ssa.IndexAddr)
	if !ok {
		return false
	}
	seen := map[ssa.Value]bool{}
	var flows func(v ssa.Value) bool
	flows = func(v ssa.Value) bool {
		if seen[v] {
			return true
		}
		seen[v] = true
		refs := v.Referrers()
		if refs == nil {
			return true
		}
		for _, ref := range *refs {
			switch x := ref.(type) {
			case *ssa.DebugRef:
			case *ssa.UnOp, *ssa.MakeInterface, *ssa.Convert, *ssa.ChangeType, *ssa.Slice:
				if !flows(x.(ssa.Value)) {
					return false
				}
			case *ssa.Store:
				// stored into the varargs array of a formatting call
				if x.Val != v {
					return false
				}
				dst, ok := x.Addr.(*ssa.IndexAddr)
				if !ok {
					return false
				}
				arr, ok := dst.X.(*ssa.Alloc)
				if !ok || !flows(arr) {
					return false
				}
			case *ssa.IndexAddr:
				// &varargs[i] of the array we are tracking
			case *ssa.Call:
				f := staticCallee(&x.Call)
				if f == nil || f.Pkg == nil || f.Pkg.Pkg.Path() != "fmt" {
					return false
				}
			default:
				return false
			}
		}
		return true
	}
	return flows(ia)
}

// ruleBufferPoolOwnership: a buffer handed back to the shared util.BufferPool may be given to any
// other reader at once. After Put(x) the function must not touch x again: not read it, not slice
// it, not return it, not Put it a second time — on any path. (Use-after-Put silently serves another
// block's bytes as this block's contents; a double Put hands one array to two readers.) The buffer
// is identified with the values it is a slice of / that are slices of it.
func ruleBufferPoolOwnership(p *Prog, r *Report, rule string) {
	r.Begin(rule, "E-FLOW", "shared buffer pool: after util.BufferPool.Put(x) no instruction reachable from the call uses x, the buffer x was sliced from, or a slice taken from x (no read, slice, return, or second Put); a single-element read that flows only into an fmt error text is tolerated", 5)
	defer r.End()
	const fPut = "(*leveldb/util.BufferPool).Put"
	n := 0
	for rel := range p.ByRel {
		if rel == "leveldb/testutil" || rel == "leveldb/util" {
			continue
		}
		for _, fn := range p.SrcFuncs(rel) {
			for _, c := range findCalls(fn, fPut) {
				call, ok := c.(*ssa.Call)
				if !ok {
					continue // deferred Put: runs at exit, nothing follows
				}
				x := stripConv(call.Call.Args[1])
				// buffers reached through a field are owned by the object; its Release protocol is
				// checked by the releaser rules
				if _, _, _, isField := fieldOfLoad(x); isField {
					continue
				}
				n++
				r.Site(1)
				r.Fn(fnName(fn))
				// alias group: x, what x was sliced from, and slices of x
				group := []ssa.Value{x}
				for cur := x; ; {
					sl, ok := cur.(*ssa.Slice)
					if !ok {
						break
					}
					cur = stripConv(sl.X)
					group = append(group, cur)
				}
				bad := ""
				for _, g := range group {
					if s := usedAfterCall(p, call, g, diagnosticOnly); s != "" {
						bad = s
						break
					}
					if refs := g.Referrers(); refs != nil {
						for _, ref := range *refs {
							if sl, ok := ref.(*ssa.Slice); ok && sl.X == g {
								if s := usedAfterCall(p, call, sl, diagnosticOnly); s != "" {
									bad = s
								}
							}
						}
					}
				}
				r.Check(bad == "", fnName(fn), "dead-after-put@"+branchLabel(c), "the buffer returned to the pool is not used again", "the buffer put back at "+p.Pos(c.Pos())+" is used again at "+bad+": it may already belong to another reader", p.Pos(c.Pos()))
			}
		}
	}
	// buffers held in a local VARIABLE CELL (captured by a closure, e.g. a deferred clean-up): the
	// same discipline, path by path — after Put(load c) the cell is dead until it is assigned again;
	// a deferred closure that Puts the cell counts as a use at every return it can act on
	for rel := range p.ByRel {
		if rel == "leveldb/testutil" || rel == "leveldb/util" {
			continue
		}
		for _, fn := range p.SrcFuncs(rel) {
			if fn.Parent() != nil {
				continue
			}
			n += cellBufferDiscipline(p, r, fn, fPut)
		}
	}
	r.Check(n >= 5, "module", "put-sites", "BufferPool.Put call sites with a local buffer were found (table.Reader.readRawBlock)", fmt.Sprintf("%d", n), "")
}

// cellBufferDiscipline handles buffers kept in cells of fn (see ruleBufferPoolOwnership). Returns
// the number of Put sites it took responsibility for.
func cellBufferDiscipline(p *Prog, r *Report, fn *ssa.Function, fPut string) int {
	// cells of fn that are Put somewhere (inline or in a deferred closure of fn)
	type deferredPut struct {
		def     *ssa.Defer
		cell    *ssa.Alloc
		onlyErr bool // the closure Puts only under `err != nil` (err = a named result cell of fn)
	}
	cellOf := func(v ssa.Value, in *ssa.Function) *ssa.Alloc {
		u, ok := stripConv(v).(*ssa.UnOp)
		if !ok {
			return nil
		}
		al := resolveCell(u.X)
		if al == nil || al.Parent() != fn {
			return nil
		}
		return al
	}
	inline := map[ssa.Instruction]*ssa.Alloc{}
	instrs(fn, func(_ *ssa.BasicBlock, _ int, in ssa.Instruction) {
		if c, ok := in.(*ssa.Call); ok && isCallTo(c, fPut) {
			if al := cellOf(c.Call.Args[1], fn); al != nil {
				inline[in] = al
			}
		}
	})
	var defs []deferredPut
	instrs(fn, func(_ *ssa.BasicBlock, _ int, in ssa.Instruction) {
		d, ok := in.(*ssa.Defer)
		if !ok {
			return
		}
		mc, ok := d.Call.Value.(*ssa.MakeClosure)
		if !ok {
			return
		}
		cf, ok := mc.Fn.(*ssa.Function)
		if !ok {
			return
		}
		for _, c := range findCalls(cf, fPut) {
			if al := cellOf(callCommon(c).Args[1], cf); al != nil {
				errNil := nilAtom("err==nil", mCellNamed("err"))
				guarded := findPathV(entryPoint(cf), atomEdges([]Atom{errNil}, []bool{true}), nil, func(x ssa.Instruction) bool { return x == c }, atomVals([]Atom{errNil}, []bool{true})) == nil
				defs = append(defs, deferredPut{d, al, guarded})
			}
		}
	})
	if len(inline) == 0 && len(defs) == 0 {
		return 0
	}
	sites := len(inline) + len(defs)
	r.Site(sites)
	r.Fn(fnName(fn))
	bad, badPos := "", ""
	type state struct {
		put  map[*ssa.Alloc]bool
		defd map[*ssa.Defer]bool
	}
	onPath := map[*ssa.BasicBlock]bool{}
	steps := 0
	var dfs func(b *ssa.BasicBlock, st state)
	dfs = func(b *ssa.BasicBlock, st state) {
		if bad != "" || steps > 20000 {
			return
		}
		steps++
		onPath[b] = true
		defer func() { onPath[b] = false }()
		cur := state{map[*ssa.Alloc]bool{}, map[*ssa.Defer]bool{}}
		for k, v := range st.put {
			cur.put[k] = v
		}
		for k, v := range st.defd {
			cur.defd[k] = v
		}
		for _, in := range b.Instrs {
			switch x := in.(type) {
			case *ssa.Store:
				if al := resolveCell(x.Addr); al != nil && al.Parent() == fn {
					cur.put[al] = false
				}
			case *ssa.Defer:
				cur.defd[x] = true
			case *ssa.Return:
				// deferred clean-ups that act on this return
				errNonNil := true
				for _, res := range x.Results {
					if isErrorType(res.Type()) && isNilConst(retValue(x, res)) {
						errNonNil = false
					}
				}
				for _, d := range defs {
					if cur.defd[d.def] && cur.put[d.cell] && (!d.onlyErr || errNonNil) {
						bad = "the buffer in `" + cellRefName(d.cell) + "` is put back on this path and again by the deferred clean-up registered at " + p.Pos(d.def.Pos()) + ": one array is handed to two later readers"
						badPos = p.Pos(x.Pos())
					}
				}
				return
			}
			if al, ok := inline[in]; ok {
				if cur.put[al] {
					bad = "the buffer in `" + cellRefName(al) + "` is put back twice on one path"
					badPos = p.Pos(in.Pos())
					return
				}
				cur.put[al] = true
				continue
			}
			// any other use of a put-back cell's value
			for _, op := range in.Operands(nil) {
				if *op == nil {
					continue
				}
				if u, ok := (*op).(*ssa.UnOp); ok {
					if al := resolveCell(u.X); al != nil && al.Parent() == fn && cur.put[al] && !diagnosticOnlyValue(in) {
						if _, isStore := in.(*ssa.Store); isStore {
							continue
						}
						bad = "the buffer in `" + cellRefName(al) + "` is used after it was put back"
						badPos = p.Pos(in.Pos())
						return
					}
				}
			}
		}
		for _, s := range b.Succs {
			if !onPath[s] {
				dfs(s, cur)
			}
		}
	}
	dfs(fn.Blocks[0], state{map[*ssa.Alloc]bool{}, map[*ssa.Defer]bool{}})
	r.Check(bad == "", fnName(fn), "cell-buffer-dead-after-put", "a pooled buffer kept in a local variable is put back at most once per path (deferred clean-ups included) and not used afterwards", bad, badPos)
	return sites
}

// diagnosticOnlyValue: see diagnosticOnly; for instructions that are not IndexAddr nothing is tolerated.
func diagnosticOnlyValue(in ssa.Instruction) bool { return diagnosticOnly(in) }
