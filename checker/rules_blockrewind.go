package main

import (
	"fmt"
	"go/constant"
	"go/types"

	"golang.org/x/tools/go/ssa"
)

// ruleBlockIterRewind: table.blockIter keeps (offset, restartIndex) as one position: restartIndex
// is the lower bound handed to block.restartIndex(...) when Prev has to find the restart point
// covering the previous entry, and Next never advances it. Whenever a method rewinds offset to one
// end of the window (offsetStart / offsetLimit) it must therefore move restartIndex to the matching
// end (riStart / riLimit) on the same path; a stale, too-high restartIndex makes a later Prev search
// from the wrong restart point and fail with a spurious corruption error on an undamaged block.
// The rule is conditional on the consumer: it is armed only while some blockIter method passes the
// stored restartIndex as the search's lower bound.
func ruleBlockIterRewind(p *Prog, r *Report, rule string) {
	r.Begin(rule, "E-PAIR", "table.blockIter rewinds offset and restartIndex together: a method that rewinds offset←offsetStart and goes on decoding (Next leaving the start-of-iteration state) also rewinds restartIndex←riStart on that path, because Prev searches restart points upward from the stored restartIndex and the start state is entered without rewinding it", 4)
	defer r.End()
	const T = "leveldb/table.blockIter"
	// consumer: block.restartIndex(rstart = load i.restartIndex, …)
	consumers := 0
	var methods []*ssa.Function
	for _, fn := range p.SrcFuncs("leveldb/table") {
		recv := fn.Signature.Recv()
		if recv == nil || namedOf(derefT(recv.Type())) != T {
			continue
		}
		methods = append(methods, fn)
		for _, c := range findCalls(fn, "(*leveldb/table.block).restartIndex") {
			cc := callCommon(c)
			if len(cc.Args) >= 2 && isFieldLoad(cc.Args[1], T, "restartIndex") {
				consumers++
			}
		}
	}
	r.Site(len(methods))
	r.Check(len(methods) >= 8, T, "methods", "the methods of blockIter were found", fmt.Sprintf("%d methods", len(methods)), "")
	if consumers == 0 {
		r.OK(T, "hint-not-consumed", "no method searches restart points from the stored restartIndex: the pairing is not required")
		return
	}
	r.Site(consumers)
	storeFrom := func(dst, src string) InstrPred {
		return func(in ssa.Instruction) bool {
			st, ok := in.(*ssa.Store)
			return ok && isFieldAddr(st.Addr, T, dst) && isFieldLoad(st.Val, T, src)
		}
	}
	// second arming condition: some method puts the iterator into the start-of-iteration state
	// without rewinding restartIndex itself (First, the exhausted exits of Prev), so the method that
	// leaves that state forwards has to do it
	dirSOI, okc := int64(0), false
	if pk := p.ByRel["leveldb/table"]; pk != nil {
		if c, ok := pk.Pkg.Scope().Lookup("dirSOI").(*types.Const); ok {
			dirSOI, okc = constant.Int64Val(c.Val())
		}
	}
	r.Site(1)
	r.Check(okc, T, "dirSOI", "the start-of-iteration state constant was found", "table.dirSOI not found", "")
	lazy := 0
	for _, fn := range methods {
		setsSOI := countInstr(fn, func(in ssa.Instruction) bool {
			st, ok := in.(*ssa.Store)
			if !ok || !isFieldAddr(st.Addr, T, "dir") {
				return false
			}
			k, isC := constInt(st.Val)
			return isC && k == dirSOI
		})
		if setsSOI > 0 && countInstr(fn, storeFrom("restartIndex", "riStart")) == 0 {
			lazy++
		}
	}
	if lazy == 0 {
		r.OK(T, "start-state-always-rewound", "every method entering the start-of-iteration state rewinds restartIndex itself: Next need not")
		return
	}
	r.Site(lazy)
	decodes := func(fn *ssa.Function) bool { return len(findCalls(fn, "(*leveldb/table.block).entry")) > 0 }
	n := 0
	for _, fn := range methods {
		if !decodes(fn) {
			continue // a method that only rewinds (reset) leaves the start state to be left through Next
		}
		for _, pr := range [][4]string{{"offset", "offsetStart", "restartIndex", "riStart"}} {
			A := storeFrom(pr[0], pr[1])
			B := storeFrom(pr[2], pr[3])
			k := countInstr(fn, A)
			if k == 0 {
				continue
			}
			n += k
			r.Fn(fnName(fn))
			kind := "rewind-pair:" + pr[1]
			what := fmt.Sprintf("every path through %s←%s also stores %s←%s", pr[0], pr[1], pr[2], pr[3])
			// per A site: B precedes it on every path from entry, or follows it on every path to return
			bad := false
			for _, b := range fn.Blocks {
				for i, in := range b.Instrs {
					if !A(in) {
						continue
					}
					thisA := func(x ssa.Instruction) bool { return x == in }
					before := findPath(entryPoint(fn), nil, B, thisA) == nil
					after := findPath([]point{{b, i + 1}}, nil, B, isReturn) == nil
					if !before && !after {
						bad = true
						r.Fail(fnName(fn), kind, what, fmt.Sprintf("%s is rewound to %s at %s but a path neither sets %s←%s before nor after it: a later Prev searches restart points from a stale lower bound", pr[0], pr[1], p.Pos(in.Pos()), pr[2], pr[3]), p.Pos(in.Pos()), nil)
					}
				}
			}
			if !bad {
				r.OK(fnName(fn), kind, what)
			}
		}
	}
	r.Site(n)
	r.Check(n >= 1, T, "rewind-sites", "the forward rewind site of blockIter was found (Next leaving the start-of-iteration state)", fmt.Sprintf("%d stores offset←offsetStart in decoding methods", n), "")
}
