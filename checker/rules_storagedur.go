package main

import (
	"golang.org/x/tools/go/ssa"
)

// ruleStorageDurability: the durability orders of C04 end in the file storage: switching CURRENT
// must itself be atomic and durable (new content written AND synced to a temporary file, renamed
// over CURRENT, directory synced), a synced manifest also syncs its directory entry, and
// writeFileSynced really syncs before it reports success.
func ruleStorageDurability(p *Prog, r *Report, rule string) {
	r.Begin(rule, "E-ORD", "file storage durability: fileStorage.setMeta writes the new CURRENT content with writeFileSynced to a temporary name, renames it over CURRENT and then syncs the directory, returning every error; the old CURRENT is backed up first; writeFileSynced calls Sync before Close and reports a Sync/Close error; fileWrap.Sync syncs the file and, for a manifest, its directory", 6)
	defer r.End()
	if fn := resolveFn(p, r, "leveldb/storage", "(*fileStorage).setMeta"); fn != nil {
		wr := evCall("leveldb/storage.writeFileSynced")
		rn := evCall("leveldb/storage.rename")
		sd := evCall("leveldb/storage.syncDir")
		ordOnSuccess(p, r, fn, "renamed-into-place", assumeBool(func(v ssa.Value) (bool, bool) {
			// the "content unchanged" shortcut is not a switch
			if b, ok := v.(*ssa.BinOp); ok {
				if _, isStr := b.X.(*ssa.Convert); isStr && b.Op.String() == "==" {
					return false, true
				}
			}
			return false, false
		}), rn, "rename(tmp, CURRENT)")
		ordPrecede(p, r, fn, "tmp-synced-before-rename", nil, wr, "writeFileSynced(tmp)", rn, "rename(tmp, CURRENT)")
		ordFollow(p, r, fn, "dir-synced-after-rename", nil, rn, "rename(tmp, CURRENT)", sd, "syncDir")
		ordNotOnError(p, r, fn, "no-rename-on-write-error", mErrOfCall("leveldb/storage.writeFileSynced"), "writeFileSynced", wr, rn, "rename")
		// the rename's target is CURRENT, its source the temporary file that was written
		checkCallArg(p, r, fn, "rename-source-is-written-tmp", "leveldb/storage.rename", 0, func(v ssa.Value) bool {
			for _, c := range findCalls(fn, "leveldb/storage.writeFileSynced") {
				if callCommon(c).Args[0] == v {
					return true
				}
			}
			return false
		}, "the temporary file just written and synced")
	}
	if fn := resolveFn(p, r, "leveldb/storage", "writeFileSynced"); fn != nil {
		isM := func(name string) InstrPred {
			return func(in ssa.Instruction) bool {
				c, ok := in.(*ssa.Call)
				if !ok {
					return false
				}
				f := staticCallee(&c.Call)
				return f != nil && f.Name() == name && f.Signature.Recv() != nil && namedOf(f.Signature.Recv().Type()) == "os.File"
			}
		}
		ordPrecede(p, r, fn, "write-before-sync", nil, isM("Write"), "f.Write", isM("Sync"), "f.Sync")
		ordPrecede(p, r, fn, "sync-before-close", nil, isM("Sync"), "f.Sync", isM("Close"), "f.Close")
		ordOnSuccess(p, r, fn, "synced", nil, isM("Sync"), "f.Sync")
		// a Sync error is not swallowed: the returned error originates from Write, Sync or Close
		r.Site(1)
		okErr := false
		instrs(fn, func(_ *ssa.BasicBlock, _ int, in ssa.Instruction) {
			ret, ok := in.(*ssa.Return)
			if !ok || len(ret.Results) != 1 {
				return
			}
			if mOriginAny(func(v ssa.Value) bool {
				c, ok := v.(*ssa.Call)
				return ok && isM("Sync")(c)
			})(ret.Results[0]) {
				okErr = true
			}
		})
		r.Check(okErr, fnName(fn), "sync-error-reported", "the error of f.Sync can reach the caller", "no return carries the Sync error", p.Pos(fn.Pos()))
	}
	if fn := resolveFn(p, r, "leveldb/storage", "(*fileWrap).Sync"); fn != nil {
		fileSync := func(in ssa.Instruction) bool {
			c, ok := in.(*ssa.Call)
			if !ok {
				return false
			}
			f := staticCallee(&c.Call)
			return f != nil && f.Name() == "Sync" && f.Signature.Recv() != nil && namedOf(f.Signature.Recv().Type()) == "os.File"
		}
		ordOnSuccess(p, r, fn, "file-synced", nil, fileSync, "File.Sync")
		isMan := cmpAtom("fd.Type==TypeManifest", token_EQL(), mFieldLoad("leveldb/storage.FileDesc", "Type"), mConstInt(1))
		checkGuardExact(p, r, GuardSpec{Rule: "manifest-dir-synced", Fn: fn, Target: evCall("leveldb/storage.syncDir"), TargetDesc: "the directory is synced", Atoms: []Atom{isMan}, G: func(a []bool) bool { return a[0] }, GDesc: "the file is a manifest", Extra: noErrEdges}, func(in ssa.Instruction) bool {
			ret, ok := in.(*ssa.Return)
			return ok && len(ret.Results) == 1 && isNilConst(ret.Results[0])
		}, "a successful return")
	}
}
