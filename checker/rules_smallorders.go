package main

import (
	"fmt"
	"go/token"

	"golang.org/x/tools/go/ssa"
)

// ruleBucketOrder: a cache bucket keeps its nodes sorted by (namespace, key) and finds a node by
// binary search; mBucket.get relies on "search returns the first node >= (ns, key)" both to find
// and to insert at the right place. Less and the search predicate are checked as complete sign
// tables over (ns comparison) × (key comparison).
func ruleBucketOrder(p *Prog, r *Report, rule string) {
	r.Begin(rule, "E-GUARD", "cache bucket order: mNodes.Less(i, j) ⇔ (ns_i, key_i) < (ns_j, key_j) lexicographically; the predicate of mNodes.search ⇔ (ns_i, key_i) >= (ns, key); evaluated for all nine sign combinations", 2)
	defer r.End()
	type spec struct {
		fn   string
		want func(sNs, sKey int) bool
		desc string
	}
	for _, sp := range []spec{
		{"mNodes.Less", func(a, b int) bool { return a < 0 || (a == 0 && b < 0) }, "Less(i, j) ⇔ (ns_i, key_i) <lex (ns_j, key_j)"},
		{"mNodes.search$1", func(a, b int) bool { return a > 0 || (a == 0 && b >= 0) }, "search predicate(i) ⇔ (ns_i, key_i) >=lex (ns, key)"},
	} {
		fn := resolveFn(p, r, "leveldb/cache", sp.fn)
		if fn == nil {
			continue
		}
		// the "left" operand is a field of the element indexed by parameter i
		isLeft := func(v ssa.Value, field string) bool {
			u, ok := stripConv(v).(*ssa.UnOp)
			if !ok {
				return false
			}
			t, f, base, ok := fieldOf(u.X)
			if !ok || t != "leveldb/cache.Node" || f != field {
				return false
			}
			// base = x[i]
			bu, ok := base.(*ssa.UnOp)
			if !ok {
				return false
			}
			ia, ok := bu.X.(*ssa.IndexAddr)
			return ok && mParam("i")(ia.Index)
		}
		isOther := func(v ssa.Value, field string) bool {
			if isLeft(v, field) {
				return false
			}
			if mParamOrFree(field)(v) {
				return true
			}
			u, ok := stripConv(v).(*ssa.UnOp)
			if !ok {
				return false
			}
			_, f, _, ok := fieldOf(u.X)
			return ok && f == field
		}
		bad := ""
		for sNs := -1; sNs <= 1; sNs++ {
			for sKey := -1; sKey <= 1; sKey++ {
				leaf := func(v ssa.Value) (bool, bool) {
					b, ok := v.(*ssa.BinOp)
					if !ok || !isCmpOp(b.Op) {
						return false, false
					}
					for _, fs := range []struct {
						f string
						s int
					}{{"ns", sNs}, {"key", sKey}} {
						if isLeft(b.X, fs.f) && isOther(b.Y, fs.f) {
							return cmpInt(fs.s, b.Op), true
						}
						if isLeft(b.Y, fs.f) && isOther(b.X, fs.f) {
							return cmpInt(-fs.s, b.Op), true
						}
					}
					return false, false
				}
				t, f, u := boolTable(fn, leaf)
				want := sp.want(sNs, sKey)
				if u || t != want || f == want {
					bad += fmt.Sprintf(" [ns %+d, key %+d: want %v, got true=%v false=%v unknown=%v]", sNs, sKey, want, t, f, u)
				}
			}
		}
		r.Site(1)
		r.Check(bad == "", fnName(fn), "sign-table", sp.desc, "table differs:"+bad, p.Pos(fn.Pos()))
	}
}

// ruleGetRange: tFiles.getRange is the bounding internal-key range of a set of tables (the
// compaction input range every overlap computation starts from): a running minimum over imin and
// a running maximum over imax under the internal comparer, seeded from the first table.
func ruleGetRange(p *Prog, r *Report, rule string) {
	r.Begin(rule, "E-FLOW", "tFiles.getRange: imin is lowered exactly when Compare(t.imin, imin) < 0 and imax raised exactly when Compare(t.imax, imax) > 0 (running minimum / maximum under the internal comparer), both seeded from the first table", 3)
	defer r.End()
	fn := resolveFn(p, r, "leveldb", "tFiles.getRange")
	if fn == nil {
		return
	}
	found := map[string]bool{}
	instrs(fn, func(b *ssa.BasicBlock, _ int, in ssa.Instruction) {
		iff, ok := in.(*ssa.If)
		if !ok {
			return
		}
		bo, ok := iff.Cond.(*ssa.BinOp)
		if !ok || !mConstInt(0)(bo.Y) {
			return
		}
		c, ok := bo.X.(*ssa.Call)
		if !ok || !isCallTo(c, "(*leveldb.iComparer).Compare") {
			return
		}
		A, B := stripConv(c.Call.Args[1]), stripConv(c.Call.Args[2])
		_, fa, _, okA := fieldOfLoad(A)
		_, isAcc := B.(*ssa.Phi)
		if !okA || !isAcc {
			return
		}
		// the true successor feeds a load of the same field into the accumulator's next value
		tSucc := b.Succs[0]
		updated := false
		for _, blk := range fn.Blocks {
			for _, i2 := range blk.Instrs {
				ph, ok := i2.(*ssa.Phi)
				if !ok {
					continue
				}
				for k, e := range ph.Edges {
					if _, fe, _, ok := fieldOfLoad(e); ok && fe == fa && blk.Preds[k] == tSucc {
						updated = true
					}
				}
			}
		}
		switch {
		case fa == "imin" && bo.Op == token.LSS && updated:
			found["min"] = true
		case fa == "imax" && bo.Op == token.GTR && updated:
			found["max"] = true
		default:
			found["other:"+fa+bo.Op.String()] = true
		}
	})
	r.Site(2)
	r.Check(found["min"], fnName(fn), "running-min-of-imin", "imin = min over t.imin (updated on Compare(t.imin, imin) < 0)", fmt.Sprintf("shapes found: %v", found), p.Pos(fn.Pos()))
	r.Check(found["max"], fnName(fn), "running-max-of-imax", "imax = max over t.imax (updated on Compare(t.imax, imax) > 0)", fmt.Sprintf("shapes found: %v", found), p.Pos(fn.Pos()))
	extra := 0
	for k := range found {
		if k != "min" && k != "max" {
			extra++
		}
	}
	r.Site(1)
	r.Check(extra == 0, fnName(fn), "no-other-updates", "no other comparison decides the range", fmt.Sprintf("%v", found), p.Pos(fn.Pos()))
	// converse ("exactly when"): the two bounds are independent — a table may extend the range on
	// BOTH sides (level-0 inputs are ordered by number, not by key) — so whichever way one
	// comparison goes, the other is still evaluated before the next table is looked at
	cmpOf := func(field string) InstrPred {
		return func(in ssa.Instruction) bool {
			c, ok := in.(*ssa.Call)
			if !ok || !isCallTo(c, "(*leveldb.iComparer).Compare") {
				return false
			}
			_, fa, _, okA := fieldOfLoad(stripConv(c.Call.Args[1]))
			_, isAcc := stripConv(c.Call.Args[2]).(*ssa.Phi)
			return okA && isAcc && fa == field
		}
	}
	for _, pr := range [][2]string{{"imin", "imax"}, {"imax", "imin"}} {
		first, other := cmpOf(pr[0]), cmpOf(pr[1])
		var hdr *ssa.BasicBlock
		instrs(fn, func(_ *ssa.BasicBlock, _ int, in ssa.Instruction) {
			if first(in) {
				if ph, ok := stripConv(in.(*ssa.Call).Call.Args[2]).(*ssa.Phi); ok {
					hdr = ph.Block()
				}
			}
		})
		if hdr == nil {
			continue
		}
		r.Site(1)
		nextTable := func(in ssa.Instruction) bool { return in.Block() == hdr && in == hdr.Instrs[0] }
		// from after the first comparison to the next iteration without having evaluated the
		// other one — unless the other one was evaluated before (order of the two is free)
		w := findPath(after(fn, first), nil, other, nextTable)
		before := findPath(after(fn, other), nil, first, nextTable)
		if w != nil && before != nil {
			r.Fail(fnName(fn), "bounds-independent:"+pr[1], "both bounds are compared for every table after the first", "a path goes on to the next table having compared "+pr[0]+" but not "+pr[1]+": a table that extends the range on both sides only moves one bound, and the compaction's input range is too small", p.posOfLast(w, nextTable), p.renderPath(w))
		} else {
			r.OK(fnName(fn), "bounds-independent:"+pr[1], "both bounds are compared for every table after the first")
		}
	}
}
