package main

import (
	"fmt"

	"golang.org/x/tools/go/ssa"
)

// ruleAcquiredHandlesSettled: a cache handle pins its node — an open table file, a cached block. The
// physical removal of an obsolete table waits for the last handle on its file-cache node
// (tOps.remove → Cache.Delete defers the callback), and a pinned block cannot be evicted. So whoever
// obtains a handle must, on every path on which the acquisition succeeded, release it, hand it to
// something that will (SetReleaser, the block iterator constructor), or return it to its own caller.
// A forgotten handle on one early return keeps a compacted-away table on storage for as long as the
// DB is open.
func ruleAcquiredHandlesSettled(p *Prog, r *Report, rule string) {
	r.Begin(rule, "E-PAIR", "every cache handle / block releaser obtained from tOps.open, Reader.readBlockCached, readFilterBlockCached, getIndexBlock or getFilterBlock is, on every path where the acquisition succeeded, released (directly or deferred), passed on to a call that takes it over, stored, or returned — before the function returns", 8)
	defer r.End()
	type acq struct {
		pkg, callee string
		hIdx, eIdx  int
	}
	acqs := []acq{
		{"leveldb", "(*leveldb.tOps).open", 0, 1},
		{"leveldb/table", "(*leveldb/table.Reader).readBlockCached", 1, 2},
		{"leveldb/table", "(*leveldb/table.Reader).readFilterBlockCached", 1, 2},
		{"leveldb/table", "(*leveldb/table.Reader).getIndexBlock", 1, 2},
		{"leveldb/table", "(*leveldb/table.Reader).getFilterBlock", 1, 2},
	}
	n := 0
	for _, a := range acqs {
		for _, fn := range p.SrcFuncs(a.pkg) {
			for _, c := range findCalls(fn, a.callee) {
				call, ok := c.(*ssa.Call)
				if !ok {
					continue
				}
				n++
				r.Fn(fnName(fn))
				key := fmt.Sprintf("handle-settled@%s", a.callee)
				what := "a successfully acquired handle is released, handed over, stored or returned on every path"
				// the handle value(s): extracts of the result tuple
				isHandle := func(v ssa.Value) bool {
					v = stripConv(v)
					if mi, ok := v.(*ssa.MakeInterface); ok {
						v = stripConv(mi.X)
					}
					e, ok := v.(*ssa.Extract)
					return ok && e.Tuple == ssa.Value(call) && e.Index == a.hIdx
				}
				tupleReturned := func(ret *ssa.Return) bool {
					for _, res := range ret.Results {
						if isHandle(res) || isHandle(retValue(ret, res)) {
							return true
						}
					}
					return false
				}
				settle := func(in ssa.Instruction) bool {
					switch x := in.(type) {
					case *ssa.Return:
						return tupleReturned(x)
					case *ssa.Store:
						return isHandle(x.Val)
					}
					cc := callCommon(in)
					if cc == nil {
						return false
					}
					if cc.IsInvoke() && isHandle(cc.Value) {
						return cc.Method.Name() == "Release"
					}
					for _, arg := range cc.Args {
						if isHandle(arg) {
							return true // Release(ch) as a method call has ch as first argument; any other call takes it over
						}
					}
					return false
				}
				errNil := nilAtom("err==nil", func(v ssa.Value) bool {
					e, ok := stripConv(v).(*ssa.Extract)
					return ok && e.Tuple == ssa.Value(call) && e.Index == a.eIdx
				})
				as, vs := []Atom{errNil}, []bool{true}
				isRet := func(in ssa.Instruction) bool { _, ok := in.(*ssa.Return); return ok }
				start := after(fn, func(in ssa.Instruction) bool { return in == ssa.Instruction(call) })
				if w := findPathV(start, atomEdges(as, vs), settle, isRet, atomVals(as, vs)); w != nil {
					r.Fail(fnName(fn), key, what, "a path from the successful acquisition at "+p.Pos(call.Pos())+" reaches a return without releasing the handle or passing it on: the node stays pinned (a removed table's file is never deleted while the DB is open)", p.posOfLast(w, isRet), p.renderPath(w))
				} else {
					r.OK(fnName(fn), key, what)
				}
			}
		}
	}
	r.Site(n)
}
