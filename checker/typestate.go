package main

import (
	"fmt"
	"go/token"
	"sort"
	"strings"

	"golang.org/x/tools/go/ssa"
)

// E-PAIR: a small path-sensitive typestate / pairing engine on the SSA CFG.
//
// The abstract state is a bounded multiset of held resources, the multiset of pending deferred
// effects, and a set of nil-ness facts about call results that have a conditional contract
// (e.g. "OpenTransaction holds the write lock iff it returned a nil error"). Each block keeps the
// SET of states that can reach it (no join, so the analysis is path-sensitive up to the clamp).

type Eff struct {
	Res string
	D   int  // +n acquire, -n release
	Sat bool // saturating release: releasing an unheld resource is not an error (idempotent release)
	Set bool // assign: the count becomes D (flags)
}

type CondEff struct {
	ResultIdx  int // which result of the call carries the error/handle that decides (-1: the single result)
	WhenNil    []Eff
	WhenNonNil []Eff
}

type TSpec struct {
	Name string
	// Instr gives the direct effects of an instruction (including calls with a table contract).
	// handled=true stops further interpretation of a call (no summary lookup).
	Instr func(in ssa.Instruction) (effs []Eff, handled bool)
	// InstrSt is like Instr but may consult the path state (known boolean phi values).
	InstrSt func(in ssa.Instruction, st *tsState) (effs []Eff, handled bool)
	// Edge gives effects that happen when a particular CFG edge is taken (select cases, channel hand-off).
	Edge func(b *ssa.BasicBlock, succ int) []Eff
	// EdgeSt may consult the path state; feasible=false prunes the edge for that state.
	EdgeSt func(b *ssa.BasicBlock, succ int, st *tsState) (effs []Eff, feasible bool)
	// Cond gives conditional contracts of calls.
	Cond func(in ssa.Instruction) (*CondEff, bool)
	// UseSummaries enables bottom-up summaries for static callees (incl. closures) of the same program.
	UseSummaries bool
	// InScope limits summary computation to functions the rule cares about.
	InScope func(fn *ssa.Function) bool
	Clamp   int

	// InlineDefers analyses deferred function literals in the state in which the defers run
	// (context-sensitive), instead of through a context-free summary.
	InlineDefers bool
	deferFns     map[string]*ssa.Function

	summaries map[*ssa.Function]*tsSummary
	busy      map[*ssa.Function]bool
}

type tsSummary struct {
	effs   []Eff
	varies bool // exits disagree: no summary
	none   bool // no effect at all
}

type tsState struct {
	cnt   map[string]int
	defs  map[string]int // encoded deferred effect group -> multiplicity
	facts map[string]bool
	bools map[string]bool // known constant values of boolean phis on this path
}

func newState() *tsState {
	return &tsState{cnt: map[string]int{}, defs: map[string]int{}, facts: map[string]bool{}, bools: map[string]bool{}}
}

// BoolOf returns the path-known constant value of a boolean SSA value (constant or phi).
func (s *tsState) BoolOf(v ssa.Value) (bool, bool) {
	if b, ok := constBool(v); ok {
		return b, true
	}
	if ph, ok := v.(*ssa.Phi); ok {
		b, ok := s.bools[fmt.Sprintf("%p", ph)]
		return b, ok
	}
	return false, false
}

func (s *tsState) clone() *tsState {
	n := newState()
	for k, v := range s.cnt {
		n.cnt[k] = v
	}
	for k, v := range s.defs {
		n.defs[k] = v
	}
	for k, v := range s.facts {
		n.facts[k] = v
	}
	for k, v := range s.bools {
		n.bools[k] = v
	}
	return n
}

func (s *tsState) key() string {
	var parts []string
	for k, v := range s.cnt {
		if v != 0 {
			parts = append(parts, fmt.Sprintf("%s=%d", k, v))
		}
	}
	sort.Strings(parts)
	var d []string
	for k, v := range s.defs {
		if v != 0 {
			d = append(d, fmt.Sprintf("%s*%d", k, v))
		}
	}
	sort.Strings(d)
	var f []string
	for k := range s.facts {
		f = append(f, k)
	}
	for k, v := range s.bools {
		f = append(f, fmt.Sprintf("%s:%v", k, v))
	}
	sort.Strings(f)
	return strings.Join(parts, ";") + "|" + strings.Join(d, ";") + "|" + strings.Join(f, ";")
}

func (s *tsState) cntKey() string {
	var parts []string
	for k, v := range s.cnt {
		if v != 0 {
			parts = append(parts, fmt.Sprintf("%s=%d", k, v))
		}
	}
	sort.Strings(parts)
	return strings.Join(parts, ";")
}

func encEffs(effs []Eff) string {
	var p []string
	for _, e := range effs {
		sat := ""
		if e.Sat {
			sat = "~"
		}
		if e.Set {
			sat = "="
		}
		p = append(p, fmt.Sprintf("%s%+d%s", e.Res, e.D, sat))
	}
	sort.Strings(p)
	return strings.Join(p, ",")
}

func decEffs(s string) []Eff {
	if s == "" {
		return nil
	}
	var out []Eff
	for _, p := range strings.Split(s, ",") {
		sat := strings.HasSuffix(p, "~")
		p = strings.TrimSuffix(p, "~")
		set := strings.HasSuffix(p, "=")
		p = strings.TrimSuffix(p, "=")
		i := strings.LastIndexAny(p, "+-")
		var d int
		fmt.Sscanf(p[i:], "%d", &d)
		out = append(out, Eff{Res: p[:i], D: d, Sat: sat, Set: set})
	}
	return out
}

// TSEvent is reported by the engine.
type TSEvent struct {
	Kind  string // "underflow" | "exit"
	In    ssa.Instruction
	Res   string
	State *tsState
	Block *ssa.BasicBlock
	Path  []*ssa.BasicBlock
}

type TSResult struct {
	Fn         *ssa.Function
	Exits      []TSEvent // one per (Return instruction, distinct state)
	Panics     []TSEvent
	Underflows []TSEvent
	// At records, for instructions selected by Watch, the states before the instruction.
	At        map[ssa.Instruction][]*tsState
	Truncated bool
}

func (sp *TSpec) clamp() int {
	if sp.Clamp > 0 {
		return sp.Clamp
	}
	return 3
}

func (sp *TSpec) apply(st *tsState, effs []Eff, in ssa.Instruction, b *ssa.BasicBlock, res *TSResult) {
	for _, e := range effs {
		if e.Set {
			if e.D == 0 {
				delete(st.cnt, e.Res)
			} else {
				st.cnt[e.Res] = e.D
			}
			continue
		}
		c := st.cnt[e.Res] + e.D
		if c < 0 {
			if e.Sat {
				c = 0
			} else {
				if res != nil {
					res.Underflows = append(res.Underflows, TSEvent{Kind: "underflow", In: in, Res: e.Res, State: st.clone(), Block: b})
				}
				if c < -sp.clamp() {
					c = -sp.clamp()
				}
			}
		}
		if c > sp.clamp() {
			c = sp.clamp()
		}
		if c == 0 {
			delete(st.cnt, e.Res)
		} else {
			st.cnt[e.Res] = c
		}
	}
}

func factKey(v ssa.Value, idx int) string {
	return fmt.Sprintf("%p#%d", v, idx)
}

// nilFactFor: if x is (an extract of) a call value with a recorded fact, returns the fact key.
func nilFactKeys(x ssa.Value) []string {
	x = stripConv(x)
	switch v := x.(type) {
	case *ssa.Extract:
		return []string{factKey(v.Tuple, v.Index)}
	case *ssa.Call:
		return []string{factKey(v, -1)}
	}
	return nil
}

// Analyze runs the engine over fn starting from entry state `entry` (may be nil = empty).
func (sp *TSpec) Analyze(fn *ssa.Function, entry *tsState, watch InstrPred) *TSResult {
	res := &TSResult{Fn: fn, At: map[ssa.Instruction][]*tsState{}}
	if sp.deferFns == nil {
		sp.deferFns = map[string]*ssa.Function{}
	}
	if len(fn.Blocks) == 0 {
		return res
	}
	if entry == nil {
		entry = newState()
	}
	type item struct {
		b  *ssa.BasicBlock
		st *tsState
	}
	seen := map[*ssa.BasicBlock]map[string]bool{}
	var work []item
	push := func(b *ssa.BasicBlock, st *tsState) {
		m := seen[b]
		if m == nil {
			m = map[string]bool{}
			seen[b] = m
		}
		k := st.key()
		if m[k] {
			return
		}
		if len(m) > 400 {
			res.Truncated = true
			return
		}
		m[k] = true
		work = append(work, item{b, st})
	}
	push(fn.Blocks[0], entry.clone())
	exitSeen := map[string]bool{}
	for len(work) > 0 {
		it := work[len(work)-1]
		work = work[:len(work)-1]
		states := []*tsState{it.st.clone()}
		b := it.b
		terminated := false
		for _, in := range b.Instrs {
			if watch != nil && watch(in) {
				for _, st := range states {
					res.At[in] = append(res.At[in], st.clone())
				}
			}
			switch x := in.(type) {
			case *ssa.Defer:
				if lit := closureCallee(&x.Call); lit != nil && lit.Parent() != nil && sp.InlineDefers {
					k := fmt.Sprintf("fn:%p", lit)
					sp.deferFns[k] = lit
					for _, st := range states {
						if st.defs[k] < 1 {
							st.defs[k]++
						}
					}
					continue
				}
				effs := sp.callEffects(x, &x.Call)
				if len(effs) > 0 {
					k := encEffs(effs)
					for _, st := range states {
						if st.defs[k] < sp.clamp() {
							st.defs[k]++
						}
					}
				}
				continue
			case *ssa.Go:
				continue
			case *ssa.RunDefers:
				var next []*tsState
				for _, st := range states {
					var lits []*ssa.Function
					for k, n := range st.defs {
						if strings.HasPrefix(k, "fn:") {
							lits = append(lits, sp.deferFns[k])
							continue
						}
						for i := 0; i < n; i++ {
							sp.apply(st, decEffs(k), in, b, res)
						}
					}
					st.defs = map[string]int{}
					cur := []*tsState{st}
					for _, lit := range lits {
						var out []*tsState
						for _, c := range cur {
							sub := sp.Analyze(lit, c, nil)
							res.Underflows = append(res.Underflows, sub.Underflows...)
							seenK := map[string]bool{}
							for _, e := range sub.Exits {
								e.State.defs = map[string]int{}
								if k := e.State.key(); !seenK[k] {
									seenK[k] = true
									out = append(out, e.State)
								}
							}
							if len(sub.Exits) == 0 {
								out = append(out, c)
							}
						}
						cur = out
					}
					next = append(next, cur...)
				}
				states = next
				continue
			case *ssa.Return:
				for _, st := range states {
					k := fmt.Sprintf("%p/%s", in, st.key())
					if !exitSeen[k] {
						exitSeen[k] = true
						res.Exits = append(res.Exits, TSEvent{Kind: "exit", In: in, State: st, Block: b})
					}
				}
				terminated = true
			case *ssa.Panic:
				for _, st := range states {
					res.Panics = append(res.Panics, TSEvent{Kind: "panic", In: in, State: st, Block: b})
				}
				terminated = true
			}
			if terminated {
				break
			}
			// conditional contracts fork the state
			if sp.Cond != nil {
				if ce, ok := sp.Cond(in); ok {
					if call, isCall := in.(*ssa.Call); isCall {
						var next []*tsState
						for _, st := range states {
							a := st.clone()
							a.facts[factKey(call, ce.ResultIdx)+"=nil"] = true
							sp.apply(a, ce.WhenNil, in, b, res)
							bb := st.clone()
							bb.facts[factKey(call, ce.ResultIdx)+"=nonnil"] = true
							sp.apply(bb, ce.WhenNonNil, in, b, res)
							next = append(next, a, bb)
						}
						states = next
						continue
					}
				}
			}
			var effs []Eff
			handled := false
			if sp.Instr != nil {
				effs, handled = sp.Instr(in)
			}
			if !handled {
				if cc := callCommon(in); cc != nil {
					effs = append(effs, sp.summaryEffects(cc)...)
				}
			}
			if len(effs) > 0 {
				for _, st := range states {
					sp.apply(st, effs, in, b, res)
				}
			}
			if sp.InstrSt != nil {
				for _, st := range states {
					if e2, _ := sp.InstrSt(in, st); len(e2) > 0 {
						sp.apply(st, e2, in, b, res)
					}
				}
			}
		}
		if terminated {
			continue
		}
		// successors
		for si, s := range b.Succs {
			for _, st := range states {
				// prune by facts
				if iff, ok := b.Instrs[len(b.Instrs)-1].(*ssa.If); ok {
					// a boolean whose value this path fixed (a constant, or a phi of constants: `ok := true/false`)
					cond, neg := iff.Cond, false
					for {
						if u, isU := cond.(*ssa.UnOp); isU && u.Op == token.NOT {
							cond, neg = u.X, !neg
							continue
						}
						break
					}
					if bv, known := st.BoolOf(cond); known {
						if neg {
							bv = !bv
						}
						if (bv && si != 0) || (!bv && si != 1) {
							continue
						}
					}
					if x, trueNonNil, ok := condNilTest(iff.Cond); ok {
						skip := false
						for _, fk := range nilFactKeys(x) {
							isNonNilEdge := (si == 0) == trueNonNil
							if st.facts[fk+"=nil"] && isNonNilEdge {
								skip = true
							}
							if st.facts[fk+"=nonnil"] && !isNonNilEdge {
								skip = true
							}
						}
						if skip {
							continue
						}
					}
				}
				ns := st.clone()
				// boolean phis of the successor take the value of this edge
				pi := -1
				for k, pb := range s.Preds {
					if pb == b {
						pi = k
					}
				}
				for _, sin := range s.Instrs {
					ph, ok := sin.(*ssa.Phi)
					if !ok {
						break
					}
					if pi < 0 || pi >= len(ph.Edges) {
						continue
					}
					key := fmt.Sprintf("%p", ph)
					if bv, ok := st.BoolOf(ph.Edges[pi]); ok {
						ns.bools[key] = bv
					} else {
						delete(ns.bools, key)
					}
				}
				if sp.EdgeSt != nil {
					effs, feasible := sp.EdgeSt(b, si, st)
					if !feasible {
						continue
					}
					if len(effs) > 0 {
						sp.apply(ns, effs, b.Instrs[len(b.Instrs)-1], b, res)
					}
				}
				if sp.Edge != nil {
					if effs := sp.Edge(b, si); len(effs) > 0 {
						sp.apply(ns, effs, b.Instrs[len(b.Instrs)-1], b, res)
					}
				}
				push(s, ns)
			}
		}
	}
	return res
}

// callEffects: effects of a call (used for defer): table contract, else summary.
func (sp *TSpec) callEffects(in ssa.Instruction, cc *ssa.CallCommon) []Eff {
	if sp.Instr != nil {
		if effs, handled := sp.Instr(in); handled || len(effs) > 0 {
			return effs
		}
	}
	return sp.summaryEffects(cc)
}

func (sp *TSpec) summaryEffects(cc *ssa.CallCommon) []Eff {
	if !sp.UseSummaries {
		return nil
	}
	callee := staticCallee(cc)
	if callee == nil {
		// closure value called directly / deferred
		if mc, ok := cc.Value.(*ssa.MakeClosure); ok {
			callee, _ = mc.Fn.(*ssa.Function)
		}
	}
	if callee == nil || len(callee.Blocks) == 0 {
		return nil
	}
	if sp.InScope != nil && !sp.InScope(callee) {
		return nil
	}
	s := sp.Summary(callee)
	if s == nil || s.varies || s.none {
		return nil
	}
	return s.effs
}

// Summary computes the net effect of callee from an empty entry state, if all exits agree.
func (sp *TSpec) Summary(callee *ssa.Function) *tsSummary {
	if sp.summaries == nil {
		sp.summaries = map[*ssa.Function]*tsSummary{}
		sp.busy = map[*ssa.Function]bool{}
	}
	if s, ok := sp.summaries[callee]; ok {
		return s
	}
	if sp.busy[callee] {
		return &tsSummary{none: true}
	}
	sp.busy[callee] = true
	r := sp.Analyze(callee, nil, nil)
	delete(sp.busy, callee)
	s := &tsSummary{}
	keys := map[string]*tsState{}
	for _, e := range r.Exits {
		keys[e.State.cntKey()] = e.State
	}
	switch len(keys) {
	case 0:
		s.none = true // never returns normally
	case 1:
		for k, st := range keys {
			if k == "" {
				s.none = true
			}
			for res, c := range st.cnt {
				s.effs = append(s.effs, Eff{Res: res, D: c})
			}
		}
	default:
		s.varies = true
	}
	sp.summaries[callee] = s
	return s
}
