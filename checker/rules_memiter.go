package main

import (
	"go/token"

	"golang.org/x/tools/go/ssa"
)

// ruleMemdbIterRange: the memdb iterator enforces its range itself: fill() invalidates a position
// at or beyond Limit (forward moves) / before Start (backward moves); First/Seek start at or after
// Start, Last starts before Limit.
func ruleMemdbIterRange(p *Prog, r *Report, rule string) {
	r.Begin(rule, "E-GUARD", "memdb iterator range: fill(checkStart, checkLimit) invalidates the position exactly when (checkLimit ∧ Limit≠nil ∧ key >= Limit) ∨ (checkStart ∧ Start≠nil ∧ key < Start); forward moves (First, Seek, Next) check the limit, backward moves (Last, Prev) check the start; First begins at findGE(Start), Last at findLT(Limit), Seek clamps the probe to Start", 8)
	defer r.End()
	tIt := "leveldb/memdb.dbIter"
	if fn := resolveFn(p, r, "leveldb/memdb", "(*dbIter).fill"); fn != nil {
		bound := func(field string) VMatch {
			return func(v ssa.Value) bool {
				u, ok := stripConv(v).(*ssa.UnOp)
				if !ok || u.Op != token.MUL {
					return false
				}
				_, f, _, ok := fieldOf(u.X)
				return ok && f == field
			}
		}
		cmpWith := func(field string) VMatch {
			return func(v ssa.Value) bool {
				c, ok := v.(*ssa.Call)
				if !ok || !c.Call.IsInvoke() || c.Call.Method.Name() != "Compare" {
					return false
				}
				return isFieldLoad(c.Call.Args[0], tIt, "key") && bound(field)(c.Call.Args[1])
			}
		}
		cl := boolAtom("checkLimit", mParam("checkLimit"))
		ln := nilAtom("Limit==nil", bound("Limit"))
		ge := cmpAtom("key>=Limit", token.GEQ, cmpWith("Limit"), mConstInt(0))
		cs := boolAtom("checkStart", mParam("checkStart"))
		sn := nilAtom("Start==nil", bound("Start"))
		lt := cmpAtom("key<Start", token.LSS, cmpWith("Start"), mConstInt(0))
		atoms := []Atom{cl, ln, ge, cs, sn, lt}
		out := func(a []bool) bool { return (a[0] && !a[1] && a[2]) || (a[3] && !a[4] && a[5]) }
		hasNode := cmpAtom("node!=0", token.NEQ, mFieldLoad(tIt, "node"), mConstInt(0))
		sliceNil := nilAtom("slice==nil", mFieldLoad(tIt, "slice"))
		invalidate := func(in ssa.Instruction) bool {
			st, ok := in.(*ssa.Store)
			return ok && isFieldAddr(st.Addr, tIt, "node") && mConstInt(0)(st.Val)
		}
		checkGuard(p, r, GuardSpec{Rule: "invalidated-only-out-of-range", Fn: fn, Target: invalidate, TargetDesc: "i.node = 0 (position outside the range)", Atoms: atoms, G: out, GDesc: "(checkLimit ∧ key>=Limit) ∨ (checkStart ∧ key<Start)", MinTargets: 1})
		all := append([]Atom{hasNode, sliceNil}, atoms...)
		checkGuardExact(p, r, GuardSpec{Rule: "out-of-range-invalidated", Fn: fn, Target: invalidate, TargetDesc: "the position is invalidated", Atoms: all,
			G: func(a []bool) bool { return a[0] && !a[1] && out(a[2:]) }, GDesc: "positioned ∧ ranged ∧ ((checkLimit ∧ key>=Limit) ∨ (checkStart ∧ key<Start))"}, retConstBool(true), "return true")
	}
	for _, m := range []struct {
		name         string
		start, limit bool
	}{{"First", false, true}, {"Seek", false, true}, {"Next", false, true}, {"Last", true, false}, {"Prev", true, false}} {
		fn := resolveFn(p, r, "leveldb/memdb", "(*dbIter)."+m.name)
		if fn == nil {
			continue
		}
		s, l := m.start, m.limit
		checkCallArg(p, r, fn, "checks-start", "(*leveldb/memdb.dbIter).fill", 1, func(v ssa.Value) bool { b, ok := constBool(v); return ok && b == s }, "checkStart="+boolStr(s))
		checkCallArg(p, r, fn, "checks-limit", "(*leveldb/memdb.dbIter).fill", 2, func(v ssa.Value) bool { b, ok := constBool(v); return ok && b == l }, "checkLimit="+boolStr(l))
	}
	isBoundLoad := func(field string) VMatch {
		return func(v ssa.Value) bool {
			u, ok := stripConv(v).(*ssa.UnOp)
			if !ok || u.Op != token.MUL {
				return false
			}
			_, f, _, ok := fieldOf(u.X)
			return ok && f == field
		}
	}
	if fn := resolveFn(p, r, "leveldb/memdb", "(*dbIter).First"); fn != nil {
		checkCallArg(p, r, fn, "starts-at-start", "(*leveldb/memdb.DB).findGE", 1, isBoundLoad("Start"), "slice.Start")
	}
	if fn := resolveFn(p, r, "leveldb/memdb", "(*dbIter).Last"); fn != nil {
		checkCallArg(p, r, fn, "starts-before-limit", "(*leveldb/memdb.DB).findLT", 1, isBoundLoad("Limit"), "slice.Limit")
	}
	if fn := resolveFn(p, r, "leveldb/memdb", "(*dbIter).Seek"); fn != nil {
		checkCallArg(p, r, fn, "probe-clamped-to-start", "(*leveldb/memdb.DB).findGE", 1, mOriginAny(isBoundLoad("Start")), "the probe, or slice.Start when the probe lies before it")
		checkCallArg(p, r, fn, "probe-is-callers-key", "(*leveldb/memdb.DB).findGE", 1, mOriginAny(mParam("key")), "the caller's key")
	}
	if fn := resolveFn(p, r, "leveldb/memdb", "(*dbIter).Prev"); fn != nil {
		checkCallArg(p, r, fn, "steps-back-from-current-key", "(*leveldb/memdb.DB).findLT", 1, mFieldLoad(tIt, "key"), "the current key")
	}
}

func boolStr(b bool) string {
	if b {
		return "true"
	}
	return "false"
}
