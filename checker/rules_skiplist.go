package main

import (
	"fmt"
	"go/token"

	"golang.org/x/tools/go/ssa"
)

// ruleSkipListSearch: the three skip-list searches of the in-memory buffer. Each walks "right
// while the next stored key is on the near side of the probe, else down". The rule checks, for
// every comparison, the operands (stored key of the NEXT node vs the probe, through the
// configured comparer) and the relation that decides "advance", as a sign table.
func ruleSkipListSearch(p *Prog, r *Report, rule string) {
	r.Begin(rule, "E-GUARD", "skip-list searches (memdb): findGE advances to the next node exactly while stored(next) < probe, reports an exact hit exactly when stored(next) == probe, and treats the end of a tower (next == 0) as 'greater'; findLT advances exactly while next != 0 ∧ stored(next) < probe; findLast advances exactly while next != 0; all compare the stored key of the next node (kvData slice) with the probe parameter", 4)
	defer r.End()
	tM := "leveldb/memdb.DB"
	storedVsProbe := func(c *ssa.Call) bool {
		if !c.Call.IsInvoke() || c.Call.Method.Name() != "Compare" || len(c.Call.Args) != 2 {
			return false
		}
		// the stored key: a slice of kvData, possibly through a variable that is only assigned on the
		// path that evaluates the comparison (phi with the zero value)
		stored := func(v ssa.Value) bool {
			sl, ok := v.(*ssa.Slice)
			return ok && isFieldLoad(sl.X, tM, "kvData")
		}
		a0 := stripConv(c.Call.Args[0])
		isStored := stored(a0)
		if ph, ok := a0.(*ssa.Phi); ok && !isStored {
			n := 0
			for _, e := range ph.Edges {
				e = stripConv(e)
				if stored(e) {
					n++
				} else if !isNilConst(e) {
					n = -100
				}
			}
			isStored = n > 0
		}
		return isStored && mParam("key")(c.Call.Args[1])
	}
	nextIsZero := func(cond ssa.Value) (isZero, known bool, neg bool) {
		b, ok := cond.(*ssa.BinOp)
		if !ok || (b.Op != token.EQL && b.Op != token.NEQ) || !mConstInt(0)(b.Y) {
			return false, false, false
		}
		// next := p.nodeData[...]
		u, ok := b.X.(*ssa.UnOp)
		if !ok {
			return false, false, false
		}
		ia, ok := u.X.(*ssa.IndexAddr)
		if !ok || !isFieldLoad(ia.X, tM, "nodeData") {
			return false, false, false
		}
		return true, true, b.Op == token.NEQ
	}
	// evaluate, for sign ∈ {-1,0,+1} and end ∈ {false,true}: does the loop body take the "advance"
	// successor (the block that makes node = next, i.e. whose only effect is to jump back)?
	advanceTable := func(fn *ssa.Function) (map[string]string, int) {
		out := map[string]string{}
		ncmp := 0
		instrs(fn, func(_ *ssa.BasicBlock, _ int, in ssa.Instruction) {
			if c, ok := in.(*ssa.Call); ok && storedVsProbe(c) {
				ncmp++
			}
		})
		for _, end := range []bool{false, true} {
			for sig := -1; sig <= 1; sig++ {
				leaf := func(v ssa.Value) (bool, bool) {
					if z, known, neg := nextIsZero(v); known && z {
						return end != neg, true
					}
					if b, ok := v.(*ssa.BinOp); ok && isCmpOp(b.Op) && mConstInt(0)(b.Y) {
						x := b.X
						if ph, ok := x.(*ssa.Phi); ok {
							// cmp := 1; if next != 0 { cmp = Compare(...) }
							for _, e := range ph.Edges {
								if c, ok := e.(*ssa.Call); ok && storedVsProbe(c) {
									x = c
								}
							}
							if end {
								k := 0
								for _, e := range ph.Edges {
									if kk, isC := constInt(e); isC {
										k = int(kk)
									}
								}
								return cmpInt(k, b.Op), true
							}
						}
						if c, ok := x.(*ssa.Call); ok && storedVsProbe(c) {
							return cmpInt(sig, b.Op), true
						}
					}
					return false, false
				}
				// "advance" = reaching the loop header again WITHOUT passing a store/phi that lowers h:
				// approximate by: the path from the first comparison-or-zero test back to the loop
				// header avoids every `h - 1` computation and every return
				adv := "?"
				var hdr *ssa.BasicBlock
				for _, b := range fn.Blocks {
					for _, in := range b.Instrs {
						if _, ok := in.(*ssa.Phi); ok && hdr == nil && len(b.Preds) >= 2 {
							hdr = b
						}
					}
				}
				if hdr != nil {
					lowers := func(in ssa.Instruction) bool {
						b, ok := in.(*ssa.BinOp)
						return ok && b.Op == token.SUB && mConstInt(1)(b.Y)
					}
					// start after the header's phis
					start := []point{{hdr, countPhis(hdr)}}
					reHdr := func(in ssa.Instruction) bool {
						_, ok := in.(*ssa.Phi)
						return ok && in.Block() == hdr
					}
					w := findPathX(start, nil, orPred(lowers, isReturn), reHdr, leaf, nil)
					if w != nil && len(w) > 1 {
						adv = "advance"
					} else {
						adv = "stay"
					}
				}
				out[fmt.Sprintf("end=%v,sign=%+d", end, sig)] = adv
			}
		}
		return out, ncmp
	}
	want := func(f func(end bool, sig int) bool) map[string]string {
		out := map[string]string{}
		for _, end := range []bool{false, true} {
			for sig := -1; sig <= 1; sig++ {
				v := "stay"
				if f(end, sig) {
					v = "advance"
				}
				out[fmt.Sprintf("end=%v,sign=%+d", end, sig)] = v
			}
		}
		return out
	}
	for _, sp := range []struct {
		name string
		ncmp int
		f    func(end bool, sig int) bool
		desc string
	}{
		{"(*DB).findGE", 1, func(end bool, sig int) bool { return !end && sig < 0 }, "findGE advances iff next != 0 ∧ stored(next) < probe"},
		{"(*DB).findLT", 1, func(end bool, sig int) bool { return !end && sig < 0 }, "findLT advances iff next != 0 ∧ stored(next) < probe"},
		{"(*DB).findLast", 0, func(end bool, sig int) bool { return !end }, "findLast advances iff next != 0"},
	} {
		fn := resolveFn(p, r, "leveldb/memdb", sp.name)
		if fn == nil {
			continue
		}
		got, ncmp := advanceTable(fn)
		r.Site(1)
		w := want(sp.f)
		bad := ""
		for k, v := range w {
			if got[k] != v {
				bad += fmt.Sprintf(" [%s: want %s, got %s]", k, v, got[k])
			}
		}
		r.Check(bad == "" && ncmp == sp.ncmp, fnName(fn), "advance-table", sp.desc, fmt.Sprintf("%d stored-vs-probe comparisons (want %d); table differs:%s", ncmp, sp.ncmp, bad), p.Pos(fn.Pos()))
	}
	// findGE: the exact flag is `stored(next) == probe`
	if fn := resolveFn(p, r, "leveldb/memdb", "(*DB).findGE"); fn != nil {
		r.Site(1)
		okEq := false
		instrs(fn, func(_ *ssa.BasicBlock, _ int, in ssa.Instruction) {
			ret, ok := in.(*ssa.Return)
			if !ok || len(ret.Results) != 2 {
				return
			}
			if b, ok := ret.Results[1].(*ssa.BinOp); ok && b.Op == token.EQL && mConstInt(0)(b.Y) {
				okEq = true
			}
			if cb, ok := constBool(ret.Results[1]); ok && cb {
				okEq = okEq || true
			}
		})
		r.Check(okEq, fnName(fn), "exact-flag", "findGE reports an exact match as cmp == 0", "the exact flag is not `cmp == 0`", p.Pos(fn.Pos()))
	}
}

func cmpInt(s int, op token.Token) bool {
	switch op {
	case token.LSS:
		return s < 0
	case token.LEQ:
		return s <= 0
	case token.GTR:
		return s > 0
	case token.GEQ:
		return s >= 0
	case token.EQL:
		return s == 0
	}
	return s != 0
}

func countPhis(b *ssa.BasicBlock) int {
	n := 0
	for _, in := range b.Instrs {
		if _, ok := in.(*ssa.Phi); ok {
			n++
		} else {
			break
		}
	}
	return n
}
