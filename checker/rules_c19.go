package main

import (
	"fmt"
	"go/token"

	"golang.org/x/tools/go/ssa"
)

func init() {
	register(&propDef{
		id:          "C19",
		run:         runC19,
		explanation: "Static analysis of the structure Recover's correctness rests on (roles are identified semantically, not by variable name): (1) every recovered table is registered at the constant level 0 with its own file number and the scanned size/key range; (2) the sequence recorded in the fresh manifest originates only from sequence numbers parsed out of scanned keys, through two running maxima (per table, then overall), and the file-number allocator is advanced past the highest table of the sorted listing; (3) a damaged table is rebuilt through a closed+synced temporary file before it is renamed over the original, the reader is closed before the rename, and a fresh manifest is created before the commit — both on every success path; (4) error discipline: non-corruption I/O errors abort, corruption is only counted; a table with at least one good key is registered unless strict recovery sees damage — never silently dropped otherwise; damaged tables are rebuilt (when not strict) before registration; only well-formed keys are counted, copied and used for the key range; StrictReader is masked on a private copy of the options; (5) Recover continues into the ordinary open path (journal replay), never after a failed table recovery. What is actually recovered (content equality with the pre-damage DB) is NOT decided.",
		notCovered:  "equality of recovered contents with the original; behaviour of level-0 lookups over the re-registered tables (that ordering is C01.3); which entries survive a damaged block",
		assumptions: []string{"NoSync=false for the sync obligations"},
	})
}

func mPhiNamed(name string) VMatch {
	return func(v ssa.Value) bool {
		ph, ok := stripConv(v).(*ssa.Phi)
		return ok && ph.Comment == name
	}
}

// runningMaxPair: the phi q merges, among its edges, a pair (prev from P1, cand from P2) where P1
// ends in `if cand > prev` (any equivalent comparison) and P2 is its true successor reached only
// from P1 — i.e. q = max(prev, cand) on those two edges. The remaining edges are returned.
func runningMaxPair(q *ssa.Phi, cand VMatch) (prev ssa.Value, rest []ssa.Value, ok bool) {
	blk := q.Block()
	for i, p1 := range blk.Preds {
		iff, isIf := p1.Instrs[len(p1.Instrs)-1].(*ssa.If)
		if !isIf {
			continue
		}
		b, isB := iff.Cond.(*ssa.BinOp)
		if !isB {
			continue
		}
		var big, small ssa.Value
		switch b.Op {
		case token.GTR, token.GEQ:
			big, small = b.X, b.Y
		case token.LSS, token.LEQ:
			big, small = b.Y, b.X
		default:
			continue
		}
		for j, p2 := range blk.Preds {
			if i == j || len(p2.Preds) != 1 || p2.Preds[0] != p1 || p1.Succs[0] != p2 || p1.Succs[1] != blk {
				continue
			}
			if q.Edges[j] == big && q.Edges[i] == small && cand(big) {
				for k, e := range q.Edges {
					if k != i && k != j {
						rest = append(rest, e)
					}
				}
				return small, rest, true
			}
		}
	}
	return nil, nil, false
}

func isRunningMaxPhi(q *ssa.Phi, cand VMatch) (ssa.Value, bool) {
	prev, rest, ok := runningMaxPair(q, cand)
	return prev, ok && len(rest) == 0
}

func runC19(p *Prog, r *Report) {
	if want("C19.17") {
		ruleRecoverNeverStrictReader(p, r, "C19.17")
	}
	if want("C19.16") {
		ruleLegacyNameFallback(p, r, "C19.16")
	}
	if want("C19.15") {
		// the rebuild keeps every entry the scan counted
		ruleValidKeyAgreesWithParse(p, r, "C19.15")
	}
	if want("C19.14") {
		// Recover finds damaged blocks through the table iterator's error path (shared with C02.8)
		ruleIndexedIterator(p, r, "C19.14")
	}
	if want("C19.13") {
		// recovered tables enter level 0, newest last (shared with C06)
		ruleRecoveredLevelZero(p, r, "C19.13")
	}
	if want("C19.12") {
		// Recover serves only blocks whose checksum was verified (shared with C08/C13)
		ruleChecksumGates(p, r, "C19.12")
	}
	rt := p.Fn("leveldb", "recoverTable")
	var build, rec, cb *ssa.Function
	if rt != nil {
		for _, a := range rt.AnonFuncs {
			if countInstr(a, evCall("leveldb/table.NewWriter")) > 0 {
				build = a
			}
			if countInstr(a, evStorageInvoke("Rename")) > 0 {
				rec = a
			}
		}
		if rec != nil {
			for _, a := range rec.AnonFuncs {
				if countInstr(a, evCall("leveldb/errors.IsCorrupted")) > 0 {
					cb = a
				}
			}
		}
	}
	anchors := func() bool {
		if rt == nil || build == nil || rec == nil || cb == nil {
			r.Fail("leveldb.recoverTable", "unresolved-anchor", "recoverTable with its rebuild closure, per-table closure and corruption callback resolve", fmt.Sprintf("recoverTable=%v build=%v per-table=%v callback=%v", rt != nil, build != nil, rec != nil, cb != nil), "", nil)
			return false
		}
		r.Fn(fnName(rt))
		r.Fn(fnName(build))
		r.Fn(fnName(rec))
		r.Fn(fnName(cb))
		return true
	}
	addTable := evCall("(*leveldb.sessionRecord).addTable")
	seqOfKey := mExtract(1, "leveldb.parseInternalKey")
	kerrNil := func() Atom { return nilAtom("kerr==nil", mExtract(3, "leveldb.parseInternalKey")) }

	if want("C19.1") {
		r.Begin("C19.1", "E-FLOW", "every recovered table is registered at level 0, under its own file number, with the size and key range established by the scan", 4)
		if anchors() {
			requireSites(p, r, rec, "registers", "the per-table closure registers the table", addTable, 1)
			// wherever the registration happens (per-table closure or afterwards): the level is the constant 0
			nReg := 0
			withAnons(rt, func(f *ssa.Function) {
				for _, c := range findCalls(f, "(*leveldb.sessionRecord).addTable") {
					nReg++
					r.Site(1)
					lv := callCommon(c).Args[1]
					r.Check(mConstInt(0)(lv), fnName(f), "level-0@"+branchLabel(c), "a recovered table is registered at the constant level 0 (its original placement is unknown and recovered tables may overlap: only level 0 resolves overlaps by sequence)", "registered at a non-zero or computed level at "+p.Pos(c.Pos())+": overlapping / boundary-sharing tables below level 0 make lookups return stale versions", p.Pos(c.Pos()))
				}
			})
			r.Check(nReg >= 1, fnName(rt), "registers-somewhere", "recoverTable registers recovered tables", "no addTable call in recoverTable or its closures", p.Pos(rt.Pos()))
			checkCallArg(p, r, rec, "own-number", "(*leveldb.sessionRecord).addTable", 2, func(v ssa.Value) bool {
				u, ok := v.(*ssa.UnOp)
				if !ok || u.Op != token.MUL {
					return false
				}
				fa, ok := u.X.(*ssa.FieldAddr)
				if !ok {
					return false
				}
				_, f, _, _ := fieldOf(fa)
				al := resolveCell(fa.X)
				return f == "Num" && al != nil && len(rec.Params) == 1 && func() bool {
					for _, s := range cellStores(al) {
						if s != ssa.Value(rec.Params[0]) {
							return false
						}
					}
					return true
				}()
			}, "fd.Num of the table being scanned")
			// key range: both bounds are copies of scanned keys (append of iter.Key())
			keyCopy := func(v ssa.Value) bool {
				return originsAll(v, func(l ssa.Value) bool {
					if isNilConst(l) {
						return true
					}
					c, ok := l.(*ssa.Call)
					if !ok || !isCallTo(c, "builtin:append") {
						return false
					}
					k, ok := c.Call.Args[1].(*ssa.Call)
					return ok && k.Call.IsInvoke() && k.Call.Method.Name() == "Key"
				})
			}
			checkCallArg(p, r, rec, "imin-from-scan", "(*leveldb.sessionRecord).addTable", 4, keyCopy, "a copy of a scanned key")
			checkCallArg(p, r, rec, "imax-from-scan", "(*leveldb.sessionRecord).addTable", 5, keyCopy, "a copy of a scanned key")
			// the smallest bound is assigned once (first good key), the largest on every good key
			firstOnly := nilAtom("imin==nil", func(v ssa.Value) bool {
				ph, ok := v.(*ssa.Phi)
				return ok && isByteSlice(ph.Type())
			})
			checkGuard(p, r, GuardSpec{Rule: "imin-first-key-only", Fn: rec, Target: func(in ssa.Instruction) bool {
				c, ok := in.(*ssa.Call)
				return ok && isCallTo(c, "builtin:append") && isNilConst(c.Call.Args[0])
			}, TargetDesc: "imin = copy(key)", Atoms: []Atom{firstOnly, kerrNil()}, G: func(a []bool) bool { return a[0] && a[1] }, GDesc: "imin == nil ∧ key well-formed", MinTargets: 1})
		}
		r.End()
	}
	if want("C19.2") {
		r.Begin("C19.2", "E-FLOW", "the recorded sequence number is the maximum over all scanned keys: rec.setSeqNum receives a cell updated only as a running maximum of per-table maxima, which are running maxima of sequences parsed from well-formed keys; markFileNum is fed the last (highest) entry of the sorted listing", 5)
		if anchors() {
			var seqCell *ssa.Alloc
			for _, c := range findCalls(rt, "(*leveldb.sessionRecord).setSeqNum") {
				if u, ok := callCommon(c).Args[1].(*ssa.UnOp); ok && u.Op == token.MUL {
					seqCell = resolveCell(u.X)
				}
			}
			r.Site(1)
			if seqCell == nil {
				r.Fail(fnName(rt), "seq-source:unresolved-anchor", "rec.setSeqNum(maxSeq) reads a local cell", "argument of setSeqNum is not a load of a local", p.Pos(rt.Pos()), nil)
			} else {
				r.OK(fnName(rt), "seq-from-cell", "rec.setSeqNum reads the running-maximum cell")
				isSeqCellLoad := func(v ssa.Value) bool {
					u, ok := stripConv(v).(*ssa.UnOp)
					return ok && u.Op == token.MUL && resolveCell(u.X) == seqCell
				}
				nst := 0
				var tphi *ssa.Phi
				okAll := true
				detail := ""
				withAnons(rt, func(f *ssa.Function) {
					instrs(f, func(_ *ssa.BasicBlock, _ int, in ssa.Instruction) {
						st, ok := in.(*ssa.Store)
						if !ok || resolveCell(st.Addr) != seqCell {
							return
						}
						nst++
						if k, isC := constUint(st.Val); isC && k == 0 {
							return
						}
						// maxSeq = tSeq under tSeq > maxSeq
						ok2, kind, d, _, _, _ := evalGuard(p, GuardSpec{Rule: "x", Fn: f, Target: func(i2 ssa.Instruction) bool { return i2 == in }, Atoms: []Atom{cmpAtom("t>max", token.GTR, func(v ssa.Value) bool { return v == st.Val }, isSeqCellLoad)}, G: func(a []bool) bool { return a[0] }, MinTargets: 1})
						if !ok2 {
							okAll = false
							detail = "store at " + p.Pos(st.Pos()) + ": " + kind + " " + d
						}
						if ph, isPhi := st.Val.(*ssa.Phi); isPhi {
							tphi = ph
						} else {
							okAll = false
							detail = "store at " + p.Pos(st.Pos()) + " of a value that is not the per-table maximum"
						}
					})
				})
				if okAll && tphi != nil {
					tp := ssa.Value(tphi)
					isStore := func(in ssa.Instruction) bool {
						st, ok := in.(*ssa.Store)
						return ok && resolveCell(st.Addr) == seqCell && st.Val == tp
					}
					checkGuardExact(p, r, GuardSpec{Rule: "overall-max-takes-every-table", Fn: rec, Target: isStore, TargetDesc: "the overall maximum is raised", Atoms: []Atom{cmpAtom("t>max", token.GTR, func(v ssa.Value) bool { return v == tp }, isSeqCellLoad)}, G: func(a []bool) bool { return a[0] }, GDesc: "the table's maximum exceeds the overall maximum"}, addTable, "registration")
				}
				r.Site(nst)
				r.Check(okAll && nst >= 1, fnName(rt), "overall-running-max", "the overall maximum only grows: it is assigned the per-table maximum only when that is larger", detail, p.Pos(rt.Pos()))
				// per-table maximum: loop phi over {0, itself, runningMax(phi, seq)}
				r.Site(1)
				okT := tphi != nil
				why := "per-table maximum is not a loop-carried value"
				if tphi != nil {
					edges := tphi.Edges
					if prev, rest, okd := runningMaxPair(tphi, seqOfKey); okd && prev == ssa.Value(tphi) {
						edges = rest // the maximum is folded directly into the loop-carried value
					}
					for _, e := range edges {
						if k, isC := constUint(e); isC && k == 0 {
							continue
						}
						if e == ssa.Value(tphi) {
							continue
						}
						q, isPhi := e.(*ssa.Phi)
						if !isPhi {
							okT, why = false, "the per-table maximum is assigned "+e.String()+" (not a maximum of parsed sequences)"
							break
						}
						prev, okq := isRunningMaxPhi(q, seqOfKey)
						if !okq || prev != ssa.Value(tphi) {
							okT, why = false, "the per-table update is not `if seq > tSeq { tSeq = seq }` over the parsed sequence"
							break
						}
					}
				}
				r.Check(okT, fnName(rec), "per-table-running-max", "the per-table maximum is a running maximum of the sequence numbers parsed from the scanned keys", why, p.Pos(rec.Pos()))
			}
			// markFileNum(fds[len(fds)-1].Num) after sortFds
			ordPrecede(p, r, rt, "listing-sorted-first", nil, evCall("leveldb.sortFds"), "sortFds(fds)", evCall("(*leveldb.session).markFileNum"), "s.markFileNum")
			checkCallArg(p, r, rt, "mark-highest-number", "(*leveldb.session).markFileNum", 1, func(v ssa.Value) bool {
				u, ok := v.(*ssa.UnOp)
				if !ok || u.Op != token.MUL {
					return false
				}
				fa, ok := u.X.(*ssa.FieldAddr)
				if !ok {
					return false
				}
				_, f, _, _ := fieldOf(fa)
				ia, ok := fa.X.(*ssa.IndexAddr)
				if !ok || f != "Num" {
					return false
				}
				b, ok := isBin(ia.Index, token.SUB)
				if !ok || !mConstInt(1)(b.Y) {
					return false
				}
				l, ok := b.X.(*ssa.Call)
				return ok && isCallTo(l, "builtin:len") && l.Call.Args[0] == ia.X
			}, "the Num of the last element of the sorted listing")
			// every listed table is visited: the per-table closure is called in the loop and its error aborts
			requireSites(p, r, rt, "visits-tables", "the per-table closure is called", evCallClosure(rec), 1)
			ordOnSuccess(p, r, rt, "seq-recorded", nil, evCall("(*leveldb.sessionRecord).setSeqNum"), "rec.setSeqNum(maxSeq)")
		}
		r.End()
	}
	if want("C19.3") {
		ruleTableDurability(p, r, "C19.3")
		r.Begin("C19.3b", "E-ORD", "recoverTable: the reader is closed before the rebuilt file is renamed over the original; a fresh manifest is created (s.create) before the commit, the sequence is recorded before the commit, and a failed create never commits", 5)
		if anchors() {
			readerClose := func(in ssa.Instruction) bool {
				cc := callCommon(in)
				if _, isD := in.(*ssa.Defer); isD || cc == nil {
					return false
				}
				return cc.IsInvoke() && cc.Method.Name() == "Close" && namedOf(cc.Value.Type()) == "leveldb/storage.Reader"
			}
			ordPrecede(p, r, rec, "reader-closed-before-rename", nil, readerClose, "reader.Close()", evStorageInvoke("Rename"), "stor.Rename(tmp, fd)")
			ordNotOnError(p, r, rec, "no-registration-on-rename-error", mErrOfPred(evStorageInvoke("Rename")), "stor.Rename", evStorageInvoke("Rename"), addTable, "rec.addTable")
			create := evCall("(*leveldb.session).create")
			commit := evCall("(*leveldb.session).commit")
			ordOnSuccess(p, r, rt, "fresh-manifest", nil, create, "s.create()")
			ordOnSuccess(p, r, rt, "committed", nil, commit, "s.commit(rec)")
			ordPrecede(p, r, rt, "create-before-commit", nil, create, "s.create()", commit, "s.commit(rec)")
			ordPrecede(p, r, rt, "seq-before-commit", nil, evCall("(*leveldb.sessionRecord).setSeqNum"), "rec.setSeqNum", commit, "s.commit(rec)")
			ordNotOnError(p, r, rt, "no-commit-on-create-error", mErrOfCall("(*leveldb.session).create"), "s.create", create, commit, "s.commit")
			ordNotOnError(p, r, rt, "table-error-aborts", func(v ssa.Value) bool {
				c, ok := stripConv(v).(*ssa.Call)
				return ok && closureCallee(&c.Call) == rec
			}, "recoverTable(fd)", evCallClosure(rec), commit, "s.commit")
			// the record committed is the one the tables were added to
			checkCallArg(p, r, rt, "commits-the-record", "(*leveldb.session).commit", 1, func(v ssa.Value) bool {
				u, ok := v.(*ssa.UnOp)
				if !ok || u.Op != token.MUL {
					return false
				}
				cell := resolveCell(u.X)
				if cell == nil {
					return false
				}
				same := false
				for _, c := range findCalls(rec, "(*leveldb.sessionRecord).addTable") {
					if u2, ok := callCommon(c).Args[0].(*ssa.UnOp); ok && u2.Op == token.MUL && resolveCell(u2.X) == cell {
						same = true
					}
				}
				return same
			}, "the record the tables were registered in")
		}
		r.End()
	}
	if want("C19.4") {
		r.Begin("C19.4", "E-GUARD", "error discipline of the scan: I/O errors abort, corruption is counted; a table with good keys is registered unless strict recovery saw damage (never silently dropped); a damaged table is rebuilt before registration; only well-formed keys are counted / copied; StrictReader is masked on a private copy of the options", 10)
		if anchors() {
			// roles
			var goodInc, badInc ssa.Instruction
			kn := kerrNil()
			instrs(rec, func(_ *ssa.BasicBlock, _ int, in ssa.Instruction) {
				b, ok := in.(*ssa.BinOp)
				if !ok || b.Op != token.ADD || !mConstInt(1)(b.Y) {
					return
				}
				if _, isPhi := b.X.(*ssa.Phi); !isPhi {
					return
				}
				self := func(i2 ssa.Instruction) bool { return i2 == in }
				if ok1, _, _, _, _, _ := evalGuard(p, GuardSpec{Fn: rec, Target: self, Atoms: []Atom{kn}, G: func(a []bool) bool { return a[0] }, MinTargets: 1}); ok1 {
					goodInc = in
				} else if ok2, _, _, _, _, _ := evalGuard(p, GuardSpec{Fn: rec, Target: self, Atoms: []Atom{kn}, G: func(a []bool) bool { return !a[0] }, MinTargets: 1}); ok2 {
					badInc = in
				}
			})
			var cbCell *ssa.Alloc
			instrs(cb, func(_ *ssa.BasicBlock, _ int, in ssa.Instruction) {
				if st, ok := in.(*ssa.Store); ok {
					if c := resolveCell(st.Addr); c != nil && c.Parent() == rec {
						cbCell = c
					}
				}
			})
			r.Site(3)
			if goodInc == nil || badInc == nil || cbCell == nil {
				r.Fail(fnName(rec), "counters:unresolved-anchor", "the scan keeps a good-key counter (incremented only for well-formed keys), a bad-key counter (only for malformed keys) and a damaged-block counter (written by the error callback)", fmt.Sprintf("good=%v bad=%v block=%v", goodInc != nil, badInc != nil, cbCell != nil), p.Pos(rec.Pos()), nil)
			} else {
				r.OK(fnName(rec), "good-keys-counted-only-when-wellformed", "the good-key counter is incremented only under kerr == nil")
				r.OK(fnName(rec), "bad-keys-counted-only-when-malformed", "the bad-key counter is incremented only under kerr != nil")
				goodPhi := goodInc.(*ssa.BinOp).X
				badPhi := badInc.(*ssa.BinOp).X
				strictM := func(v ssa.Value) bool {
					u, ok := stripConv(v).(*ssa.UnOp)
					if !ok || u.Op != token.MUL {
						return false
					}
					sts := cellStores(u.X)
					if len(sts) == 0 {
						return false
					}
					for _, s := range sts {
						if _, ok := callValue(s, "(*leveldb/opt.Options).GetStrict"); !ok {
							return false
						}
					}
					return true
				}
				strict := boolAtom("strict", strictM)
				ck := cmpAtom("badKeys>0", token.GTR, func(v ssa.Value) bool { return v == badPhi }, mConstInt(0))
				cbA := cmpAtom("badBlocks>0", token.GTR, func(v ssa.Value) bool {
					u, ok := stripConv(v).(*ssa.UnOp)
					return ok && u.Op == token.MUL && resolveCell(u.X) == cbCell
				}, mConstInt(0))
				good := cmpAtom("goodKeys>0", token.GTR, func(v ssa.Value) bool { return v == goodPhi }, mConstInt(0))
				atoms := []Atom{strict, ck, cbA, good}
				reg := func(a []bool) bool { return a[3] && !(a[0] && (a[1] || a[2])) }
				checkGuard(p, r, GuardSpec{Rule: "register-only-recoverable", Fn: rec, Target: addTable, TargetDesc: "rec.addTable", Atoms: atoms, G: reg, GDesc: "goodKeys > 0 ∧ ¬(strict ∧ damaged)", MinTargets: 1})
				nilRet := func(in ssa.Instruction) bool {
					ret, ok := in.(*ssa.Return)
					return ok && len(ret.Results) == 1 && isNilConst(retValue(ret, ret.Results[0]))
				}
				checkGuardExact(p, r, GuardSpec{Rule: "register-only-recoverable", Fn: rec, Target: addTable, TargetDesc: "the table is registered", Atoms: atoms, G: reg, GDesc: "goodKeys > 0 ∧ ¬(strict ∧ damaged)"}, nilRet, "a successful return")
				rebuild := evCallClosure(build)
				needs := func(a []bool) bool { return a[3] && (a[1] || a[2]) && !a[0] }
				checkGuard(p, r, GuardSpec{Rule: "rebuild-only-damaged", Fn: rec, Target: rebuild, TargetDesc: "rebuilding the table", Atoms: atoms, G: func(a []bool) bool { return a[3] && (a[1] || a[2]) }, GDesc: "goodKeys > 0 ∧ damaged", MinTargets: 1})
				checkGuardExact(p, r, GuardSpec{Rule: "damaged-table-rebuilt", Fn: rec, Target: rebuild, TargetDesc: "the table is rebuilt from its readable entries", Atoms: atoms, G: needs, GDesc: "goodKeys > 0 ∧ damaged ∧ ¬strict"}, addTable, "registration")
				// the overall maximum is taken for every registered table
				if len(findCalls(rec, "(*leveldb.sessionRecord).addTable")) > 0 {
					hasMaxIf := func(in ssa.Instruction) bool {
						iff, ok := in.(*ssa.If)
						if !ok {
							return false
						}
						b, ok := iff.Cond.(*ssa.BinOp)
						if !ok {
							return false
						}
						_, isPhiX := b.X.(*ssa.Phi)
						u, isLoad := stripConv(b.Y).(*ssa.UnOp)
						return isPhiX && isLoad && u.Op == token.MUL && resolveCell(u.X) != nil && b.Op == token.GTR
					}
					ordPrecede(p, r, rec, "max-folded-before-registration", nil, hasMaxIf, "folding the table's maximum into the overall maximum", addTable, "rec.addTable")
				}
			}
			// I/O errors abort the scan, corruption does not
			iterErr := func(v ssa.Value) bool {
				c, ok := stripConv(v).(*ssa.Call)
				return ok && c.Call.IsInvoke() && c.Call.Method.Name() == "Error" && namedOf(c.Call.Value.Type()) == "leveldb/iterator.Iterator"
			}
			for _, f := range []*ssa.Function{rec, build} {
				eNil := nilAtom("iterErr==nil", iterErr)
				corr := boolAtom("isCorrupted", mCall("leveldb/errors.IsCorrupted"))
				cont := addTable
				contDesc := "registration"
				if f == build {
					cont = evCall("(*leveldb/table.Writer).Close")
					contDesc = "finishing the rebuilt table"
				}
				checkGuard(p, r, GuardSpec{Rule: "io-error-aborts", Fn: f, Starts: after(f, func(in ssa.Instruction) bool { v, ok := in.(ssa.Value); return ok && iterErr(v) }), Target: cont, TargetDesc: contDesc, Atoms: []Atom{eNil, corr}, G: func(a []bool) bool { return a[0] || a[1] }, GDesc: "iter.Error() == nil ∨ IsCorrupted(err)", MinTargets: 1})
				// corruption alone does not abort: under (err != nil ∧ corrupted) no error return before cont
				errRet := func(in ssa.Instruction) bool {
					ret, ok := in.(*ssa.Return)
					if !ok || len(ret.Results) == 0 {
						return false
					}
					last := ret.Results[len(ret.Results)-1]
					return isErrorType(last.Type()) && !isNilConst(retValue(ret, last))
				}
				if f == rec {
					asg := []bool{false, true}
					r.Site(1)
					if w := findPathV(after(f, func(in ssa.Instruction) bool { v, ok := in.(ssa.Value); return ok && iterErr(v) }), atomEdges([]Atom{eNil, corr}, asg), func(in ssa.Instruction) bool {
						// stop at the end of the error test region: the counters' accumulation
						_, isStore := in.(*ssa.Store)
						return isStore && !isReturnSpill(in)
					}, errRet, atomVals([]Atom{eNil, corr}, asg)); w != nil {
						r.Fail(fnName(f), "corruption-aborts", "a corruption error from the scan does not abort recovery", "with a corrupted-block error the closure returns the error", p.posOfLast(w, errRet), p.renderPath(w))
					} else {
						r.OK(fnName(f), "corruption-tolerated", "a corruption error from the scan does not abort recovery")
					}
				}
			}
			// the callback counts only corruption
			checkGuard(p, r, GuardSpec{Rule: "callback-counts-corruption-only", Fn: cb, Target: func(in ssa.Instruction) bool {
				st, ok := in.(*ssa.Store)
				return ok && resolveCell(st.Addr) != nil && resolveCell(st.Addr).Parent() == rec
			}, TargetDesc: "damaged-block counter++", Atoms: []Atom{boolAtom("isCorrupted", mCall("leveldb/errors.IsCorrupted"))}, G: func(a []bool) bool { return a[0] }, GDesc: "IsCorrupted(err)", MinTargets: 1})
			// rebuild copies only well-formed keys
			checkGuard(p, r, GuardSpec{Rule: "rebuild-copies-wellformed-only", Fn: build, Target: evCall("(*leveldb/table.Writer).Append"), TargetDesc: "tw.Append", Atoms: []Atom{boolAtom("valid", mCall("leveldb.validInternalKey"))}, G: func(a []bool) bool { return a[0] }, GDesc: "validInternalKey(key)", MinTargets: 1})
			ordNotOnError(p, r, build, "append-error-aborts", mErrOfCall("(*leveldb/table.Writer).Append"), "tw.Append", evCall("(*leveldb/table.Writer).Append"), evCall("(*leveldb/table.Writer).Close"), "tw.Close")
			// StrictReader masked on a private copy
			r.Site(1)
			okMask, why := false, "no store `o.Strict &^= StrictReader` on the dupOptions copy found"
			instrs(rt, func(_ *ssa.BasicBlock, _ int, in ssa.Instruction) {
				st, ok := in.(*ssa.Store)
				if !ok || !isFieldAddr(st.Addr, "leveldb/opt.Options", "Strict") {
					return
				}
				fa := st.Addr.(*ssa.FieldAddr)
				_, priv := callValue(testedValue(fa.X), "leveldb.dupOptions")
				if !priv {
					// the options variable is a cell (captured by the per-table closures): private if a
					// store of dupOptions(...) into the cell dominates this access
					if ld, isLd := stripConv(fa.X).(*ssa.UnOp); isLd && ld.Op == token.MUL {
						if cell, isCell := ld.X.(*ssa.Alloc); isCell {
							for _, ref := range *cell.Referrers() {
								cs, isSt := ref.(*ssa.Store)
								if !isSt || cs.Addr != ssa.Value(cell) {
									continue
								}
								if _, isDup := callValue(cs.Val, "leveldb.dupOptions"); isDup && (cs.Block() == st.Block() || cs.Block().Dominates(st.Block())) {
									priv = true
								}
							}
						}
					}
				}
				b, isB := st.Val.(*ssa.BinOp)
				masks := false
				if isB && b.Op == token.AND_NOT {
					if k, isC := constInt(b.Y); isC && k == strictReaderValue(p) {
						masks = true
					}
				}
				if isB && b.Op == token.AND {
					if k, isC := constUint(b.Y); isC && k&uint64(strictReaderValue(p)) == 0 {
						masks = true
					}
				}
				if priv && masks {
					okMask = true
				} else if !priv {
					why = "Options.Strict of a non-private options value is modified at " + p.Pos(st.Pos())
					okMask = false
				}
			})
			r.Check(okMask, fnName(rt), "strict-reader-masked-on-copy", "StrictReader is cleared on a private copy of the options (damaged blocks are skipped, not fatal, during the scan; the caller's options are untouched)", why, p.Pos(rt.Pos()))
			// clearing one flag only means "tolerant reads" if the field was not 0 before: 0 is read
			// as DefaultStrict, which contains StrictReader (and the block-checksum flag). The copy
			// handed out by dupOptions must therefore have its zero Strict replaced by DefaultStrict
			// on EVERY path — also for nil options.
			if du := resolveFn(p, r, "leveldb", "dupOptions"); du != nil {
				r.Site(1)
				zeroTest := func(in ssa.Instruction) bool {
					b, ok := in.(*ssa.BinOp)
					if !ok || (b.Op != token.EQL && b.Op != token.NEQ) {
						return false
					}
					isZ := func(v ssa.Value) bool { k, isC := constInt(v); return isC && k == 0 }
					return (isFieldLoad(b.X, "leveldb/opt.Options", "Strict") && isZ(b.Y)) || (isFieldLoad(b.Y, "leveldb/opt.Options", "Strict") && isZ(b.X))
				}
				setsDefault := func(in ssa.Instruction) bool {
					st, ok := in.(*ssa.Store)
					if !ok || !isFieldAddr(st.Addr, "leveldb/opt.Options", "Strict") {
						return false
					}
					k, isC := constInt(st.Val)
					return isC && k == strictConst(p, "DefaultStrict")
				}
				if countInstr(du, setsDefault) == 0 {
					r.Fail(fnName(du), "zero-strict-normalised", "dupOptions replaces a zero Strict by DefaultStrict on every path", "no store Strict = DefaultStrict", p.Pos(du.Pos()), nil)
				} else if w := findPath(entryPoint(du), nil, orPred(zeroTest, setsDefault), isReturn); w != nil {
					r.Fail(fnName(du), "zero-strict-normalised", "dupOptions replaces a zero Strict by DefaultStrict on every path", "a path returns options whose Strict was never tested for 0 (e.g. for nil options): recoverTable then clears StrictReader from 0, the result 0 is read as DefaultStrict and the recovery scan is strict — it stops at the first damaged block and drops the undamaged blocks behind it", p.posOfLast(w, isReturn), p.renderPath(w))
				} else {
					r.OK(fnName(du), "zero-strict-normalised", "dupOptions replaces a zero Strict by DefaultStrict on every path")
				}
			}
			ordPrecede(p, r, rt, "mask-before-scan", nil, func(in ssa.Instruction) bool {
				st, ok := in.(*ssa.Store)
				return ok && isFieldAddr(st.Addr, "leveldb/opt.Options", "Strict")
			}, "masking StrictReader", evCallClosure(rec), "scanning tables")
		}
		r.End()
	}
	if want("C19.11") {
		ruleFileNameTables(p, r, "C19.11")
	}
	if want("C19.10") {
		ruleFileEntryPoints(p, r, "C19.10")
	}
	if want("C19.9") {
		ruleRenameReplacesLegacyName(p, r, "C19.9")
	}
	if want("C19.8") {
		ruleMarkFileNum(p, r, "C19.8")
	}
	if want("C19.7") {
		ruleVersionGetGuards(p, r, "C19.7")
	}
	if want("C19.6") {
		ruleTableOptions(p, r, "C19.6")
	}
	if want("C19.5") {
		r.Begin("C19.5", "E-ORD", "Recover continues into the ordinary open path: recoverTable precedes openDB, openDB is on every success path and is not reached after a failed table recovery; openDB replays the journals before it starts background work", 4)
		if fn := resolveFn(p, r, "leveldb", "Recover"); fn != nil {
			rtc := evCall("leveldb.recoverTable")
			odb := evCall("leveldb.openDB")
			ordPrecede(p, r, fn, "tables-before-open", nil, rtc, "recoverTable", odb, "openDB")
			ordOnSuccess(p, r, fn, "ends-in-open", nil, odb, "openDB")
			ordNotOnError(p, r, fn, "no-open-on-recovery-error", mErrOfCall("leveldb.recoverTable"), "recoverTable", rtc, odb, "openDB")
		}
		if fn := resolveFn(p, r, "leveldb", "openDB"); fn != nil {
			rj := evCall("(*leveldb.DB).recoverJournal", "(*leveldb.DB).recoverJournalRO")
			ordOnSuccess(p, r, fn, "journals-replayed", nil, rj, "recoverJournal / recoverJournalRO")
			isGo := func(in ssa.Instruction) bool { _, ok := in.(*ssa.Go); return ok }
			ordPrecede(p, r, fn, "replay-before-background", nil, rj, "journal replay", isGo, "starting background goroutines")
		}
		r.End()
	}
}

func isReturnSpill(in ssa.Instruction) bool {
	st, ok := in.(*ssa.Store)
	if !ok {
		return false
	}
	al, ok := st.Addr.(*ssa.Alloc)
	return ok && !al.Heap && isErrorType(derefT(al.Type()))
}

func strictReaderValue(p *Prog) int64 {
	for _, pkg := range p.Pkgs {
		if pkg.Types != nil && pkg.Types.Path() == modPath+"leveldb/opt" {
			if o := pkg.Types.Scope().Lookup("StrictReader"); o != nil {
				var k int64
				fmt.Sscan(constValString(o), &k)
				return k
			}
		}
	}
	return -1
}
