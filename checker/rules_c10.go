package main

import (
	"fmt"
	"go/token"
	"go/types"

	"golang.org/x/tools/go/ssa"
)

func init() {
	register(&propDef{
		id:          "C10",
		run:         runC10,
		explanation: "Static per-path accounting of the four-channel writer protocol (writeLockC token, writeMergeC requests, writeMergedC replies, writeAckC results) with a path-sensitive typestate engine over SSA: on every CFG path of Write/putRec/writeLocked/unlockWrite every received merge request gets exactly one reply, every merged writer collects exactly one result, every exit of the leader passes exactly one unlockWrite with the loop's own overflow/merged values, and the lock is either released or handed off exactly once. Also the guards inside unlockWrite and the sibling agreement of Write and putRec. These are necessary conditions: breaking one leaves a writer unanswered, answered twice, or the lock lost/duplicated on that path. Rendezvous orders between goroutines and fairness are NOT decided.",
		notCovered:  "interleavings of N writers with Close/transactions/persistent-error handler; that the channel rendezvous happen in a compatible order across goroutines; fairness",
		assumptions: []string{"unbuffered channel send/receive pairs up one sender with one receiver", "token contracts table in token.go"},
	})
}

func runC10(p *Prog, r *Report) {
	if want("C10.12") {
		ruleWriteOptionsForwarded(p, r, "C10.12")
	}
	if want("C10.11") {
		ruleOptGetters(p, r, "C10.11", "the merge switch", "WriteOptions.GetNoWriteMerge", "Options.GetNoWriteMerge")
	}
	if want("C10.10") {
		// the lock holder stalled by back-pressure gets an answer when the wait fails (shared with C09.10)
		ruleWriteBackpressure(p, r, "C10.10")
	}
	if want("C10.9") {
		// a writer is acknowledged only after its group is logged (shared with C04)
		ruleAckAfterLog(p, r, "C10.9")
	}
	if want("C10.1") {
		ruleTokenContracts(p, r, "C10.1", 12)
	}
	if want("C10.2") {
		r.Begin("C10.2", "E-GUARD", "unlockWrite: the ack loop sends the group's result `merged` times; the hand-off happens only when overflow, the plain release only when not", 3)
		if fn := resolveFn(p, r, "leveldb", "(*DB).unlockWrite"); fn != nil {
			overflow := boolAtom("overflow", func(v ssa.Value) bool { pa, ok := v.(*ssa.Parameter); return ok && paramRefName(pa) == "overflow" })
			handoff := func(in ssa.Instruction) bool {
				s, ok := in.(*ssa.Send)
				if !ok || !isFieldLoad(s.Chan, tDB, "writeMergedC") {
					return false
				}
				bv, ok := constBool(s.X)
				return ok && !bv
			}
			release := evRecvOn(tDB, "writeLockC")
			ackSend := evSendOn(tDB, "writeAckC")
			checkGuard(p, r, GuardSpec{Rule: "handoff-iff-overflow", Fn: fn, Target: handoff, TargetDesc: "writeMergedC <- false (hand-off)", Atoms: []Atom{overflow}, G: func(a []bool) bool { return a[0] }, GDesc: "overflow", MinTargets: 1})
			checkGuard(p, r, GuardSpec{Rule: "release-iff-not-overflow", Fn: fn, Target: release, TargetDesc: "<-writeLockC (release)", Atoms: []Atom{overflow}, G: func(a []bool) bool { return !a[0] }, GDesc: "¬overflow", MinTargets: 1})
			// and conversely: a parked overflow writer IS answered (it listens to nothing else), a
			// non-overflow exit DOES release the lock
			checkGuardExact(p, r, GuardSpec{Rule: "overflow-writer-answered", Fn: fn, Target: handoff, TargetDesc: "the parked overflow writer gets its reply (and the lock)", Atoms: []Atom{overflow}, G: func(a []bool) bool { return a[0] }, GDesc: "overflow"}, isReturn, "return")
			checkGuardExact(p, r, GuardSpec{Rule: "lock-released-without-overflow", Fn: fn, Target: release, TargetDesc: "the write lock is released", Atoms: []Atom{overflow}, G: func(a []bool) bool { return !a[0] }, GDesc: "¬overflow"}, isReturn, "return")
			// no `writeMergedC <- true` here
			n := countInstr(fn, func(in ssa.Instruction) bool {
				s, ok := in.(*ssa.Send)
				if !ok || !isFieldLoad(s.Chan, tDB, "writeMergedC") {
					return false
				}
				bv, ok := constBool(s.X)
				return !ok || bv
			})
			r.Check(n == 0, fnName(fn), "no-merged-reply-here", "unlockWrite never replies `merged` (true) on writeMergedC", fmt.Sprintf("%d non-false sends on writeMergedC", n), p.Pos(fn.Pos()))
			// ack loop: guarded by i < merged, sends the err parameter, i advances by one
			var mergedP, errP *ssa.Parameter
			for _, pa := range fn.Params {
				if paramRefName(pa) == "merged" {
					mergedP = pa
				}
				if isErrorType(pa.Type()) {
					errP = pa
				}
			}
			if mergedP == nil || errP == nil {
				r.Fail(fnName(fn), "ack-loop:unresolved-anchor", "unlockWrite(overflow, merged, err) parameters", "parameters not found", p.Pos(fn.Pos()), nil)
			} else {
				ctr := func(v ssa.Value) bool {
					ph, ok := v.(*ssa.Phi)
					if !ok {
						return false
					}
					hasZero, hasInc := false, false
					for _, e := range ph.Edges {
						if c, ok := constInt(e); ok && c == 0 {
							hasZero = true
						}
						if b, ok := e.(*ssa.BinOp); ok && b.Op == token.ADD && b.X == ph {
							if c, ok := constInt(b.Y); ok && c == 1 {
								hasInc = true
							}
						}
					}
					return hasZero && hasInc
				}
				inLoop := cmpAtom("i<merged", token.LSS, ctr, func(v ssa.Value) bool { return v == mergedP })
				checkGuard(p, r, GuardSpec{Rule: "ack-count", Fn: fn, Target: ackSend, TargetDesc: "writeAckC <- err", Atoms: []Atom{inLoop}, G: func(a []bool) bool { return a[0] }, GDesc: "i < merged with i counting 0,1,2,…", MinTargets: 1})
				// the loop is exited only when !(i<merged): the release/hand-off is reached only then
				checkGuard(p, r, GuardSpec{Rule: "all-acked-before-release", Fn: fn, Target: orPred(handoff, release), TargetDesc: "release / hand-off", Atoms: []Atom{inLoop}, G: func(a []bool) bool { return !a[0] }, GDesc: "¬(i < merged) (all merged writers acknowledged)", MinTargets: 2})
				okv := true
				instrs(fn, func(_ *ssa.BasicBlock, _ int, in ssa.Instruction) {
					if s, ok := in.(*ssa.Send); ok && isFieldLoad(s.Chan, tDB, "writeAckC") && s.X != errP {
						okv = false
					}
				})
				r.Check(okv, fnName(fn), "ack-value", "every merged writer receives the group's result (the err parameter)", "writeAckC receives a value other than the err parameter", p.Pos(fn.Pos()))
			}
		}
		r.End()
	}
	if want("C10.2") {
		ruleGroupResultConsistent(p, r, "C10.2b")
	}
	if want("C10.3") {
		r.Begin("C10.3", "E-ORD", "merge loop: each reply `merged` is counted (merged++) and the request's sync flag is or-ed into the group's", 2)
		if fn := resolveFn(p, r, "leveldb", "(*DB).writeLocked"); fn != nil {
			sel := func(in ssa.Instruction) bool {
				s, ok := in.(*ssa.Select)
				return ok && len(s.States) == 1 && isFieldLoad(s.States[0].Chan, tDB, "writeMergeC")
			}
			sendTrue := func(in ssa.Instruction) bool {
				s, ok := in.(*ssa.Send)
				if !ok || !isFieldLoad(s.Chan, tDB, "writeMergedC") {
					return false
				}
				bv, ok := constBool(s.X)
				return ok && bv
			}
			// merged counter: a phi-carried int incremented by one between the receive and the reply
			inc := func(in ssa.Instruction) bool {
				b, ok := in.(*ssa.BinOp)
				if !ok || b.Op != token.ADD {
					return false
				}
				c, ok := constInt(b.Y)
				if !ok || c != 1 {
					return false
				}
				_, isPhi := b.X.(*ssa.Phi)
				isCell := false
				if u, ok := b.X.(*ssa.UnOp); ok && resolveCell(u.X) != nil {
					isCell = true
				}
				return (isPhi || isCell) && feedsUnlockMerged(fn, b)
			}
			ordNeverAfter(p, r, fn, "reply-counted", nil, sel, "receive of a merge request", sendTrue, "writeMergedC <- true", inc, "merged++")
			// every merged request's sync flag is read (and or-ed into the group's, C10.4) before it is
			// told "merged": a Put(Sync) merged into a non-sync leader's group must still be synced
			readSync := func(in ssa.Instruction) bool {
				v, ok := in.(ssa.Value)
				return ok && mFieldLoad("leveldb.writeMerge", "sync")(v)
			}
			ordNeverAfter(p, r, fn, "merged-sync-honoured", groupNotYetSync(fn), sel, "receive of a merge request", sendTrue, "writeMergedC <- true", readSync, "reading the request's sync flag")
			// non-blocking: the leader never waits for requests
			nb := countInstr(fn, func(in ssa.Instruction) bool { s, ok := in.(*ssa.Select); return ok && sel(in) && !s.Blocking })
			r.Check(nb == 1, fnName(fn), "merge-receive-nonblocking", "the leader polls writeMergeC without blocking (select with default)", fmt.Sprintf("%d non-blocking receives", nb), p.Pos(fn.Pos()))
			r.Site(1)
		}
		r.End()
	}
	if want("C10.4") {
		r.Begin("C10.4", "E-FLOW", "after the merge loop every unlockWrite receives the loop's own overflow and merged variables; the only constant call precedes the loop; the journal's sync flag includes every merged writer's", 3)
		if fn := resolveFn(p, r, "leveldb", "(*DB).writeLocked"); fn != nil {
			sel := func(in ssa.Instruction) bool {
				s, ok := in.(*ssa.Select)
				return ok && len(s.States) == 1 && isFieldLoad(s.States[0].Chan, tDB, "writeMergeC")
			}
			for _, c := range findCalls(fn, "(*leveldb.DB).unlockWrite") {
				cc := callCommon(c)
				r.Site(1)
				afterLoop := findPath(after(fn, sel), nil, nil, func(in ssa.Instruction) bool { return in == c }) != nil
				_, c1 := constBool(cc.Args[1])
				_, c2 := constInt(cc.Args[2])
				pos := p.Pos(c.Pos())
				if afterLoop {
					ok := !c1 && !c2 && mOriginAny(func(v ssa.Value) bool { b, ok := constBool(v); return ok && b })(cc.Args[1]) &&
						mOriginAny(func(v ssa.Value) bool { b, ok := v.(*ssa.BinOp); return ok && b.Op == token.ADD })(cc.Args[2])
					r.Check(ok, fnName(fn), "unlock-uses-loop-state", "unlockWrite after the merge loop passes the loop's overflow and merged", "unlockWrite at "+pos+" is reachable after the merge loop but passes constants / values not fed by the loop: merged writers would never be acknowledged or the overflowed writer never handed the lock", pos)
				} else {
					ok := c1 && c2
					r.Check(ok, fnName(fn), "early-unlock-constant", "unlockWrite before the merge loop passes (false, 0, err)", "unexpected arguments at "+pos, pos)
				}
			}
			// sync flag plumbing
			var syncP *ssa.Parameter
			for _, pa := range fn.Params {
				if paramRefName(pa) == "sync" {
					syncP = pa
				}
			}
			checkCallArg(p, r, fn, "sync-includes-own", "(*leveldb.DB).writeJournal", 3, mOriginAny(func(v ssa.Value) bool { return syncP != nil && v == syncP }), "fed by the leader's own sync flag")
			checkCallArg(p, r, fn, "sync-includes-merged", "(*leveldb.DB).writeJournal", 3, mOriginAny(mFieldLoad("leveldb.writeMerge", "sync")), "or-ed with every merged request's sync flag")
		}
		for _, name := range []string{"(*DB).Write", "(*DB).putRec"} {
			if fn := resolveFn(p, r, "leveldb", name); fn != nil {
				checkCallArg(p, r, fn, "sync-from-options", "(*leveldb.DB).writeLocked", 4, mSyncFlag, "WriteOptions.GetSync() && !Options.GetNoSync()")
				// the merge request carries the same flag
				okv := false
				instrs(fn, func(_ *ssa.BasicBlock, _ int, in ssa.Instruction) {
					if st, ok := in.(*ssa.Store); ok && isFieldAddr(st.Addr, "leveldb.writeMerge", "sync") {
						if mSyncFlag(st.Val) {
							okv = true
						}
					}
				})
				r.Check(okv, fnName(fn), "merge-request-carries-sync", "the merge request's sync field is the writer's sync flag", "writeMerge.sync is not set from WriteOptions.GetSync()", p.Pos(fn.Pos()))
				r.Site(1)
			}
		}
		r.End()
	}
	if want("C10.7") {
		// the group leader writes ONE journal record for the whole group: all members survive a crash or none
		ruleJournalWrite(p, r, "C10.7")
	}
	if want("C10.8") {
		// the leader's and the waiters' blocking channel operations all have a way out when the DB closes (shared with C09.5)
		ruleChanInventory(p, r, "C10.8")
	}
	if want("C10.5") {
		r.Begin("C10.5", "E-SIB", "Write and putRec agree on their lock-acquisition selects (same case sets, with and without merge)", 2)
		sig := func(fn *ssa.Function) []string {
			var out []string
			for _, op := range chanOps(fn) {
				if op.kind == "select" {
					out = append(out, op.key[len(fnName(fn)):])
				}
			}
			return out
		}
		w := resolveFn(p, r, "leveldb", "(*DB).Write")
		pr := resolveFn(p, r, "leveldb", "(*DB).putRec")
		if w != nil && pr != nil {
			a, b := sig(w), sig(pr)
			r.Site(len(a))
			r.Check(fmt.Sprint(a) == fmt.Sprint(b) && len(a) == 2, "(*leveldb.DB).Write~(*leveldb.DB).putRec", "select-agreement", "Write and putRec use the same two acquisition selects", fmt.Sprintf("Write: %v; putRec: %v", a, b), p.Pos(w.Pos()))
		}
		r.End()
	}
	if want("C10.6") {
		rulePublishAfterInsert(p, r, "C10.6")
	}
}

func rulePublishAfterInsert(p *Prog, r *Report, rule string) {
	r.Begin(rule, "E-ORD", "one publication per group: exactly one addSeq in writeLocked, after all putMem, on the success path only", 2)
	if fn := resolveFn(p, r, "leveldb", "(*DB).writeLocked"); fn != nil {
		addSeq := evCall("(*leveldb.DB).addSeq")
		putMem := evCall("(*leveldb.Batch).putMem")
		n := countInstr(fn, addSeq)
		r.Check(n >= 1, fnName(fn), "publishes", "writeLocked publishes the group's sequence numbers", "no addSeq", p.Pos(fn.Pos()))
		ordNeverAfter(p, r, fn, "publish-after-insert", nil, addSeq, "db.addSeq", putMem, "batch.putMem", nil, "")
		okUnlock, ackDesc := ackPoints(fn)
		ordPrecede(p, r, fn, "publish-before-ack", nil, addSeq, "db.addSeq", okUnlock, ackDesc)
		// the group's numbers are published before the buffer that now holds its records can be
		// frozen: newMem records frozenSeq = db.seq, and the flush writes that number into the
		// manifest; a rotation between the insert and addSeq freezes a sequence that is BELOW the
		// records of the frozen buffer (they vanish at the next reopen)
		rot := evCall("(*leveldb.DB).rotateMem", "(*leveldb.DB).newMem")
		ordNeverAfter(p, r, fn, "publish-before-rotation", nil, putMem, "batch.putMem", rot, "rotateMem / newMem (freezing the buffer)", addSeq, "db.addSeq")
		// the published delta is the group's total length
		checkCallArg(p, r, fn, "delta-is-group-length", "(*leveldb.DB).addSeq", 1, mOriginAny(mCall("leveldb.batchesLen")), "batchesLen(batches)")
	}
	r.End()
}

// feedsUnlockMerged: value v (merged+1) flows (through phis) into the `merged` argument of an
// unlockWrite call in fn.
func feedsUnlockMerged(fn *ssa.Function, v ssa.Value) bool {
	found := false
	withAnons(fn, func(f *ssa.Function) {
		for _, c := range findCalls(f, "(*leveldb.DB).unlockWrite") {
			cc := callCommon(c)
			if len(cc.Args) >= 3 && mOriginAny(func(x ssa.Value) bool { return x == v })(cc.Args[2]) {
				found = true
			}
		}
	})
	return found
}

// ackPoints: where the leader acknowledges success — the unlockWrite(.., nil) call sites, or, when
// the unlock is a deferred epilogue, the success returns.
func ackPoints(fn *ssa.Function) (InstrPred, string) {
	okUnlock := andPred(evCall("(*leveldb.DB).unlockWrite"), func(in ssa.Instruction) bool {
		cc := callCommon(in)
		return cc != nil && len(cc.Args) == 4 && isNilConst(cc.Args[3])
	})
	if countInstr(fn, okUnlock) > 0 {
		return okUnlock, "unlockWrite(.., nil)"
	}
	deferred := false
	for _, a := range fn.AnonFuncs {
		if len(findCalls(a, "(*leveldb.DB).unlockWrite")) > 0 {
			aa := a
			if countInstr(fn, func(in ssa.Instruction) bool { d, ok := in.(*ssa.Defer); return ok && closureCallee(&d.Call) == aa }) > 0 {
				deferred = true
			}
		}
	}
	if deferred {
		return func(in ssa.Instruction) bool {
			ret, ok := in.(*ssa.Return)
			return ok && in.Block() != fn.Recover && returnIsSuccess(ret)
		}, "a success return (unlock deferred)"
	}
	// single-exit form: one unlockWrite(.., err) after the insert whose error may be nil — the
	// acknowledgement of success is that call (the rules that use it prune error edges themselves)
	putMem := evCall("(*leveldb.Batch).putMem")
	late := func(in ssa.Instruction) bool {
		if !isCallTo(in, "(*leveldb.DB).unlockWrite") {
			return false
		}
		if _, isD := in.(*ssa.Defer); isD {
			return false
		}
		cc := callCommon(in)
		if len(cc.Args) != 4 || isNilConst(cc.Args[3]) {
			return false
		}
		return findPath(after(fn, putMem), nil, nil, func(i2 ssa.Instruction) bool { return i2 == in }) != nil
	}
	if countInstr(fn, late) > 0 {
		return late, "unlockWrite(.., err) after the insert"
	}
	return okUnlock, "unlockWrite(.., nil)"
}

// mSyncFlag: the value is `wo.GetSync() && !o.GetNoSync()` (short-circuit phi).
func mSyncFlag(v ssa.Value) bool {
	return mShortCircuitAnd(mCall("(*leveldb/opt.WriteOptions).GetSync"), func(x ssa.Value) bool {
		u, ok := x.(*ssa.UnOp)
		if !ok || u.Op != token.NOT {
			return false
		}
		_, isCall := callValue(u.X, "(*leveldb/opt.Options).GetNoSync")
		return isCall
	})(v)
}

// ruleGroupResultConsistent: the error handed to unlockWrite (which acknowledges every merged
// writer with it) is the very error the leader returns on that path.
func ruleGroupResultConsistent(p *Prog, r *Report, rule string) {
	r.Begin(rule, "E-FLOW", "the group's result is one value: on every exit of writeLocked the error passed to unlockWrite (with which every merged writer is acknowledged) is the error the leader itself returns", 2)
	defer r.End()
	fn := resolveFn(p, r, "leveldb", "(*DB).writeLocked")
	if fn == nil {
		return
	}
	uw := evCall("(*leveldb.DB).unlockWrite")
	same := func(a, b ssa.Value) bool {
		if isNilConst(a) && isNilConst(b) {
			return true
		}
		if a == b {
			return true
		}
		// two loads of the same local cell (named result) in the same block, no store in between
		ua, ok1 := a.(*ssa.UnOp)
		ub, ok2 := b.(*ssa.UnOp)
		if ok1 && ok2 && resolveCell(ua.X) != nil && resolveCell(ua.X) == resolveCell(ub.X) {
			return true
		}
		// a load of the cell vs the value just stored into it
		if ok1 {
			if testedValue(ua) == b {
				return true
			}
		}
		if ok2 {
			if testedValue(ub) == a {
				return true
			}
		}
		return false
	}
	n := 0
	for _, c := range findCalls(fn, "(*leveldb.DB).unlockWrite") {
		if _, isDefer := c.(*ssa.Defer); isDefer {
			continue
		}
		n++
		cc := callCommon(c)
		e := cc.Args[3]
		bad := ""
		instrs(fn, func(_ *ssa.BasicBlock, _ int, in ssa.Instruction) {
			ret, ok := in.(*ssa.Return)
			if !ok || bad != "" {
				return
			}
			if findPath([]point{{c.Block(), indexOf(c) + 1}}, nil, uw, func(i2 ssa.Instruction) bool { return i2 == in }) == nil {
				return
			}
			rv := retValue(ret, ret.Results[0])
			if !same(rv, e) {
				bad = p.Pos(ret.Pos())
			}
		})
		r.Check(bad == "", fnName(fn), "ack-equals-return@"+branchLabel(c), "merged writers are acknowledged with the error the leader returns", "unlockWrite at "+p.Pos(c.Pos())+" acknowledges with a different value than the return at "+bad+": merged writers are told success while the group failed (or vice versa)", p.Pos(c.Pos()))
	}
	// deferred-epilogue form: the closure must read the same result cell the returns read
	for _, a := range fn.AnonFuncs {
		for _, c := range findCalls(a, "(*leveldb.DB).unlockWrite") {
			deferred := countInstr(fn, func(in ssa.Instruction) bool { d, ok := in.(*ssa.Defer); return ok && closureCallee(&d.Call) == a }) > 0
			if !deferred {
				continue
			}
			n++
			cc := callCommon(c)
			var cell *ssa.Alloc
			if u, ok := cc.Args[3].(*ssa.UnOp); ok {
				cell = resolveCell(u.X)
			}
			bad := ""
			instrs(fn, func(_ *ssa.BasicBlock, _ int, in ssa.Instruction) {
				ret, ok := in.(*ssa.Return)
				if !ok || bad != "" || in.Block() == fn.Recover {
					return
				}
				// the returned value is re-loaded from the result cell after rundefers
				u, ok := ret.Results[0].(*ssa.UnOp)
				if !ok || cell == nil || resolveCell(u.X) != cell {
					bad = p.Pos(ret.Pos())
				}
			})
			r.Check(bad == "", fnName(fn), "deferred-ack-equals-return", "the deferred unlockWrite acknowledges merged writers with the function's own result variable", "the deferred epilogue passes a variable that is not the result returned at "+bad+" (e.g. a shadowed or stale err): merged writers get a different answer than the leader", p.Pos(c.Pos()))
		}
	}
	r.Site(n)
	if n == 0 {
		r.Fail(fnName(fn), "unresolved-anchor", "writeLocked calls unlockWrite", "no unlockWrite call (direct or deferred) found", p.Pos(fn.Pos()), nil)
	}
}

// groupNotYetSync: the assumption "the group's sync flag is still false" (otherwise `sync ||
// incoming.sync` short-circuits and legitimately skips reading the request's flag): the leader's
// own sync parameter and every value merged from it are false.
func groupNotYetSync(fn *ssa.Function) EdgeFilter {
	var syncP *ssa.Parameter
	for _, pa := range fn.Params {
		if paramRefName(pa) == "sync" && isBoolType(pa.Type()) {
			syncP = pa
		}
	}
	return assumeBool(func(v ssa.Value) (bool, bool) {
		if syncP == nil {
			return false, false
		}
		if v == ssa.Value(syncP) {
			return false, true
		}
		// the loop-carried group flag: a boolean phi that merges the parameter with later values
		if ph, ok := v.(*ssa.Phi); ok && isBoolType(ph.Type()) {
			for _, e := range ph.Edges {
				if e == ssa.Value(syncP) {
					return false, true
				}
			}
		}
		return false, false
	})
}

func isBoolType(t types.Type) bool {
	b, ok := t.Underlying().(*types.Basic)
	return ok && b.Kind() == types.Bool
}
