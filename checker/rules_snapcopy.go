package main

import (
	"fmt"
	"go/types"
	"strings"

	"golang.org/x/tools/go/ssa"
)

// ruleRetrySnapshotsAreCopies: a table compaction that hits a transient error is re-run from a
// saved state (compaction.save/restore, tableCompactionBuilder.snap*). Slice-valued state that
// is mutated in place while running (the per-level table cursors tPtrs used by baseLevelForKey,
// the last user key) must be saved and restored BY COPY: an aliasing assignment makes restore() a
// no-op, the retried run judges tombstones against advanced cursors and drops them although an
// older version lives deeper.
func ruleRetrySnapshotsAreCopies(p *Prog, r *Report, rule string) {
	r.Begin(rule, "E-FLOW", "compaction retry state is saved and restored by copy: every store to a slice-typed snap* field, and every store that restores the live field from it, is an append onto the destination's own [:0] reslice (or onto nil / a fresh make) — never the other slice itself", 4)
	defer r.End()
	isCopy := func(v ssa.Value, dstField string) bool {
		c, ok := stripConv(v).(*ssa.Call)
		if !ok || !isCallTo(c, "builtin:append") {
			return false
		}
		base := c.Call.Args[0]
		if isNilConst(base) {
			return true
		}
		if _, ok := base.(*ssa.MakeSlice); ok {
			return true
		}
		if sl, ok := base.(*ssa.Slice); ok {
			if _, f, _, ok := fieldOfLoad(sl.X); ok && f == dstField {
				return true
			}
			if _, ok := sl.X.(*ssa.MakeSlice); ok {
				return true
			}
		}
		return false
	}
	n := 0
	check := func(fn *ssa.Function) {
		instrs(fn, func(_ *ssa.BasicBlock, _ int, in ssa.Instruction) {
			st, ok := in.(*ssa.Store)
			if !ok {
				return
			}
			_, f, _, ok := fieldOf(st.Addr)
			if !ok {
				return
			}
			if _, isSlice := st.Val.Type().Underlying().(*types.Slice); !isSlice {
				return
			}
			// saving: destination is snapX; restoring: source is a load of snapX
			saving := strings.HasPrefix(f, "snap")
			restoring := false
			if _, sf, _, ok := fieldOfLoad(st.Val); ok && strings.HasPrefix(sf, "snap") {
				restoring = true // a bare load of the saved slice is being stored
			}
			if c, ok := stripConv(st.Val).(*ssa.Call); ok && isCallTo(c, "builtin:append") && len(c.Call.Args) == 2 {
				if _, sf, _, ok := fieldOfLoad(c.Call.Args[1]); ok && strings.HasPrefix(sf, "snap") {
					restoring = true
				}
			}
			if !saving && !restoring {
				return
			}
			n++
			r.Site(1)
			r.Fn(fnName(fn))
			what := "saved"
			if restoring && !saving {
				what = "restored"
			}
			r.Check(isCopy(st.Val, f), fnName(fn), what+"-by-copy:"+f, "slice state "+f+" is "+what+" by copy", "the store to "+f+" at "+p.Pos(st.Pos())+" assigns the other slice itself: saved and live state share one backing array, so restore() after a failed attempt no longer rewinds it", p.Pos(st.Pos()))
		})
	}
	for _, name := range []string{"(*compaction).save", "(*compaction).restore", "(*tableCompactionBuilder).run"} {
		if fn := resolveFn(p, r, "leveldb", name); fn != nil {
			check(fn)
		}
	}
	r.Check(n >= 3, "leveldb", "snapshot-stores", "the retry state has slice-valued members (table cursors, last user key)", fmt.Sprintf("%d stores of slice-valued retry state found", n), "")
	// restore of the builder's last key into a LOCAL (not a field store): lastUkey := append([]byte(nil), b.snapLastUkey...)
	if fn := resolveFn(p, r, "leveldb", "(*tableCompactionBuilder).run"); fn != nil {
		r.Site(1)
		bad := ""
		instrs(fn, func(_ *ssa.BasicBlock, _ int, in ssa.Instruction) {
			v, ok := in.(ssa.Value)
			if !ok {
				return
			}
			if _, f, _, ok := fieldOfLoad(v); ok && f == "snapLastUkey" {
				for _, ref := range *v.Referrers() {
					switch x := ref.(type) {
					case *ssa.Call:
						if isCallTo(x, "builtin:append") && len(x.Call.Args) == 2 && x.Call.Args[1] == v {
							continue // copied from
						}
						if isCallTo(x, "builtin:len") || isCallTo(x, "builtin:cap") {
							continue
						}
						bad = p.Pos(x.Pos())
					case *ssa.Slice:
						// snapLastUkey[:0] as an append base when saving
					case *ssa.DebugRef:
					default:
						bad = p.Pos(ref.Pos())
					}
				}
			}
		})
		r.Check(bad == "", fnName(fn), "last-key-restored-by-copy", "the saved last user key is only copied from (never used as the live buffer)", "b.snapLastUkey is used directly at "+bad, bad)
	}
}

// fieldOfLoad: v is a load of a struct field.
func fieldOfLoad(v ssa.Value) (string, string, ssa.Value, bool) {
	v = stripConv(v)
	if u, ok := v.(*ssa.UnOp); ok {
		return fieldOf(u.X)
	}
	return "", "", nil, false
}
