package main

import (
	"fmt"
	"go/token"
	"strings"

	"golang.org/x/tools/go/ssa"
)

// ruleSessionStateMirrorsManifest: the session keeps a copy (stJournalNum, stSeqNum, …) of the
// last values committed to the manifest; a manifest rotation writes its snapshot record from that
// copy. So (a) recordCommited must copy exactly the fields the committed record carries, each
// under the has() bit of ITS tag, and (b) fillRecord must fill a snapshot's missing fields from
// the matching st* field, each only when the record does not carry it, and always records the
// next file number and (snapshot) the comparer name.
func ruleSessionStateMirrorsManifest(p *Prog, r *Report, rule string) {
	r.Begin(rule, "E-SIB", "session state mirrors the manifest: recordCommited copies journalNum / seqNum (/ prevJournalNum) of a committed record into stJournalNum / stSeqNum exactly when the record has the field (tag bit of that field); fillRecord completes a snapshot record from the same st* fields only for fields the record lacks, always sets the next file number, and records the comparer name and compaction pointers on a snapshot", 8)
	defer r.End()
	tS, tR := "leveldb.session", "leveldb.sessionRecord"
	// tag of each record field, derived from the setters: hasRec |= 1<<tag; p.<field> = arg
	tagOf := map[string]int64{}
	for _, fn := range p.SrcFuncs("leveldb") {
		name := fnName(fn)
		if !strings.HasPrefix(name, "(*leveldb.sessionRecord).set") {
			continue
		}
		var tag int64 = -1
		field := ""
		instrs(fn, func(_ *ssa.BasicBlock, _ int, in ssa.Instruction) {
			st, ok := in.(*ssa.Store)
			if !ok {
				return
			}
			_, f, _, ok := fieldOf(st.Addr)
			if !ok {
				return
			}
			if f == "hasRec" {
				if b, ok := isBin(st.Val, token.OR); ok {
					if k, isC := constInt(b.Y); isC {
						for t := int64(0); t < 32; t++ {
							if k == 1<<uint(t) {
								tag = t
							}
						}
					}
				}
			} else {
				field = f
			}
		})
		if tag >= 0 && field != "" {
			tagOf[field] = tag
		}
	}
	r.Site(1)
	r.Check(len(tagOf) >= 5, "sessionRecord setters", "tags-derived", "each scalar record field has a setter that sets its tag bit", fmt.Sprintf("%v", tagOf), "")
	hasTag := func(tag int64) Atom {
		return boolAtom(fmt.Sprintf("has(%d)", tag), func(v ssa.Value) bool {
			c, ok := callValue(v, "(*leveldb.sessionRecord).has")
			return ok && mConstInt(tag)(c.Call.Args[1])
		})
	}
	stName := func(f string) string { return "st" + strings.ToUpper(f[:1]) + f[1:] }
	if fn := resolveFn(p, r, "leveldb", "(*session).recordCommited"); fn != nil {
		for _, f := range []string{"journalNum", "seqNum", "prevJournalNum"} {
			tag, ok := tagOf[f]
			if !ok {
				continue
			}
			store := func(in ssa.Instruction) bool {
				st, ok := in.(*ssa.Store)
				return ok && isFieldAddr(st.Addr, tS, stName(f))
			}
			if countInstr(fn, store) == 0 {
				if f == "prevJournalNum" {
					continue
				}
				r.Fail(fnName(fn), "copies-"+f+":unresolved-anchor", "recordCommited copies "+f, "no store to session."+stName(f), p.Pos(fn.Pos()), nil)
				continue
			}
			a := hasTag(tag)
			checkGuard(p, r, GuardSpec{Rule: "copies-" + f + "-only-if-present", Fn: fn, Target: store, TargetDesc: "s." + stName(f) + " = rec." + f, Atoms: []Atom{a}, G: func(x []bool) bool { return x[0] }, GDesc: fmt.Sprintf("rec.has(tag %d of %s)", tag, f), MinTargets: 1})
			checkGuardExact(p, r, GuardSpec{Rule: "copies-" + f + "-when-present", Fn: fn, Target: store, TargetDesc: "s." + stName(f) + " is updated", Atoms: []Atom{a}, G: func(x []bool) bool { return x[0] }, GDesc: fmt.Sprintf("rec.has(tag %d of %s)", tag, f)}, isReturn, "return")
			// the value copied is that field of the record
			r.Site(1)
			okv := false
			instrs(fn, func(_ *ssa.BasicBlock, _ int, in ssa.Instruction) {
				if st, ok := in.(*ssa.Store); ok && store(in) && isFieldLoad(st.Val, tR, f) {
					okv = true
				}
			})
			r.Check(okv, fnName(fn), "copies-"+f+"-value", "s."+stName(f)+" receives rec."+f, "another value is stored", p.Pos(fn.Pos()))
		}
	}
	if fn := resolveFn(p, r, "leveldb", "(*session).fillRecord"); fn != nil {
		snap := boolAtom("snapshot", mParam("snapshot"))
		for _, sp := range []struct{ f, setter string }{{"journalNum", "setJournalNum"}, {"seqNum", "setSeqNum"}} {
			tag := tagOf[sp.f]
			call := evCall("(*leveldb.sessionRecord)." + sp.setter)
			checkGuard(p, r, GuardSpec{Rule: "fills-" + sp.f + "-only-if-missing", Fn: fn, Target: call, TargetDesc: "r." + sp.setter + "(state)", Atoms: []Atom{hasTag(tag), snap}, G: func(x []bool) bool { return !x[0] && x[1] }, GDesc: "snapshot ∧ ¬r.has(" + sp.f + ")", MinTargets: 1})
			checkGuardExact(p, r, GuardSpec{Rule: "fills-" + sp.f + "-when-missing", Fn: fn, Target: call, TargetDesc: "the snapshot gets " + sp.f + " from the session state", Atoms: []Atom{hasTag(tag), snap}, G: func(x []bool) bool { return !x[0] && x[1] }, GDesc: "snapshot ∧ ¬r.has(" + sp.f + ")"}, isReturn, "return")
			checkCallArg(p, r, fn, "fills-"+sp.f+"-from-state", "(*leveldb.sessionRecord)."+sp.setter, 1, mFieldLoad(tS, stName(sp.f)), "s."+stName(sp.f))
		}
		ordOnSuccess(p, r, fn, "next-file-num-always", nil, evCall("(*leveldb.sessionRecord).setNextFileNum"), "r.setNextFileNum")
		checkCallArg(p, r, fn, "next-file-num-from-allocator", "(*leveldb.sessionRecord).setNextFileNum", 1, mCall("(*leveldb.session).nextFileNum"), "s.nextFileNum()")
		checkGuardExact(p, r, GuardSpec{Rule: "snapshot-names-comparer", Fn: fn, Target: evCall("(*leveldb.sessionRecord).setComparer"), TargetDesc: "the comparer name is recorded", Atoms: []Atom{snap}, G: func(x []bool) bool { return x[0] }, GDesc: "snapshot"}, isReturn, "return")
		checkGuardExact(p, r, GuardSpec{Rule: "snapshot-carries-compaction-pointers", Fn: fn, Target: func(in ssa.Instruction) bool {
			c, ok := in.(*ssa.Call)
			return ok && isCallTo(c, "builtin:len") && isFieldLoad(c.Call.Args[0], tS, "stCompPtrs")
		}, TargetDesc: "the compaction pointers are walked", Atoms: []Atom{snap}, G: func(x []bool) bool { return x[0] }, GDesc: "snapshot"}, isReturn, "return")
	}
}
