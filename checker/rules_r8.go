package main

import (
	"go/token"

	"golang.org/x/tools/go/ssa"
)

// ruleFilterAddRecordsEveryKey: a key handed to the bloom generator must end up in the next filter.
// bloomFilterGenerator.Add records the key's hash on every path — or skips it only as an exact
// repeat of the key added just before, which requires both the equality AND that there is a
// previous key (an empty "previous key" buffer equals the empty key: the first empty key of a
// partition would be taken for a repeat and the filter would hide it).
func ruleFilterAddRecordsEveryKey(p *Prog, r *Report, rule string) {
	r.Begin(rule, "E-GUARD", "bloom generator: Add records the hash of its key (append to keyHashes) before every return, except for an exact repeat of the previous key where a previous key is known to exist (hashes non-empty / a set flag)", 1)
	defer r.End()
	fn := resolveFn(p, r, "leveldb/filter", "(*bloomFilterGenerator).Add")
	if fn == nil {
		return
	}
	tG := "leveldb/filter.bloomFilterGenerator"
	record := func(in ssa.Instruction) bool {
		st, ok := in.(*ssa.Store)
		return ok && isFieldAddr(st.Addr, tG, "keyHashes")
	}
	if !requireSites(p, r, fn, "records-hash", "g.keyHashes = append(g.keyHashes, bloomHash(key))", record, 1) {
		return
	}
	r.Site(1)
	same := boolAtom("bytes.Equal(prev,key)", mCall("bytes.Equal"))
	lenHashes := func(v ssa.Value) bool {
		c, ok := v.(*ssa.Call)
		if !ok {
			return false
		}
		b, ok := c.Call.Value.(*ssa.Builtin)
		return ok && b.Name() == "len" && isFieldLoad(c.Call.Args[0], tG, "keyHashes")
	}
	haveGT := cmpAtom("len(keyHashes)>0", token.GTR, lenHashes, mConstInt(0))
	haveNE := cmpAtom("len(keyHashes)!=0", token.NEQ, lenHashes, mConstInt(0))
	haveFlag := boolAtom("havePrev", func(v ssa.Value) bool {
		_, f, _, ok := fieldOf(stripLoad(v))
		return ok && f != "" && isBoolType(v.Type())
	})
	checkGuard(p, r, GuardSpec{Rule: "skips-only-known-repeat", Fn: fn, Target: isReturn, Avoid: record, TargetDesc: "returning without recording the key's hash",
		Atoms: []Atom{same, haveGT, haveNE, haveFlag}, G: func(a []bool) bool { return a[0] && (a[1] || a[2] || a[3]) }, GDesc: "the key equals the previous key and a previous key exists", MinTargets: 1})
}

func stripLoad(v ssa.Value) ssa.Value {
	if u, ok := v.(*ssa.UnOp); ok && u.Op == token.MUL {
		return u.X
	}
	return v
}

// ruleValidKeyAgreesWithParse: Recover's table rebuild copies an entry only if validInternalKey
// accepts its key, while the scan that counted the entry used parseInternalKey. The two must accept
// the same keys: validInternalKey delegates to parseInternalKey, or applies the same length
// threshold (an internal key is the user key plus 8 bytes; the EMPTY user key is legal, so exactly
// 8 bytes is valid).
func ruleValidKeyAgreesWithParse(p *Prog, r *Report, rule string) {
	r.Begin(rule, "E-SIB", "validInternalKey accepts what parseInternalKey accepts: it delegates to parseInternalKey, or rejects by length exactly when len(key) < 8 (the empty user key is a valid key)", 1)
	defer r.End()
	fn := resolveFn(p, r, "leveldb", "validInternalKey")
	if fn == nil {
		return
	}
	r.Site(1)
	if n := len(findCalls(fn, "leveldb.parseInternalKey")); n > 0 {
		// the verdict is the nil-ness of parseInternalKey's error
		ok := false
		instrs(fn, func(_ *ssa.BasicBlock, _ int, in ssa.Instruction) {
			ret, isR := in.(*ssa.Return)
			if !isR || len(ret.Results) != 1 {
				return
			}
			if x, _, isT := condNilTest(ret.Results[0]); isT && mErrOfCall("leveldb.parseInternalKey")(x) {
				ok = true
			}
		})
		r.Check(ok, fnName(fn), "delegates-to-parse", "validInternalKey returns whether parseInternalKey's error is nil", "parseInternalKey is called but its error does not decide the result", p.Pos(fn.Pos()))
		return
	}
	// own length test: every comparison of len(ik) with a constant must be equivalent to len < 8
	bad, n := "", 0
	instrs(fn, func(_ *ssa.BasicBlock, _ int, in ssa.Instruction) {
		b, ok := in.(*ssa.BinOp)
		if !ok || !isCmpOp(b.Op) {
			return
		}
		x, y, op := b.X, b.Y, b.Op
		if _, isC := x.(*ssa.Const); isC {
			x, y, op = y, x, flipOp(op)
		}
		c, isLen := x.(*ssa.Call)
		if !isLen {
			return
		}
		if bi, ok := c.Call.Value.(*ssa.Builtin); !ok || bi.Name() != "len" {
			return
		}
		k, isK := constInt(y)
		if !isK {
			return
		}
		n++
		// equivalent to len < 8 or its negation len >= 8
		okv := (op == token.LSS && k == 8) || (op == token.LEQ && k == 7) || (op == token.GEQ && k == 8) || (op == token.GTR && k == 7)
		if !okv {
			bad = p.Pos(b.Pos())
		}
	})
	r.Check(n > 0 && bad == "", fnName(fn), "length-threshold-agrees", "keys shorter than 8 bytes — and only those — are rejected by length", "the length test differs from parseInternalKey's len(ik) < 8 (an 8-byte key is the empty user key and is valid)", bad)
}
