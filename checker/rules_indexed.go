package main

import (
	"golang.org/x/tools/go/ssa"
)

// ruleIndexedIterator: the two-level iterator every table / level walk is built on. A data block
// that yields nothing for a move (exhausted, or — tolerant mode — damaged) must hand over to the
// neighbouring block in the direction of travel; the iterator reports false only when the index
// is exhausted or an error is latched, and true only when a data iterator is positioned.
func ruleIndexedIterator(p *Prog, r *Report, rule string) {
	r.Begin(rule, "E-GUARD", "indexedIterator (table / level walks): a movement method returns false only if the index move failed, an error is latched (dataErr / i.err) or the iterator is released; returns true only after a data-iterator move succeeded; after a data move that yields nothing it continues in the direction of travel (Seek, First → Next; Last → Prev; Prev re-enters the previous block at its Last entry); the data iterator is replaced (setData) after every index move", 10)
	defer r.End()
	tI := "leveldb/iterator.indexedIterator"
	isInvokeOn := func(iface string, methods ...string) VMatch {
		return func(v ssa.Value) bool {
			c, ok := v.(*ssa.Call)
			if !ok || !c.Call.IsInvoke() || namedOf(c.Call.Value.Type()) != iface {
				return false
			}
			for _, m := range methods {
				if c.Call.Method.Name() == m {
					return true
				}
			}
			return false
		}
	}
	moves := []string{"First", "Last", "Seek", "Next", "Prev"}
	idxMove := boolAtom("index.move", isInvokeOn("leveldb/iterator.IteratorIndexer", moves...))
	dataMove := boolAtom("data.move", isInvokeOn("leveldb/iterator.Iterator", moves...))
	dataErr := boolAtom("dataErr()", mCall("(*leveldb/iterator.indexedIterator).dataErr"))
	errNil := nilAtom("i.err==nil", mFieldLoad(tI, "err"))
	// binds the two tests of i.data in the switch (data != nil && …; data == nil) to one value
	dataNil := nilAtom("i.data==nil", mFieldLoad(tI, "data"))
	released := boolAtom("Released()", func(v ssa.Value) bool {
		c, ok := v.(*ssa.Call)
		if !ok {
			return false
		}
		if f := staticCallee(&c.Call); f != nil {
			return f.Name() == "Released"
		}
		return false
	})
	spec := []struct {
		name     string
		onward   string // recursive continuation after an empty block
		reenter  string // data move used when a block is entered from the far side ("" = via onward)
		idxFirst string
	}{
		{"First", "Next", "", "First"},
		{"Last", "Prev", "Last", "Last"},
		{"Seek", "Next", "Seek", "Seek"},
		{"Next", "Next", "Next", "Next"},
		{"Prev", "Prev", "Last", "Prev"},
	}
	for _, sp := range spec {
		fn := resolveFn(p, r, "leveldb/iterator", "(*indexedIterator)."+sp.name)
		if fn == nil {
			continue
		}
		checkGuard(p, r, GuardSpec{Rule: "false-only-when-exhausted-or-error", Fn: fn, Target: retConstBool(false), TargetDesc: "return false",
			Atoms: []Atom{idxMove, dataErr, errNil, released}, G: func(a []bool) bool { return !a[0] || a[1] || !a[2] || a[3] }, GDesc: "¬index.move ∨ dataErr() ∨ i.err≠nil ∨ released", MinTargets: 1})
		if sp.name != "First" {
			checkGuard(p, r, GuardSpec{Rule: "true-only-when-positioned", Fn: fn, Target: retConstBool(true), TargetDesc: "return true",
				Atoms: []Atom{dataMove, dataNil}, G: func(a []bool) bool { return a[0] }, GDesc: "a data-iterator move returned true", MinTargets: 1})
		}
		// direction of travel
		// an empty block hands over in the direction of travel: by calling onward() again, or —
		// loop form — by reaching another index move after the block was dropped
		{
			r.Site(1)
			rec := countInstr(fn, evCall("(*leveldb/iterator.indexedIterator)."+sp.onward))
			loops := false
			if rec == 0 {
				idxMoveCall := func(in ssa.Instruction) bool {
					v, ok := in.(ssa.Value)
					return ok && isInvokeOn("leveldb/iterator.IteratorIndexer", moves...)(v)
				}
				if findPath(after(fn, evCall("(*leveldb/iterator.indexedIterator).clearData")), nil, nil, idxMoveCall) != nil {
					loops = true
				}
			}
			r.Check(rec > 0 || loops, fnName(fn), "continues-"+sp.onward, "an empty block hands over to the next block in the direction of travel ("+sp.onward+"() again, or a loop back to the index move)", "neither a call of "+sp.onward+"() nor an index move reachable after clearData()", p.Pos(fn.Pos()))
		}
		// a data iterator whose move failed is asked for its error before it is dropped, replaced or
		// the method returns: a read error of that block/table must not look like an empty block
		{
			r.Site(1)
			consult := evCall("(*leveldb/iterator.indexedIterator).dataErr")
			drop := orPred(evCall("(*leveldb/iterator.indexedIterator).clearData", "(*leveldb/iterator.indexedIterator).setData"), isReturn, func(in ssa.Instruction) bool {
				v, ok := in.(ssa.Value)
				return ok && isInvokeOn("leveldb/iterator.IteratorIndexer", moves...)(v)
			})
			dmCall := func(in ssa.Instruction) bool {
				v, ok := in.(ssa.Value)
				return ok && isInvokeOn("leveldb/iterator.Iterator", moves...)(v)
			}
			starts := after(fn, dmCall)
			as := []Atom{dataMove}
			vs := []bool{false}
			if len(starts) == 0 && sp.name != "First" {
				r.Fail(fnName(fn), "failed-data-move-consults-error:unresolved-anchor", "the result of the data-iterator move is tested", "no branch on a data move", p.Pos(fn.Pos()), nil)
			} else if w := findPathV(starts, atomEdges(as, vs), consult, drop, atomVals(as, vs)); len(starts) > 0 && w != nil {
				r.Fail(fnName(fn), "failed-data-move-consults-error", "after a data-iterator move failed, dataErr() is consulted before the data iterator is dropped or replaced, the index moves on, or the method returns", "a path drops the failed data iterator / moves on without dataErr(): a block or table that could not be read is skipped as if it were empty, and Error() stays nil", p.posOfLast(w, drop), p.renderPath(w))
			} else {
				r.OK(fnName(fn), "failed-data-move-consults-error", "after a data-iterator move failed, dataErr() is consulted before the data iterator is dropped or replaced, the index moves on, or the method returns")
			}
		}
		other := "Prev"
		if sp.onward == "Prev" {
			other = "Next"
		}
		r.Site(1)
		n := countInstr(fn, evCall("(*leveldb/iterator.indexedIterator)."+other))
		r.Check(n == 0, fnName(fn), "never-reverses", sp.name+" never continues in the opposite direction", "calls "+other+"()", p.Pos(fn.Pos()))
		// index move kind and data move kind
		r.Site(1)
		okIdx := countInstr(fn, func(in ssa.Instruction) bool {
			v, ok := in.(ssa.Value)
			return ok && isInvokeOn("leveldb/iterator.IteratorIndexer", sp.idxFirst)(v)
		}) >= 1
		for _, m := range moves {
			if m != sp.idxFirst && countInstr(fn, func(in ssa.Instruction) bool {
				v, ok := in.(ssa.Value)
				return ok && isInvokeOn("leveldb/iterator.IteratorIndexer", m)(v)
			}) > 0 {
				okIdx = false
			}
		}
		r.Check(okIdx, fnName(fn), "index-move-kind", sp.name+" moves the index with "+sp.idxFirst+" only", "other index moves found", p.Pos(fn.Pos()))
		if sp.reenter != "" {
			r.Site(1)
			okD := true
			want := map[string]bool{sp.reenter: true, sp.name: true}
			instrs(fn, func(_ *ssa.BasicBlock, _ int, in ssa.Instruction) {
				if v, ok := in.(ssa.Value); ok && isInvokeOn("leveldb/iterator.Iterator", moves...)(v) {
					if !want[v.(*ssa.Call).Call.Method.Name()] {
						okD = false
					}
				}
			})
			r.Check(okD, fnName(fn), "data-move-kind", sp.name+" positions the data iterator with "+sp.reenter+" / "+sp.name+" only", "other data moves found", p.Pos(fn.Pos()))
		}
		// every successful index move is followed by setData before the data iterator is used
		idxCall := func(in ssa.Instruction) bool {
			v, ok := in.(ssa.Value)
			return ok && isInvokeOn("leveldb/iterator.IteratorIndexer", moves...)(v)
		}
		dataUse := func(in ssa.Instruction) bool {
			v, ok := in.(ssa.Value)
			return ok && isInvokeOn("leveldb/iterator.Iterator", moves...)(v)
		}
		r.Site(1)
		if w := findPathV(after(fn, idxCall), atomEdges([]Atom{idxMove}, []bool{true}), evCall("(*leveldb/iterator.indexedIterator).setData"), orPred(dataUse, evCall("(*leveldb/iterator.indexedIterator).Next", "(*leveldb/iterator.indexedIterator).Prev"), retConstBool(true)), atomVals([]Atom{idxMove}, []bool{true})); w != nil {
			r.Fail(fnName(fn), "stale-data-iterator", "after a successful index move the data iterator is replaced before it is used", "a path uses the old data iterator / continues without setData()", p.Pos(fn.Pos()), p.renderPath(w))
		} else {
			r.OK(fnName(fn), "data-iterator-follows-index", "after a successful index move the data iterator is replaced before it is used")
		}
	}
	// an exhausted index leaves no data iterator behind: Valid() is `i.data != nil && i.data.Valid()`
	// and Next/Prev continue from i.data when it is set, so a move that returns because the index
	// move failed must leave i.data == nil (cleared, or already known nil). Forward dataflow over
	// (data ∈ {nil, maybe set}) × (index move failed on this path).
	for _, sp := range spec {
		fn := resolveFn(p, r, "leveldb/iterator", "(*indexedIterator)."+sp.name)
		if fn == nil {
			continue
		}
		type st struct{ set, failed bool }
		seen := map[*ssa.BasicBlock]map[st]bool{}
		type item struct {
			b *ssa.BasicBlock
			s st
		}
		work := []item{{fn.Blocks[0], st{true, false}}}
		badPos := ""
		nfail := 0
		for len(work) > 0 {
			it := work[len(work)-1]
			work = work[:len(work)-1]
			if seen[it.b] == nil {
				seen[it.b] = map[st]bool{}
			}
			if seen[it.b][it.s] {
				continue
			}
			seen[it.b][it.s] = true
			cur := it.s
			for _, in := range it.b.Instrs {
				switch {
				case isCallTo(in, "(*leveldb/iterator.indexedIterator).clearData"):
					cur.set = false
				case isCallTo(in, "(*leveldb/iterator.indexedIterator).setData"):
					cur.set = true
				case isCallTo(in, "(*leveldb/iterator.indexedIterator).Next", "(*leveldb/iterator.indexedIterator).Prev"):
					// `return i.Next()`: the continuation answers for itself
					cur.failed = false
				}
				if stp, ok := in.(*ssa.Store); ok && isFieldAddr(stp.Addr, tI, "data") {
					if c, isC := stp.Val.(*ssa.Const); isC && c.IsNil() {
						cur.set = false
					} else {
						cur.set = true
					}
				}
				if _, ok := in.(*ssa.Return); ok && cur.failed && cur.set && badPos == "" {
					badPos = p.Pos(in.Pos())
				}
			}
			cond, neg, isIf := ifCond(it.b)
			for si, succ := range it.b.Succs {
				ns := cur
				if isIf {
					// which way does this edge decide the atoms?
					imp := func(a Atom) int {
						wt, wf := a.Match(cond)
						if neg {
							wt, wf = wf, wt
						}
						if si == 1 {
							return wf
						}
						return wt
					}
					switch imp(dataNil) {
					case +1:
						if !cur.set {
							// consistent
						}
						ns.set = false
					case -1:
						if !cur.set {
							continue // infeasible: known nil
						}
					}
					switch imp(idxMove) {
					case -1:
						ns.failed = true
						nfail++
					case +1:
						ns.failed = false
					}
				}
				work = append(work, item{succ, ns})
			}
		}
		r.Site(nfail)
		if nfail == 0 {
			r.Fail(fnName(fn), "exhausted-index-clears-data:unresolved-anchor", "the failed index move of "+sp.name+" was found", "no branch on an index move", p.Pos(fn.Pos()), nil)
		} else if badPos != "" {
			r.Fail(fnName(fn), "exhausted-index-clears-data", "a move that fails because the index is exhausted leaves no data iterator (Valid() is false, the next Next/Prev starts from the index)", "after the failed index move a return is reached with the old data iterator still set: Valid()/Key()/Value() answer from the previous position and Prev/Next continue from it", badPos, nil)
		} else {
			r.OK(fnName(fn), "exhausted-index-clears-data", "a move that fails because the index is exhausted leaves no data iterator (Valid() is false, the next Next/Prev starts from the index)")
		}
	}
	// dataErr: corruption of a data block is tolerated only when not strict; other errors always latch
	if fn := resolveFn(p, r, "leveldb/iterator", "(*indexedIterator).dataErr"); fn != nil {
		strict := boolAtom("strict", mFieldLoad(tI, "strict"))
		corr := boolAtom("IsCorrupted", mCall("leveldb/errors.IsCorrupted"))
		hasErr := nilAtom("err==nil", func(v ssa.Value) bool {
			c, ok := v.(*ssa.Call)
			return ok && c.Call.IsInvoke() && c.Call.Method.Name() == "Error"
		})
		checkGuard(p, r, GuardSpec{Rule: "tolerates-only-nonstrict-corruption", Fn: fn, Target: retConstBool(false), TargetDesc: "return false (carry on with the next block)",
			Atoms: []Atom{hasErr, strict, corr}, G: func(a []bool) bool { return a[0] || (!a[1] && a[2]) }, GDesc: "no error ∨ (¬strict ∧ IsCorrupted)", MinTargets: 1})
		checkGuardExact(p, r, GuardSpec{Rule: "io-error-latched", Fn: fn, Target: evStoreField(tI, "err"), TargetDesc: "the error is latched", Atoms: []Atom{hasErr, strict, corr}, G: func(a []bool) bool { return !a[0] && (a[1] || !a[2]) }, GDesc: "an error that is not tolerable corruption"}, isReturn, "return")
	}
}
