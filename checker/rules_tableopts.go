package main

import (
	"fmt"

	"golang.org/x/tools/go/ssa"
)

// ruleTableOptions: every table file of a DB must be written with the session's INTERNAL table
// options (cachedOptions.Options: Comparer = the internal-key comparer wrapping the user's,
// Filter = the trailer-stripping iFilter wrapper). A table written with the user's raw options
// checks and indexes internal keys with the user comparer (rejecting several versions of one key,
// or shortening index keys into byte strings that are not internal keys) and builds its filter
// over internal keys while lookups probe user keys.
func ruleTableOptions(p *Prog, r *Report, rule string) {
	r.Begin(rule, "E-FLOW", "every table.NewWriter in package leveldb receives the session's internal table options (session.o.Options: internal-key comparer + iFilter wrapper), never the user's raw options; a table.Reader built with raw options is used for plain iteration only (no Find/Get, which need the comparer and the filter)", 2)
	defer r.End()
	internal := func(v ssa.Value) bool {
		return originsAll(v, func(l ssa.Value) bool {
			return isFieldLoad(l, "leveldb.cachedOptions", "Options")
		})
	}
	nW, nR := 0, 0
	for _, fn := range p.SrcFuncs("leveldb") {
		for _, c := range findCalls(fn, "leveldb/table.NewWriter") {
			nW++
			r.Site(1)
			r.Fn(fnName(fn))
			ok := internal(callCommon(c).Args[1])
			r.Check(ok, fnName(fn), "writer-options@"+branchLabel(c), "the table is written with the session's internal options", "table.NewWriter at "+p.Pos(c.Pos())+" is given options that are not session.o.Options (e.g. a copy of the user's options): the table is ordered, indexed and filtered by the user comparer / raw filter applied to internal keys", p.Pos(c.Pos()))
		}
		for _, c := range findCalls(fn, "leveldb/table.NewReader") {
			nR++
			r.Site(1)
			r.Fn(fnName(fn))
			call := c.(*ssa.Call)
			if internal(call.Call.Args[5]) {
				r.OK(fnName(fn), "reader-options@"+branchLabel(c), "the table is read with the session's internal options")
				continue
			}
			// raw options: only NewIterator / Release may be called on the reader
			bad := ""
			var tr ssa.Value
			for _, ref := range *call.Referrers() {
				if ex, ok := ref.(*ssa.Extract); ok && ex.Index == 0 {
					tr = ex
				}
			}
			if tr != nil {
				for _, ref := range *tr.Referrers() {
					if uc, ok := ref.(*ssa.Call); ok {
						if f := staticCallee(&uc.Call); f != nil {
							switch f.Name() {
							case "NewIterator", "Release":
							default:
								bad = f.Name()
							}
						}
					}
				}
			}
			r.Check(tr != nil && bad == "", fnName(fn), "raw-reader-iterates-only@"+branchLabel(c), "a reader built with raw options is only iterated", fmt.Sprintf("calls %s on a reader built without the internal comparer/filter", bad), p.Pos(c.Pos()))
		}
	}
	r.Check(nW >= 2 && nR >= 2, "leveldb", "sites", "table writers and readers are created in tOps and in recoverTable", fmt.Sprintf("%d NewWriter, %d NewReader call sites", nW, nR), "")
}

// ruleMemdbComparer: every in-memory buffer of a DB orders INTERNAL keys, so it must be created
// with the session's internal-key comparer (never the user's raw comparer).
func ruleMemdbComparer(p *Prog, r *Report, rule string) {
	r.Begin(rule, "E-FLOW", "every memdb.New in package leveldb is given the session's internal-key comparer (session.icmp)", 3)
	defer r.End()
	n := 0
	for _, fn := range p.SrcFuncs("leveldb") {
		for _, c := range findCalls(fn, "leveldb/memdb.New") {
			n++
			r.Site(1)
			r.Fn(fnName(fn))
			ok := originsAll(callCommon(c).Args[0], func(l ssa.Value) bool { return isFieldLoad(l, "leveldb.session", "icmp") })
			r.Check(ok, fnName(fn), "memdb-comparer@"+branchLabel(c), "the buffer orders internal keys with session.icmp", "memdb.New at "+p.Pos(c.Pos())+" is given another comparer: versions of one user key would be ordered by the raw comparer on internal keys", p.Pos(c.Pos()))
		}
	}
	r.Check(n >= 3, "leveldb", "sites", "buffers are created in newMem and in both journal replays", fmt.Sprintf("%d memdb.New call sites", n), "")
}
