package main

import (
	"go/token"

	"golang.org/x/tools/go/ssa"
)

// ruleManifestReplay: session.recover rebuilds the live version from the manifest. Every record
// that decodes is applied once (the per-record lists are cleared before the next record, the
// scalar fields accumulate), a record that does not decode stops the replay unless it is a
// tolerated corruption, the result is installed only if the manifest named the comparer in use and
// carried the three numbers, and the installed state is exactly what was replayed.
func ruleManifestReplay(p *Prog, r *Report, rule string) {
	r.Begin(rule, "E-ORD", "manifest replay (session.recover): each decoded record is committed to the staging area before the next record is read and its table / pointer lists are cleared afterwards; the replayed state is installed (setVersion with the fully sorted finish(false), setNextFileNum, recordCommited) only when the manifest carried comparer, next-file, journal and sequence numbers and the comparer name matches; CURRENT's manifest is the one remembered", 8)
	defer r.End()
	fn := resolveFn(p, r, "leveldb", "(*session).recover")
	if fn == nil {
		return
	}
	next := func(in ssa.Instruction) bool {
		return isCallTo(in, "(*leveldb/journal.Reader).Next")
	}
	decode := evCall("(*leveldb.sessionRecord).decode")
	commit := evCall("(*leveldb.versionStaging).commit")
	decNil := nilAtom("decode err==nil", mOriginAny(mErrOfCall("(*leveldb.sessionRecord).decode")))
	checkGuard(p, r, GuardSpec{Rule: "only-decoded-records-applied", Fn: fn, Starts: after(fn, decode), Avoid: next, Target: commit, TargetDesc: "staging.commit(rec)", Atoms: []Atom{decNil}, G: func(a []bool) bool { return a[0] }, GDesc: "the record decoded", MinTargets: 1})
	checkGuardExact(p, r, GuardSpec{Rule: "every-decoded-record-applied", Fn: fn, Starts: after(fn, decode), Target: commit, TargetDesc: "the record is applied to the staging area", Atoms: []Atom{decNil}, G: func(a []bool) bool { return a[0] }, GDesc: "the record decoded"}, orPred(next, isReturn), "the next record / return")
	for _, reset := range []string{"resetAddedTables", "resetDeletedTables", "resetCompPtrs"} {
		rs := evCall("(*leveldb.sessionRecord)." + reset)
		if requireSites(p, r, fn, "lists-cleared:"+reset, "rec."+reset+"()", rs, 1) {
			r.Site(1)
			if w := findPath(after(fn, commit), nil, rs, next); w != nil {
				r.Fail(fnName(fn), "lists-cleared:"+reset+":skipped", "the record's lists are cleared before the next record is decoded into the same object", "after applying a record the next one is read without rec."+reset+"(): its tables would be applied again with the next record (a later deletion is undone)", p.posOfLast(w, next), p.renderPath(w))
			} else {
				r.OK(fnName(fn), "lists-cleared:"+reset, "the record's lists are cleared before the next record is decoded into the same object")
			}
		}
	}
	// installation
	setVer := evCall(fSetVer)
	has := func(tag int64) Atom {
		return boolAtom("has", func(v ssa.Value) bool {
			c, ok := callValue(v, "(*leveldb.sessionRecord).has")
			return ok && mConstInt(tag)(c.Call.Args[1])
		})
	}
	sameCmp := cmpAtom("comparer name matches", token.EQL, mFieldLoad("leveldb.sessionRecord", "comparer"), mCall("(*leveldb.iComparer).uName"))
	atoms := []Atom{has(1), has(3), has(2), has(4), sameCmp}
	checkGuard(p, r, GuardSpec{Rule: "install-only-complete-manifest", Fn: fn, Target: setVer, TargetDesc: "installing the replayed version", Atoms: atoms, G: func(a []bool) bool { return a[0] && a[1] && a[2] && a[3] && a[4] }, GDesc: "comparer, next-file-num, journal-num and seq-num present ∧ comparer name equal", MinTargets: 1})
	ordOnSuccess(p, r, fn, "version-installed", nil, setVer, "s.setVersion")
	ordOnSuccess(p, r, fn, "file-numbers-restored", nil, evCall("(*leveldb.session).setNextFileNum"), "s.setNextFileNum(rec.nextFileNum)")
	ordOnSuccess(p, r, fn, "state-restored", nil, evCall("(*leveldb.session).recordCommited"), "s.recordCommited(rec)")
	checkCallArg(p, r, fn, "next-file-num-from-manifest", "(*leveldb.session).setNextFileNum", 1, mFieldLoad("leveldb.sessionRecord", "nextFileNum"), "rec.nextFileNum")
	checkCallArg(p, r, fn, "fully-sorted-finish", "(*leveldb.versionStaging).finish", 1, func(v ssa.Value) bool { b, ok := constBool(v); return ok && !b }, "trivial=false (replayed levels are sorted, not inserted)")
	checkCallArg(p, r, fn, "installs-replayed-version", fSetVer, 2, mCall("(*leveldb.versionStaging).finish"), "staging.finish(false)")
	// the manifest read is the one CURRENT names, and it is remembered
	checkCallArg(p, r, fn, "opens-current-manifest", "(*leveldb.iStorage).Open", 1, mOriginAll(func(v ssa.Value) bool {
		ex, ok := v.(*ssa.Extract)
		if !ok || ex.Index != 0 {
			return false
		}
		c, ok := ex.Tuple.(*ssa.Call)
		if !ok {
			return false
		}
		if c.Call.IsInvoke() {
			return c.Call.Method.Name() == "GetMeta"
		}
		f := staticCallee(&c.Call)
		return f != nil && f.Name() == "GetMeta"
	}), "the descriptor returned by GetMeta()")
	ordOnSuccess(p, r, fn, "manifest-remembered", nil, evStoreField("leveldb.session", "manifestFd"), "s.manifestFd = fd")
}
