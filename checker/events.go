package main

import (
	"go/token"
	"strings"

	"golang.org/x/tools/go/ssa"
)

// Event predicates are defined by effect, so extracting a helper does not break a rule: a call
// counts as event E if it IS the primitive, or if its static callee passes through E on every
// success path (bounded depth).

// evSyncPrim: an interface invoke of Sync() error (storage.Writer / storage.Syncer or any
// interface with that method: a helper may narrow the type).
func evSyncPrim(in ssa.Instruction) bool {
	cc := callCommon(in)
	if cc == nil || !cc.IsInvoke() || cc.Method.Name() != "Sync" {
		return false
	}
	sig := cc.Signature()
	return sig.Params().Len() == 0 && sig.Results().Len() == 1 && isErrorType(sig.Results().At(0).Type())
}

var syncLift = newMust(evSyncPrim, nil)

// evSync: the sync primitive, or a call to a repository function that syncs on every success path.
func evSync(in ssa.Instruction) bool { return syncLift.pred(2)(in) }

// mErrOfPred: the value is the error result of a call instruction satisfying pred.
func mErrOfPred(pred InstrPred) VMatch {
	return func(v ssa.Value) bool {
		v = stripConv(v)
		if !isErrorType(v.Type()) {
			return false
		}
		switch x := v.(type) {
		case *ssa.Call:
			return pred(x)
		case *ssa.Extract:
			c, ok := x.Tuple.(*ssa.Call)
			return ok && pred(c)
		}
		return false
	}
}

func evStorageInvoke(method string) InstrPred {
	return func(in ssa.Instruction) bool {
		cc := callCommon(in)
		if cc == nil {
			return false
		}
		if cc.IsInvoke() && cc.Method.Name() == method {
			n := namedOf(cc.Value.Type())
			return n == "leveldb/storage.Storage"
		}
		// direct call of the iStorage wrapper method (Create/Open are overridden there)
		if f := staticCallee(cc); f != nil && fnName(f) == "(*leveldb.iStorage)."+method {
			return true
		}
		return false
	}
}

func evCall(names ...string) InstrPred {
	return func(in ssa.Instruction) bool {
		if _, isDefer := in.(*ssa.Defer); isDefer && !deferAsEvent {
			return false
		}
		return isCallTo(in, names...)
	}
}

// evCallAny matches calls including deferred ones.
func evCallAny(names ...string) InstrPred {
	return func(in ssa.Instruction) bool { return isCallTo(in, names...) }
}

func evStoreField(typ, field string) InstrPred {
	return func(in ssa.Instruction) bool {
		st, ok := in.(*ssa.Store)
		return ok && isFieldAddr(st.Addr, typ, field)
	}
}

func evSendOn(typ, field string) InstrPred {
	return func(in ssa.Instruction) bool {
		s, ok := in.(*ssa.Send)
		return ok && isFieldLoad(s.Chan, typ, field)
	}
}

func evRecvOn(typ, field string) InstrPred {
	return func(in ssa.Instruction) bool {
		u, ok := in.(*ssa.UnOp)
		return ok && u.Op == token.ARROW && isFieldLoad(u.X, typ, field)
	}
}

// mustEvent lifts a primitive predicate to calls whose static callee must pass through the
// event on every success path (no error observed), to the given depth.
type mustCtx struct {
	base  InstrPred
	edges EdgeFilter
	memo  map[*ssa.Function]int // 0 unknown, 1 yes, 2 no, 3 busy
}

func newMust(base InstrPred, edges EdgeFilter) *mustCtx {
	return &mustCtx{base: base, edges: edges, memo: map[*ssa.Function]int{}}
}

func (m *mustCtx) pred(depth int) InstrPred {
	return func(in ssa.Instruction) bool {
		if m.base(in) {
			return true
		}
		if depth <= 0 {
			return false
		}
		if _, isDefer := in.(*ssa.Defer); isDefer {
			return false
		}
		if _, isGo := in.(*ssa.Go); isGo {
			return false
		}
		cc := callCommon(in)
		if cc == nil {
			return false
		}
		callee := staticCallee(cc)
		if callee == nil || len(callee.Blocks) == 0 || callee.Pkg == nil || !strings.HasPrefix(callee.Pkg.Pkg.Path(), modPath) {
			return false
		}
		return m.fnMust(callee, depth-1)
	}
}

func (m *mustCtx) fnMust(fn *ssa.Function, depth int) bool {
	switch m.memo[fn] {
	case 1:
		return true
	case 2, 3:
		return false
	}
	m.memo[fn] = 3
	w := findPath(entryPoint(fn), andEdges(noErrEdges, m.edges), m.pred(depth), isReturn)
	if w == nil {
		// also require that the function has at least one return reachable at all (else vacuous)
		m.memo[fn] = 1
		return true
	}
	m.memo[fn] = 2
	return false
}

// ---------------- assumptions ----------------

// originsAll reports whether every leaf origin of v (through phis, converts, loads of local
// cells and free variables bound to local cells) satisfies leaf.
func originsAll(v ssa.Value, leaf func(ssa.Value) bool) bool {
	seen := map[ssa.Value]bool{}
	var rec func(v ssa.Value) bool
	rec = func(v ssa.Value) bool {
		v = stripConv(v)
		if seen[v] {
			return true
		}
		seen[v] = true
		if leaf(v) {
			return true
		}
		switch x := v.(type) {
		case *ssa.Phi:
			for _, e := range x.Edges {
				if !rec(e) {
					return false
				}
			}
			return len(x.Edges) > 0
		case *ssa.UnOp:
			if x.Op == token.MUL {
				stores := cellStores(x.X)
				if len(stores) == 0 {
					return false
				}
				for _, s := range stores {
					if !rec(s) {
						return false
					}
				}
				return true
			}
			if x.Op == token.NOT {
				return false
			}
		}
		return false
	}
	return rec(v)
}

// cellStores returns all values stored into the local cell addr (an Alloc, or a FreeVar bound
// to an Alloc of the enclosing function), across the owning function and its closures.
func cellStores(addr ssa.Value) []ssa.Value {
	al := resolveCell(addr)
	if al == nil {
		return nil
	}
	var out []ssa.Value
	owner := al.Parent()
	withAnons(owner, func(f *ssa.Function) {
		instrs(f, func(_ *ssa.BasicBlock, _ int, in ssa.Instruction) {
			if st, ok := in.(*ssa.Store); ok {
				if resolveCell(st.Addr) == al {
					out = append(out, st.Val)
				}
			}
		})
	})
	return out
}

// resolveCell maps an address value to the Alloc it denotes (through closure free variables).
func resolveCell(addr ssa.Value) *ssa.Alloc {
	switch x := addr.(type) {
	case *ssa.Alloc:
		return x
	case *ssa.FreeVar:
		fn := x.Parent()
		parent := fn.Parent()
		if parent == nil {
			return nil
		}
		// find the MakeClosure in parent (or its descendants) that binds this free variable
		idx := -1
		for i, fv := range fn.FreeVars {
			if fv == x {
				idx = i
			}
		}
		if idx < 0 {
			return nil
		}
		var res *ssa.Alloc
		instrs(parent, func(_ *ssa.BasicBlock, _ int, in ssa.Instruction) {
			if mc, ok := in.(*ssa.MakeClosure); ok && mc.Fn == fn && idx < len(mc.Bindings) {
				if r := resolveCell(mc.Bindings[idx]); r != nil {
					res = r
				}
			}
		})
		return res
	}
	return nil
}

// noSyncIsFalse: the assumption `NoSync == false`: any boolean that originates only from
// Options.GetNoSync() / cachedOptions.GetNoSync() / tOps.noSync is false.
func assumeSyncOn() EdgeFilter {
	return assumeBool(func(v ssa.Value) (bool, bool) {
		if originsAll(v, func(l ssa.Value) bool {
			if _, ok := callValue(l, "(*leveldb/opt.Options).GetNoSync"); ok {
				return true
			}
			if isFieldLoad(l, "leveldb.tOps", "noSync") {
				return true
			}
			return false
		}) {
			return false, true
		}
		return false, false
	})
}

// assumeParamTrue: the named boolean parameter is true.
func assumeParam(fn *ssa.Function, name string, val bool) EdgeFilter {
	return assumeBool(func(v ssa.Value) (bool, bool) {
		if p, ok := v.(*ssa.Parameter); ok && p.Parent() == fn && paramRefName(p) == name {
			return val, true
		}
		return false, false
	})
}
