package main

import (
	"fmt"
	"sort"
	"strings"

	"golang.org/x/tools/go/ssa"
)

// ruleStrictFlagRoles: the tolerant/strict mode of each consumer (manifest replay, journal replay,
// table recovery, compaction input, user reads, block checksums) is selected by ITS OWN flag of
// opt.Strict. The flag a site reads is visible as the constant argument of Options.GetStrict /
// opt.GetStrict; the roles are a reviewed table. A site reading another role's flag silently runs
// in the wrong mode (e.g. journal replay tolerant although StrictJournal was requested, or block
// checksums tied to a flag that is off by default); a new, unreviewed consumer is reported.
var strictRoles = map[string][]string{
	"(*leveldb.session).recover":          {"StrictManifest"},
	"(*leveldb.DB).recoverJournal":        {"StrictJournal", "StrictJournalChecksum"},
	"(*leveldb.DB).recoverJournalRO":      {"StrictJournal", "StrictJournalChecksum"},
	"leveldb.recoverTable":                {"StrictRecovery"},
	"(*leveldb.DB).tableCompaction":       {"StrictCompaction"},
	"(*leveldb.compaction).newIterator":   {"StrictCompaction"},
	"(*leveldb.DB).newRawIterator":        {"StrictReader"},
	"(*leveldb.DB).newIterator":           {"StrictReader"},
	"(*leveldb.version).getIterators":     {"StrictReader"},
	"(*leveldb/table.Reader).NewIterator": {"StrictReader"},
	"leveldb/table.NewReader":             {"StrictBlockChecksum"},
	"leveldb/opt.GetStrict":               {"StrictOverride", "*param"},
}

func ruleStrictFlagRoles(p *Prog, r *Report, rule string) {
	r.Begin(rule, "E-EXH", "every consumer of a strictness flag reads the flag of its own role (constant argument of Options.GetStrict / opt.GetStrict against a reviewed role table); an unreviewed consumer is reported", 12)
	defer r.End()
	names := []string{"StrictManifest", "StrictJournalChecksum", "StrictJournal", "StrictBlockChecksum", "StrictCompaction", "StrictReader", "StrictRecovery", "StrictOverride"}
	byVal := map[int64]string{}
	for _, n := range names {
		if v := strictConst(p, n); v != 0 {
			byVal[v] = n
		}
	}
	r.Site(len(byVal))
	r.Check(len(byVal) == len(names), "leveldb/opt.Strict", "flags-found", "the strictness flags are distinct constants", fmt.Sprintf("%d of %d resolved", len(byVal), len(names)), "")
	seenFn := map[string]bool{}
	seenKey := map[string]bool{}
	var rels []string
	for rel := range p.ByRel {
		rels = append(rels, rel)
	}
	sort.Strings(rels)
	for _, rel := range rels {
		if rel == "leveldb/testutil" || strings.HasPrefix(rel, "manualtest") {
			continue
		}
		for _, fn := range p.SrcFuncs(rel) {
			for _, c := range findCalls(fn, "(*leveldb/opt.Options).GetStrict", "leveldb/opt.GetStrict", "(*leveldb/opt.ReadOptions).GetStrict") {
				cc := callCommon(c)
				arg := cc.Args[len(cc.Args)-1]
				owner := fn
				for owner.Parent() != nil {
					owner = owner.Parent()
				}
				name := fnName(owner)
				seenFn[name] = true
				r.Site(1)
				r.Fn(name)
				got := "?"
				if k, ok := constInt(arg); ok {
					got = byVal[k]
					if got == "" {
						got = fmt.Sprintf("%#x", k)
					}
				} else if _, isParam := stripConv(arg).(*ssa.Parameter); isParam {
					got = "*param"
				}
				if seenKey[name+"|"+got] {
					continue
				}
				seenKey[name+"|"+got] = true
				allowed, reviewed := strictRoles[name]
				if !reviewed {
					r.Fail(name, "strict-role:"+got, "every consumer of a strictness flag is in the reviewed role table", "unreviewed consumer reads "+got+" at "+p.Pos(c.Pos()), p.Pos(c.Pos()), nil)
					continue
				}
				ok := false
				for _, a := range allowed {
					if a == got {
						ok = true
					}
				}
				r.Check(ok, name, "strict-role:"+got, name+" reads only "+strings.Join(allowed, " / "), "reads "+got+" at "+p.Pos(c.Pos())+": the mode of this consumer follows another role's flag", p.Pos(c.Pos()))
			}
		}
	}
	for name := range strictRoles {
		if !seenFn[name] {
			r.Fail(name, "strict-role:unresolved-anchor", "every reviewed consumer still reads its flag", "no GetStrict call found in "+name, "", nil)
		}
	}
}
