package main

import (
	"fmt"
	"go/token"
	"go/types"
	"sort"

	"golang.org/x/tools/go/ssa"
)

// EdgeFilter decides whether the CFG edge from block b to its succIdx-th successor is feasible.
type EdgeFilter func(b *ssa.BasicBlock, succIdx int) bool

type InstrPred func(in ssa.Instruction) bool

func allEdges(*ssa.BasicBlock, int) bool { return true }

func andEdges(fs ...EdgeFilter) EdgeFilter {
	return func(b *ssa.BasicBlock, i int) bool {
		for _, f := range fs {
			if f != nil && !f(b, i) {
				return false
			}
		}
		return true
	}
}

func orPred(ps ...InstrPred) InstrPred {
	return func(in ssa.Instruction) bool {
		for _, p := range ps {
			if p != nil && p(in) {
				return true
			}
		}
		return false
	}
}

// condNilTest: cond is `x == nil` / `x != nil` (either operand order); returns x and whether the
// TRUE edge means "x is non-nil".
func condNilTest(cond ssa.Value) (x ssa.Value, trueMeansNonNil bool, ok bool) {
	neg := false
	for {
		if u, isU := cond.(*ssa.UnOp); isU && u.Op == token.NOT {
			cond = u.X
			neg = !neg
			continue
		}
		break
	}
	b, isB := cond.(*ssa.BinOp)
	if !isB || (b.Op != token.EQL && b.Op != token.NEQ) {
		return nil, false, false
	}
	var v ssa.Value
	if isNilConst(b.Y) {
		v = b.X
	} else if isNilConst(b.X) {
		v = b.Y
	} else {
		return nil, false, false
	}
	t := b.Op == token.NEQ
	if neg {
		t = !t
	}
	return v, t, true
}

// noErrEdges prunes every edge on which an error-typed value has just been found non-nil:
// the remaining paths are those on which no error was observed ("success paths").
func noErrEdges(b *ssa.BasicBlock, succIdx int) bool {
	if len(b.Instrs) == 0 {
		return true
	}
	iff, ok := b.Instrs[len(b.Instrs)-1].(*ssa.If)
	if !ok {
		return true
	}
	x, trueNonNil, ok := condNilTest(iff.Cond)
	if !ok || !isErrorType(x.Type()) {
		return true
	}
	nonNilEdge := 1
	if trueNonNil {
		nonNilEdge = 0
	}
	return succIdx != nonNilEdge
}

// assumeBool builds an EdgeFilter from a valuation of boolean SSA values: known(v) returns
// (value, true) when the assumption fixes v.
func assumeBool(known func(v ssa.Value) (bool, bool)) EdgeFilter {
	return func(b *ssa.BasicBlock, succIdx int) bool {
		if len(b.Instrs) == 0 {
			return true
		}
		iff, ok := b.Instrs[len(b.Instrs)-1].(*ssa.If)
		if !ok {
			return true
		}
		cond := iff.Cond
		neg := false
		for {
			if u, isU := cond.(*ssa.UnOp); isU && u.Op == token.NOT {
				cond = u.X
				neg = !neg
				continue
			}
			break
		}
		val, ok := known(cond)
		if !ok {
			return true
		}
		if neg {
			val = !val
		}
		// true edge is succ 0
		if val {
			return succIdx == 0
		}
		return succIdx == 1
	}
}

type point struct {
	b *ssa.BasicBlock
	i int
}

// findPath searches for a path that starts at one of the start points, never executes an
// instruction satisfying avoid, follows only feasible edges, and reaches an instruction
// satisfying target. It returns the witness (list of blocks) or nil.
//
// The search is path-sensitive for boolean phis (the SSA form of && / || and of boolean
// variables assigned constants): a phi takes the value of its incoming edge when that value is a
// constant, a known phi, or fixed by boolVal, and an If on a known value follows only that edge.
func findPath(starts []point, edges EdgeFilter, avoid, target InstrPred) []*ssa.BasicBlock {
	return findPathV(starts, edges, avoid, target, nil)
}

type boolValFn func(v ssa.Value) (bool, bool)

func findPathV(starts []point, edges EdgeFilter, avoid, target InstrPred, boolVal boolValFn) []*ssa.BasicBlock {
	return findPathX(starts, edges, avoid, target, boolVal, nil)
}

// findPathX is findPathV with a probe: probe is called for every instruction reached (in every
// distinct (block, boolean-phi facts) state) together with an evaluator of boolean values under
// the facts of that state.
func findPathX(starts []point, edges EdgeFilter, avoid, target InstrPred, boolVal boolValFn, probe func(in ssa.Instruction, known func(v ssa.Value) (bool, bool))) []*ssa.BasicBlock {
	if edges == nil {
		edges = allEdges
	}
	type st struct {
		p     point
		prev  int
		facts map[*ssa.Phi]bool
	}
	var queue []st
	visited := map[string]bool{} // block index + facts
	fkey := func(b *ssa.BasicBlock, f map[*ssa.Phi]bool) string {
		if len(f) == 0 {
			return fmt.Sprintf("%d", b.Index)
		}
		var parts []string
		for ph, v := range f {
			parts = append(parts, fmt.Sprintf("%s=%v", ph.Name(), v))
		}
		sortStrings(parts)
		return fmt.Sprintf("%d|%v", b.Index, parts)
	}
	for _, s := range starts {
		queue = append(queue, st{s, -1, nil})
	}
	mk := func(k int) []*ssa.BasicBlock {
		var rev []*ssa.BasicBlock
		for k >= 0 {
			rev = append(rev, queue[k].p.b)
			k = queue[k].prev
		}
		for i, j := 0, len(rev)-1; i < j; i, j = i+1, j-1 {
			rev[i], rev[j] = rev[j], rev[i]
		}
		return rev
	}
	// known evaluates a boolean value under the facts / boolVal.
	var known func(v ssa.Value, f map[*ssa.Phi]bool) (bool, bool)
	known = func(v ssa.Value, f map[*ssa.Phi]bool) (bool, bool) {
		if b, ok := constBool(v); ok {
			return b, true
		}
		if u, ok := v.(*ssa.UnOp); ok && u.Op == token.NOT {
			if b, ok := known(u.X, f); ok {
				return !b, true
			}
			return false, false
		}
		if ph, ok := v.(*ssa.Phi); ok {
			if b, ok := f[ph]; ok {
				return b, true
			}
		}
		if boolVal != nil {
			return boolVal(v)
		}
		return false, false
	}
	for qi := 0; qi < len(queue); qi++ {
		cur := queue[qi]
		b := cur.p.b
		blocked := false
		for i := cur.p.i; i < len(b.Instrs); i++ {
			in := b.Instrs[i]
			if avoid != nil && avoid(in) {
				blocked = true
				break
			}
			if probe != nil {
				f := cur.facts
				probe(in, func(v ssa.Value) (bool, bool) { return known(v, f) })
			}
			if target != nil && target(in) {
				return mk(qi)
			}
		}
		if blocked {
			continue
		}
		for si, s := range b.Succs {
			if !edges(b, si) {
				continue
			}
			if iff, ok := b.Instrs[len(b.Instrs)-1].(*ssa.If); ok {
				if v, ok := known(iff.Cond, cur.facts); ok {
					if (v && si != 0) || (!v && si != 1) {
						continue
					}
				}
			}
			// facts for the successor
			var nf map[*ssa.Phi]bool
			pi := -1
			for k, pb := range s.Preds {
				if pb == b {
					pi = k
				}
			}
			for k, v := range cur.facts {
				if k.Block() != s { // phis of s are recomputed below
					if nf == nil {
						nf = map[*ssa.Phi]bool{}
					}
					nf[k] = v
				}
			}
			for _, sin := range s.Instrs {
				ph, ok := sin.(*ssa.Phi)
				if !ok {
					break
				}
				if bt, isB := ph.Type().Underlying().(*types.Basic); !isB || bt.Kind() != types.Bool {
					continue
				}
				if pi >= 0 && pi < len(ph.Edges) {
					if v, ok := known(ph.Edges[pi], cur.facts); ok {
						if nf == nil {
							nf = map[*ssa.Phi]bool{}
						}
						nf[ph] = v
					}
				}
			}
			k := fkey(s, nf)
			if visited[k] {
				continue
			}
			visited[k] = true
			queue = append(queue, st{point{s, 0}, qi, nf})
			if len(queue) > 200000 {
				return nil
			}
		}
	}
	return nil
}

func sortStrings(s []string) { sort.Strings(s) }

func entryPoint(fn *ssa.Function) []point {
	if len(fn.Blocks) == 0 {
		return nil
	}
	return []point{{fn.Blocks[0], 0}}
}

// after returns the points immediately after each instruction of fn satisfying p.
func after(fn *ssa.Function, p InstrPred) []point {
	var out []point
	instrs(fn, func(b *ssa.BasicBlock, i int, in ssa.Instruction) {
		if p(in) {
			out = append(out, point{b, i + 1})
		}
	})
	return out
}

func isReturn(in ssa.Instruction) bool { _, ok := in.(*ssa.Return); return ok }
func isPanic(in ssa.Instruction) bool  { _, ok := in.(*ssa.Panic); return ok }

func countInstr(fn *ssa.Function, p InstrPred) int {
	n := 0
	instrs(fn, func(_ *ssa.BasicBlock, _ int, in ssa.Instruction) {
		if p(in) {
			n++
		}
	})
	return n
}

func firstInstr(fn *ssa.Function, p InstrPred) ssa.Instruction {
	var r ssa.Instruction
	instrs(fn, func(_ *ssa.BasicBlock, _ int, in ssa.Instruction) {
		if r == nil && p(in) {
			r = in
		}
	})
	return r
}

// renderPath turns a block path into file:line strings (first positioned instruction per block).
func (p *Prog) renderPath(path []*ssa.BasicBlock) []string {
	var out []string
	last := ""
	for _, b := range path {
		s := ""
		for _, in := range b.Instrs {
			if _, isDbg := in.(*ssa.DebugRef); isDbg {
				continue
			}
			if in.Pos().IsValid() {
				s = p.Pos(in.Pos())
				break
			}
		}
		if s == "" {
			s = fmt.Sprintf("block %d (%s)", b.Index, b.Comment)
		} else {
			s = fmt.Sprintf("%s  [block %d %s]", s, b.Index, b.Comment)
		}
		if s != last {
			out = append(out, s)
		}
		last = s
	}
	return out
}

// ---- rule-level helpers -------------------------------------------------------------

// mustPrecede: every path from entry to an instruction satisfying B passes through A first.
// Returns witness path if violated.
func mustPrecede(fn *ssa.Function, edges EdgeFilter, A, B InstrPred) []*ssa.BasicBlock {
	return findPath(entryPoint(fn), edges, A, B)
}

// mustPassBeforeReturn: every feasible path from entry to a Return passes through A.
func mustPassBeforeReturn(fn *ssa.Function, edges EdgeFilter, A InstrPred) []*ssa.BasicBlock {
	return findPath(entryPoint(fn), edges, A, isReturn)
}

// mustFollow: after every instruction satisfying A, every feasible path to a Return passes B.
func mustFollow(fn *ssa.Function, edges EdgeFilter, A, B InstrPred) []*ssa.BasicBlock {
	return findPath(after(fn, A), edges, B, isReturn)
}

// neverAfter: no feasible path from after an A-instruction reaches a B-instruction
// (without passing a C "reset" instruction, if C != nil).
func neverAfter(fn *ssa.Function, edges EdgeFilter, A, B, C InstrPred) []*ssa.BasicBlock {
	return findPath(after(fn, A), edges, C, B)
}

// enumPaths enumerates the acyclic block paths from start (block, instruction index) that end by
// taking the CFG edge last→to, following only edges admitted by the filter. visit gets the block
// sequence (start block first, `last` last). At most limit paths are visited; returns false if the
// limit was hit.
func enumPaths(start point, edges EdgeFilter, last, to *ssa.BasicBlock, limit int, visit func(path []*ssa.BasicBlock)) bool {
	n := 0
	ok := true
	onPath := map[*ssa.BasicBlock]bool{}
	var path []*ssa.BasicBlock
	var dfs func(b *ssa.BasicBlock)
	dfs = func(b *ssa.BasicBlock) {
		if !ok {
			return
		}
		onPath[b] = true
		path = append(path, b)
		defer func() {
			onPath[b] = false
			path = path[:len(path)-1]
		}()
		for si, s := range b.Succs {
			if edges != nil && !edges(b, si) {
				continue
			}
			if b == last && s == to {
				n++
				if n > limit {
					ok = false
					return
				}
				visit(append([]*ssa.BasicBlock(nil), path...))
				continue
			}
			if onPath[s] {
				continue
			}
			dfs(s)
		}
	}
	dfs(start.b)
	return ok
}

// resolveAlong resolves v through the phis of the blocks on path (each phi takes the operand of
// the predecessor that precedes its block on the path) until a non-phi value, or a phi of a block
// that is not entered on the path, is reached.
func resolveAlong(v ssa.Value, path []*ssa.BasicBlock) ssa.Value {
	for i := 0; i < 16; i++ {
		ph, ok := v.(*ssa.Phi)
		if !ok {
			return v
		}
		pos := -1
		for k := len(path) - 1; k >= 1; k-- {
			if path[k] == ph.Block() {
				pos = k
				break
			}
		}
		if pos < 1 {
			return v
		}
		pred := path[pos-1]
		found := false
		for pi, pb := range ph.Block().Preds {
			if pb == pred {
				v = ph.Edges[pi]
				found = true
				break
			}
		}
		if !found {
			return v
		}
		path = path[:pos]
	}
	return v
}
