package main

import (
	"fmt"
	"go/token"
	"go/types"
	"sort"
	"strings"

	"golang.org/x/tools/go/ssa"
)

// EdgeFilter decides whether the CFG edge from block b to its succIdx-th successor is feasible.
type EdgeFilter func(b *ssa.BasicBlock, succIdx int) bool

type InstrPred func(in ssa.Instruction) bool

func allEdges(*ssa.BasicBlock, int) bool { return true }

func andEdges(fs ...EdgeFilter) EdgeFilter {
	return func(b *ssa.BasicBlock, i int) bool {
		for _, f := range fs {
			if f != nil && !f(b, i) {
				return false
			}
		}
		return true
	}
}

func orPred(ps ...InstrPred) InstrPred {
	return func(in ssa.Instruction) bool {
		for _, p := range ps {
			if p != nil && p(in) {
				return true
			}
		}
		return false
	}
}

// condNilTest: cond is `x == nil` / `x != nil` (either operand order); returns x and whether the
// TRUE edge means "x is non-nil".
func condNilTest(cond ssa.Value) (x ssa.Value, trueMeansNonNil bool, ok bool) {
	neg := false
	for {
		if u, isU := cond.(*ssa.UnOp); isU && u.Op == token.NOT {
			cond = u.X
			neg = !neg
			continue
		}
		break
	}
	b, isB := cond.(*ssa.BinOp)
	if !isB || (b.Op != token.EQL && b.Op != token.NEQ) {
		return nil, false, false
	}
	var v ssa.Value
	if isNilConst(b.Y) {
		v = b.X
	} else if isNilConst(b.X) {
		v = b.Y
	} else {
		return nil, false, false
	}
	t := b.Op == token.NEQ
	if neg {
		t = !t
	}
	return v, t, true
}

// noErrEdges prunes every edge on which an error-typed value has just been found non-nil:
// the remaining paths are those on which no error was observed ("success paths").
func noErrEdges(b *ssa.BasicBlock, succIdx int) bool {
	if len(b.Instrs) == 0 {
		return true
	}
	iff, ok := b.Instrs[len(b.Instrs)-1].(*ssa.If)
	if !ok {
		return true
	}
	x, trueNonNil, ok := condNilTest(iff.Cond)
	if !ok || !isErrorType(x.Type()) {
		return true
	}
	nonNilEdge := 1
	if trueNonNil {
		nonNilEdge = 0
	}
	return succIdx != nonNilEdge
}

// assumeBool builds an EdgeFilter from a valuation of boolean SSA values: known(v) returns
// (value, true) when the assumption fixes v.
func assumeBool(known func(v ssa.Value) (bool, bool)) EdgeFilter {
	return func(b *ssa.BasicBlock, succIdx int) bool {
		if len(b.Instrs) == 0 {
			return true
		}
		iff, ok := b.Instrs[len(b.Instrs)-1].(*ssa.If)
		if !ok {
			return true
		}
		cond := iff.Cond
		neg := false
		for {
			if u, isU := cond.(*ssa.UnOp); isU && u.Op == token.NOT {
				cond = u.X
				neg = !neg
				continue
			}
			break
		}
		val, ok := known(cond)
		if !ok {
			return true
		}
		if neg {
			val = !val
		}
		// true edge is succ 0
		if val {
			return succIdx == 0
		}
		return succIdx == 1
	}
}

type point struct {
	b *ssa.BasicBlock
	i int
}

// findPath searches for a path that starts at one of the start points, never executes an
// instruction satisfying avoid, follows only feasible edges, and reaches an instruction
// satisfying target. It returns the witness (list of blocks) or nil.
//
// The search is path-sensitive for boolean phis (the SSA form of && / || and of boolean
// variables assigned constants): a phi takes the value of its incoming edge when that value is a
// constant, a known phi, or fixed by boolVal, and an If on a known value follows only that edge.
func findPath(starts []point, edges EdgeFilter, avoid, target InstrPred) []*ssa.BasicBlock {
	return findPathV(starts, edges, avoid, target, nil)
}

type boolValFn func(v ssa.Value) (bool, bool)

func findPathV(starts []point, edges EdgeFilter, avoid, target InstrPred, boolVal boolValFn) []*ssa.BasicBlock {
	return findPathX(starts, edges, avoid, target, boolVal, nil)
}

// findPathX is findPathV with a probe: probe is called for every instruction reached (in every
// distinct (block, boolean-phi facts) state) together with an evaluator of boolean values under
// the facts of that state.
func findPathX(starts []point, edges EdgeFilter, avoid, target InstrPred, boolVal boolValFn, probe func(in ssa.Instruction, known func(v ssa.Value) (bool, bool))) []*ssa.BasicBlock {
	if edges == nil {
		edges = allEdges
	}
	type st struct {
		p     point
		prev  int
		facts map[*ssa.Phi]bool
		nn    *nilFacts // nil-ness of error values and error cells established on this path
	}
	var queue []st
	visited := map[string]bool{} // block index + facts
	fkey := func(b *ssa.BasicBlock, f map[*ssa.Phi]bool, nn *nilFacts) string {
		if len(f) == 0 && nn.empty() {
			return fmt.Sprintf("%d", b.Index)
		}
		var parts []string
		for ph, v := range f {
			parts = append(parts, fmt.Sprintf("%s=%v", ph.Name(), v))
		}
		parts = append(parts, nn.keys()...)
		sortStrings(parts)
		return fmt.Sprintf("%d|%v", b.Index, parts)
	}
	var volatile map[*ssa.Alloc]bool
	if len(starts) > 0 && starts[0].b != nil && starts[0].b.Parent() != nil {
		volatile = volatileCells(starts[0].b.Parent())
	}
	for _, s := range starts {
		queue = append(queue, st{s, -1, nil, nil})
	}
	mk := func(k int) []*ssa.BasicBlock {
		var rev []*ssa.BasicBlock
		for k >= 0 {
			rev = append(rev, queue[k].p.b)
			k = queue[k].prev
		}
		for i, j := 0, len(rev)-1; i < j; i, j = i+1, j-1 {
			rev[i], rev[j] = rev[j], rev[i]
		}
		return rev
	}
	// known evaluates a boolean value under the facts / boolVal.
	var known func(v ssa.Value, f map[*ssa.Phi]bool) (bool, bool)
	known = func(v ssa.Value, f map[*ssa.Phi]bool) (bool, bool) {
		if b, ok := constBool(v); ok {
			return b, true
		}
		if u, ok := v.(*ssa.UnOp); ok && u.Op == token.NOT {
			if b, ok := known(u.X, f); ok {
				return !b, true
			}
			return false, false
		}
		if ph, ok := v.(*ssa.Phi); ok {
			if b, ok := f[ph]; ok {
				return b, true
			}
		}
		if boolVal != nil {
			return boolVal(v)
		}
		return false, false
	}
	for qi := 0; qi < len(queue); qi++ {
		cur := queue[qi]
		b := cur.p.b
		blocked := false
		nn := cur.nn.clone()
		for i := cur.p.i; i < len(b.Instrs); i++ {
			in := b.Instrs[i]
			nn.apply(in, volatile)
			if avoid != nil && avoid(in) {
				blocked = true
				break
			}
			if probe != nil {
				f := cur.facts
				probe(in, func(v ssa.Value) (bool, bool) { return known(v, f) })
			}
			if target != nil && target(in) {
				return mk(qi)
			}
		}
		if blocked {
			continue
		}
		for si, s := range b.Succs {
			if !edges(b, si) {
				continue
			}
			snn := nn
			if iff, ok := b.Instrs[len(b.Instrs)-1].(*ssa.If); ok {
				if v, ok := known(iff.Cond, cur.facts); ok {
					if (v && si != 0) || (!v && si != 1) {
						continue
					}
				}
				if x, trueNonNil, isTest := condNilTest(iff.Cond); isTest && isErrorType(x.Type()) {
					want := (si == 0) == trueNonNil // on this edge x is non-nil
					if have, ok := nn.get(x); ok && have != want {
						continue
					}
					snn = nn.clone()
					snn.set(x, want, volatile)
				}
			}
			snn = snn.enter(b, s)
			// facts for the successor
			var nf map[*ssa.Phi]bool
			pi := -1
			for k, pb := range s.Preds {
				if pb == b {
					pi = k
				}
			}
			for k, v := range cur.facts {
				if k.Block() != s { // phis of s are recomputed below
					if nf == nil {
						nf = map[*ssa.Phi]bool{}
					}
					nf[k] = v
				}
			}
			for _, sin := range s.Instrs {
				ph, ok := sin.(*ssa.Phi)
				if !ok {
					break
				}
				if bt, isB := ph.Type().Underlying().(*types.Basic); !isB || bt.Kind() != types.Bool {
					continue
				}
				if pi >= 0 && pi < len(ph.Edges) {
					if v, ok := known(ph.Edges[pi], cur.facts); ok {
						if nf == nil {
							nf = map[*ssa.Phi]bool{}
						}
						nf[ph] = v
					}
				}
			}
			k := fkey(s, nf, snn)
			if visited[k] {
				continue
			}
			visited[k] = true
			queue = append(queue, st{point{s, 0}, qi, nf, snn})
			if len(queue) > 200000 {
				return nil
			}
		}
	}
	return nil
}

func sortStrings(s []string) { sort.Strings(s) }

func entryPoint(fn *ssa.Function) []point {
	if len(fn.Blocks) == 0 {
		return nil
	}
	return []point{{fn.Blocks[0], 0}}
}

// after returns the points immediately after each instruction of fn satisfying p.
func after(fn *ssa.Function, p InstrPred) []point {
	var out []point
	instrs(fn, func(b *ssa.BasicBlock, i int, in ssa.Instruction) {
		if p(in) {
			out = append(out, point{b, i + 1})
		}
	})
	return out
}

func isReturn(in ssa.Instruction) bool { _, ok := in.(*ssa.Return); return ok }
func isPanic(in ssa.Instruction) bool  { _, ok := in.(*ssa.Panic); return ok }

func countInstr(fn *ssa.Function, p InstrPred) int {
	n := 0
	instrs(fn, func(_ *ssa.BasicBlock, _ int, in ssa.Instruction) {
		if p(in) {
			n++
		}
	})
	return n
}

func firstInstr(fn *ssa.Function, p InstrPred) ssa.Instruction {
	var r ssa.Instruction
	instrs(fn, func(_ *ssa.BasicBlock, _ int, in ssa.Instruction) {
		if r == nil && p(in) {
			r = in
		}
	})
	return r
}

// renderPath turns a block path into file:line strings (first positioned instruction per block).
func (p *Prog) renderPath(path []*ssa.BasicBlock) []string {
	var out []string
	last := ""
	for _, b := range path {
		s := ""
		for _, in := range b.Instrs {
			if _, isDbg := in.(*ssa.DebugRef); isDbg {
				continue
			}
			if in.Pos().IsValid() {
				s = p.Pos(in.Pos())
				break
			}
		}
		if s == "" {
			s = fmt.Sprintf("block %d (%s)", b.Index, b.Comment)
		} else {
			s = fmt.Sprintf("%s  [block %d %s]", s, b.Index, b.Comment)
		}
		if s != last {
			out = append(out, s)
		}
		last = s
	}
	return out
}

// ---- rule-level helpers -------------------------------------------------------------

// mustPrecede: every path from entry to an instruction satisfying B passes through A first.
// Returns witness path if violated.
func mustPrecede(fn *ssa.Function, edges EdgeFilter, A, B InstrPred) []*ssa.BasicBlock {
	return findPath(entryPoint(fn), edges, A, B)
}

// mustPassBeforeReturn: every feasible path from entry to a Return passes through A.
func mustPassBeforeReturn(fn *ssa.Function, edges EdgeFilter, A InstrPred) []*ssa.BasicBlock {
	return findPath(entryPoint(fn), edges, A, isReturn)
}

// mustFollow: after every instruction satisfying A, every feasible path to a Return passes B.
func mustFollow(fn *ssa.Function, edges EdgeFilter, A, B InstrPred) []*ssa.BasicBlock {
	return findPath(after(fn, A), edges, B, isReturn)
}

// neverAfter: no feasible path from after an A-instruction reaches a B-instruction
// (without passing a C "reset" instruction, if C != nil).
func neverAfter(fn *ssa.Function, edges EdgeFilter, A, B, C InstrPred) []*ssa.BasicBlock {
	return findPath(after(fn, A), edges, C, B)
}

// enumPaths enumerates the acyclic block paths from start (block, instruction index) that end by
// taking the CFG edge last→to, following only edges admitted by the filter. visit gets the block
// sequence (start block first, `last` last). At most limit paths are visited; returns false if the
// limit was hit.
func enumPaths(start point, edges EdgeFilter, last, to *ssa.BasicBlock, limit int, visit func(path []*ssa.BasicBlock)) bool {
	n := 0
	ok := true
	onPath := map[*ssa.BasicBlock]bool{}
	var path []*ssa.BasicBlock
	var dfs func(b *ssa.BasicBlock)
	dfs = func(b *ssa.BasicBlock) {
		if !ok {
			return
		}
		onPath[b] = true
		path = append(path, b)
		defer func() {
			onPath[b] = false
			path = path[:len(path)-1]
		}()
		for si, s := range b.Succs {
			if edges != nil && !edges(b, si) {
				continue
			}
			if b == last && s == to {
				n++
				if n > limit {
					ok = false
					return
				}
				visit(append([]*ssa.BasicBlock(nil), path...))
				continue
			}
			if onPath[s] {
				continue
			}
			dfs(s)
		}
	}
	dfs(start.b)
	return ok
}

// resolveAlong resolves v through the phis of the blocks on path (each phi takes the operand of
// the predecessor that precedes its block on the path) until a non-phi value, or a phi of a block
// that is not entered on the path, is reached.
func resolveAlong(v ssa.Value, path []*ssa.BasicBlock) ssa.Value {
	for i := 0; i < 16; i++ {
		ph, ok := v.(*ssa.Phi)
		if !ok {
			return v
		}
		pos := -1
		for k := len(path) - 1; k >= 1; k-- {
			if path[k] == ph.Block() {
				pos = k
				break
			}
		}
		if pos < 1 {
			return v
		}
		pred := path[pos-1]
		found := false
		for pi, pb := range ph.Block().Preds {
			if pb == pred {
				v = ph.Edges[pi]
				found = true
				break
			}
		}
		if !found {
			return v
		}
		path = path[:pos]
	}
	return v
}

// ---- nil-ness of error values along a path -------------------------------------------------
//
// Only error-typed values that take part in a phi or live in a local cell are tracked: these are
// the shapes in which one error variable carries the outcomes of several steps (named results, and
// the result temporaries of normalize.go). A test `e != nil` fixes e on both edges; a phi takes the
// fact of its incoming value (nil constant, or a value fixed earlier on the path); a store to a
// cell that no closure other than a deferred one captures fixes the cell, a load reads it.

type nilFacts struct {
	val  map[ssa.Value]bool  // value → is non-nil
	cell map[*ssa.Alloc]bool // cell → holds non-nil
	fld  map[fldKey]bool     // error field of an object (x.err) → holds non-nil; forgotten at every call and store to that field
}

type fldKey struct {
	base ssa.Value
	idx  int
}

// fieldOfLoadKey: v is a load of base.f.
func fieldOfLoadKey(v ssa.Value) (fldKey, bool) {
	u, ok := v.(*ssa.UnOp)
	if !ok || u.Op != token.MUL {
		return fldKey{}, false
	}
	fa, ok := u.X.(*ssa.FieldAddr)
	if !ok {
		return fldKey{}, false
	}
	return fldKey{fa.X, fa.Field}, true
}

func (n *nilFacts) empty() bool {
	return n == nil || (len(n.val) == 0 && len(n.cell) == 0 && len(n.fld) == 0)
}

func (n *nilFacts) keys() []string {
	if n == nil {
		return nil
	}
	var out []string
	for v, b := range n.val {
		out = append(out, fmt.Sprintf("n:%s=%v", v.Name(), b))
	}
	for c, b := range n.cell {
		out = append(out, fmt.Sprintf("c:%s=%v", c.Name(), b))
	}
	for f, b := range n.fld {
		out = append(out, fmt.Sprintf("f:%s.%d=%v", f.base.Name(), f.idx, b))
	}
	return out
}

func (n *nilFacts) clone() *nilFacts {
	out := &nilFacts{val: map[ssa.Value]bool{}, cell: map[*ssa.Alloc]bool{}, fld: map[fldKey]bool{}}
	if n != nil {
		for k, v := range n.val {
			out.val[k] = v
		}
		for k, v := range n.cell {
			out.cell[k] = v
		}
		for k, v := range n.fld {
			out.fld[k] = v
		}
	}
	return out
}

func (n *nilFacts) get(v ssa.Value) (bool, bool) {
	if n == nil {
		return false, false
	}
	if _, ok := v.(*ssa.MakeInterface); ok {
		return true, true // a concrete value boxed as an error
	}
	v = stripConv(v)
	if isNilConst(v) {
		return false, true
	}
	if b, ok := n.val[v]; ok {
		return b, true
	}
	switch x := v.(type) {
	case *ssa.MakeInterface:
		return true, true
	case *ssa.UnOp:
		// a package-level error sentinel (io.EOF, errSkip, ErrClosed, …)
		if g, ok := x.X.(*ssa.Global); ok && x.Op == token.MUL && isErrorType(x.Type()) && strings.HasPrefix(strings.ToLower(g.Name()), "err") || isGlobalNamed(x, "io", "EOF") {
			return true, true
		}
	case *ssa.Call:
		if f := staticCallee(&x.Call); f != nil && f.Pkg != nil {
			if (f.Pkg.Pkg.Path() == "errors" && f.Name() == "New") || (f.Pkg.Pkg.Path() == "fmt" && f.Name() == "Errorf") {
				return true, true
			}
		}
	}
	if k, ok := fieldOfLoadKey(v); ok {
		b, ok := n.fld[k]
		return b, ok
	}
	return false, false
}

// set records the outcome of a nil test on x (and on the cell x was loaded from).
func (n *nilFacts) set(x ssa.Value, nonNil bool, volatile map[*ssa.Alloc]bool) {
	x = stripConv(x)
	if !trackedErr(x) {
		return
	}
	n.val[x] = nonNil
	if u, ok := x.(*ssa.UnOp); ok && u.Op == token.MUL {
		if al, ok := u.X.(*ssa.Alloc); ok && !volatile[al] {
			n.cell[al] = nonNil
		}
	}
	if k, ok := fieldOfLoadKey(x); ok {
		n.fld[k] = nonNil
	}
}

// trackedErr: only values that can carry several outcomes are worth a fact (keeps the state small
// and leaves the search on ordinary code exactly as it was).
func trackedErr(x ssa.Value) bool {
	if !isErrorType(x.Type()) {
		return false
	}
	switch v := x.(type) {
	case *ssa.Phi:
		return true
	case *ssa.UnOp:
		if v.Op != token.MUL {
			return false
		}
		if _, ok := v.X.(*ssa.Alloc); ok {
			return true
		}
		if _, ok := v.X.(*ssa.FieldAddr); ok {
			return true
		}
		return false
	}
	// a value that flows into an error phi or an error cell
	if refs := x.Referrers(); refs != nil {
		for _, r := range *refs {
			switch y := r.(type) {
			case *ssa.Phi:
				return true
			case *ssa.Store:
				if _, ok := y.Addr.(*ssa.Alloc); ok && y.Val == x {
					return true
				}
			}
		}
	}
	return false
}

// apply: effects of one instruction on the cell facts.
func (n *nilFacts) apply(in ssa.Instruction, volatile map[*ssa.Alloc]bool) {
	if n == nil {
		return
	}
	switch x := in.(type) {
	case *ssa.Call, *ssa.Go, *ssa.Defer, *ssa.RunDefers:
		// anything may assign an object's error field
		if len(n.fld) > 0 {
			n.fld = map[fldKey]bool{}
		}
		return
	case *ssa.Store:
		if fa, isF := x.Addr.(*ssa.FieldAddr); isF && isErrorType(x.Val.Type()) {
			for k := range n.fld {
				if k.idx == fa.Field {
					delete(n.fld, k)
				}
			}
			if b, ok := n.get(x.Val); ok {
				n.fld[fldKey{fa.X, fa.Field}] = b
			}
			return
		}
		al, ok := x.Addr.(*ssa.Alloc)
		if !ok || !isErrorType(x.Val.Type()) {
			return
		}
		if volatile[al] {
			delete(n.cell, al)
			return
		}
		if b, ok := n.get(x.Val); ok {
			n.cell[al] = b
		} else {
			delete(n.cell, al)
		}
	case *ssa.UnOp:
		if x.Op != token.MUL {
			return
		}
		if al, ok := x.X.(*ssa.Alloc); ok && isErrorType(x.Type()) {
			if b, ok := n.cell[al]; ok {
				n.val[x] = b
			} else {
				delete(n.val, x)
			}
		}
	}
}

// enter: facts on arrival in block s over the edge from b — values defined in s are new instances,
// error phis of s take the fact of their incoming value.
func (n *nilFacts) enter(b, s *ssa.BasicBlock) *nilFacts {
	if n.empty() {
		// still need phi facts from nil constants
		has := false
		for _, in := range s.Instrs {
			ph, ok := in.(*ssa.Phi)
			if !ok {
				break
			}
			if isErrorType(ph.Type()) {
				has = true
			}
		}
		if !has {
			return n
		}
	}
	out := n.clone()
	for v := range out.val {
		if in, ok := v.(ssa.Instruction); ok && in.Block() == s {
			delete(out.val, v)
		}
	}
	for k := range out.fld {
		if in, ok := k.base.(ssa.Instruction); ok && in.Block() == s {
			delete(out.fld, k)
		}
	}
	pi := -1
	for k, pb := range s.Preds {
		if pb == b {
			pi = k
		}
	}
	for _, in := range s.Instrs {
		ph, ok := in.(*ssa.Phi)
		if !ok {
			break
		}
		if !isErrorType(ph.Type()) || pi < 0 || pi >= len(ph.Edges) {
			continue
		}
		if v, ok := n.get(ph.Edges[pi]); ok {
			out.val[ph] = v
		}
	}
	return out
}

// volatileCells: local cells captured by a closure that is not merely deferred (it may run, and
// assign the cell, at any call).
func volatileCells(fn *ssa.Function) map[*ssa.Alloc]bool {
	out := map[*ssa.Alloc]bool{}
	for _, b := range fn.Blocks {
		for _, in := range b.Instrs {
			mc, ok := in.(*ssa.MakeClosure)
			if !ok {
				continue
			}
			deferOnly := true
			if refs := mc.Referrers(); refs != nil {
				for _, r := range *refs {
					switch y := r.(type) {
					case *ssa.Defer:
						if y.Call.Value != ssa.Value(mc) {
							deferOnly = false
						}
					case *ssa.DebugRef:
					default:
						deferOnly = false
					}
				}
			}
			if deferOnly {
				continue
			}
			for _, bnd := range mc.Bindings {
				if al, ok := bnd.(*ssa.Alloc); ok {
					out[al] = true
				}
			}
		}
	}
	// a cell whose address escapes otherwise (passed to a call) is volatile too
	for _, b := range fn.Blocks {
		for _, in := range b.Instrs {
			al, ok := in.(*ssa.Alloc)
			if !ok {
				continue
			}
			if refs := al.Referrers(); refs != nil {
				for _, r := range *refs {
					switch r.(type) {
					case *ssa.Store, *ssa.UnOp, *ssa.DebugRef, *ssa.MakeClosure:
					default:
						out[al] = true
					}
				}
			}
		}
	}
	return out
}

func isGlobalNamed(u *ssa.UnOp, pkg, name string) bool {
	g, ok := u.X.(*ssa.Global)
	return ok && u.Op == token.MUL && g.Name() == name && g.Pkg != nil && g.Pkg.Pkg.Path() == pkg
}
