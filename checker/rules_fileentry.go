package main

import (
	"golang.org/x/tools/go/ssa"
)

// ruleFileEntryPoints: the two path-based entry points open the file storage in the mode their job
// needs. OpenFile passes the ReadOnly option through (a read-only open must not even lock the
// directory for writing); RecoverFile always opens it WRITABLE — recovery creates a manifest, sets
// CURRENT and rebuilds damaged tables whatever mode the DB is to run in afterwards (Recover switches
// the DB to read-only at the end). Both hand the storage to the DB as its closer on success and
// close it on failure.
func ruleFileEntryPoints(p *Prog, r *Report, rule string) {
	r.Begin(rule, "E-SIB", "path-based entry points: OpenFile opens the file storage with readOnly = o.GetReadOnly(); RecoverFile opens it writable (constant false: recovery has to write, the DB is switched to read-only afterwards); both set db.closer on success and close the storage on failure", 4)
	defer r.End()
	for _, sp := range []struct {
		name     string
		writable bool
		inner    string
	}{
		{"OpenFile", false, "leveldb.Open"},
		{"RecoverFile", true, "leveldb.Recover"},
	} {
		fn := resolveFn(p, r, "leveldb", sp.name)
		if fn == nil {
			continue
		}
		calls := findCalls(fn, "leveldb/storage.OpenFile")
		r.Site(len(calls))
		if len(calls) != 1 {
			r.Fail(fnName(fn), "opens-file-storage:unresolved-anchor", sp.name+" opens the file storage once", "storage.OpenFile calls found: "+itoa(len(calls)), p.Pos(fn.Pos()), nil)
			continue
		}
		arg := callCommon(calls[0]).Args[1]
		if sp.writable {
			b, isC := constBool(arg)
			r.Check(isC && !b, fnName(fn), "storage-opened-writable", "RecoverFile opens the storage writable: recovery must create the manifest and rebuild tables even for a DB that will then run read-only", "the readOnly argument is not the constant false: with Options.ReadOnly the first file creation of the recovery fails and a DB that lost its manifest is not recovered at all", p.Pos(calls[0].Pos()))
		} else {
			ok := mOriginAll(func(v ssa.Value) bool {
				c, isCall := stripConv(v).(*ssa.Call)
				return isCall && isCallTo(c, "(*leveldb/opt.Options).GetReadOnly")
			})(arg) || func() bool {
				c, isCall := stripConv(arg).(*ssa.Call)
				return isCall && isCallTo(c, "(*leveldb/opt.Options).GetReadOnly")
			}()
			r.Check(ok, fnName(fn), "storage-mode-follows-option", "OpenFile opens the storage read-only exactly when Options.ReadOnly is set", "the readOnly argument is not o.GetReadOnly()", p.Pos(calls[0].Pos()))
		}
		// success: db.closer = stor; failure: stor.Close()
		setsCloser := evStoreField("leveldb.DB", "closer")
		closes := func(in ssa.Instruction) bool {
			c, ok := in.(*ssa.Call)
			return ok && c.Call.IsInvoke() && c.Call.Method.Name() == "Close" && namedOf(c.Call.Value.Type()) == "leveldb/storage.Storage"
		}
		errInner := mErrOfCall(sp.inner)
		r.Site(1)
		if w := findPath(after(fn, evCall(sp.inner)), onlyWhenErr(errInner), closes, isReturn); w != nil {
			r.Fail(fnName(fn), "storage-closed-on-failure", "a failed "+sp.inner+" closes the storage it opened (the LOCK is released)", "a failing path returns without stor.Close()", p.posOfLast(w, isReturn), p.renderPath(w))
		} else {
			r.OK(fnName(fn), "storage-closed-on-failure", "a failed "+sp.inner+" closes the storage it opened (the LOCK is released)")
		}
		ordOnSuccess(p, r, fn, "closer-set", nil, setsCloser, "db.closer = stor")
	}
}
