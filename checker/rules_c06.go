package main

import (
	"fmt"
	"go/token"

	"golang.org/x/tools/go/ssa"
)

func init() {
	register(&propDef{
		id:          "C06",
		run:         runC06,
		explanation: "Static analysis of the code shapes that establish the LSM invariant: (1) every overlap/ordering computation on table bounds uses the configured comparer (no raw byte comparison in the engine); (2) compaction outputs are cut only at user-key boundaries; (3) the table writer rejects out-of-order keys before appending, and the table wrapper records the true first/last key and size; (4) on version install, levels that gained tables pass through the right sort (by number at level 0, by key below) or the binary-search insertion that is only legal for a compaction's own outputs (trivial flag true only from compactionCommit); (5) a compaction's edit deletes exactly its inputs at their levels and adds outputs one level down, and newCompaction always expands its inputs; (6) recovered tables are registered at level 0. Each is a necessary condition; the invariant itself on any actual version (file contents, index arithmetic of getOverlaps, pickMemdbLevel's placement) is NOT decided.",
		notCovered:  "the invariant on actual versions; getOverlaps' index arithmetic; pickMemdbLevel's level choice; file existence and sizes on disk",
		assumptions: []string{"sort.Sort sorts; comparer contract"},
	})
}

const tComp = "leveldb.compaction"

func mSourceLevelPlus(k int64, constOnly bool) VMatch {
	return func(v ssa.Value) bool {
		b, ok := stripConv(v).(*ssa.BinOp)
		if !ok || b.Op != token.ADD {
			return false
		}
		x, y := b.X, b.Y
		if !isFieldLoad(x, tComp, "sourceLevel") {
			x, y = y, x
		}
		if !isFieldLoad(x, tComp, "sourceLevel") {
			return false
		}
		c, isC := constInt(y)
		if constOnly {
			return isC && c == k
		}
		return !isC
	}
}

func runC06(p *Prog, r *Report) {
	if want("C06.20") {
		ruleRecordBytesFresh(p, r, "C06.20")
	}
	if want("C06.1") {
		ruleComparerDiscipline(p, r, "C06.1", cmpPkgs, nil)
	}
	if want("C06.2") {
		ruleCutAtUkeyBoundary(p, r, "C06.2")
	}
	if want("C06.3") {
		ruleWriterOrderAndBounds(p, r, "C06.3")
	}
	if want("C06.4") {
		ruleLevelsSorted(p, r, "C06.4")
	}
	if want("C06.5") {
		ruleCompactionEdit(p, r, "C06.5")
	}
	if want("C06.6") {
		ruleRecoveredLevelZero(p, r, "C06.6")
	}
	if want("C06.7") {
		ruleBaseLevel(p, r, "C06.7")
	}
	if want("C06.19") {
		// a file number has one owner: the counter goes back only atomically (each file exists with ITS content)
		ruleReuseFileNum(p, r, "C06.19")
	}
	if want("C06.18") {
		ruleWritersCopyKeys(p, r, "C06.18")
	}
	if want("C06.17") {
		ruleLevelsImmutable(p, r, "C06.17")
	}
	if want("C06.16") {
		ruleOverlapResultOwned(p, r, "C06.16")
	}
	if want("C06.15") {
		ruleGetRange(p, r, "C06.15")
	}
	if want("C06.14") {
		ruleManifestReplay(p, r, "C06.14")
	}
	if want("C06.13") {
		ruleStagingAppliesEdit(p, r, "C06.13")
	}
	if want("C06.12") {
		ruleSessionRecordCodec(p, r, "C06.12")
	}
	if want("C06.11") {
		ruleDstOwnership(p, r, "C06.11")
	}
	if want("C06.10") {
		ruleExpandRanges(p, r, "C06.10")
	}
	if want("C06.9") {
		ruleTableOptions(p, r, "C06.9")
	}
	if want("C06.8") {
		ruleRangePredicates(p, r, "C06.8")
	}
}

func ruleWriterOrderAndBounds(p *Prog, r *Report, rule string) {
	r.Begin(rule, "E-GUARD", "the table writer rejects disorder (a key is appended only if it is the first or strictly greater than the previous key under the comparer) and the table wrapper records the true first key, last key and size", 6)
	defer r.End()
	if fn := resolveFn(p, r, "leveldb/table", "(*Writer).Append"); fn != nil {
		cmpCall := func(v ssa.Value) bool {
			c, ok := v.(*ssa.Call)
			return ok && c.Call.IsInvoke() && c.Call.Method.Name() == "Compare"
		}
		nz := cmpAtom("nEntries>0", token.GTR, mFieldLoad("leveldb/table.Writer", "nEntries"), mConstInt(0))
		ge := cmpAtom("Compare(prevKey,key)>=0", token.GEQ, cmpCall, mConstInt(0))
		app := evCall("(*leveldb/table.blockWriter).append")
		checkGuard(p, r, GuardSpec{Rule: "reject-disorder", Fn: fn, Target: app, TargetDesc: "dataBlock.append(key, value)", Atoms: []Atom{nz, ge}, G: func(a []bool) bool { return !(a[0] && a[1]) }, GDesc: "¬(nEntries>0 ∧ Compare(prevKey, key) >= 0)", MinTargets: 1})
		okArgs := false
		instrs(fn, func(_ *ssa.BasicBlock, _ int, in ssa.Instruction) {
			if c, ok := in.(*ssa.Call); ok && cmpCall(c) && len(c.Call.Args) == 2 {
				if isFieldLoad(c.Call.Args[0], "leveldb/table.blockWriter", "prevKey") && mParam("key")(c.Call.Args[1]) {
					okArgs = true
				}
			}
		})
		r.Check(okArgs, fnName(fn), "compares-prev-with-new", "the order test compares the previous key with the new key, in that order", "Compare is not called as Compare(prevKey, key)", p.Pos(fn.Pos()))
		// sticky error checked first
		ordPrecede(p, r, fn, "entries-counted", nil, app, "dataBlock.append", evStoreField("leveldb/table.Writer", "nEntries"), "w.nEntries++")
	}
	if fn := resolveFn(p, r, "leveldb/table", "(*blockWriter).append"); fn != nil {
		// prevKey is updated to the appended key on success
		okv := false
		instrs(fn, func(_ *ssa.BasicBlock, _ int, in ssa.Instruction) {
			if st, ok := in.(*ssa.Store); ok && isFieldAddr(st.Addr, "leveldb/table.blockWriter", "prevKey") {
				if c, ok := st.Val.(*ssa.Call); ok && isCallTo(c, "builtin:append") && mParam("key")(c.Call.Args[1]) {
					okv = true
				}
			}
		})
		r.Check(okv, fnName(fn), "prevKey-tracks-last", "prevKey becomes the key just appended", "prevKey not set from the appended key", p.Pos(fn.Pos()))
		r.Site(1)
	}
	if fn := resolveFn(p, r, "leveldb", "(*tWriter).append"); fn != nil {
		firstNil := nilAtom("w.first==nil", mFieldLoad("leveldb.tWriter", "first"))
		checkGuard(p, r, GuardSpec{Rule: "first-key-once", Fn: fn, Target: evStoreField("leveldb.tWriter", "first"), TargetDesc: "w.first = copy(key)", Atoms: []Atom{firstNil}, G: func(a []bool) bool { return a[0] }, GDesc: "w.first == nil", MinTargets: 1})
		// last key stored on every call, before the table append
		ordPrecede(p, r, fn, "last-key-every-call", nil, evStoreField("leveldb.tWriter", "last"), "w.last = copy(key)", evCall("(*leveldb/table.Writer).Append"), "tw.Append")
		if w := findPath(entryPoint(fn), nil, evStoreField("leveldb.tWriter", "last"), isReturn); w != nil {
			r.Fail(fnName(fn), "last-key-skipped", "w.last is updated on every append", "a path returns without updating w.last", p.posOfLast(w, isReturn), p.renderPath(w))
		} else {
			r.OK(fnName(fn), "last-key-always", "w.last is updated on every append")
		}
		// both are copies of the key parameter
		okv := 0
		instrs(fn, func(_ *ssa.BasicBlock, _ int, in ssa.Instruction) {
			if st, ok := in.(*ssa.Store); ok && (isFieldAddr(st.Addr, "leveldb.tWriter", "first") || isFieldAddr(st.Addr, "leveldb.tWriter", "last")) {
				if c, ok := st.Val.(*ssa.Call); ok && isCallTo(c, "builtin:append") && mParam("key")(c.Call.Args[1]) {
					okv++
				}
			}
		})
		r.Check(okv == 2, fnName(fn), "bounds-are-key-copies", "first/last are copies of the appended key", fmt.Sprintf("%d of 2 stores copy the key parameter", okv), p.Pos(fn.Pos()))
		// the first-key test happens BEFORE first is assigned on this call (guard above) and the key goes to the table writer
		checkCallArg(p, r, fn, "appends-same-key", "(*leveldb/table.Writer).Append", 1, mParam("key"), "the key parameter")
	}
	if fn := resolveFn(p, r, "leveldb", "(*tWriter).finish"); fn != nil {
		checkCallArg(p, r, fn, "imin-is-first", "leveldb.newTableFile", 2, func(v ssa.Value) bool { return isFieldLoad(stripConv(v), "leveldb.tWriter", "first") }, "w.first")
		checkCallArg(p, r, fn, "imax-is-last", "leveldb.newTableFile", 3, func(v ssa.Value) bool { return isFieldLoad(stripConv(v), "leveldb.tWriter", "last") }, "w.last")
		checkCallArg(p, r, fn, "size-is-bytes-written", "leveldb.newTableFile", 1, func(v ssa.Value) bool { _, ok := callValue(v, "(*leveldb/table.Writer).BytesLen"); return ok }, "tw.BytesLen()")
		checkCallArg(p, r, fn, "fd-is-own", "leveldb.newTableFile", 0, mFieldLoad("leveldb.tWriter", "fd"), "w.fd")
	}
	if fn := resolveFn(p, r, "leveldb", "newTableFile"); fn != nil {
		// fields are stored from the like-named parameters
		okv := 0
		instrs(fn, func(_ *ssa.BasicBlock, _ int, in ssa.Instruction) {
			if st, ok := in.(*ssa.Store); ok {
				for _, f := range []string{"imin", "imax", "size", "fd"} {
					if isFieldAddr(st.Addr, "leveldb.tFile", f) && mParam(f)(st.Val) {
						okv++
					}
				}
			}
		})
		r.Site(1)
		r.Check(okv == 4, fnName(fn), "fields-from-params", "tFile{fd,size,imin,imax} are the like-named arguments", fmt.Sprintf("%d of 4 fields stored from their parameters", okv), p.Pos(fn.Pos()))
	}
	if fn := resolveFn(p, r, "leveldb", "tableFileFromRecord"); fn != nil {
		ok := true
		for i, f := range []string{"", "size", "imin", "imax"} {
			if f == "" {
				continue
			}
			ff := f
			if !func() bool {
				for _, c := range findCalls(fn, "leveldb.newTableFile") {
					if argIs(c, i, func(v ssa.Value) bool { return isFieldOfParam(v, "leveldb.atRecord", ff) }) {
						return true
					}
				}
				return false
			}() {
				ok = false
			}
		}
		r.Site(1)
		r.Check(ok, fnName(fn), "record-to-file", "a manifest record maps to tFile{size,imin,imax} field by field", "tableFileFromRecord crosses fields", p.Pos(fn.Pos()))
	}
}

func isFieldOfParam(v ssa.Value, typ, field string) bool {
	v = stripConv(v)
	if f, ok := v.(*ssa.Field); ok {
		t, n, _, ok := fieldOf(f)
		return ok && t == typ && n == field
	}
	return isFieldLoad(v, typ, field)
}

func ruleLevelsSorted(p *Prog, r *Report, rule string) {
	r.Begin(rule, "E-GUARD", "levels are sorted on install: in versionStaging.finish a level that gained tables is stored only after sortByNum (level 0) / sortByKey (level > 0) or the binary-search insertion reserved for trivial=true; session.commit passes trivial=true only from compactionCommit", 6)
	defer r.End()
	fn := resolveFn(p, r, "leveldb", "(*versionStaging).finish")
	if fn != nil {
		addNew := evCall("leveldb.tableFileFromRecord")
		storeLevel := func(in ssa.Instruction) bool {
			st, ok := in.(*ssa.Store)
			if !ok {
				return false
			}
			ia, ok := st.Addr.(*ssa.IndexAddr)
			return ok && isFieldLoad(ia.X, "leveldb.version", "levels")
		}
		sortNum := evCall("(leveldb.tFiles).sortByNum")
		sortKey := evCall("(leveldb.tFiles).sortByKey")
		nextLevel := func(in ssa.Instruction) bool {
			b, ok := in.(*ssa.BinOp)
			if !ok || b.Op != token.ADD || !mConstInt(1)(b.Y) {
				return false
			}
			ph, ok := b.X.(*ssa.Phi)
			return ok && phiNamedOr(ph, "level", isCountingPhi)
		}
		ordNeverAfter(p, r, fn, "added-then-sorted", nil, addNew, "adding a table to a level", storeLevel, "installing the level", orPred(sortNum, sortKey, nextLevel), "a sort (within the same level's iteration)")
		lvl0 := cmpAtom("level==0", token.EQL, func(v ssa.Value) bool { _, isCall := v.(*ssa.Call); return !isCall }, mConstInt(0))
		checkGuard(p, r, GuardSpec{Rule: "level0-by-number", Fn: fn, Target: sortNum, TargetDesc: "sortByNum", Atoms: []Atom{lvl0}, G: func(a []bool) bool { return a[0] }, GDesc: "level == 0", MinTargets: 2})
		checkGuard(p, r, GuardSpec{Rule: "deeper-by-key", Fn: fn, Target: sortKey, TargetDesc: "sortByKey", Atoms: []Atom{lvl0}, G: func(a []bool) bool { return !a[0] }, GDesc: "level != 0", MinTargets: 2})
		triv := boolAtom("trivial", mParam("trivial"))
		ins := evCall("(leveldb.tFiles).searchNumLess", "(leveldb.tFiles).searchMin")
		checkGuard(p, r, GuardSpec{Rule: "insertion-only-trivial", Fn: fn, Target: ins, TargetDesc: "binary-search insertion of the added tables", Atoms: []Atom{triv}, G: func(a []bool) bool { return a[0] }, GDesc: "trivial", MinTargets: 2})
		// in the non-trivial path the WHOLE level (nt) is sorted, not just the added tables:
		// after the last append of a new table to nt (non-trivial), the receiver of the sort is that slice.
		// sort with the session comparer
		checkCallArg(p, r, fn, "sort-with-icmp", "(leveldb.tFiles).sortByKey", 1, mFieldLoad("leveldb.session", "icmp"), "the session's internal comparer")
		// deleted tables are skipped
		del := func(v ssa.Value) bool {
			// commaok lookup in scratch.deleted
			return true
		}
		_ = del
	}
	// who passes trivial=true
	n := 0
	for _, f := range p.SrcFuncs("leveldb") {
		for _, c := range findCalls(f, fCommit) {
			n++
			cc := callCommon(c)
			bv, isConst := constBool(cc.Args[2])
			name := fnName(f)
			r.Fn(name)
			switch {
			case !isConst:
				r.Fail(name, "trivial-flag-not-constant", "session.commit's trivial flag is a reviewed constant", "non-constant trivial flag at "+p.Pos(c.Pos()), p.Pos(c.Pos()), nil)
			case bv && name != "(*leveldb.DB).compactionCommit$1":
				r.Fail(name, "trivial-commit-from-foreign-caller", "only compaction commits (whose added tables fit as one sorted run) use the insertion shortcut", "commit(.., true) at "+p.Pos(c.Pos())+": flushes/transactions/recovery add tables that may interleave with existing ones; the shortcut would leave the level unsorted", p.Pos(c.Pos()), nil)
			default:
				r.OK(name, fmt.Sprintf("trivial=%v", bv), "session.commit's trivial flag is a reviewed constant")
			}
		}
	}
	r.Site(n)
	if sp := resolveFn(p, r, "leveldb", "(*version).spawn"); sp != nil {
		checkCallArg(p, r, sp, "flag-plumbed", "(*leveldb.versionStaging).finish", 1, mParam("trivial"), "the caller's trivial flag")
	}
	if cm := resolveFn(p, r, "leveldb", "(*session).commit"); cm != nil {
		checkCallArg(p, r, cm, "flag-plumbed", "(*leveldb.version).spawn", 2, mParam("trivial"), "the caller's trivial flag")
	}
	if fn := resolveFn(p, r, "leveldb", "tFiles.lessByKey"); fn != nil {
		// order by smallest key under the internal comparer
		okv := false
		for _, c := range findCalls(fn, "(*leveldb.iComparer).Compare") {
			if argIs(c, 1, func(v ssa.Value) bool { return isFieldLoad(stripConv(v), "leveldb.tFile", "imin") }) && argIs(c, 2, func(v ssa.Value) bool { return isFieldLoad(stripConv(v), "leveldb.tFile", "imin") }) {
				okv = true
			}
		}
		r.Site(1)
		r.Check(okv, fnName(fn), "orders-by-imin", "levels > 0 are ordered by smallest key under the internal comparer", "lessByKey does not compare imin with imin through icmp", p.Pos(fn.Pos()))
	}
	if fn := resolveFn(p, r, "leveldb", "tFiles.lessByNum"); fn != nil {
		okv := false
		instrs(fn, func(_ *ssa.BasicBlock, _ int, in ssa.Instruction) {
			if ret, ok := in.(*ssa.Return); ok && len(ret.Results) == 1 {
				if b, ok := ret.Results[0].(*ssa.BinOp); ok && b.Op == token.GTR {
					okv = true
				}
			}
		})
		r.Site(1)
		r.Check(okv, fnName(fn), "newest-first", "level 0 is ordered by file number, newest first", "lessByNum is not `i.Num > j.Num`", p.Pos(fn.Pos()))
	}
}

func ruleCompactionEdit(p *Prog, r *Report, rule string) {
	r.Begin(rule, "E-FLOW", "a compaction's edit replaces exactly its inputs: every input table is deleted at sourceLevel+i, outputs are added at sourceLevel+1, the trivial move deletes at sourceLevel and re-adds the same table at sourceLevel+1; newCompaction always expands its inputs", 6)
	defer r.End()
	if fn := resolveFn(p, r, "leveldb", "(*DB).tableCompaction"); fn != nil {
		dels := findCalls(fn, "(*leveldb.sessionRecord).delTable")
		adds := findCalls(fn, "(*leveldb.sessionRecord).addTableFile")
		r.Site(len(dels) + len(adds))
		nLoop, nTriv := 0, 0
		for _, c := range dels {
			switch {
			case argIs(c, 1, mSourceLevelPlus(0, false)):
				nLoop++
			case argIs(c, 1, mFieldLoad(tComp, "sourceLevel")):
				nTriv++
			default:
				r.Fail(fnName(fn), "delete-at-wrong-level", "inputs are deleted at their own level", "delTable at "+p.Pos(c.Pos())+" uses a level that is neither sourceLevel nor sourceLevel+i", p.Pos(c.Pos()), nil)
			}
		}
		r.Check(nLoop == 1 && nTriv == 1, fnName(fn), "deletes-inputs", "one delTable(sourceLevel+i, num) in the input loop and one delTable(sourceLevel, num) for the trivial move", fmt.Sprintf("loop deletes=%d trivial deletes=%d", nLoop, nTriv), p.Pos(fn.Pos()))
		for _, c := range adds {
			r.Check(argIs(c, 1, mSourceLevelPlus(1, true)), fnName(fn), "move-adds-one-down", "the trivial move re-adds the table at sourceLevel+1", "addTableFile at "+p.Pos(c.Pos())+" not at sourceLevel+1", p.Pos(c.Pos()))
		}
		// the loop really iterates over both input levels: delTable's number is the ranged table's fd.Num
		for _, c := range dels {
			r.Check(argIs(c, 2, func(v ssa.Value) bool {
				u, ok := v.(*ssa.UnOp)
				if !ok {
					return false
				}
				fa, ok := u.X.(*ssa.FieldAddr)
				if !ok {
					return false
				}
				_, f, base, ok := fieldOf(fa)
				return ok && f == "Num" && func() bool { _, f2, _, ok := fieldOf(base); return ok && f2 == "fd" }()
			}), fnName(fn), "deletes-by-file-number", "the deleted table is named by its file number", "delTable number is not t.fd.Num", p.Pos(c.Pos()))
		}
		// released on every exit
		n := countInstr(fn, func(in ssa.Instruction) bool {
			d, ok := in.(*ssa.Defer)
			return ok && isCallTo(d, "(*leveldb.compaction).release")
		})
		r.Check(n == 1, fnName(fn), "compaction-released", "the compaction's version reference is released on every exit (deferred)", "c.release() is not deferred", p.Pos(fn.Pos()))
		// build before commit
		ordPrecede(p, r, fn, "build-before-commit", nil, evCall("(*leveldb.DB).compactionTransact"), "compactionTransact(build)", andPred(evCall("(*leveldb.DB).compactionCommit"), func(in ssa.Instruction) bool {
			return !argIs(in, 1, func(v ssa.Value) bool {
				c, ok := v.(*ssa.Const)
				return ok && c.Value != nil && c.Value.ExactString() == "\"table-move\""
			})
		}), "compactionCommit(\"table\")")
	}
	if fn := resolveFn(p, r, "leveldb", "(*tableCompactionBuilder).flush"); fn != nil {
		checkCallArg(p, r, fn, "outputs-one-level-down", "(*leveldb.sessionRecord).addTableFile", 1, mSourceLevelPlus(1, true), "c.sourceLevel+1")
	}
	if fn := resolveFn(p, r, "leveldb", "newCompaction"); fn != nil {
		ordOnSuccess(p, r, fn, "inputs-expanded", nil, evCall("(*leveldb.compaction).expand"), "c.expand()")
	}
	if fn := resolveFn(p, r, "leveldb", "(*compaction).expand"); fn != nil {
		// level+1 inputs derive from getOverlaps over the level+1 tables with the source range; stored into c.levels
		n := len(findCalls(fn, "(leveldb.tFiles).getOverlaps"))
		r.Site(n)
		r.Check(n >= 3, fnName(fn), "overlaps-computed", "expand computes overlapping inputs with getOverlaps (source level when 0, parent level, grandparents)", fmt.Sprintf("%d getOverlaps calls", n), p.Pos(fn.Pos()))
		for _, c := range findCalls(fn, "(leveldb.tFiles).getOverlaps") {
			r.Check(argIs(c, 2, mFieldLoad("leveldb.session", "icmp")), fnName(fn), "overlaps-with-icmp", "overlap computation uses the session comparer", "getOverlaps without icmp", p.Pos(c.Pos()))
		}
		// the result is what the compaction uses
		st := 0
		instrs(fn, func(_ *ssa.BasicBlock, _ int, in ssa.Instruction) {
			if s, ok := in.(*ssa.Store); ok {
				if ia, ok := s.Addr.(*ssa.IndexAddr); ok && isFieldAddr(ia.X, tComp, "levels") {
					st++
				}
			}
		})
		r.Check(st == 2, fnName(fn), "inputs-stored", "expand stores both input levels back into the compaction", fmt.Sprintf("%d stores to c.levels[i]", st), p.Pos(fn.Pos()))
	}
	if fn := resolveFn(p, r, "leveldb", "(*DB).memCompaction"); fn != nil {
		_ = fn
	}
	if fn := resolveFn(p, r, "leveldb", "(*session).flushMemdb"); fn != nil {
		// flush level is chosen by pickMemdbLevel over the new table's user-key range
		checkCallArg(p, r, fn, "flush-level-picked", "(*leveldb.sessionRecord).addTableFile", 1, mCall("(*leveldb.session).pickMemdbLevel"), "pickMemdbLevel(t.imin.ukey(), t.imax.ukey(), maxLevel)")
	}
	if fn := resolveFn(p, r, "leveldb", "(*version).pickMemdbLevel"); fn != nil {
		// a level > 0 is chosen only when level 0 does not overlap
		l0 := boolAtom("levels[0].overlaps", func(v ssa.Value) bool {
			c, ok := callValue(v, "(leveldb.tFiles).overlaps")
			if !ok {
				return false
			}
			bv, isC := constBool(c.Call.Args[4])
			return isC && bv
		})
		inc := func(in ssa.Instruction) bool {
			b, ok := in.(*ssa.BinOp)
			if !ok || b.Op != token.ADD {
				return false
			}
			ph, ok := b.X.(*ssa.Phi)
			return ok && phiNamedOr(ph, "level", isCountingPhi) && mConstInt(1)(b.Y) && hasReferrerPhi(b)
		}
		if countInstr(fn, inc) > 0 {
			checkGuard(p, r, GuardSpec{Rule: "push-down-only-without-l0-overlap", Fn: fn, Target: inc, TargetDesc: "level++ (pushing the flushed table below level 0)", Atoms: []Atom{l0}, G: func(a []bool) bool { return !a[0] }, GDesc: "¬levels[0].overlaps(umin, umax)", MinTargets: 1})
		} else {
			r.OK(fnName(fn), "no-push-down-loop", "no level increment found (flushes stay at level 0)")
		}
	}
}

func hasReferrerPhi(v ssa.Value) bool {
	for _, ref := range *v.Referrers() {
		if _, ok := ref.(*ssa.Phi); ok {
			return true
		}
	}
	return false
}

func ruleRecoveredLevelZero(p *Prog, r *Report, rule string) {
	r.Begin(rule, "E-FLOW", "Recover registers every salvaged table at level 0 (where files may overlap and are searched newest-first by sequence)", 1)
	defer r.End()
	fn := resolveFn(p, r, "leveldb", "recoverTable")
	if fn == nil {
		return
	}
	n := 0
	withAnons(fn, func(f *ssa.Function) {
		for _, c := range findCalls(f, "(*leveldb.sessionRecord).addTable", "(*leveldb.sessionRecord).addTableFile") {
			n++
			r.Fn(fnName(f))
			r.Check(argIs(c, 1, mConstInt(0)), fnName(f), "level-zero", "recovered table registered with the constant level 0", "recovered table registered at a non-zero or computed level: overlapping files below level 0 break lookups", p.Pos(c.Pos()))
		}
	})
	r.Site(n)
}
