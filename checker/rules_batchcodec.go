package main

import (
	"fmt"
	"go/token"
	"sort"

	"golang.org/x/tools/go/ssa"
)

// ruleBatchCodec: a write group is journalled as header (sequence, count) + records and replayed
// by decodeBatchToMem; the live path applies the same batches with Batch.putMem. Writer and
// readers are siblings: same header offsets, same per-record numbering (base sequence + index),
// a value part exactly for value records, and the replay refuses records that do not match the
// header (so a torn group is not half applied under wrong numbers).
func ruleBatchCodec(p *Prog, r *Report, rule string) {
	r.Begin(rule, "E-SIB", "batch codec: encodeBatchHeader / decodeBatchHeader use the same offsets (sequence at 0, count at 8, 12 bytes, length checked first); the i-th record of a group is numbered base+i both when applied live (Batch.putMem) and when replayed (decodeBatchToMem); appendRec writes and decodeBatch reads a value part exactly for keyTypeVal records, and decodeBatch bounds-checks both lengths; the replay rejects a sequence below the expected one, more records than the header says, and fewer", 10)
	defer r.End()
	offsets := func(fn *ssa.Function, calls ...string) []string {
		var out []string
		for _, c := range findCalls(fn, calls...) {
			args := callCommon(c).Args
			a := args[0]
			if len(args) >= 2 && isByteSlice(args[1].Type()) {
				a = args[1] // method value receiver first
			}
			off := "0"
			if sl, ok := a.(*ssa.Slice); ok && sl.Low != nil {
				if k, isC := constInt(sl.Low); isC {
					off = fmt.Sprint(k)
				} else {
					off = "?"
				}
			}
			name := calleeName(callCommon(c))
			out = append(out, name[len(name)-6:]+"@"+off)
		}
		sort.Strings(out)
		return out
	}
	enc := resolveFn(p, r, "leveldb", "encodeBatchHeader")
	dec := resolveFn(p, r, "leveldb", "decodeBatchHeader")
	if enc != nil && dec != nil {
		r.Site(1)
		eo := offsets(enc, "(encoding/binary.littleEndian).PutUint64", "(encoding/binary.littleEndian).PutUint32")
		do := offsets(dec, "(encoding/binary.littleEndian).Uint64", "(encoding/binary.littleEndian).Uint32")
		r.Check(fmt.Sprint(eo) == "[Uint32@8 Uint64@0]" && fmt.Sprint(do) == "[Uint32@8 Uint64@0]", "encodeBatchHeader~decodeBatchHeader", "header-offsets", "sequence (8 bytes) at offset 0 and count (4 bytes) at offset 8 on both sides", fmt.Sprintf("encode %v, decode %v", eo, do), p.Pos(dec.Pos()))
		short := cmpAtom("len(data)<12", token.LSS, func(v ssa.Value) bool { c, ok := v.(*ssa.Call); return ok && isCallTo(c, "builtin:len") }, mConstInt(12))
		checkGuard(p, r, GuardSpec{Rule: "header-length-checked", Fn: dec, Target: evCall("(encoding/binary.littleEndian).Uint64"), TargetDesc: "reading the header", Atoms: []Atom{short}, G: func(a []bool) bool { return !a[0] }, GDesc: "len(data) >= batchHeaderLen", MinTargets: 1})
	}
	// numbering: makeInternalKey(_, k, base + uint64(i), kt)
	numbering := func(fn *ssa.Function, base VMatch, what string) {
		for _, c := range findCalls(fn, "leveldb.makeInternalKey") {
			r.Site(1)
			a := callCommon(c).Args[2]
			b, ok := isBin(stripConv(a), token.ADD)
			okv := ok && ((base(b.X) && isIndexLike(b.Y)) || (base(b.Y) && isIndexLike(b.X)))
			r.Check(okv, fnName(fn), "record-numbering@"+branchLabel(c), "the i-th record of the group gets sequence "+what+" + i", "the sequence argument of makeInternalKey is not base + index", p.Pos(c.Pos()))
		}
	}
	if fn := resolveFn(p, r, "leveldb", "(*Batch).putMem"); fn != nil {
		numbering(fn, mParam("seq"), "seq")
	}
	if fn := resolveFn(p, r, "leveldb", "decodeBatchToMem"); fn != nil {
		hdrSeq := func(v ssa.Value) bool {
			if _, ok := extractOf(v, 0, "leveldb.decodeBatchHeader"); ok {
				return true
			}
			u, ok := stripConv(v).(*ssa.UnOp)
			if !ok {
				return false
			}
			for _, s := range cellStores(u.X) {
				if _, ok := extractOf(s, 0, "leveldb.decodeBatchHeader"); ok {
					return true
				}
			}
			return false
		}
		for _, a := range fn.AnonFuncs {
			numbering(a, hdrSeq, "the header's sequence")
			// more records than announced → rejected before being applied
			put := evCall("(*leveldb/memdb.DB).Put")
			over := cmpAtom("i>=batchLen", token.GEQ, mParam("i"), func(v ssa.Value) bool { return !mParam("i")(v) })
			checkGuard(p, r, GuardSpec{Rule: "surplus-record-rejected", Fn: a, Target: put, TargetDesc: "applying a replayed record", Atoms: []Atom{over}, G: func(x []bool) bool { return !x[0] }, GDesc: "i < the header's count", MinTargets: 1})
		}
		tooOld := cmpAtom("seq<expectSeq", token.LSS, mExtract(0, "leveldb.decodeBatchHeader"), mParam("expectSeq"))
		if len(fn.AnonFuncs) == 0 {
			r.Fail(fnName(fn), "replay-callback:unresolved-anchor", "decodeBatchToMem applies records through a callback", "no closure", p.Pos(fn.Pos()), nil)
		}
		tooOld2 := Atom{Name: "seq<expectSeq", Match: func(cond ssa.Value) (int, int) {
			b, ok := cond.(*ssa.BinOp)
			if !ok || !isCmpOp(b.Op) {
				return 0, 0
			}
			isSeq := func(v ssa.Value) bool {
				if _, ok := extractOf(v, 0, "leveldb.decodeBatchHeader"); ok {
					return true
				}
				u, ok := stripConv(v).(*ssa.UnOp)
				return ok && resolveCell(u.X) != nil && cellRefName(resolveCell(u.X)) == "seq"
			}
			return cmpAtom("", token.LSS, isSeq, mParam("expectSeq")).Match(cond)
		}}
		_ = tooOld
		checkGuard(p, r, GuardSpec{Rule: "stale-sequence-rejected", Fn: fn, Target: evCall("leveldb.decodeBatch"), TargetDesc: "replaying the group's records", Atoms: []Atom{tooOld2}, G: func(x []bool) bool { return !x[0] }, GDesc: "the group's sequence is not below the running sequence", MinTargets: 1})
		// fewer records than announced → error
		r.Site(1)
		n := countInstr(fn, func(in ssa.Instruction) bool {
			b, ok := in.(*ssa.BinOp)
			return ok && b.Op == token.NEQ && isIntType(b.X.Type())
		})
		r.Check(n >= 1, fnName(fn), "short-group-rejected", "a group with fewer records than its header announces is rejected (decodedLen != batchLen)", "no such comparison", p.Pos(fn.Pos()))
	}
	// value part iff keyTypeVal
	isVal := func(kt VMatch) Atom { return cmpAtom("kt==keyTypeVal", token.EQL, kt, mConstInt(1)) }
	if fn := resolveFn(p, r, "leveldb", "(*Batch).appendRec"); fn != nil {
		valLen := func(in ssa.Instruction) bool {
			c, ok := in.(*ssa.Call)
			if !ok || !isCallTo(c, "encoding/binary.PutUvarint") {
				return false
			}
			l, ok := stripConv(c.Call.Args[1]).(*ssa.Call)
			return ok && isCallTo(l, "builtin:len") && mParam("value")(l.Call.Args[0])
		}
		a := isVal(mParam("kt"))
		checkGuard(p, r, GuardSpec{Rule: "value-written-only-for-values", Fn: fn, Target: valLen, TargetDesc: "writing the value length", Atoms: []Atom{a}, G: func(x []bool) bool { return x[0] }, GDesc: "kt == keyTypeVal", MinTargets: 1})
		checkGuardExact(p, r, GuardSpec{Rule: "value-written-for-values", Fn: fn, Target: valLen, TargetDesc: "the value part is written", Atoms: []Atom{a}, G: func(x []bool) bool { return x[0] }, GDesc: "kt == keyTypeVal"}, isReturn, "return")
	}
	if fn := resolveFn(p, r, "leveldb", "decodeBatch"); fn != nil {
		kt := func(v ssa.Value) bool {
			u, ok := stripConv(v).(*ssa.UnOp)
			if !ok {
				return false
			}
			_, f, _, ok := fieldOf(u.X)
			return ok && f == "keyType"
		}
		uv := func(in ssa.Instruction) bool { return isCallTo(in, "encoding/binary.Uvarint") }
		n := countInstr(fn, uv)
		r.Site(1)
		r.Check(n == 2, fnName(fn), "two-length-fields", "decodeBatch reads a key length and (for values) a value length", fmt.Sprintf("%d Uvarint reads", n), p.Pos(fn.Pos()))
		// the callback receives the record only after both bounds checks passed
		cb := func(in ssa.Instruction) bool {
			c, ok := in.(*ssa.Call)
			return ok && mParam("fn")(c.Call.Value)
		}
		var uvs []*ssa.Call
		instrs(fn, func(_ *ssa.BasicBlock, _ int, in ssa.Instruction) {
			if c, ok := in.(*ssa.Call); ok && uv(in) {
				uvs = append(uvs, c)
			}
		})
		if len(uvs) == 2 {
			var atoms []Atom
			for k, c := range uvs {
				c := c
				which := []string{"key", "value"}[k]
				atoms = append(atoms, cmpAtom(which+": n<=0", token.LEQ, func(v ssa.Value) bool {
					ex, ok := v.(*ssa.Extract)
					return ok && ex.Index == 1 && ex.Tuple == ssa.Value(c)
				}, mConstInt(0)))
				atoms = append(atoms, cmpAtom(which+": o+len>len(data)", token.GTR, func(v ssa.Value) bool {
					b, ok := isBin(v, token.ADD)
					if !ok {
						return false
					}
					for _, o := range []ssa.Value{b.X, b.Y} {
						if ex, ok := stripConv(o).(*ssa.Extract); ok && ex.Index == 0 && ex.Tuple == ssa.Value(c) {
							return true
						}
					}
					return false
				}, func(v ssa.Value) bool { l, ok := v.(*ssa.Call); return ok && isCallTo(l, "builtin:len") }))
			}
			badType := cmpAtom("keyType>keyTypeVal", token.GTR, kt, mConstInt(1))
			isValA := isVal(kt)
			atoms = append(atoms, badType, isValA)
			checkGuard(p, r, GuardSpec{Rule: "record-handed-out-only-if-wellformed", Fn: fn, Target: cb, TargetDesc: "handing the record to the consumer", Atoms: atoms,
				G:     func(x []bool) bool { return !x[0] && !x[1] && !x[4] && (!x[5] || (!x[2] && !x[3])) },
				GDesc: "key length decoded and inside the data, type <= keyTypeVal, and for a value record the value length decoded and inside the data", MinTargets: 1})
		}
		a := isVal(kt)
		secondUv := func(in ssa.Instruction) bool {
			if !uv(in) {
				return false
			}
			// the Uvarint inside the value branch: dominated by the kt==Val test — identify as the one
			// reached only under the atom (checked by the guard below), so just take all and let the
			// guard say which are unconditional
			return true
		}
		_ = secondUv
		_ = a
	}
}

func isIndexLike(v ssa.Value) bool {
	v = stripConv(v)
	switch x := v.(type) {
	case *ssa.Phi, *ssa.Parameter:
		return true
	case *ssa.BinOp:
		return x.Op == token.ADD
	}
	return false
}

func isIntType(t interface{ String() string }) bool {
	s := t.String()
	return s == "int" || s == "int64" || s == "uint64"
}
