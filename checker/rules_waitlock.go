package main

import (
	"fmt"
	"sort"
	"strings"

	"golang.org/x/tools/go/ssa"
)

// ruleWaitUnderLock: a goroutine that blocks on a channel while holding a mutex keeps every other
// user of that mutex waiting for as long as the channel partner takes — and for ever if the partner
// itself needs that mutex. Every function whose blocking channel operation (plain send/receive, or
// a select without default) can run while a mutex may be held — directly or through callees — must
// be a REVIEWED waiter: the row names the goroutine on the other end (or says that the wait is a
// timed/closeC-bounded pause), and the rule then checks that this partner can never need the lock
// that is held (its transitive may-acquire set, from the lock-order analysis). A new waiter under a
// lock is reported; a known waiter reached under a lock its partner needs is reported as a deadlock.
// The token receive `<-writeLockC` by its holder never blocks and is not a wait.
type waiterRow struct {
	partner string // goroutine body on the other end of the channel ("" = none: a bounded pause)
	why     string
}

var reviewedWaiters = map[string]waiterRow{
	"(*leveldb.version).incref":        {"(*leveldb.session).refLoop", "select {refCh <- …; <-closeC}: the reference loop receives in every iteration until session.close"},
	"(*leveldb.version).releaseNB":     {"(*leveldb.session).refLoop", "select {relCh <- …; <-closeC}: as incref"},
	"(*leveldb.session).setVersion":    {"(*leveldb.session).refLoop", "select {deltaCh <- …; <-closeC}: as incref"},
	"(*leveldb.session).commit$1":      {"(*leveldb.session).refLoop", "abandon <- id: the reference loop receives abandon in every iteration (reviewed rendezvous of C09.5)"},
	"(*leveldb.DB).compactionTransact": {"", "retry back-off: select {<-closeC; <-time.After}; ends at close or after the back-off"},
	"(*leveldb.Transaction).Commit":    {"", "retry back-off between commit attempts: select {<-closeC; <-time.After}"},
	"(*leveldb.DB).compTriggerWait":    {"(*leveldb.DB).tCompaction", "waits for the table-compaction goroutine's acknowledgement; select also listens on closeC and the error channels"},
}

func ruleWaitUnderLock(p *Prog, r *Report, rule string) {
	r.Begin(rule, "E-EXH", "every blocking channel operation that can run while a mutex may be held (directly or through callees; `go` statements excluded) is the wait of a reviewed waiter, and the goroutine on its other end can never acquire the lock that is held (transitive may-acquire set)", 10)
	defer r.End()
	lc := buildLockCtx(p)
	// functions that contain a blocking channel operation themselves
	direct := map[*ssa.Function][]string{}
	for _, fn := range lc.fns {
		for _, op := range chanOps(fn) {
			if !op.block {
				continue
			}
			if op.kind == "recv" && op.chans[0] == "leveldb.DB.writeLockC" {
				continue
			}
			direct[fn] = append(direct[fn], op.kind)
		}
	}
	// may-wait: the set of functions with a direct wait reachable from fn
	may := map[*ssa.Function]map[*ssa.Function]bool{}
	for _, fn := range lc.fns {
		may[fn] = map[*ssa.Function]bool{}
		if len(direct[fn]) > 0 {
			may[fn][fn] = true
		}
	}
	for changed := true; changed; {
		changed = false
		for _, fn := range lc.fns {
			for _, e := range lc.outEdges[fn] {
				for w := range may[e.Callee.Func] {
					if !may[fn][w] {
						may[fn][w] = true
						changed = true
					}
				}
			}
		}
	}
	sp := lockSpec()
	found := map[string]string{} // "lock|waiter" -> witness
	for _, fn := range lc.fns {
		if !hasMutexOps(fn) && !callsLockSummarised(sp, fn) {
			continue
		}
		isWaitInstr := func(in ssa.Instruction) bool {
			switch x := in.(type) {
			case *ssa.Send:
				return true
			case *ssa.UnOp:
				return x.Op.String() == "<-" && chanDesc(x.X) != "leveldb.DB.writeLockC"
			case *ssa.Select:
				return x.Blocking
			}
			return false
		}
		watch := func(in ssa.Instruction) bool {
			if _, isGo := in.(*ssa.Go); isGo {
				return false
			}
			return callCommon(in) != nil || isWaitInstr(in)
		}
		res := sp.Analyze(fn, nil, watch)
		exitHeld := map[string]bool{}
		for _, e := range res.Exits {
			for k, v := range e.State.cnt {
				if v > 0 {
					exitHeld[baseLock(k)] = true
				}
			}
		}
		for in, sts := range res.At {
			held := map[string]bool{}
			for _, st := range sts {
				for k, v := range st.cnt {
					if v > 0 {
						held[baseLock(k)] = true
					}
				}
			}
			if _, isDefer := in.(*ssa.Defer); isDefer {
				for k := range exitHeld {
					held[k] = true
				}
			}
			if len(held) == 0 {
				continue
			}
			if _, _, isMu := mutexOp(in); isMu {
				continue
			}
			var waiters []*ssa.Function
			if isWaitInstr(in) {
				waiters = append(waiters, fn)
			}
			for _, c := range lc.calleesOf(fn, in) {
				for w := range may[c] {
					waiters = append(waiters, w)
				}
			}
			for _, w := range waiters {
				for h := range held {
					k := h + "|" + fnName(w)
					if _, ok := found[k]; !ok {
						found[k] = fmt.Sprintf("%s at %s", fnName(fn), p.Pos(in.Pos()))
					}
				}
			}
		}
	}
	var keys []string
	for k := range found {
		keys = append(keys, k)
	}
	sort.Strings(keys)
	r.Site(len(keys))
	byName := map[string]*ssa.Function{}
	for _, fn := range lc.fns {
		byName[fnName(fn)] = fn
	}
	usedRow := map[string]bool{}
	for _, k := range keys {
		parts := strings.SplitN(k, "|", 2)
		lock, waiter := parts[0], parts[1]
		pos := found[k][strings.LastIndex(found[k], " at ")+4:]
		row, ok := reviewedWaiters[waiter]
		if !ok {
			r.Fail(k, "wait-under-lock:unreviewed", "every function that can block on a channel while a mutex is held is a reviewed waiter", fmt.Sprintf("%s can block on a channel while %s is held (%s): every other user of the lock waits with it; who is on the other end, and can it need this lock?", waiter, lock, found[k]), pos, nil)
			continue
		}
		usedRow[waiter] = true
		if row.partner == "" {
			r.OK(k, "wait-under-lock:bounded", "bounded pause: "+row.why+" (held at "+found[k]+")")
			continue
		}
		pf := byName[row.partner]
		if pf == nil {
			r.Fail(k, "wait-under-lock:unresolved-anchor", "the partner goroutine of a reviewed waiter resolves", "partner "+row.partner+" not found", pos, nil)
			continue
		}
		if lc.mayAcq[pf][lock] {
			r.Fail(k, "wait-under-lock:partner-needs-lock", "the goroutine on the other end of a wait never needs the lock the waiter holds", fmt.Sprintf("%s waits for %s while holding %s (%s), and %s can itself acquire %s: both block for ever", waiter, row.partner, lock, found[k], row.partner, lock), pos, nil)
			continue
		}
		r.OK(k, "wait-under-lock:partner-free", fmt.Sprintf("%s never acquires %s — %s (held at %s)", row.partner, lock, row.why, found[k]))
	}
	var stale []string
	for w := range reviewedWaiters {
		if !usedRow[w] {
			stale = append(stale, w)
		}
	}
	sort.Strings(stale)
	for _, w := range stale {
		r.Fail(w, "wait-under-lock:unresolved-anchor", "reviewed waiter rows resolve", "the reviewed waiter no longer waits under any lock: remove the row (or the protocol changed: re-review)", "", nil)
	}
}
