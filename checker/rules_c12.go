package main

import (
	"fmt"
	"go/token"

	"golang.org/x/tools/go/ssa"
)

func init() {
	register(&propDef{
		id:          "C12",
		run:         runC12,
		explanation: "Static analysis of the journal framing code: (1) acceptance gates — the reader accepts a chunk (returns nil from nextChunk) only after the header is non-zero, the chunk type is in range, the length stays inside the block, the CRC matches (checksums on) and, for the first chunk of a record, the type is full/first; continuation chunks are read only while the record is not finished; (2) bounds — the writer starts a new block when fewer than 7 bytes remain and its header filler asserts i+7<=j<=blockSize; (3) writer/reader agreement — the checksummed range, the length field, the type byte and the payload start are at the same offsets relative to the chunk start on both sides, with the same header and block size constants (sibling comparison of normalised offset expressions); (4) the writer latches errors. These are the gates without which the reader can yield a record that was not written, or index out of range. Round-trip equality and damage containment over all byte streams are NOT decidable statically and are not claimed.",
		notCovered:  "record sequences, flush patterns, truncation offsets, the 'only records touching the damaged block are lost' rule; round-trip equality",
		assumptions: []string{"util.NewCRC is CRC-32C with the leveldb mask on both sides (shared function)"},
	})
}

const tJR = "leveldb/journal.Reader"
const tJW = "leveldb/journal.Writer"

func mBufElem(typ string) VMatch {
	return func(v ssa.Value) bool {
		u, ok := stripConv(v).(*ssa.UnOp)
		if !ok || u.Op != token.MUL {
			return false
		}
		ia, ok := u.X.(*ssa.IndexAddr)
		return ok && isFieldAddr(ia.X, typ, "buf")
	}
}

func runC12(p *Prog, r *Report) {
	if want("C12.13") {
		ruleWriteBlockErrorStops(p, r, "C12.13")
	}
	if want("C12.12") {
		ruleOptGetters(p, r, "C12.12", "journal strictness", "Options.GetStrict")
	}
	if want("C12.11") {
		// the block tail is padded only when no header fits
		ruleJournalTailPadding(p, r, "C12.11")
	}
	if want("C12.1") {
		r.Begin("C12.1", "E-GUARD", "acceptance gates of journal.Reader.nextChunk: a chunk is accepted only if the header is present and non-zero, 1<=type<=4, the chunk ends inside the block, the CRC matches when checksums are on, and a record's first chunk has type full/first; Read/ReadByte continue into a following chunk only while the record is unfinished", 3)
		if fn := resolveFn(p, r, "leveldb/journal", "(*Reader).nextChunk"); fn != nil {
			sum := mCall("(encoding/binary.littleEndian).Uint32")
			length := mCall("(encoding/binary.littleEndian).Uint16")
			typ := mBufElem(tJR)
			jv := mFieldLoad(tJR, "j")
			nv := mFieldLoad(tJR, "n")
			hdr := func(v ssa.Value) bool { k, ok := offsetFrom(v, tJR, "j"); return ok && k == 7 && !jv(v) }
			atoms := []Atom{
				cmpAtom("j+7<=n (header inside the block)", token.LEQ, hdr, nv),                          // 0
				cmpAtom("checksum==0", token.EQL, sum, mConstInt(0)),                                     // 1
				cmpAtom("length==0", token.EQL, length, mConstInt(0)),                                    // 2
				cmpAtom("type==0", token.EQL, typ, mConstInt(0)),                                         // 3
				cmpAtom("type<1", token.LSS, typ, mConstInt(1)),                                          // 4
				cmpAtom("type>4", token.GTR, typ, mConstInt(4)),                                          // 5
				cmpAtom("j>n (length overflows the block)", token.GTR, jv, nv),                           // 6
				boolAtom("r.checksum", mFieldLoad(tJR, "checksum")),                                      // 7
				cmpAtom("stored CRC != computed CRC", token.NEQ, sum, mCall("(leveldb/util.CRC).Value")), // 8
				boolAtom("first", mParam("first")),                                                       // 9
				cmpAtom("type!=full", token.NEQ, typ, mConstInt(1)),                                      // 10
				cmpAtom("type!=first", token.NEQ, typ, mConstInt(2)),                                     // 11
			}
			G := func(a []bool) bool {
				return a[0] && !(a[1] && a[2] && a[3]) && !a[4] && !a[5] && !a[6] && !(a[7] && a[8]) && !(a[9] && a[10] && a[11])
			}
			okRet := func(in ssa.Instruction) bool {
				ret, ok := in.(*ssa.Return)
				return ok && len(ret.Results) == 1 && isNilConst(ret.Results[0])
			}
			// a path may go around the loop (read the next block) – confine to one header evaluation
			reload := func(in ssa.Instruction) bool { return isCallTo(in, "io.ReadFull") }
			checkGuard(p, r, GuardSpec{Rule: "chunk-accepted-only-through-all-gates", Fn: fn, Target: okRet, TargetDesc: "return nil (chunk accepted)", Atoms: atoms, G: G,
				GDesc: "header present ∧ ¬zero-header ∧ 1<=type<=4 ∧ chunk inside block ∧ (¬checksum ∨ CRC match) ∧ (¬first ∨ type∈{full,first})", Avoid: reload, MinTargets: 1})
			// r.last is set from the type
			okv := false
			instrs(fn, func(_ *ssa.BasicBlock, _ int, in ssa.Instruction) {
				if st, ok := in.(*ssa.Store); ok && isFieldAddr(st.Addr, tJR, "last") {
					okv = true
				}
			})
			r.Check(okv, fnName(fn), "records-last", "nextChunk records whether the accepted chunk ends the record", "r.last not assigned", p.Pos(fn.Pos()))
			// the payload window [i, j) is set before acceptance: r.i = j+7, r.j = j+7+length
			okI, okJ := false, false
			instrs(fn, func(_ *ssa.BasicBlock, _ int, in ssa.Instruction) {
				st, ok := in.(*ssa.Store)
				if !ok {
					return
				}
				if isFieldAddr(st.Addr, tJR, "i") {
					if k, ok := offsetFrom(st.Val, tJR, "j"); ok && k == 7 {
						okI = true
					}
				}
				if isFieldAddr(st.Addr, tJR, "j") {
					if b, ok := st.Val.(*ssa.BinOp); ok && b.Op == token.ADD {
						if k, ok := offsetFrom(b.X, tJR, "j"); ok && k == 7 && length(stripConv(b.Y)) {
							okJ = true
						}
					}
				}
			})
			r.Check(okI && okJ, fnName(fn), "payload-window", "the payload window is [j+7, j+7+length)", fmt.Sprintf("i=j+7:%v j=j+7+length:%v", okI, okJ), p.Pos(fn.Pos()))
		}
		for _, name := range []string{"(*singleReader).Read", "(*singleReader).ReadByte"} {
			if fn := resolveFn(p, r, "leveldb/journal", name); fn != nil {
				last := boolAtom("r.last", mFieldLoad(tJR, "last"))
				nc := evCall("(*leveldb/journal.Reader).nextChunk")
				checkGuard(p, r, GuardSpec{Rule: "continue-only-if-unfinished", Fn: fn, Target: nc, TargetDesc: "reading a continuation chunk", Atoms: []Atom{last}, G: func(a []bool) bool { return !a[0] }, GDesc: "¬r.last", MinTargets: 1})
				checkCallArg(p, r, fn, "continuation-not-first", "(*leveldb/journal.Reader).nextChunk", 1, func(v ssa.Value) bool { b, ok := constBool(v); return ok && !b }, "first=false")
				// only when the current window is exhausted
				empty := cmpAtom("r.i==r.j", token.EQL, mFieldLoad(tJR, "i"), mFieldLoad(tJR, "j"))
				checkGuard(p, r, GuardSpec{Rule: "continue-only-when-window-empty", Fn: fn, Target: nc, TargetDesc: "reading a continuation chunk", Atoms: []Atom{empty}, G: func(a []bool) bool { return a[0] }, GDesc: "r.i == r.j", MinTargets: 1})
			}
		}
		if fn := resolveFn(p, r, "leveldb/journal", "(*Reader).Next"); fn != nil {
			checkCallArg(p, r, fn, "record-starts-with-first", "(*leveldb/journal.Reader).nextChunk", 1, func(v ssa.Value) bool { b, ok := constBool(v); return ok && b }, "first=true")
		}
		r.End()
	}
	if want("C12.2") {
		r.Begin("C12.2", "E-GUARD", "writer bounds: Next pads and starts a new block when the header does not fit (j+7 > blockSize), the record writer flushes a full block before copying more, fillHeader asserts i+7<=j<=blockSize", 3)
		if fn := resolveFn(p, r, "leveldb/journal", "(*Writer).Next"); fn != nil {
			over := cmpAtom("w.j>blockSize", token.GTR, mFieldLoad(tJW, "j"), mConstInt(32768))
			checkGuard(p, r, GuardSpec{Rule: "new-block-when-header-does-not-fit", Fn: fn, Target: evCall("(*leveldb/journal.Writer).writeBlock"), TargetDesc: "writeBlock() (pad and start a new block)", Atoms: []Atom{over}, G: func(a []bool) bool { return a[0] }, GDesc: "w.j > blockSize after reserving the header", MinTargets: 1})
			// and when it does not fit the block IS written (no header straddles a block boundary)
			if w := findPathV(entryPoint(fn), andEdges(noErrEdges, atomEdges([]Atom{over}, []bool{true})), evCall("(*leveldb/journal.Writer).writeBlock"), isReturn, atomVals([]Atom{over}, []bool{true})); w != nil {
				r.Fail(fnName(fn), "header-straddles-block", "a header that does not fit starts a new block", "with w.j > blockSize a success path returns without writeBlock()", p.posOfLast(w, isReturn), p.renderPath(w))
			} else {
				r.OK(fnName(fn), "header-never-straddles", "a header that does not fit starts a new block")
			}
			// j advances by headerSize
			okv := false
			instrs(fn, func(_ *ssa.BasicBlock, _ int, in ssa.Instruction) {
				if st, ok := in.(*ssa.Store); ok && isFieldAddr(st.Addr, tJW, "j") {
					if k, ok := offsetFrom(st.Val, tJW, "j"); ok && k == 7 {
						okv = true
					}
				}
			})
			r.Check(okv, fnName(fn), "reserves-header", "Next reserves headerSize (7) bytes", "w.j += 7 not found", p.Pos(fn.Pos()))
		}
		if fn := resolveFn(p, r, "leveldb/journal", "singleWriter.Write"); fn != nil {
			full := cmpAtom("w.j==blockSize", token.EQL, mFieldLoad(tJW, "j"), mConstInt(32768))
			checkGuard(p, r, GuardSpec{Rule: "flush-only-full-block", Fn: fn, Target: evCall("(*leveldb/journal.Writer).writeBlock"), TargetDesc: "writeBlock()", Atoms: []Atom{full}, G: func(a []bool) bool { return a[0] }, GDesc: "w.j == blockSize", MinTargets: 1})
			ordPrecede(p, r, fn, "header-before-block", nil, evCall("(*leveldb/journal.Writer).fillHeader"), "fillHeader(false)", evCall("(*leveldb/journal.Writer).writeBlock"), "writeBlock()")
		}
		if fn := resolveFn(p, r, "leveldb/journal", "(*Writer).fillHeader"); fn != nil {
			n := countInstr(fn, isPanic)
			r.Site(1)
			r.Check(n >= 1, fnName(fn), "asserts-bounds", "fillHeader asserts i+headerSize <= j <= blockSize", "no assertion", p.Pos(fn.Pos()))
		}
		r.End()
	}
	if want("C12.3") {
		ruleJournalLayoutAgreement(p, r, "C12.3")
	}
	if want("C12.4") {
		ruleStickyWriter(p, r, "C12.4")
	}
	if want("C12.5") {
		ruleDamageReported(p, r, "C12.5")
	}
	if want("C12.10") {
		ruleRecordReaderFailure(p, r, "C12.10")
	}
	if want("C12.9") {
		ruleResetEqualsNew(p, r, "C12.9")
	}
	if want("C12.8") {
		r.Begin("C12.8", "E-GUARD", "the journal reader never crashes on damage: the optional Dropper (documented as possibly nil) is invoked only under a nil test, unless EVERY initialiser of Reader.dropper (NewReader and Reset alike) normalises nil to a non-nil value", 1)
		tRd := "leveldb/journal.Reader"
		// can a nil dropper be stored?
		mayBeNil := ""
		for _, fn := range p.SrcFuncs("leveldb/journal") {
			instrs(fn, func(_ *ssa.BasicBlock, _ int, in ssa.Instruction) {
				st, ok := in.(*ssa.Store)
				if !ok || !isFieldAddr(st.Addr, tRd, "dropper") {
					return
				}
				if !provablyNonNilIface(st.Val) {
					mayBeNil = fnName(fn) + " at " + p.Pos(st.Pos())
				}
			})
		}
		n := 0
		for _, fn := range p.SrcFuncs("leveldb/journal") {
			drop := func(in ssa.Instruction) bool {
				c, ok := in.(*ssa.Call)
				return ok && c.Call.IsInvoke() && c.Call.Method.Name() == "Drop" && isFieldLoad(c.Call.Value, tRd, "dropper")
			}
			if countInstr(fn, drop) == 0 {
				continue
			}
			n++
			r.Fn(fnName(fn))
			if mayBeNil == "" {
				r.Site(1)
				r.OK(fnName(fn), "dropper-never-nil", "every initialiser stores a non-nil dropper")
				continue
			}
			isNil := nilAtom("dropper==nil", mFieldLoad(tRd, "dropper"))
			checkGuard(p, r, GuardSpec{Rule: "dropper-invoked-only-if-set", Fn: fn, Target: drop, TargetDesc: "r.dropper.Drop(…) (a nil dropper can be stored by " + mayBeNil + ")", Atoms: []Atom{isNil}, G: func(a []bool) bool { return !a[0] }, GDesc: "r.dropper != nil", MinTargets: 1})
		}
		r.Site(1)
		r.Check(n >= 1, "leveldb/journal", "drop-sites", "the reader reports dropped bytes to its dropper", "no Drop call found", "")
		r.End()
	}
	if want("C12.7") {
		ruleIOErrorNotCorruption(p, r, "C12.7")
	}
	if want("C12.6") {
		r.Begin("C12.6", "E-GUARD", "a journal ends cleanly only BETWEEN records: Reader.nextChunk latches io.EOF only when called for the first chunk of a record (first == true); running out of data while a record's continuation is expected is reported through corrupt() (singleReader.Read turns io.EOF into 'record complete', so a clean EOF mid-record would hand a prefix of a batch to the replay)", 2)
		if fn := resolveFn(p, r, "leveldb/journal", "(*Reader).nextChunk"); fn != nil {
			first := boolAtom("first", mParam("first"))
			cleanEOF := func(in ssa.Instruction) bool {
				isEOF := func(v ssa.Value) bool {
					u, ok := stripConv(v).(*ssa.UnOp)
					if !ok {
						return false
					}
					g, ok := u.X.(*ssa.Global)
					return ok && g.Pkg != nil && g.Pkg.Pkg.Path() == "io" && g.Name() == "EOF"
				}
				switch x := in.(type) {
				case *ssa.Store:
					return isFieldAddr(x.Addr, "leveldb/journal.Reader", "err") && isEOF(x.Val)
				case *ssa.Return:
					return len(x.Results) == 1 && isEOF(x.Results[0])
				}
				return false
			}
			checkGuard(p, r, GuardSpec{Rule: "clean-eof-only-between-records", Fn: fn, Target: cleanEOF, TargetDesc: "reporting a clean end of journal (io.EOF)", Atoms: []Atom{first}, G: func(a []bool) bool { return a[0] }, GDesc: "first == true (no record in progress)", MinTargets: 2})
		}
		if fn := resolveFn(p, r, "leveldb/journal", "(*singleReader).Read"); fn != nil {
			// and the only EOF a record reader produces itself is at r.last
			last := boolAtom("r.last", mFieldLoad("leveldb/journal.Reader", "last"))
			// the point where io.EOF is produced as the call's outcome: the load of the sentinel whose value
			// is returned (directly, or through the variable that collects the outcome)
			retEOF := func(in ssa.Instruction) bool {
				u, ok := in.(*ssa.UnOp)
				if !ok || !isGlobalNamed(u, "io", "EOF") {
					return false
				}
				for _, ref := range *u.Referrers() {
					switch ref.(type) {
					case *ssa.Return, *ssa.Phi, *ssa.Store:
						return true
					}
				}
				return false
			}
			checkGuard(p, r, GuardSpec{Rule: "record-complete-only-after-last-chunk", Fn: fn, Target: retEOF, TargetDesc: "return 0, io.EOF (record complete)", Atoms: []Atom{last}, G: func(a []bool) bool { return a[0] }, GDesc: "the last chunk of the record was consumed", MinTargets: 1})
		}
		r.End()
	}
}

// ruleDamageReported: once nextChunk has a chunk header in front of it (j+headerSize <= n), the
// only ways on are accepting the chunk or reporting through corrupt() — which is what makes the
// callers drop the record under construction (tolerant mode) or stop (strict mode). A header that
// is silently stepped over (continue / fall through to the next block) lets the next block's
// first chunk be taken as the continuation of the current record: the reader yields a record that
// was never written, and strict mode sees no error.
func ruleDamageReported(p *Prog, r *Report, rule string) {
	r.Begin(rule, "E-ORD", "journal damage is never stepped over silently: in Reader.nextChunk every path from a parsed chunk header leads to acceptance (r.last set, return nil) or to corrupt() whose result is returned; no path reaches the next block read or a return otherwise; singleReader.Read hands out payload only after nextChunk(false) returned nil", 3)
	defer r.End()
	fn := resolveFn(p, r, "leveldb/journal", "(*Reader).nextChunk")
	if fn == nil {
		return
	}
	tR := "leveldb/journal.Reader"
	hdrFits := cmpAtom("j+headerSize<=n", token.LEQ, func(v ssa.Value) bool {
		b, ok := isBin(v, token.ADD)
		return ok && ((isFieldLoad(b.X, tR, "j") && mConstInt(7)(b.Y)) || (isFieldLoad(b.Y, tR, "j") && mConstInt(7)(b.X)))
	}, mFieldLoad(tR, "n"))
	var starts []point
	instrs(fn, func(b *ssa.BasicBlock, _ int, in ssa.Instruction) {
		iff, ok := in.(*ssa.If)
		if !ok {
			return
		}
		wt, wf := hdrFits.Match(iff.Cond)
		if wt > 0 {
			starts = append(starts, point{b.Succs[0], 0})
		} else if wf > 0 {
			starts = append(starts, point{b.Succs[1], 0})
		}
	})
	r.Site(len(starts))
	if len(starts) == 0 {
		r.Fail(fnName(fn), "header-branch:unresolved-anchor", "nextChunk tests r.j+headerSize <= r.n before parsing a header", "test not found", p.Pos(fn.Pos()), nil)
		return
	}
	corrupt := evCall("(*leveldb/journal.Reader).corrupt")
	accept := evStoreField(tR, "last")
	leave := orPred(isReturn, evCall("io.ReadFull"), func(in ssa.Instruction) bool {
		// re-testing the header condition = having looped around
		iff, ok := in.(*ssa.If)
		if !ok {
			return false
		}
		wt, wf := hdrFits.Match(iff.Cond)
		return wt != 0 || wf != 0
	})
	if w := findPath(starts, nil, orPred(corrupt, accept), leave); w != nil {
		r.Fail(fnName(fn), "header-stepped-over", "a parsed header is accepted or reported", "a path from a parsed chunk header reaches "+p.posOfLast(w, leave)+" without accepting the chunk or calling corrupt(): damage is skipped silently and the next block's first chunk continues the current record", p.posOfLast(w, leave), p.renderPath(w))
	} else {
		r.OK(fnName(fn), "header-accepted-or-reported", "a parsed header is accepted or reported")
	}
	// corrupt()'s verdict is what nextChunk returns
	r.Site(1)
	bad := ""
	instrs(fn, func(_ *ssa.BasicBlock, _ int, in ssa.Instruction) {
		if c, ok := in.(*ssa.Call); ok && corrupt(c) {
			used := false
			for _, ref := range *c.Referrers() {
				if _, ok := ref.(*ssa.Return); ok {
					used = true
				}
				if st, ok := ref.(*ssa.Store); ok && st.Val == c {
					used = true
				}
			}
			if !used {
				bad = p.Pos(c.Pos())
			}
		}
	})
	r.Check(bad == "", fnName(fn), "corrupt-verdict-returned", "the result of corrupt() (skip / strict error) is returned to the caller", "corrupt() result dropped at "+bad, bad)
	// the verdict itself: strict readers halt on damage (latched corruption error) unless the damage
	// is a skippable orphan; tolerant readers get errSkip
	if cf := resolveFn(p, r, "leveldb/journal", "(*Reader).corrupt"); cf != nil {
		strict := boolAtom("strict", mFieldLoad(tR, "strict"))
		skip := boolAtom("skip", mParam("skip"))
		latch := evStoreField(tR, "err")
		checkGuard(p, r, GuardSpec{Rule: "halts-only-strict-nonskippable", Fn: cf, Target: latch, TargetDesc: "latching a corruption error (the reader halts)", Atoms: []Atom{strict, skip}, G: func(a []bool) bool { return a[0] && !a[1] }, GDesc: "strict ∧ ¬skip", MinTargets: 1})
		checkGuardExact(p, r, GuardSpec{Rule: "strict-reader-halts", Fn: cf, Target: latch, TargetDesc: "the corruption is latched and returned", Atoms: []Atom{strict, skip}, G: func(a []bool) bool { return a[0] && !a[1] }, GDesc: "strict ∧ ¬skip"}, isReturn, "return")
		retSkip := func(in ssa.Instruction) bool {
			ret, ok := in.(*ssa.Return)
			if !ok || len(ret.Results) != 1 {
				return false
			}
			u, ok := stripConv(ret.Results[0]).(*ssa.UnOp)
			if !ok {
				return false
			}
			g, ok := u.X.(*ssa.Global)
			return ok && g.Name() == "errSkip"
		}
		checkGuard(p, r, GuardSpec{Rule: "skip-only-tolerant-or-skippable", Fn: cf, Target: retSkip, TargetDesc: "return errSkip", Atoms: []Atom{strict, skip}, G: func(a []bool) bool { return !a[0] || a[1] }, GDesc: "¬strict ∨ skip", MinTargets: 1})
		ordOnSuccess(p, r, cf, "damage-always-reported-to-dropper", assumeBool(func(v ssa.Value) (bool, bool) {
			if x, nonNil, ok := condNilTest(v); ok && isFieldLoad(x, tR, "dropper") {
				return nonNil, true
			}
			return false, false
		}), func(in ssa.Instruction) bool {
			c, ok := in.(*ssa.Call)
			return ok && c.Call.IsInvoke() && c.Call.Method.Name() == "Drop"
		}, "dropper.Drop")
	}
	// acceptance requires the checks to have passed: r.last is set only after the type/length/CRC gates (C12.1)
	// callers: a non-nil result of nextChunk(false) abandons the record
	if rd := resolveFn(p, r, "leveldb/journal", "(*singleReader).Read"); rd != nil {
		nc := evCall("(*leveldb/journal.Reader).nextChunk")
		errNil := nilAtom("x.err==nil", mFieldLoad("leveldb/journal.singleReader", "err"))
		checkGuard(p, r, GuardSpec{Rule: "continuation-error-abandons-record", Fn: rd, Starts: after(rd, nc), Avoid: nc, Target: evCall("builtin:copy"), TargetDesc: "copying payload into the caller's buffer after a continuation read", Atoms: []Atom{errNil}, G: func(a []bool) bool { return a[0] }, GDesc: "nextChunk(false) returned nil", MinTargets: 1})
	}
}

// ruleJournalLayoutAgreement: writer and reader agree on header layout and checksummed range.
func ruleJournalLayoutAgreement(p *Prog, r *Report, rule string) {
	r.Begin(rule, "E-SIB", "journal writer and reader agree on the chunk layout relative to the chunk start: CRC field [0,4), length field [4,6), type byte at 6, payload from 7, checksum computed over [6, end); same headerSize and blockSize", 8)
	defer r.End()
	fw := resolveFn(p, r, "leveldb/journal", "(*Writer).fillHeader")
	fr := resolveFn(p, r, "leveldb/journal", "(*Reader).nextChunk")
	if fw == nil || fr == nil {
		return
	}
	type layout map[string]int64
	get := func(fn *ssa.Function, typ, base string) layout {
		l := layout{}
		instrs(fn, func(_ *ssa.BasicBlock, _ int, in ssa.Instruction) {
			switch x := in.(type) {
			case *ssa.Call:
				name := calleeName(&x.Call)
				var arg ssa.Value
				switch name {
				case "(encoding/binary.littleEndian).PutUint32", "(encoding/binary.littleEndian).Uint32":
					arg = x.Call.Args[1]
					if sl, ok := arg.(*ssa.Slice); ok {
						if lo, ok := offsetFrom(sl.Low, typ, base); ok {
							l["crc.lo"] = lo
						}
						if hi, ok := offsetFrom(sl.High, typ, base); ok {
							l["crc.hi"] = hi
						}
					}
				case "(encoding/binary.littleEndian).PutUint16", "(encoding/binary.littleEndian).Uint16":
					arg = x.Call.Args[1]
					if sl, ok := arg.(*ssa.Slice); ok {
						if lo, ok := offsetFrom(sl.Low, typ, base); ok {
							l["len.lo"] = lo
						}
						if hi, ok := offsetFrom(sl.High, typ, base); ok {
							l["len.hi"] = hi
						}
					}
				case "leveldb/util.NewCRC":
					if sl, ok := x.Call.Args[0].(*ssa.Slice); ok {
						if lo, ok := offsetFrom(sl.Low, typ, base); ok {
							l["sum.from"] = lo
						} else if lo, ok := offsetFrom(sl.Low, typ, "i"); ok && typ == tJR {
							// reader: r.i - 1 with r.i = j + 7
							l["sum.from"] = lo + 7
						}
					}
				}
			case *ssa.IndexAddr:
				if isFieldAddr(x.X, typ, "buf") {
					if k, ok := offsetFrom(x.Index, typ, base); ok {
						// type byte: stored (writer) or loaded (reader)
						l["type.at"] = k
					}
				}
			}
		})
		return l
	}
	lw := get(fw, tJW, "i")
	lr := get(fr, tJR, "j")
	for _, k := range []string{"crc.lo", "crc.hi", "len.lo", "len.hi", "type.at", "sum.from"} {
		r.Site(1)
		vw, okw := lw[k]
		vr, okr := lr[k]
		r.Check(okw && okr && vw == vr, "journal.Writer.fillHeader~journal.Reader.nextChunk", "layout:"+k, "writer and reader use the same offset for "+k, fmt.Sprintf("writer %v(%v) reader %v(%v)", vw, okw, vr, okr), p.Pos(fw.Pos()))
	}
	want := map[string]int64{"crc.lo": 0, "crc.hi": 4, "len.lo": 4, "len.hi": 6, "type.at": 6, "sum.from": 6}
	for k, v := range want {
		r.Check(lw[k] == v, "journal.Writer.fillHeader", "format:"+k, fmt.Sprintf("on-disk format: %s = %d", k, v), fmt.Sprintf("got %d", lw[k]), p.Pos(fw.Pos()))
	}
	// length value written = j - i - headerSize
	okLen := false
	instrs(fw, func(_ *ssa.BasicBlock, _ int, in ssa.Instruction) {
		if c, ok := in.(*ssa.Call); ok && calleeName(&c.Call) == "(encoding/binary.littleEndian).PutUint16" {
			v := stripConv(c.Call.Args[2])
			if b, ok := v.(*ssa.BinOp); ok && b.Op == token.SUB && mConstInt(7)(b.Y) {
				if b2, ok := b.X.(*ssa.BinOp); ok && b2.Op == token.SUB && isFieldLoad(b2.X, tJW, "j") && isFieldLoad(b2.Y, tJW, "i") {
					okLen = true
				}
			}
		}
	})
	r.Site(1)
	r.Check(okLen, fnName(fw), "length-value", "the length field holds j - i - headerSize (the payload length the reader adds to j+7)", "length expression differs", p.Pos(fw.Pos()))
	// chunk type constants and header/block sizes
	for name, want := range map[string]string{"fullChunkType": "1", "firstChunkType": "2", "middleChunkType": "3", "lastChunkType": "4", "headerSize": "7", "blockSize": "32768"} {
		got := constString(p, "leveldb/journal", name)
		r.Site(1)
		r.Check(got == want, "leveldb/journal."+name, "constant", "format constant "+name+" = "+want, "got "+got, "")
	}
	// writer type byte choice: last∧first→full, last∧¬first→last, ¬last∧first→first, else middle
	typeStore := func(k int64) InstrPred {
		return func(in ssa.Instruction) bool {
			st, ok := in.(*ssa.Store)
			if !ok {
				return false
			}
			ia, ok := st.Addr.(*ssa.IndexAddr)
			if !ok || !isFieldAddr(ia.X, tJW, "buf") {
				return false
			}
			c, ok := constInt(st.Val)
			return ok && c == k
		}
	}
	last := boolAtom("last", mParam("last"))
	first := boolAtom("w.first", mFieldLoad(tJW, "first"))
	for _, e := range []struct {
		k    int64
		name string
		G    func(a []bool) bool
		gd   string
	}{
		{1, "full", func(a []bool) bool { return a[0] && a[1] }, "last ∧ first"},
		{4, "last", func(a []bool) bool { return a[0] && !a[1] }, "last ∧ ¬first"},
		{2, "first", func(a []bool) bool { return !a[0] && a[1] }, "¬last ∧ first"},
		{3, "middle", func(a []bool) bool { return !a[0] && !a[1] }, "¬last ∧ ¬first"},
	} {
		checkGuard(p, r, GuardSpec{Rule: "chunk-type:" + e.name, Fn: fw, Target: typeStore(e.k), TargetDesc: "type byte = " + e.name, Atoms: []Atom{last, first}, G: e.G, GDesc: e.gd, MinTargets: 1})
	}
}

func constString(p *Prog, pkgrel, name string) string {
	sp := p.ByRel[pkgrel]
	if sp == nil {
		return ""
	}
	o := sp.Pkg.Scope().Lookup(name)
	if o == nil {
		return ""
	}
	return constValString(o)
}

// provablyNonNilIface: an interface value that cannot be nil: a concrete value boxed into the
// interface, or a merge of such a value with a parameter (the `if x == nil { x = default }` shape).
func provablyNonNilIface(v ssa.Value) bool {
	switch x := v.(type) {
	case *ssa.MakeInterface:
		return true
	case *ssa.Phi:
		boxed := false
		for _, e := range x.Edges {
			switch e.(type) {
			case *ssa.MakeInterface:
				boxed = true
			case *ssa.Parameter:
			default:
				return false
			}
		}
		return boxed
	}
	return false
}
