package main

import (
	"golang.org/x/tools/go/ssa"
)

// ruleCloseReleasesOwned: once DB.Close has passed its "already closed" gate it gives back
// everything the DB owns on EVERY path, whatever error it is going to report: the session is closed
// and released (which unlocks the storage), and the storage the DB opened itself (db.closer, set by
// OpenFile / RecoverFile) is closed whenever there is one — a decision that may depend on
// `closer != nil` only, not on the pending compaction error. Otherwise the LOCK file stays locked
// and the same path cannot be opened again by this process.
func ruleCloseReleasesOwned(p *Prog, r *Report, rule string) {
	r.Begin(rule, "E-GUARD", "DB.Close, past the setClosed gate, releases what the DB owns on every path and whatever it reports: session.close and session.release (storage lock) always, db.closer.Close() whenever db.closer != nil (independent of the pending error)", 4)
	defer r.End()
	fn := resolveFn(p, r, "leveldb", "(*DB).Close")
	if fn == nil {
		return
	}
	gate := boolAtom("setClosed()", mCall("(*leveldb.DB).setClosed"))
	noCloser := nilAtom("db.closer==nil", mFieldLoad("leveldb.DB", "closer"))
	closerClose := func(in ssa.Instruction) bool {
		c, ok := in.(*ssa.Call)
		return ok && c.Call.IsInvoke() && c.Call.Method.Name() == "Close" && isFieldLoad(c.Call.Value, "leveldb.DB", "closer")
	}
	requireSites(p, r, fn, "owned-storage-close", "db.closer.Close()", closerClose, 1)
	checkGuardExact(p, r, GuardSpec{Rule: "owned-storage-closed", Fn: fn, Target: closerClose, TargetDesc: "the storage the DB opened itself is closed", Atoms: []Atom{gate, noCloser}, G: func(a []bool) bool { return a[0] && !a[1] }, GDesc: "Close passed its gate ∧ db.closer ≠ nil"}, isReturn, "return")
	checkGuard(p, r, GuardSpec{Rule: "owned-storage-closed-once", Fn: fn, Target: closerClose, TargetDesc: "db.closer.Close()", Atoms: []Atom{gate, noCloser}, G: func(a []bool) bool { return a[0] && !a[1] }, GDesc: "past the gate ∧ db.closer ≠ nil", MinTargets: 1})
	for _, c := range []struct{ callee, kind, desc string }{
		{"(*leveldb.session).close", "session-closed", "the session is closed (manifest, table cache)"},
		{"(*leveldb.session).release", "storage-lock-released", "the storage lock is released"},
	} {
		checkGuardExact(p, r, GuardSpec{Rule: c.kind, Fn: fn, Target: evCall(c.callee), TargetDesc: c.desc, Atoms: []Atom{gate}, G: func(a []bool) bool { return a[0] }, GDesc: "Close passed its gate"}, isReturn, "return")
	}
}
