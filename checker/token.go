package main

import (
	"fmt"
	"go/token"
	"sort"
	"strings"

	"golang.org/x/tools/go/ssa"
)

// The DB write lock is a capacity-1 channel (DB.writeLockC): send = acquire, receive = release,
// `writeMergedC <- false` = hand-off to a waiting writer, the false edge of `<-writeMergedC` =
// acquire by hand-off. DB.compWriteLocking=true records that the token now belongs to the
// persistent-error handler (compactionError), which gives it back on close.

const (
	tDB   = "leveldb.DB"
	tTr   = "leveldb.Transaction"
	fnPfx = "(*leveldb.DB)."
)

func isChanField(v ssa.Value, typ, field string) bool {
	return isFieldLoad(v, typ, field)
}

// selectCaseOnEdge: if the edge b->succ means "select case k was chosen", returns the select
// instruction and k.
func selectCaseOnEdge(b *ssa.BasicBlock, succ int) (*ssa.Select, int, bool) {
	if len(b.Instrs) == 0 {
		return nil, 0, false
	}
	iff, ok := b.Instrs[len(b.Instrs)-1].(*ssa.If)
	if !ok || succ != 0 {
		return nil, 0, false
	}
	bo, ok := iff.Cond.(*ssa.BinOp)
	if !ok || bo.Op != token.EQL {
		return nil, 0, false
	}
	ex, ok := bo.X.(*ssa.Extract)
	if !ok || ex.Index != 0 {
		return nil, 0, false
	}
	sel, ok := ex.Tuple.(*ssa.Select)
	if !ok {
		return nil, 0, false
	}
	k, ok := constInt(bo.Y)
	if !ok {
		return nil, 0, false
	}
	return sel, int(k), true
}

// touchesWriteChannels: the function itself sends/receives on one of the writer-protocol channels.
func touchesWriteChannels(fn *ssa.Function) bool {
	found := false
	isProto := func(v ssa.Value) bool {
		for _, f := range []string{"writeLockC", "writeMergeC", "writeMergedC", "writeAckC"} {
			if isChanField(v, tDB, f) {
				return true
			}
		}
		return false
	}
	instrs(fn, func(_ *ssa.BasicBlock, _ int, in ssa.Instruction) {
		switch x := in.(type) {
		case *ssa.Send:
			if isProto(x.Chan) {
				found = true
			}
		case *ssa.UnOp:
			if x.Op == token.ARROW && isProto(x.X) {
				found = true
			}
		case *ssa.Select:
			for _, st := range x.States {
				if isProto(st.Chan) {
					found = true
				}
			}
		}
	})
	return found
}

func tokenSpec(assumeOpenTr bool) *TSpec {
	return &TSpec{
		Name: "writelock",
		// function literals (deferred epilogues, callbacks) are analysed in the context of their
		// parent through bottom-up summaries; named functions only through the contract table
		UseSummaries: true,
		InlineDefers: true,
		InScope: func(fn *ssa.Function) bool {
			if fn.Parent() != nil {
				return true
			}
			// small extracted helpers of the protocol (e.g. "wait for the group's result") are
			// summarised like closures; functions with a reviewed contract are handled by Instr
			if _, ok := tokenContracts[fnName(fn)]; ok {
				return false
			}
			return fn.Pkg != nil && fn.Pkg.Pkg.Path() == modPath+"leveldb" && touchesWriteChannels(fn)
		},
		Instr: func(in ssa.Instruction) ([]Eff, bool) {
			switch x := in.(type) {
			case *ssa.Send:
				if isChanField(x.Chan, tDB, "writeLockC") {
					return []Eff{{Res: "wlock", D: +1}}, true
				}
				if isChanField(x.Chan, tDB, "writeMergedC") {
					if bv, ok := constBool(x.X); ok && !bv {
						return []Eff{{Res: "wlock", D: -1}}, true
					} else if ok && bv {
						return []Eff{{Res: "req", D: -1}}, true // a merged request is answered
					}
				}
			case *ssa.UnOp:
				if x.Op == token.ARROW && isChanField(x.X, tDB, "writeLockC") {
					return []Eff{{Res: "wlock", D: -1}}, true
				}
				if x.Op == token.ARROW && isChanField(x.X, tDB, "writeMergedC") {
					return []Eff{{Res: "wait", D: -1}}, true // the merge request got its reply
				}
				if x.Op == token.ARROW && isChanField(x.X, tDB, "writeAckC") {
					return []Eff{{Res: "ack", D: -1}}, true // the merged writer collected the group's result
				}
			case *ssa.Store:
				if isFieldAddr(x.Addr, tDB, "compWriteLocking") {
					if bv, ok := constBool(x.Val); ok && bv {
						// transferred to the persistent-error handler, which must give it back on close
						return []Eff{{Res: "wlock", D: -1}, {Res: "handler", D: 1, Set: true}}, true
					}
				}
			}
			switch {
			case isCallTo(in, "(*leveldb.DB).unlockWrite", "(*leveldb.DB).writeLocked", "(*leveldb.Transaction).setDone"):
				return []Eff{{Res: "wlock", D: -1}}, true
			case isCallTo(in, "(*leveldb.Transaction).Discard"):
				return []Eff{{Res: "wlock", D: -1, Sat: true}}, true
			}
			return nil, false
		},
		Edge: func(b *ssa.BasicBlock, succ int) []Eff {
			if sel, k, ok := selectCaseOnEdge(b, succ); ok && k < len(sel.States) {
				st := sel.States[k]
				if st.Dir == 1 /* SendOnly */ && isChanField(st.Chan, tDB, "writeLockC") {
					return []Eff{{Res: "wlock", D: +1}}
				}
				if st.Dir == 2 /* RecvOnly */ && isChanField(st.Chan, tDB, "writeLockC") {
					return []Eff{{Res: "wlock", D: -1}}
				}
				if st.Dir == 2 && isChanField(st.Chan, tDB, "writeMergeC") {
					return []Eff{{Res: "req", D: +1}} // the leader received a merge request: it owes exactly one reply
				}
				if st.Dir == 1 && isChanField(st.Chan, tDB, "writeMergeC") {
					return []Eff{{Res: "wait", D: +1}} // we sent a merge request: we must wait for the reply
				}
			}
			if len(b.Instrs) > 0 {
				if iff, ok := b.Instrs[len(b.Instrs)-1].(*ssa.If); ok {
					// false edge of `<-db.writeMergedC`: the lock was handed to us
					if u, ok := iff.Cond.(*ssa.UnOp); ok && u.Op == token.ARROW && isChanField(u.X, tDB, "writeMergedC") {
						if succ == 1 {
							return []Eff{{Res: "wlock", D: +1}}
						}
						return []Eff{{Res: "ack", D: +1}} // merged: the result must be collected from writeAckC
					}
					// true edge of `db.compWriteLocking`: the handler reclaims the token it was given
					if isFieldLoad(iff.Cond, tDB, "compWriteLocking") && succ == 0 {
						return []Eff{{Res: "wlock", D: +1}, {Res: "handler", D: 0, Set: true}}
					}
				}
			}
			return nil
		},
		EdgeSt: func(b *ssa.BasicBlock, succ int, st *tsState) ([]Eff, bool) {
			// the false edge of `db.compWriteLocking` is infeasible on a path that set the flag
			if cond, neg, ok := ifCond(b); ok && isFieldLoad(cond, tDB, "compWriteLocking") {
				falseEdge := 1
				if neg {
					falseEdge = 0
				}
				if succ == falseEdge && st.cnt["handler"] > 0 {
					return nil, false
				}
			}
			return nil, true
		},
		InstrSt: func(in ssa.Instruction, st *tsState) ([]Eff, bool) {
			if isCallTo(in, "(*leveldb.DB).unlockWrite") {
				if _, isDefer := in.(*ssa.Defer); isDefer {
					return nil, false
				}
				cc := callCommon(in)
				if len(cc.Args) >= 2 {
					if bv, ok := st.BoolOf(cc.Args[1]); ok {
						if bv {
							return []Eff{{Res: "req", D: -1}}, true // the hand-off answers the overflowed request
						}
						return nil, true
					}
					return []Eff{{Res: "req", D: -1, Sat: true}}, true
				}
			}
			return nil, false
		},
		Cond: func(in ssa.Instruction) (*CondEff, bool) {
			switch {
			case isCallTo(in, "(*leveldb.DB).OpenTransaction"):
				return &CondEff{ResultIdx: 1, WhenNil: []Eff{{Res: "wlock", D: +1}}}, true
			case isCallTo(in, "(*leveldb.Transaction).Commit"):
				return &CondEff{ResultIdx: -1, WhenNil: []Eff{{Res: "wlock", D: -1}}}, true
			}
			return nil, false
		},
	}
}

func hasTokenEvents(sp *TSpec, fn *ssa.Function) bool {
	found := false
	for _, b := range fn.Blocks {
		for _, in := range b.Instrs {
			if e, h := sp.Instr(in); h || len(e) > 0 {
				found = true
			}
			if _, ok := sp.Cond(in); ok {
				found = true
			}
		}
		for si := range b.Succs {
			if len(sp.Edge(b, si)) > 0 {
				found = true
			}
		}
	}
	return found
}

type tokenContract struct {
	entry   int
	exitOK  []int // allowed token counts at returns whose error result is the nil constant (or no error result)
	exitErr []int // allowed at other returns
	assume  string
	reason  string
}

var tokenContracts = map[string]tokenContract{
	"(*leveldb.DB).Write":            {0, []int{0}, []int{0}, "", "acquires, then every exit goes through writeLocked / the merged-ack path / a finished transaction"},
	"(*leveldb.DB).putRec":           {0, []int{0}, []int{0}, "", "as Write"},
	"(*leveldb.DB).CompactRange":     {0, []int{0}, []int{0}, "memNonNil", "releases on every exit; the nil-effective-buffer exit is unreachable while the token is held (only Close clears the buffers, after taking the token)"},
	"(*leveldb.DB).writeLocked":      {1, []int{0}, []int{0}, "", "entered with the lock; every exit passes exactly one unlockWrite"},
	"(*leveldb.DB).unlockWrite":      {1, []int{0}, []int{0}, "", "releases or hands off"},
	"(*leveldb.Transaction).setDone": {1, []int{0}, []int{0}, "", "releases the transaction's lock"},
	"(*leveldb.Transaction).Discard": {1, []int{0}, []int{0}, "trOpen", "releases unless already closed"},
	"(*leveldb.Transaction).Commit":  {1, []int{0}, []int{1}, "trOpen", "released via setDone on success, kept on error (documented retry/discard)"},
	"(*leveldb.DB).OpenTransaction":  {0, []int{1}, []int{0}, "", "held iff a transaction is returned"},
	"(*leveldb.DB).SetReadOnly":      {0, []int{0}, []int{0}, "", "token is transferred to compactionError by compWriteLocking=true"},
	"(*leveldb.DB).compactionError":  {0, []int{0}, []int{0}, "", "takes the token in the persistent-error state, records it in compWriteLocking, returns it on close"},
	"(*leveldb.DB).Close":            {0, []int{0, 1}, []int{0, 1}, "", "terminal acquire (order checked by C09.8)"},
}

func tokenAssumption(name string) EdgeFilter {
	switch name {
	case "trOpen":
		return assumeBool(func(v ssa.Value) (bool, bool) {
			if isFieldLoad(v, tTr, "closed") {
				return false, true
			}
			return false, false
		})
	case "memNonNil":
		// `mdb == nil` after getEffectiveMem() is false while the token is held
		return func(b *ssa.BasicBlock, succ int) bool {
			if len(b.Instrs) == 0 {
				return true
			}
			iff, ok := b.Instrs[len(b.Instrs)-1].(*ssa.If)
			if !ok {
				return true
			}
			x, trueNonNil, ok := condNilTest(iff.Cond)
			if !ok {
				return true
			}
			if _, isCall := callValue(x, "(*leveldb.DB).getEffectiveMem"); isCall {
				nonNilEdge := 1
				if trueNonNil {
					nonNilEdge = 0
				}
				return succ == nonNilEdge
			}
			return true
		}
	}
	return nil
}

func inInts(x int, s []int) bool {
	for _, y := range s {
		if x == y {
			return true
		}
	}
	return false
}

// returnIsSuccess: the error-typed result operand of ret is the nil constant, or fn has no
// error result.
func returnIsSuccess(ret *ssa.Return) bool {
	for _, v := range ret.Results {
		if isErrorType(v.Type()) {
			return isNilConst(retValue(ret, v))
		}
	}
	return true
}

// retValue looks through the defer spill: in a function with defers a result is stored to a
// cell, `rundefers` runs, and the cell is re-loaded for the return. If the re-loaded cell was
// stored earlier in the same block, that stored value is the returned one (unless a deferred
// closure rewrites a named result, which the caller must handle separately).
func retValue(ret *ssa.Return, v ssa.Value) ssa.Value {
	u, ok := v.(*ssa.UnOp)
	if !ok || u.Op != token.MUL {
		return v
	}
	al, ok := u.X.(*ssa.Alloc)
	if !ok {
		return v
	}
	b := ret.Block()
	for i := len(b.Instrs) - 1; i >= 0; i-- {
		if st, ok := b.Instrs[i].(*ssa.Store); ok && st.Addr == al {
			return st.Val
		}
	}
	return v
}

// ruleTokenContracts: C09.1 / C10.1.
func ruleTokenContracts(p *Prog, r *Report, rule string, floor int) {
	r.Begin(rule, "E-PAIR", "write-lock token (DB.writeLockC) accounting: every function that touches the token meets its exit contract on every CFG path; a token user without a reviewed contract row is reported", floor)
	defer r.End()
	sp := tokenSpec(true)
	seenContract := map[string]bool{}
	for _, fn := range p.SrcFuncs("leveldb") {
		if !hasTokenEvents(sp, fn) {
			continue
		}
		name := fnName(fn)
		if fn.Parent() != nil {
			if _, ok := tokenContracts[fnName(fn.Parent())]; ok {
				continue // summarised into its parent
			}
		}
		r.Fn(name)
		r.Site(1)
		c, ok := tokenContracts[name]
		if !ok && fn.Parent() == nil {
			// an extracted helper with the same effect on every exit is accounted for in its
			// callers through its summary (they carry the contracts)
			if sm := sp.Summary(fn); sp.InScope(fn) && sm != nil && !sm.varies {
				r.OK(name, "helper-summarised", "helper with a path-independent protocol effect: accounted for in its callers' contracts")
				continue
			}
		}
		if !ok {
			r.Fail(name, "unreviewed-token-user", "every function that acquires, releases or hands off the write lock has a reviewed contract",
				"function touches DB.writeLockC / writeMergedC hand-off / a token-owning callee but has no contract row", p.Pos(fn.Pos()), nil)
			continue
		}
		seenContract[name] = true
		entry := newState()
		if c.entry != 0 {
			entry.cnt["wlock"] = c.entry
		}
		spf := tokenSpec(true)
		if f := tokenAssumption(c.assume); f != nil {
			// wrap Edge with pruning by returning an impossible marker: handled in analyzeWithFilter
			spf = withEdgeFilter(spf, f)
		}
		res := spf.Analyze(fn, entry, nil)
		bad := false
		seen := map[string]bool{}
		for _, e := range res.Exits {
			if e.State.cnt["pruned"] != 0 {
				continue
			}
			ret := e.In.(*ssa.Return)
			n := e.State.cnt["wlock"]
			allowed := c.exitErr
			cls := "error/unknown"
			if returnIsSuccess(ret) {
				allowed = c.exitOK
				cls = "success"
			}
			if h := e.State.cnt["handler"]; h != 0 && name != "(*leveldb.DB).SetReadOnly" {
				k := fmt.Sprintf("%s/handler", p.Pos(ret.Pos()))
				if !seen[k] {
					seen[k] = true
					r.Fail(name, "exit-owning-handler-token", "the persistent-error handler gives the token it holds (compWriteLocking) back before it exits", fmt.Sprintf("return at %s is reached while compWriteLocking is set and the token was not received back: Close blocks forever on its terminal acquire", p.Pos(ret.Pos())), p.Pos(ret.Pos()), nil)
					bad = true
				}
			}
			// SetReadOnly answers nil only once the write lock it took is parked with the persistent-error
			// handler: acquired here, flagged compWriteLocking, never released. Letting go of it (for the
			// handler to pick up later) hands it to a queued writer first, who commits in a read-only DB.
			if name == "(*leveldb.DB).SetReadOnly" && returnIsSuccess(ret) && e.State.cnt["handler"] != 1 {
				k := fmt.Sprintf("%s/nohandler", p.Pos(ret.Pos()))
				if !seen[k] {
					seen[k] = true
					r.Fail(name, "exit-success-lock-not-parked", "SetReadOnly returns nil only with the write lock acquired and transferred to the persistent-error handler (compWriteLocking = true) in the same critical section", fmt.Sprintf("success return at %s is reached without the lock parked (wlock=%d, handler=%d): a writer queued on writeLockC can take it and commit after SetReadOnly", p.Pos(ret.Pos()), n, e.State.cnt["handler"]), p.Pos(ret.Pos()), nil)
					bad = true
				}
			}
			for _, other := range []string{"req", "ack", "wait"} {
				if c := e.State.cnt[other]; c != 0 {
					k := fmt.Sprintf("%s/%s/%d", p.Pos(ret.Pos()), other, c)
					if !seen[k] {
						seen[k] = true
						desc := map[string]string{
							"req":  "a received merge request is answered exactly once (writeMergedC<-true, or the hand-off by unlockWrite(overflow=true))",
							"ack":  "a merged writer collects the group's result from writeAckC",
							"wait": "a writer that sent a merge request waits for the reply on writeMergedC",
						}[other]
						r.Fail(name, fmt.Sprintf("exit-%s=%d", other, c), desc, fmt.Sprintf("return at %s reached with %s=%d", p.Pos(ret.Pos()), other, c), p.Pos(ret.Pos()), nil)
						bad = true
					}
				}
			}
			if !inInts(n, allowed) {
				k := fmt.Sprintf("%s/%d/%s", p.Pos(ret.Pos()), n, cls)
				if seen[k] {
					continue
				}
				seen[k] = true
				r.Fail(name, fmt.Sprintf("exit-%s-token=%d", strings.ReplaceAll(cls, "/", "-"), n),
					fmt.Sprintf("contract: entry token=%d, %s; on success exits token∈%v, on error exits token∈%v", c.entry, c.reason, c.exitOK, c.exitErr),
					fmt.Sprintf("%s return at %s is reached holding %d token(s)", cls, p.Pos(ret.Pos()), n), p.Pos(ret.Pos()), nil)
				bad = true
			}
		}
		for _, u := range res.Underflows {
			if u.State.cnt["pruned"] != 0 {
				continue
			}
			k := "u" + p.Pos(u.In.Pos())
			if seen[k] {
				continue
			}
			seen[k] = true
			r.Fail(name, "release-unheld:"+u.Res, "the token is released / handed off only by its holder; a merge reply is sent only for a received request",
				fmt.Sprintf("%s: release/hand-off/reply at %s on a path where it is not owed or held", u.Res, p.Pos(u.In.Pos())), p.Pos(u.In.Pos()), nil)
			bad = true
		}
		if res.Truncated {
			r.Fail(name, "state-explosion", "all paths explored", "truncated", p.Pos(fn.Pos()), nil)
			bad = true
		}
		if !bad {
			r.OK(name, "token-contract", fmt.Sprintf("entry=%d exits ok=%v err=%v on all %d exit states (%s)", c.entry, c.exitOK, c.exitErr, len(res.Exits), c.reason))
		}
	}
	var missing []string
	for name := range tokenContracts {
		if !seenContract[name] {
			missing = append(missing, name)
		}
	}
	sort.Strings(missing)
	for _, m := range missing {
		r.Fail(m, "unresolved-anchor", "every contract row resolves to a function that touches the token", "function not found or no longer touches the write-lock token", "", nil)
	}
}

// withEdgeFilter returns a spec whose infeasible edges mark the state as pruned (and so ignored).
func withEdgeFilter(sp *TSpec, f EdgeFilter) *TSpec {
	inner := sp.Edge
	n := *sp
	n.Edge = func(b *ssa.BasicBlock, succ int) []Eff {
		var effs []Eff
		if inner != nil {
			effs = inner(b, succ)
		}
		if !f(b, succ) {
			effs = append(effs, Eff{Res: "pruned", D: +1})
		}
		return effs
	}
	return &n
}
