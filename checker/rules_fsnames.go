package main

import (
	"fmt"
	"go/constant"
	"regexp"
	"sort"
	"strings"

	"golang.org/x/tools/go/ssa"
)

// ruleFileNameTables: the storage names a file from its descriptor (fsGenName / fsGenOldName) and
// finds files again by parsing directory entries (fsParseName, used by List and GetMeta). The two
// tables must agree, type by type: a name the generator produces that the parser reads back as
// another type — or not at all — is a file that List never reports under its type: obsolete files
// of that type are never removed, Recover does not see the tables, a reopen does not find the
// journals. Decided from the two functions' constant tables, not from running them.
func ruleFileNameTables(p *Prog, r *Report, rule string) {
	r.Begin(rule, "E-SIB", "storage file names: for every file type the name produced by fsGenName (and the legacy name by fsGenOldName) is read back by fsParseName as the same type — NNNNNN.<suffix> names through the suffix switch, MANIFEST-NNNNNN through the MANIFEST scan; every file type has a name", 6)
	defer r.End()
	gen := resolveFn(p, r, "leveldb/storage", "fsGenName")
	old := resolveFn(p, r, "leveldb/storage", "fsGenOldName")
	ps := resolveFn(p, r, "leveldb/storage", "fsParseName")
	if gen == nil || old == nil || ps == nil {
		return
	}
	typeConsts := map[int64]string{}
	if pk := p.ByRel["leveldb/storage"]; pk != nil {
		for _, n := range []string{"TypeManifest", "TypeJournal", "TypeTable", "TypeTemp"} {
			if c, ok := pk.Members[n].(*ssa.NamedConst); ok {
				if v, ok := constant.Int64Val(c.Value.Value); ok {
					typeConsts[v] = n
				}
			} else {
				r.Fail("leveldb/storage", "file-type-constant@"+n, "the four file types exist", "constant "+n+" not found", "", nil)
			}
		}
	}
	// generator tables: type constant → format
	genTable := func(fn *ssa.Function) map[int64]string {
		out := map[int64]string{}
		for _, b := range fn.Blocks {
			iff, ok := b.Instrs[len(b.Instrs)-1].(*ssa.If)
			if !ok {
				continue
			}
			bo, ok := iff.Cond.(*ssa.BinOp)
			if !ok || bo.Op.String() != "==" {
				continue
			}
			var k *ssa.Const
			if c, ok := bo.Y.(*ssa.Const); ok {
				k = c
			} else if c, ok := bo.X.(*ssa.Const); ok {
				k = c
			}
			if k == nil || k.Value == nil || k.Value.Kind() != constant.Int {
				continue
			}
			tv, _ := constant.Int64Val(k.Value)
			// the first Sprintf reached on the true edge
			seen := map[*ssa.BasicBlock]bool{}
			var walk func(x *ssa.BasicBlock)
			walk = func(x *ssa.BasicBlock) {
				if seen[x] {
					return
				}
				seen[x] = true
				for _, in := range x.Instrs {
					if c, ok := in.(*ssa.Call); ok && isCallTo(c, "fmt.Sprintf") {
						if f, ok := c.Call.Args[0].(*ssa.Const); ok && f.Value != nil && f.Value.Kind() == constant.String {
							if _, dup := out[tv]; !dup {
								out[tv] = constant.StringVal(f.Value)
							}
						}
						return
					}
					if _, ok := in.(*ssa.If); ok {
						return
					}
				}
				for _, s := range x.Succs {
					walk(s)
				}
			}
			walk(b.Succs[0])
		}
		return out
	}
	g := genTable(gen)
	o := genTable(old)
	r.Site(len(g) + len(o))
	// parser tables: suffix → type, and the MANIFEST scan
	suffix := map[string]int64{}
	typeStore := func(b *ssa.BasicBlock) (int64, bool) {
		seen := map[*ssa.BasicBlock]bool{}
		var res int64
		found := false
		var walk func(x *ssa.BasicBlock)
		walk = func(x *ssa.BasicBlock) {
			if seen[x] || found {
				return
			}
			seen[x] = true
			for _, in := range x.Instrs {
				if st, ok := in.(*ssa.Store); ok {
					if _, fname, _, ok := fieldOf(st.Addr); ok && fname == "Type" {
						if k, ok := st.Val.(*ssa.Const); ok && k.Value != nil {
							res, _ = constant.Int64Val(k.Value)
							found = true
							return
						}
					}
				}
				switch in.(type) {
				case *ssa.If, *ssa.Return:
					return
				}
			}
			for _, s := range x.Succs {
				walk(s)
			}
		}
		walk(b)
		return res, found
	}
	manifestPrefix, manifestType, haveManifest := "", int64(0), false
	for _, b := range ps.Blocks {
		for _, in := range b.Instrs {
			if c, ok := in.(*ssa.Call); ok && isCallTo(c, "fmt.Sscanf") && len(c.Call.Args) >= 2 {
				if f, ok := c.Call.Args[1].(*ssa.Const); ok && f.Value != nil && f.Value.Kind() == constant.String {
					fs := constant.StringVal(f.Value)
					if i := strings.Index(fs, "%d"); i > 0 {
						// a literal prefix before the number: the type is stored on the success edge below
						manifestPrefix = fs[:i]
						for _, b2 := range ps.Blocks {
							if iff, ok := b2.Instrs[len(b2.Instrs)-1].(*ssa.If); ok && dependsOnValue(iff.Cond, c, 6) {
								if t, ok := typeStore(b2.Succs[0]); ok {
									manifestType, haveManifest = t, true
								}
							}
						}
					}
				}
			}
		}
		iff, ok := b.Instrs[len(b.Instrs)-1].(*ssa.If)
		if !ok {
			continue
		}
		bo, ok := iff.Cond.(*ssa.BinOp)
		if !ok || bo.Op.String() != "==" {
			continue
		}
		var k *ssa.Const
		if c, ok := bo.Y.(*ssa.Const); ok {
			k = c
		} else if c, ok := bo.X.(*ssa.Const); ok {
			k = c
		}
		if k == nil || k.Value == nil || k.Value.Kind() != constant.String {
			continue
		}
		if t, ok := typeStore(b.Succs[0]); ok {
			suffix[constant.StringVal(k.Value)] = t
		}
	}
	r.Site(len(suffix))
	numSuffix := regexp.MustCompile(`^%0?[0-9]*d\.([A-Za-z0-9]+)$`)
	prefixNum := regexp.MustCompile(`^([A-Za-z]+-)%0?[0-9]*d$`)
	check := func(fn *ssa.Function, tab map[int64]string, what string) {
		var keys []int64
		for k := range tab {
			keys = append(keys, k)
		}
		sort.Slice(keys, func(i, j int) bool { return keys[i] < keys[j] })
		for _, tv := range keys {
			f := tab[tv]
			tn := typeConsts[tv]
			if tn == "" {
				tn = fmt.Sprintf("type(%d)", tv)
			}
			key := what + "-name-parses-back@" + tn
			switch {
			case numSuffix.MatchString(f):
				sfx := numSuffix.FindStringSubmatch(f)[1]
				got, ok := suffix[sfx]
				if !ok {
					r.Fail(fnName(fn), key, "the generated name is parsed back as the same file type", fmt.Sprintf("%s is named %q but fsParseName has no case for the suffix %q: List never reports such files", tn, f, sfx), p.Pos(fn.Pos()), nil)
				} else if got != tv {
					r.Fail(fnName(fn), key, "the generated name is parsed back as the same file type", fmt.Sprintf("%s is named %q but fsParseName reads the suffix %q as %s", tn, f, sfx, typeConsts[got]), p.Pos(fn.Pos()), nil)
				} else {
					r.OK(fnName(fn), key, "the generated name is parsed back as the same file type")
				}
			case prefixNum.MatchString(f):
				pre := prefixNum.FindStringSubmatch(f)[1]
				if !haveManifest || pre != manifestPrefix || manifestType != tv {
					r.Fail(fnName(fn), key, "the generated name is parsed back as the same file type", fmt.Sprintf("%s is named %q; fsParseName scans the prefix %q as %s", tn, f, manifestPrefix, typeConsts[manifestType]), p.Pos(fn.Pos()), nil)
				} else {
					r.OK(fnName(fn), key, "the generated name is parsed back as the same file type")
				}
			default:
				r.Fail(fnName(fn), key, "the generated name is parsed back as the same file type", fmt.Sprintf("%s is named by the format %q, which is neither NNNNNN.<suffix> nor <PREFIX>-NNNNNN: undecided", tn, f), p.Pos(fn.Pos()), nil)
			}
		}
	}
	check(gen, g, "current")
	check(old, o, "legacy")
	var tvs []int64
	for tv := range typeConsts {
		tvs = append(tvs, tv)
	}
	sort.Slice(tvs, func(i, j int) bool { return tvs[i] < tvs[j] })
	for _, tv := range tvs {
		tn := typeConsts[tv]
		_, ok := g[tv]
		r.Check(ok, fnName(gen), "every-type-named@"+tn, "every file type has a name", tn+" has no case in fsGenName (it panics)", p.Pos(gen.Pos()))
	}
}

// dependsOnValue: v is computed from target through extracts, conversions and comparisons.
func dependsOnValue(v ssa.Value, target ssa.Value, depth int) bool {
	if v == target {
		return true
	}
	if depth == 0 || v == nil {
		return false
	}
	switch x := v.(type) {
	case *ssa.Extract:
		return dependsOnValue(x.Tuple, target, depth-1)
	case *ssa.BinOp:
		return dependsOnValue(x.X, target, depth-1) || dependsOnValue(x.Y, target, depth-1)
	case *ssa.UnOp:
		return dependsOnValue(x.X, target, depth-1)
	case *ssa.Convert:
		return dependsOnValue(x.X, target, depth-1)
	case *ssa.ChangeType:
		return dependsOnValue(x.X, target, depth-1)
	}
	return false
}
