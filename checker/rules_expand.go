package main

import (
	"fmt"
	"go/token"

	"golang.org/x/tools/go/ssa"
)

// ruleExpandRanges: compaction.expand must end with inputs such that every parent-level
// (sourceLevel+1) table overlapping the user-key range of the CHOSEN source-level inputs is among
// the inputs; otherwise the output lands next to an overlapping parent table. Structurally: every
// getOverlaps on the parent level is computed from the getRange() of the source-level set it is
// paired with (never from a union range that the extra source tables can exceed), the grown pair
// (exp0, exp1) is accepted only if it does not add parent tables, and the grandparent set is
// computed from the union range.
func ruleExpandRanges(p *Prog, r *Report, rule string) {
	r.Begin(rule, "E-FLOW", "compaction.expand: each parent-level overlap set is computed from the key range (getRange) of the source-level set it is paired with — t1 from t0's range, the grown exp1 from exp0's own range, not from the union range that selected exp0; the grown pair is taken only when len(exp1) == len(t1); grandparents come from the union range; the stored inputs are those sets", 6)
	defer r.End()
	fn := resolveFn(p, r, "leveldb", "(*compaction).expand")
	if fn == nil {
		return
	}
	tC := "leveldb.compaction"
	// which level a tFiles value was taken from: c.v.levels[c.sourceLevel + k]
	levelOff := func(v ssa.Value) (int64, bool) {
		var res int64
		found := false
		okAll := originsAll(v, func(l ssa.Value) bool {
			if a, ok := l.(*ssa.Alloc); ok && namedOf(a.Type()) == "leveldb.tFiles" {
				return true // tFiles{} when the level does not exist
			}
			if _, ok := l.(*ssa.Slice); ok {
				return true
			}
			if c, ok := l.(*ssa.Const); ok && c.Value == nil {
				return true
			}
			u, ok := l.(*ssa.UnOp)
			if !ok || u.Op != token.MUL {
				return false
			}
			ia, ok := u.X.(*ssa.IndexAddr)
			if !ok || !isFieldLoad(ia.X, "leveldb.version", "levels") {
				return false
			}
			idx := ia.Index
			if ph, ok := idx.(*ssa.Phi); ok && len(ph.Edges) > 0 {
				idx = ph.Edges[0]
			}
			k, ok := offsetFrom(idx, tC, "sourceLevel")
			if !ok {
				return false
			}
			res, found = k, true
			return true
		})
		return res, okAll && found
	}
	isSourceSet := func(v ssa.Value) bool {
		return originsAll(v, func(l ssa.Value) bool {
			// c.levels[0]
			if u, ok := l.(*ssa.UnOp); ok && u.Op == token.MUL {
				if ia, ok := u.X.(*ssa.IndexAddr); ok && isFieldAddr(ia.X, tC, "levels") && mConstInt(0)(ia.Index) {
					return true
				}
			}
			// vt0.getOverlaps(...)
			if c, ok := l.(*ssa.Call); ok && isCallTo(c, "(leveldb.tFiles).getOverlaps") {
				k, ok := levelOff(c.Call.Args[0])
				return ok && k == 0
			}
			return false
		})
	}
	rangeOf := func(v ssa.Value, idx int) (recv ssa.Value, ok bool) {
		// v = ukey(extract #idx of X.getRange(icmp))
		c, okc := callValue(v, "(leveldb.internalKey).ukey")
		if !okc {
			return nil, false
		}
		var out ssa.Value
		good := originsAll(c.Call.Args[0], func(l ssa.Value) bool {
			ex, ok := l.(*ssa.Extract)
			if !ok || ex.Index != idx {
				return false
			}
			g, ok := ex.Tuple.(*ssa.Call)
			if !ok || !isCallTo(g, "(leveldb.tFiles).getRange") {
				return false
			}
			if out == nil {
				out = g.Call.Args[0]
			}
			return true
		})
		return out, good && out != nil
	}
	nParent, nGP := 0, 0
	for _, c := range findCalls(fn, "(leveldb.tFiles).getOverlaps") {
		cc := callCommon(c)
		k, ok := levelOff(cc.Args[0])
		if !ok {
			continue
		}
		r.Site(1)
		switch k {
		case 1:
			nParent++
			// both bounds from getRange of a pure source-level set (all origins)
			good := true
			why := ""
			for i, a := range []ssa.Value{cc.Args[3], cc.Args[4]} {
				ok2 := originsAllUkeyRanges(a, i, func(recv ssa.Value) bool { return isSourceSet(recv) })
				if !ok2 {
					good = false
					why = fmt.Sprintf("bound %d of the parent-level getOverlaps at %s is not the key range of a source-level input set (e.g. it is the union range of source+parent tables, which extra source tables can exceed)", i, p.Pos(c.Pos()))
				}
			}
			r.Check(good, fnName(fn), "parent-overlaps-from-source-range@"+branchLabel(c), "the parent-level overlap set is computed from the range of the source-level set it accompanies", why+": a parent table touched only by the added source tables is left out and the output overlaps it", p.Pos(c.Pos()))
		case 2:
			nGP++
			rcv, ok1 := rangeOf(cc.Args[3], 0)
			union := false
			if ok1 {
				if a, ok := rcv.(*ssa.Call); ok && isCallTo(a, "builtin:append") {
					union = true
				}
				if ph, ok := rcv.(*ssa.Phi); ok {
					union = true
					for _, e := range ph.Edges {
						if a, ok := e.(*ssa.Call); !ok || !isCallTo(a, "builtin:append") {
							union = false
						}
					}
				}
			}
			r.Check(ok1 && union, fnName(fn), "grandparents-from-union-range@"+branchLabel(c), "grandparent overlaps are computed from the range of all inputs (source ∪ parent)", "grandparent range is not getRange(append(t0, t1...))", p.Pos(c.Pos()))
		}
	}
	r.Check(nParent >= 2 && nGP >= 1, fnName(fn), "overlap-computations", "expand computes the parent set (initial and grown) and the grandparent set", fmt.Sprintf("%d parent-level, %d grandparent-level getOverlaps", nParent, nGP), p.Pos(fn.Pos()))
	// the grown pair: wherever a source set computed from the union range (exp0) becomes the final
	// source input, the parent input installed together with it is the overlap set computed from
	// THAT set's own range
	storedTo := func(idx int64) ssa.Value {
		var out ssa.Value
		instrs(fn, func(_ *ssa.BasicBlock, _ int, in ssa.Instruction) {
			if st, ok := in.(*ssa.Store); ok {
				if ia, ok := st.Addr.(*ssa.IndexAddr); ok && isFieldAddr(ia.X, tC, "levels") && mConstInt(idx)(ia.Index) {
					out = st.Val
				}
			}
		})
		return out
	}
	f0, f1 := storedTo(0), storedTo(1)
	r.Site(1)
	ph0, ok0 := f0.(*ssa.Phi)
	ph1, ok1 := f1.(*ssa.Phi)
	if !ok0 || !ok1 || ph0.Block() != ph1.Block() {
		r.Fail(fnName(fn), "final-inputs:unresolved-anchor", "expand stores the chosen source and parent sets into c.levels[0], c.levels[1]", "the stored values are not a pair merged at one point", p.Pos(fn.Pos()), nil)
	} else {
		grown, good := 0, true
		for k := range ph0.Edges {
			e0, isCall := ph0.Edges[k].(*ssa.Call)
			if !isCall || !isCallTo(e0, "(leveldb.tFiles).getOverlaps") {
				continue
			}
			if lv, ok := levelOff(e0.Call.Args[0]); !ok || lv != 0 {
				continue
			}
			if _, fromUnion := rangeOf(e0.Call.Args[3], 0); !fromUnion {
				continue
			}
			if rc, _ := rangeOf(e0.Call.Args[3], 0); rc != nil {
				if a, ok := rc.(*ssa.Call); !ok || !isCallTo(a, "builtin:append") {
					continue // the level-0 self-expansion, not the growth step
				}
			}
			grown++
			e1, isCall1 := ph1.Edges[k].(*ssa.Call)
			okPair := isCall1 && isCallTo(e1, "(leveldb.tFiles).getOverlaps")
			if okPair {
				for i, a := range []ssa.Value{e1.Call.Args[3], e1.Call.Args[4]} {
					if !originsAllUkeyRanges(a, i, func(recv ssa.Value) bool { return recv == ssa.Value(e0) }) {
						okPair = false
					}
				}
			}
			if !okPair {
				good = false
			}
		}
		r.Check(good && grown >= 1, fnName(fn), "grown-pair-consistent", "the grown source set is installed together with the parent overlaps of its own range", fmt.Sprintf("%d growth edges; consistent=%v: the parent set installed with the grown source set was not computed from that set's range", grown, good), p.Pos(fn.Pos()))
	}
	// the grown pair is accepted only if it adds no parent table
	r.Site(1)
	okLen := false
	instrs(fn, func(_ *ssa.BasicBlock, _ int, in ssa.Instruction) {
		iff, ok := in.(*ssa.If)
		if !ok {
			return
		}
		b, ok := iff.Cond.(*ssa.BinOp)
		if !ok || b.Op != token.EQL {
			return
		}
		lx, okx := b.X.(*ssa.Call)
		ly, oky := b.Y.(*ssa.Call)
		if !okx || !oky || !isCallTo(lx, "builtin:len") || !isCallTo(ly, "builtin:len") {
			return
		}
		isParentOverlap := func(v ssa.Value) bool {
			c, ok := v.(*ssa.Call)
			if !ok || !isCallTo(c, "(leveldb.tFiles).getOverlaps") {
				return false
			}
			k, ok := levelOff(c.Call.Args[0])
			return ok && k == 1
		}
		if isParentOverlap(lx.Call.Args[0]) || isParentOverlap(ly.Call.Args[0]) {
			okLen = true
		}
	})
	r.Check(okLen, fnName(fn), "growth-adds-no-parent", "the grown input pair is accepted only when len(exp1) == len(t1)", "no such test", p.Pos(fn.Pos()))
}

// originsAllUkeyRanges: every origin of v is ukey(extract #idx of X.getRange()) with recvOK(X).
func originsAllUkeyRanges(v ssa.Value, idx int, recvOK func(ssa.Value) bool) bool {
	c, ok := callValue(v, "(leveldb.internalKey).ukey")
	if !ok {
		return false
	}
	return originsAll(c.Call.Args[0], func(l ssa.Value) bool {
		ex, ok := l.(*ssa.Extract)
		if !ok || ex.Index != idx {
			return false
		}
		g, ok := ex.Tuple.(*ssa.Call)
		return ok && isCallTo(g, "(leveldb.tFiles).getRange") && recvOK(g.Call.Args[0])
	})
}
