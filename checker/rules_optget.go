package main

import (
	"fmt"
	"go/constant"
	"go/token"

	"golang.org/x/tools/go/ssa"
)

// The option getters of leveldb/opt are the single place where a user's Options / ReadOptions /
// WriteOptions value is turned into the setting the mechanisms act on (every mechanism calls the
// getter, never the field — that half is what the per-property plumbing rules check). A getter
// that returns another field, a constant, or a non-positive block parameter silently switches a
// guarantee off for every caller at once while all call sites still look right:
//
//	GetSync / GetNoSync           durability of acknowledged writes          (C04)
//	GetStrict (both)              whether damage is reported or skipped      (C08, C12, C13)
//	GetReadOnly, GetErrorIf*      read-only means read-only, open contracts  (C18)
//	GetNoWriteMerge (both)        the writer merge protocol                  (C10)
//	GetDisableLargeBatchTransaction  the large-batch-as-transaction path     (C11)
//	GetBlockRestartInterval, GetBlockSize, GetFilterBaseLg  > 0: the block writer divides by the
//	                              restart interval, the filter writer shifts by baseLg (C13, C16)
//	GetFilter, GetAltFilters      the filter policy tables are written/read with (C16)
//	GetComparer                   never nil, the user's comparer when one is set (C15)
//	GetDisableBlockCache, GetDontFillCache, GetBlockCacheEvictRemoved         (C17)
//
// The rule is decided on the SSA form of each getter: the shape of every returned value, and with
// the guard engine the condition under which a constant (default) or the raw field is returned.
type optGetter struct {
	typ, getter, field, kind string
}

const (
	ogField    = "field-or-zero" // zero value only when the receiver is nil, otherwise the field itself
	ogPositive = "positive"      // result > 0: a positive constant, or the field under field > 0
	ogNonNil   = "non-nil"       // the field under field != nil, otherwise a package-level default
	ogStrict   = "strict-bits"   // (field or DefaultStrict) & strict != 0
)

var optGetterTable = map[string]optGetter{
	"WriteOptions.GetSync":                    {"WriteOptions", "GetSync", "Sync", ogField},
	"Options.GetNoSync":                       {"Options", "GetNoSync", "NoSync", ogField},
	"WriteOptions.GetNoWriteMerge":            {"WriteOptions", "GetNoWriteMerge", "NoWriteMerge", ogField},
	"Options.GetNoWriteMerge":                 {"Options", "GetNoWriteMerge", "NoWriteMerge", ogField},
	"Options.GetDisableLargeBatchTransaction": {"Options", "GetDisableLargeBatchTransaction", "DisableLargeBatchTransaction", ogField},
	"Options.GetReadOnly":                     {"Options", "GetReadOnly", "ReadOnly", ogField},
	"Options.GetErrorIfExist":                 {"Options", "GetErrorIfExist", "ErrorIfExist", ogField},
	"Options.GetErrorIfMissing":               {"Options", "GetErrorIfMissing", "ErrorIfMissing", ogField},
	"Options.GetFilter":                       {"Options", "GetFilter", "Filter", ogField},
	"Options.GetAltFilters":                   {"Options", "GetAltFilters", "AltFilters", ogField},
	"Options.GetDisableBlockCache":            {"Options", "GetDisableBlockCache", "DisableBlockCache", ogField},
	"Options.GetBlockCacheEvictRemoved":       {"Options", "GetBlockCacheEvictRemoved", "BlockCacheEvictRemoved", ogField},
	"Options.GetDisableBufferPool":            {"Options", "GetDisableBufferPool", "DisableBufferPool", ogField},
	"ReadOptions.GetDontFillCache":            {"ReadOptions", "GetDontFillCache", "DontFillCache", ogField},
	"Options.GetBlockRestartInterval":         {"Options", "GetBlockRestartInterval", "BlockRestartInterval", ogPositive},
	"Options.GetBlockSize":                    {"Options", "GetBlockSize", "BlockSize", ogPositive},
	"Options.GetFilterBaseLg":                 {"Options", "GetFilterBaseLg", "FilterBaseLg", ogPositive},
	"Options.GetWriteBuffer":                  {"Options", "GetWriteBuffer", "WriteBuffer", ogPositive},
	"Options.GetMaxManifestFileSize":          {"Options", "GetMaxManifestFileSize", "MaxManifestFileSize", ogPositive},
	"Options.GetComparer":                     {"Options", "GetComparer", "Comparer", ogNonNil},
	"Options.GetStrict":                       {"Options", "GetStrict", "Strict", ogStrict},
	"ReadOptions.GetStrict":                   {"ReadOptions", "GetStrict", "Strict", ogStrict},
}

func ruleOptGetters(p *Prog, r *Report, rule, serves string, which ...string) {
	r.Begin(rule, "E-GUARD", "opt getters are faithful ("+serves+"): each returns the field it is named after — the zero value only for a nil receiver, a default only where the field is unset/invalid, block parameters always > 0, the comparer never nil, GetStrict tests the requested bits of the Strict field (DefaultStrict only when unset)", len(which))
	defer r.End()
	for _, w := range which {
		g, ok := optGetterTable[w]
		if !ok {
			r.Fail("opt."+w, "unresolved-anchor", "getter is in the table", "no table entry", "", nil)
			continue
		}
		fn := resolveFn(p, r, "leveldb/opt", "(*"+g.typ+")."+g.getter)
		if fn == nil {
			continue
		}
		checkOptGetter(p, r, fn, g)
	}
}

func checkOptGetter(p *Prog, r *Report, fn *ssa.Function, g optGetter) {
	name := fnName(fn)
	typ := "leveldb/opt." + g.typ
	if len(fn.Params) == 0 {
		r.Fail(name, "getter:undecided", "getter has a receiver", "no parameters", p.Pos(fn.Pos()), nil)
		return
	}
	recv := fn.Params[0]
	isRecv := func(v ssa.Value) bool { return v == ssa.Value(recv) }
	ownField := func(v ssa.Value) bool {
		v = stripConv(v)
		u, ok := v.(*ssa.UnOp)
		if !ok || u.Op != token.MUL {
			return false
		}
		t, f, base, ok := fieldOf(u.X)
		return ok && t == typ && f == g.field && base == ssa.Value(recv)
	}
	isConst := func(v ssa.Value) bool { _, ok := stripConv(v).(*ssa.Const); return ok }
	isZero := func(v ssa.Value) bool {
		c, ok := stripConv(v).(*ssa.Const)
		if !ok {
			return false
		}
		if c.Value == nil {
			return true
		}
		switch c.Value.Kind() {
		case constant.Bool:
			return !constant.BoolVal(c.Value)
		case constant.Int:
			return constant.Sign(c.Value) == 0
		}
		return false
	}
	isPosConst := func(v ssa.Value) bool {
		c, ok := stripConv(v).(*ssa.Const)
		return ok && c.Value != nil && c.Value.Kind() == constant.Int && constant.Sign(c.Value) > 0
	}
	globalOf := func(v ssa.Value) *ssa.Global {
		u, ok := stripConv(v).(*ssa.UnOp)
		if !ok || u.Op != token.MUL {
			return nil
		}
		gl, _ := u.X.(*ssa.Global)
		return gl
	}
	isGlobalLoad := func(v ssa.Value) bool { return globalOf(v) != nil }
	// a package-level default (opt.DefaultBlockSize, …) whose initialiser is a positive constant
	isPosDefault := func(v ssa.Value) bool {
		gl := globalOf(v)
		if gl == nil || gl.Pkg == nil {
			return false
		}
		init := gl.Pkg.Func("init")
		if init == nil {
			return false
		}
		n, good := 0, true
		for _, b := range init.Blocks {
			for _, in := range b.Instrs {
				if st, ok := in.(*ssa.Store); ok && st.Addr == ssa.Value(gl) {
					n++
					c, isC := stripConv(st.Val).(*ssa.Const)
					if !isC || c.Value == nil || c.Value.Kind() != constant.Int || constant.Sign(c.Value) <= 0 {
						good = false
					}
				}
			}
		}
		return n > 0 && good
	}
	// strictTest: (X & strict) != 0 with strict the getter's parameter; returns X.
	strictTest := func(v ssa.Value) (ssa.Value, bool) {
		b, ok := v.(*ssa.BinOp)
		if !ok || b.Op != token.NEQ || len(fn.Params) < 2 {
			return nil, false
		}
		x, z := b.X, b.Y
		if !mConstInt(0)(z) {
			x, z = z, x
		}
		if !mConstInt(0)(z) {
			return nil, false
		}
		a, ok := stripConv(x).(*ssa.BinOp)
		if !ok || a.Op != token.AND {
			return nil, false
		}
		arg := ssa.Value(fn.Params[1])
		switch {
		case stripConv(a.Y) == arg:
			return a.X, true
		case stripConv(a.X) == arg:
			return a.Y, true
		}
		return nil, false
	}

	// 1. the shape of every returned value
	type retv struct {
		in  *ssa.Return
		v   ssa.Value
		via *ssa.BasicBlock // for a phi edge: the predecessor that selects v
	}
	var rets []retv
	for _, b := range fn.Blocks {
		for _, in := range b.Instrs {
			rt, ok := in.(*ssa.Return)
			if !ok || len(rt.Results) != 1 {
				continue
			}
			if ph, ok := rt.Results[0].(*ssa.Phi); ok && ph.Block() == b {
				for i, e := range ph.Edges {
					rets = append(rets, retv{rt, e, b.Preds[i]})
				}
				continue
			}
			rets = append(rets, retv{rt, rt.Results[0], nil})
		}
	}
	if len(rets) == 0 {
		r.Fail(name, "getter:undecided", "getter returns one value", "no single-value return found", p.Pos(fn.Pos()), nil)
		return
	}
	r.Site(1)
	nField := 0
	shapeOK := true
	var fieldRet, constRet []retv
	for _, rv := range rets {
		var ok bool
		switch g.kind {
		case ogField:
			ok = ownField(rv.v) || isZero(rv.v)
		case ogPositive:
			ok = ownField(rv.v) || isPosConst(rv.v) || isPosDefault(rv.v)
		case ogNonNil:
			ok = ownField(rv.v) || isGlobalLoad(rv.v)
		case ogStrict:
			if x, isT := strictTest(rv.v); isT {
				ok = ownField(x) || isPosConst(x)
				if ownField(x) {
					nField++
					fieldRet = append(fieldRet, rv)
				} else {
					constRet = append(constRet, rv)
				}
				if !ok {
					shapeOK = false
					r.Fail(name, "getter:returns-own-field", "GetStrict tests the Strict field (or DefaultStrict) against the requested bits", "a return tests something else: "+rv.v.String(), p.Pos(rv.in.Pos()), nil)
				}
				continue
			}
			ok = isZero(rv.v) && g.typ == "ReadOptions"
			if ok {
				constRet = append(constRet, rv)
				continue
			}
		}
		if ownField(rv.v) {
			nField++
			fieldRet = append(fieldRet, rv)
		} else if isConst(rv.v) || isGlobalLoad(rv.v) {
			constRet = append(constRet, rv)
		}
		if !ok {
			shapeOK = false
			r.Fail(name, "getter:returns-own-field", fmt.Sprintf("every result of %s is %s.%s or the permitted default (%s)", g.getter, g.typ, g.field, g.kind), "a return yields "+rv.v.String()+" ("+rv.v.Name()+")", p.Pos(rv.in.Pos()), nil)
		}
	}
	if shapeOK {
		r.OK(name, "getter:returns-own-field", fmt.Sprintf("every result of %s is %s.%s or the permitted default (%s)", g.getter, g.typ, g.field, g.kind))
	}
	r.Check(nField > 0, name, "getter:field-honoured", "some return yields the receiver's "+g.field, "no return reads "+g.typ+"."+g.field+": the user's setting is ignored", p.Pos(fn.Pos()))
	if !shapeOK || nField == 0 {
		return
	}

	// 2. the conditions: defaults only where permitted, the raw field only where valid
	fl := func(v ssa.Value) bool { return ownField(v) }
	nilA := nilAtom("receiver==nil", isRecv)
	retOf := func(set []retv) InstrPred {
		return func(in ssa.Instruction) bool {
			for _, rv := range set {
				if rv.via == nil && ssa.Instruction(rv.in) == in {
					return true
				}
			}
			return false
		}
	}
	// phi-edge results (`return o != nil && o.X`): the selecting predecessor must end in the nil test
	phiEdgeOK := func(set []retv, wantNilSide bool) bool {
		for _, rv := range set {
			if rv.via == nil {
				continue
			}
			cond, neg, ok := ifCond(rv.via)
			if !ok {
				return false
			}
			x, trueNonNil, isNil := condNilTest(cond)
			if !isNil || !isRecv(x) {
				return false
			}
			if neg {
				trueNonNil = !trueNonNil
			}
			// which successor of via is the return block
			succ := -1
			for i, s := range rv.via.Succs {
				if s == rv.in.Block() {
					succ = i
				}
			}
			nilSide := (succ == 0) != trueNonNil
			if nilSide != wantNilSide {
				return false
			}
		}
		return true
	}
	hasDirect := func(set []retv) bool {
		for _, rv := range set {
			if rv.via == nil {
				return true
			}
		}
		return false
	}
	switch g.kind {
	case ogField:
		if hasDirect(constRet) {
			checkGuard(p, r, GuardSpec{Rule: "getter:zero-only-for-nil-receiver", Fn: fn, Target: retOf(constRet), TargetDesc: "returning the zero value", Atoms: []Atom{nilA}, G: func(a []bool) bool { return a[0] }, GDesc: "a nil receiver", MinTargets: 1})
		}
		r.Check(phiEdgeOK(constRet, true), name, "getter:zero-only-for-nil-receiver:phi", "a zero result selected by a short-circuit comes from the nil test of the receiver", "the constant operand of the result is not selected by `receiver == nil`", p.Pos(fn.Pos()))
	case ogPositive:
		pos := cmpAtom(g.field+">0", token.GTR, fl, mConstInt(0))
		if hasDirect(fieldRet) {
			checkGuard(p, r, GuardSpec{Rule: "getter:field-only-when-positive", Fn: fn, Target: retOf(fieldRet), TargetDesc: "returning the raw field", Atoms: []Atom{pos}, G: func(a []bool) bool { return a[0] }, GDesc: g.field + " > 0", MinTargets: 1})
		}
		r.Check(phiEdgeOK(fieldRet, false) && phiEdgeOK(constRet, true), name, "getter:field-only-when-positive:phi", "no short-circuit result bypasses the positivity test", "a result is selected by a short-circuit the rule cannot relate to the positivity test", p.Pos(fn.Pos()))
	case ogNonNil:
		nn := Atom{Name: g.field + "!=nil", Match: func(cond ssa.Value) (int, int) {
			x, trueNonNil, ok := condNilTest(cond)
			if !ok || !(fl(x) || fl(testedValue(x))) {
				return 0, 0
			}
			if trueNonNil {
				return +1, -1
			}
			return -1, +1
		}}
		if hasDirect(fieldRet) {
			checkGuard(p, r, GuardSpec{Rule: "getter:field-only-when-non-nil", Fn: fn, Target: retOf(fieldRet), TargetDesc: "returning the raw field", Atoms: []Atom{nn}, G: func(a []bool) bool { return a[0] }, GDesc: g.field + " != nil", MinTargets: 1})
		}
		r.Check(phiEdgeOK(fieldRet, false) && phiEdgeOK(constRet, true), name, "getter:field-only-when-non-nil:phi", "no short-circuit result bypasses the nil test", "a result is selected by a short-circuit the rule cannot relate to the nil test", p.Pos(fn.Pos()))
	case ogStrict:
		unset := cmpAtom(g.field+"==0", token.EQL, fl, mConstInt(0))
		if hasDirect(constRet) {
			checkGuard(p, r, GuardSpec{Rule: "getter:default-only-when-unset", Fn: fn, Target: retOf(constRet), TargetDesc: "answering from the default (or false)", Atoms: []Atom{nilA, unset}, G: func(a []bool) bool { return a[0] || (a[1] && g.typ == "Options") }, GDesc: "a nil receiver or Strict == 0", MinTargets: 1})
		}
		r.Check(phiEdgeOK(constRet, true) && phiEdgeOK(fieldRet, false), name, "getter:default-only-when-unset:phi", "no short-circuit result bypasses the nil test", "a result is selected by a short-circuit the rule cannot relate to the nil test", p.Pos(fn.Pos()))
	}
}
