package main

import (
	"golang.org/x/tools/go/ssa"
)

// ruleRecordBytesFresh: sessionRecord.decode keeps the slices readBytes returns — a table's recorded
// smallest/largest key (addTableFile), the compaction pointers — for the lifetime of the version
// they go into. Each of them therefore has to be storage of its own: every non-nil result of
// readBytes originates in an allocation made by that call (make), never in a field of the record
// (its scratch array), a parameter or a package-level buffer, which the next field read would
// overwrite: after a reopen the recorded bounds of a table would be those of the last short field
// decoded, the level no longer sorted/disjoint as recorded and lookups steered past existing keys.
func ruleRecordBytesFresh(p *Prog, r *Report, rule string) {
	r.Begin(rule, "E-FLOW", "manifest decoder: every non-nil slice returned by sessionRecord.readBytes is freshly allocated by that call (decode keeps them as table bounds and compaction pointers); never the record's scratch array or any other shared buffer", 1)
	defer r.End()
	fn := resolveFn(p, r, "leveldb", "(*sessionRecord).readBytes")
	if fn == nil {
		return
	}
	name := fnName(fn)
	nret := 0
	for _, b := range fn.Blocks {
		for _, in := range b.Instrs {
			rt, ok := in.(*ssa.Return)
			if !ok || len(rt.Results) != 1 {
				continue
			}
			nret++
			seen := map[ssa.Value]bool{}
			bad := ""
			var rec func(v ssa.Value)
			rec = func(v ssa.Value) {
				v = stripConv(v)
				if seen[v] || bad != "" {
					return
				}
				seen[v] = true
				switch x := v.(type) {
				case *ssa.Const:
					if !x.IsNil() {
						bad = "constant " + x.String()
					}
				case *ssa.MakeSlice:
				case *ssa.Slice:
					// re-slicing a fresh slice is fresh; slicing an array (new([N]byte) from make with a
					// constant size) is fresh only if the array was allocated on the heap by this call
					if al, ok := x.X.(*ssa.Alloc); ok {
						if !al.Heap {
							bad = "slice of a stack array " + al.Name()
						}
						return
					}
					rec(x.X)
				case *ssa.Phi:
					for _, e := range x.Edges {
						rec(e)
					}
				case *ssa.Call:
					if isCallTo(x, "builtin:append") {
						rec(x.Call.Args[0])
						return
					}
					bad = "result of " + x.String()
				default:
					if t, f, _, ok := fieldOf(v); ok {
						bad = "field " + t + "." + f
					} else if u, ok := v.(*ssa.UnOp); ok {
						if t, f, _, ok := fieldOf(u.X); ok {
							bad = "field " + t + "." + f
						} else {
							bad = v.String()
						}
					} else {
						bad = v.String()
					}
				}
			}
			rec(rt.Results[0])
			r.Check(bad == "", name, "result-fresh@"+p.Pos(rt.Pos()), "the returned slice is nil or storage allocated by this call", "a return yields shared storage ("+bad+"): decode keeps it as a table bound / compaction pointer and the next read overwrites it", p.Pos(rt.Pos()))
		}
	}
	r.Site(nret)
	// and decode does keep them: the callers that store the result are in sessionRecord.decode
	if dec := resolveFn(p, r, "leveldb", "(*sessionRecord).decode"); dec != nil {
		n := countInstr(dec, func(in ssa.Instruction) bool { return isCallTo(in, "(*leveldb.sessionRecord).readBytes") })
		r.Check(n >= 3, fnName(dec), "keeps-results", "decode reads table bounds and compaction pointers through readBytes", "fewer than 3 readBytes calls in decode", p.Pos(dec.Pos()))
	}
}
