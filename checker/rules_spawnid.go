package main

import (
	"golang.org/x/tools/go/ssa"
)

// ruleSpawnedIdSettled: version.spawn allocates the next version id. The reference loop
// (session.refLoop) processes ids strictly in order and waits for each one: an id must therefore be
// SETTLED on every exit of the function that spawned it — installed with setVersion, or announced
// on session.abandon. An id that is neither stalls the loop for good: no delta is applied any more,
// no table's count reaches zero, and obsolete tables pile up on storage until reopen.
// Accepted forms: (a) a deferred epilogue, registered before any exit, that sends on s.abandon when
// the error result is non-nil (and only then); (b) an explicit send on the failing paths.
func ruleSpawnedIdSettled(p *Prog, r *Report, rule string) {
	r.Begin(rule, "E-PAIR", "a version id allocated by version.spawn is settled on every exit of session.commit: installed by setVersion, or abandoned (s.abandon <- id) — by a deferred epilogue guarded by err != nil or explicitly on each failing path; it is abandoned only when the commit failed", 3)
	defer r.End()
	fn := resolveFn(p, r, "leveldb", "(*session).commit")
	if fn == nil {
		return
	}
	spawn := evCall("(*leveldb.version).spawn")
	install := evCall(fSetVer)
	send := evSendOn("leveldb.session", "abandon")
	if !requireSites(p, r, fn, "spawn", "v.spawn(r, trivial)", spawn, 1) {
		return
	}
	errNil := nilAtom("err==nil", mCellNamed("err"))
	// deferred epilogues that abandon under err != nil on every path
	var epis []*ssa.Function
	for _, a := range fn.AnonFuncs {
		if countInstr(a, send) == 0 {
			continue
		}
		r.Fn(fnName(a))
		checkGuard(p, r, GuardSpec{Rule: "abandon-only-on-error", Fn: a, Target: send, TargetDesc: "s.abandon <- nv.id", Atoms: []Atom{errNil}, G: func(a []bool) bool { return !a[0] }, GDesc: "err != nil", MinTargets: 1})
		if w := findPath(entryPoint(a), atomEdges([]Atom{errNil}, []bool{false}), send, isReturn); w != nil {
			r.Fail(fnName(a), "not-abandoned-on-error", "a failed commit abandons its spawned version id", "with err != nil the epilogue can return without abandoning: the reference loop waits for that id forever and stops deleting files", p.posOfLast(w, isReturn), p.renderPath(w))
		} else {
			r.OK(fnName(a), "abandoned-on-error", "a failed commit abandons its spawned version id")
			epis = append(epis, a)
		}
	}
	isEpiDefer := func(in ssa.Instruction) bool {
		d, ok := in.(*ssa.Defer)
		if !ok {
			return false
		}
		var f *ssa.Function
		switch v := d.Call.Value.(type) {
		case *ssa.MakeClosure:
			f, _ = v.Fn.(*ssa.Function)
		case *ssa.Function:
			f = v
		}
		for _, e := range epis {
			if e == f {
				return true
			}
		}
		return false
	}
	// inline sends are also only on failing paths
	if countInstr(fn, send) > 0 {
		checkGuard(p, r, GuardSpec{Rule: "abandon-only-on-error", Fn: fn, Starts: after(fn, spawn), Target: send, TargetDesc: "s.abandon <- nv.id", Atoms: []Atom{errNil}, G: func(a []bool) bool { return !a[0] }, GDesc: "err != nil", MinTargets: 1})
	}
	// every exit after the spawn is settled
	r.Site(1)
	settled := orPred(install, send, isEpiDefer)
	if w := findPath(after(fn, spawn), nil, settled, isReturn); w != nil {
		r.Fail(fnName(fn), "spawned-id-settled", "every exit after v.spawn installs the new version or abandons its id", "a path from v.spawn reaches a return with the id neither installed (setVersion) nor abandoned (no deferred epilogue registered, no send on s.abandon): the reference loop waits for that id forever and obsolete tables are never deleted again", p.posOfLast(w, isReturn), p.renderPath(w))
	} else {
		r.OK(fnName(fn), "spawned-id-settled", "every exit after v.spawn installs the new version or abandons its id")
	}
	// never both: an installed id is not abandoned afterwards (inline form)
	if countInstr(fn, send) > 0 {
		r.Site(1)
		if w := findPath(after(fn, install), nil, nil, send); w != nil {
			r.Fail(fnName(fn), "installed-then-abandoned", "an installed version id is not abandoned", "s.abandon is reachable after setVersion", p.posOfLast(w, send), p.renderPath(w))
		} else {
			r.OK(fnName(fn), "installed-not-abandoned", "an installed version id is not abandoned")
		}
	}
	// other spawn sites in the package must be known (a new one needs the same discipline)
	n := 0
	for _, f := range p.SrcFuncs("leveldb") {
		if f != fn && countInstr(f, spawn) > 0 {
			n++
			r.Fail(fnName(f), "unreviewed-spawn", "version.spawn is called from session.commit only", "another function allocates version ids", p.Pos(f.Pos()), nil)
		}
	}
	if n == 0 {
		r.OK("leveldb", "spawn-only-in-commit", "version.spawn is called from session.commit only")
	}
}
