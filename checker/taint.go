package main

import (
	"fmt"
	"go/token"
	"go/types"
	"strings"

	"golang.org/x/tools/go/ssa"
)

// ---------------- freshness (C20.1) ----------------
//
// A []byte value is FRESH if on every path it is nil, a make, or an append onto nil/fresh —
// followed interprocedurally through static calls (result summaries), phis, conversions,
// re-slicing of fresh values and local cells shared with closures. Anything loaded from a struct
// field, returned by an interface method, or derived from a parameter is NOT fresh (it may alias
// shared storage). Heap is modelled cell-/field-based; there is no points-to analysis.

type freshCtx struct {
	memo map[string]int // fn/result → 0 unknown,1 fresh,2 not,3 busy
	why  map[string]string
	p    *Prog
}

func newFresh(p *Prog) *freshCtx {
	return &freshCtx{memo: map[string]int{}, why: map[string]string{}, p: p}
}

// fresh reports whether v is fresh; if not, why gives the offending origin.
func (c *freshCtx) fresh(v ssa.Value, seen map[ssa.Value]bool) (bool, string) {
	v = stripConv(v)
	if seen[v] {
		return true, ""
	}
	seen[v] = true
	switch x := v.(type) {
	case *ssa.Const:
		return true, ""
	case *ssa.MakeSlice:
		return true, ""
	case *ssa.Slice:
		return c.fresh(x.X, seen)
	case *ssa.Phi:
		for _, e := range x.Edges {
			if ok, why := c.fresh(e, seen); !ok {
				return false, why
			}
		}
		return true, ""
	case *ssa.Extract:
		if call, ok := x.Tuple.(*ssa.Call); ok {
			return c.callResultFresh(call, x.Index)
		}
		return false, "tuple of unknown origin at " + c.p.Pos(x.Pos())
	case *ssa.Call:
		if b, ok := x.Call.Value.(*ssa.Builtin); ok {
			if b.Name() == "append" {
				return c.fresh(x.Call.Args[0], seen)
			}
			return false, "builtin " + b.Name()
		}
		return c.callResultFresh(x, -1)
	case *ssa.UnOp:
		if x.Op == token.MUL {
			if cell := resolveCell(x.X); cell != nil {
				stores := cellStores(x.X)
				if len(stores) == 0 {
					return true, "" // zero value (nil)
				}
				for _, s := range stores {
					if ok, why := c.fresh(s, seen); !ok {
						return false, why
					}
				}
				return true, ""
			}
			if t, f, _, ok := fieldOf(x.X); ok {
				return false, fmt.Sprintf("loaded from field %s.%s at %s", t, f, c.p.Pos(x.Pos()))
			}
			return false, "loaded through a pointer at " + c.p.Pos(x.Pos())
		}
	case *ssa.Parameter:
		return false, "parameter " + x.Name()
	case *ssa.Alloc:
		return true, ""
	}
	return false, fmt.Sprintf("%T at %s", v, c.p.Pos(v.Pos()))
}

func (c *freshCtx) callResultFresh(call *ssa.Call, idx int) (bool, string) {
	if call.Call.IsInvoke() {
		return false, fmt.Sprintf("result of interface method %s at %s (may alias the implementation's storage)", call.Call.Method.Name(), c.p.Pos(call.Pos()))
	}
	callee := staticCallee(&call.Call)
	if callee == nil {
		callee = closureCallee(&call.Call)
	}
	if callee == nil || len(callee.Blocks) == 0 {
		return false, "result of an unresolved call at " + c.p.Pos(call.Pos())
	}
	if idx < 0 {
		idx = 0
	}
	return c.fnResultFresh(callee, idx)
}

func (c *freshCtx) fnResultFresh(fn *ssa.Function, idx int) (bool, string) {
	key := fmt.Sprintf("%s#%d", fnName(fn), idx)
	switch c.memo[key] {
	case 1:
		return true, ""
	case 2:
		return false, c.why[key]
	case 3:
		return true, "" // recursion: optimistic
	}
	c.memo[key] = 3
	ok, why := true, ""
	instrs(fn, func(_ *ssa.BasicBlock, _ int, in ssa.Instruction) {
		ret, isRet := in.(*ssa.Return)
		if !isRet || idx >= len(ret.Results) || !ok {
			return
		}
		v := retValue(ret, ret.Results[idx])
		if o, w := c.fresh(v, map[ssa.Value]bool{}); !o {
			ok = false
			why = fmt.Sprintf("%s returns (result %d) a value %s", fnName(fn), idx, w)
		}
	})
	if ok {
		c.memo[key] = 1
	} else {
		c.memo[key] = 2
		c.why[key] = why
	}
	return ok, why
}

// ---------------- argument taint (C20.2) ----------------
//
// For a []byte / *Batch parameter P of an API function: P (and everything sliced, converted or
// copied-by-reference from it) must not be retained (stored to a non-local location, sent on a
// channel other than the reviewed merge hand-off, captured into a returned/stored closure) and
// must not be modified (destination of copy/append, stored through). It may be read, compared,
// hashed, and be the SOURCE of a copy. Followed through static calls with per-(function,param)
// summaries; an interface method call with a tainted argument is allowed only for a reviewed set
// of methods whose contract is not to retain.

type taintIssue struct {
	kind, detail, pos string
}

type taintCtx struct {
	p     *Prog
	memo  map[string]*taintSummary
	busy  map[string]bool
	depth int
}

type taintSummary struct {
	issues    []taintIssue
	toResults map[int]bool // param flows into result i
}

func newTaint(p *Prog) *taintCtx {
	return &taintCtx{p: p, memo: map[string]*taintSummary{}, busy: map[string]bool{}}
}

// interface methods that may receive caller buffers: their documented contract is read-only, no retention
var taintOKInvokes = map[string]string{
	"Compare": "comparer contract", "Separator": "comparer: writes to dst, reads a/b", "Successor": "comparer", "Write": "io.Writer must not retain or modify p",
	"Contains": "filter probe", "Add": "filter generator hashes the key immediately", "Seek": "iterator Seek copies/compares the key", "Search": "array index search",
	"Put": "BatchReplay callback (documented)", "Delete": "BatchReplay callback (documented)", "Get": "Reader", "Error": "",
}

func isByteSliceOrKey(t types.Type) bool {
	if isByteSlice(t) {
		return true
	}
	return false
}

// analyzeParam computes the summary for fn's parameter index pi.
func (c *taintCtx) analyzeParam(fn *ssa.Function, pi int) *taintSummary {
	key := fmt.Sprintf("%s#%d", fnName(fn), pi)
	if s, ok := c.memo[key]; ok {
		return s
	}
	if c.busy[key] {
		return &taintSummary{toResults: map[int]bool{}}
	}
	c.busy[key] = true
	defer delete(c.busy, key)
	s := &taintSummary{toResults: map[int]bool{}}
	if pi >= len(fn.Params) || len(fn.Blocks) == 0 {
		c.memo[key] = s
		return s
	}
	c.propagate(fn, []ssa.Value{fn.Params[pi]}, s)
	c.memo[key] = s
	return s
}

// analyzeValues: like analyzeParam but starting from arbitrary tainted values inside fn.
func (c *taintCtx) analyzeValues(fn *ssa.Function, roots []ssa.Value) *taintSummary {
	s := &taintSummary{toResults: map[int]bool{}}
	c.propagate(fn, roots, s)
	return s
}

// carriesRef: a value of type t can hold a reference to a byte buffer / batch.
func carriesRef(t types.Type) bool {
	switch u := t.Underlying().(type) {
	case *types.Basic:
		return false
	case *types.Slice, *types.Pointer, *types.Interface, *types.Map, *types.Chan, *types.Signature:
		return true
	case *types.Array:
		return carriesRef(u.Elem())
	case *types.Struct:
		for i := 0; i < u.NumFields(); i++ {
			if carriesRef(u.Field(i).Type()) {
				return true
			}
		}
		return false
	case *types.Tuple:
		return true
	}
	return true
}

const (
	kBuf    = 1 // aliases the caller's memory (the buffer itself, a slice of it, the *Batch and what it points to)
	kHolder = 2 // a local container (struct / array / slice of pointers) that holds such a reference
)

func (c *taintCtx) propagate(fn *ssa.Function, roots []ssa.Value, s *taintSummary) {
	kind := map[ssa.Value]int{}
	var work []ssa.Value
	add := func(v ssa.Value, k int) {
		if v == nil {
			return
		}
		if tv := v.Type(); tv != nil && !carriesRef(tv) {
			return
		}
		if kind[v] == 0 || (kind[v] == kHolder && k == kBuf) {
			kind[v] = k
			work = append(work, v)
		}
	}
	for _, r := range roots {
		add(r, kBuf)
	}
	issue := func(kind, detail string, pos token.Pos) {
		s.issues = append(s.issues, taintIssue{kind, detail, c.p.Pos(pos)})
	}
	owner := fn
	for owner.Parent() != nil {
		owner = owner.Parent()
	}
	// baseOf strips FieldAddr/IndexAddr chains
	baseOf := func(addr ssa.Value) ssa.Value {
		for {
			switch x := addr.(type) {
			case *ssa.FieldAddr:
				addr = x.X
				continue
			case *ssa.IndexAddr:
				addr = x.X
				continue
			}
			return addr
		}
	}
	holderCells := map[*ssa.Alloc]bool{}
	var taintLoads func(a ssa.Value)
	taintLoads = func(a ssa.Value) {
		refs := a.Referrers()
		if refs == nil {
			return
		}
		for _, r2 := range *refs {
			switch y := r2.(type) {
			case *ssa.UnOp:
				if y.Op == token.MUL {
					_, isStruct := y.Type().Underlying().(*types.Struct)
					_, isArr := y.Type().Underlying().(*types.Array)
					if isStruct || isArr {
						add(y, kHolder)
					} else {
						add(y, kBuf)
					}
				}
			case *ssa.FieldAddr, *ssa.IndexAddr:
				taintLoads(y.(ssa.Value))
			case *ssa.Slice:
				add(y, kHolder)
			}
		}
	}
	markHolder := func(al *ssa.Alloc) {
		if holderCells[al] {
			return
		}
		holderCells[al] = true
		taintLoads(al)
		withAnons(owner, func(f *ssa.Function) {
			for _, fv := range f.FreeVars {
				if resolveCell(fv) == al {
					taintLoads(fv)
				}
			}
		})
		add(al, kHolder)
	}
	for len(work) > 0 {
		v := work[len(work)-1]
		work = work[:len(work)-1]
		k := kind[v]
		refs := v.Referrers()
		if refs == nil {
			continue
		}
		for _, ref := range *refs {
			switch x := ref.(type) {
			case *ssa.DebugRef:
			case *ssa.Convert:
				if isStringT(x.Type()) {
					continue // string(b) copies
				}
				add(x, k)
			case *ssa.Slice, *ssa.ChangeType, *ssa.Phi, *ssa.TypeAssert, *ssa.MakeInterface, *ssa.ChangeInterface:
				add(x.(ssa.Value), k)
			case *ssa.Extract:
				add(x, k)
			case *ssa.Field:
				// field of a holder struct value: the field itself is the reference
				if k == kHolder {
					add(x, kBuf)
				} else {
					add(x, kBuf)
				}
			case *ssa.Index:
				if k == kHolder {
					add(x, kBuf)
				}
			case *ssa.Lookup:
			case *ssa.IndexAddr:
				if x.X != v {
					continue
				}
				for _, r2 := range *x.Referrers() {
					switch y := r2.(type) {
					case *ssa.Store:
						if y.Addr == x && k == kBuf && isByteSlice(v.Type()) {
							issue("modified", "caller's buffer is written through (p[i] = …)", y.Pos())
						}
					case *ssa.UnOp:
						if k == kHolder {
							add(y, kBuf)
						}
					}
				}
			case *ssa.UnOp:
				if x.Op == token.MUL && x.X == v {
					if k == kHolder {
						_, isStruct := x.Type().Underlying().(*types.Struct)
						if isStruct {
							add(x, kHolder)
						} else {
							add(x, kBuf)
						}
					} else {
						add(x, kBuf)
					}
				}
			case *ssa.FieldAddr:
				if x.X != v {
					continue
				}
				for _, r2 := range *x.Referrers() {
					switch y := r2.(type) {
					case *ssa.UnOp:
						add(y, kBuf)
					case *ssa.Store:
						if y.Addr == x && k == kBuf {
							issue("modified", "a field of the caller's object is assigned", y.Pos())
						}
					case *ssa.FieldAddr, *ssa.IndexAddr:
						// nested: treat the inner address like the object
						add(y.(ssa.Value), k)
					}
				}
			case *ssa.Store:
				if x.Val != v {
					continue
				}
				base := baseOf(x.Addr)
				if al := resolveCell(base); al != nil {
					markHolder(al)
					continue
				}
				if kind[base] == kHolder {
					continue // element/field of a local container
				}
				t, f, _, ok := fieldOf(x.Addr)
				where := "a non-local location"
				if ok {
					where = "field " + t + "." + f
				} else if g, ok := x.Addr.(*ssa.Global); ok {
					where = "global " + g.Name()
				}
				issue("retained", "caller's buffer is stored into "+where, x.Pos())
			case *ssa.Send:
				if stripConv(x.X) == v || x.X == v {
					if isFieldLoad(x.Chan, tDB, "writeMergeC") {
						continue
					}
					issue("retained", "caller's buffer is sent on a channel", x.Pos())
				}
			case *ssa.Select:
				for _, st := range x.States {
					if st.Dir == 1 && (st.Send == v || stripConv(st.Send) == v) {
						if isFieldLoad(st.Chan, tDB, "writeMergeC") {
							continue // reviewed hand-off: the receiving side is analysed as its own root
						}
						issue("retained", "caller's buffer is sent on a channel", x.Pos())
					}
				}
			case *ssa.MakeClosure:
			case *ssa.Return:
				for i, rv := range x.Results {
					if rv == v {
						s.toResults[i] = true
					}
				}
			case *ssa.Call, *ssa.Defer, *ssa.Go:
				cc := callCommon(x)
				c.handleCall(fn, x, cc, v, k, s, func(nv ssa.Value) { add(nv, k) }, issue)
			case *ssa.MapUpdate:
				if x.Value == v || x.Key == v {
					issue("retained", "caller's buffer is stored in a map", x.Pos())
				}
			}
		}
	}
}

func (c *taintCtx) handleCall(fn *ssa.Function, in ssa.Instruction, cc *ssa.CallCommon, v ssa.Value, k int, s *taintSummary, add func(ssa.Value), issue func(string, string, token.Pos)) {
	if b, ok := cc.Value.(*ssa.Builtin); ok {
		switch b.Name() {
		case "copy":
			if len(cc.Args) == 2 && cc.Args[0] == v && k == kBuf {
				issue("modified", "caller's buffer is the destination of copy()", in.Pos())
			}
		case "append":
			if len(cc.Args) >= 1 && cc.Args[0] == v {
				// append(p[:k], …) may write into the caller's spare capacity and aliases it
				if k == kBuf && isByteSlice(v.Type()) {
					issue("modified", "caller's buffer is the destination of append()", in.Pos())
				}
				if call, ok := in.(*ssa.Call); ok {
					add(call)
				}
			}
			// as the appended elements of a [][]byte / []*Batch slice: the reference is stored in the new slice
			if len(cc.Args) == 2 && cc.Args[1] == v {
				if call, ok := in.(*ssa.Call); ok && !isByteSlice(call.Type()) {
					add(call)
				}
			}
		case "len", "cap", "print", "println", "panic":
		}
		return
	}
	if cc.IsInvoke() {
		if _, ok := taintOKInvokes[cc.Method.Name()]; ok {
			return
		}
		issue("escapes", fmt.Sprintf("caller's buffer is passed to interface method %s (not in the reviewed read-only set)", cc.Method.Name()), in.Pos())
		return
	}
	callee := staticCallee(cc)
	if callee == nil {
		callee = closureCallee(cc)
	}
	if callee == nil {
		// a function-typed parameter of fn: resolve the function literals passed at fn's call sites
		if pa, ok := cc.Value.(*ssa.Parameter); ok && pa.Parent() == fn {
			pidx := -1
			for i, q := range fn.Params {
				if q == pa {
					pidx = i
				}
			}
			resolved := 0
			for _, caller := range c.p.SrcFuncs(strings.TrimPrefix(fn.Pkg.Pkg.Path(), modPath)) {
				for _, site := range findCalls(caller, fnName(fn)) {
					scc := callCommon(site)
					if pidx < 0 || pidx >= len(scc.Args) {
						continue
					}
					var lit *ssa.Function
					if mc, ok := scc.Args[pidx].(*ssa.MakeClosure); ok {
						lit, _ = mc.Fn.(*ssa.Function)
					} else if f, ok := scc.Args[pidx].(*ssa.Function); ok {
						lit = f
					}
					if lit == nil {
						continue
					}
					resolved++
					for i, a := range cc.Args {
						if a != v {
							continue
						}
						sub := c.analyzeParam(lit, i)
						for _, is := range sub.issues {
							s.issues = append(s.issues, taintIssue{is.kind, is.detail + " (via callback " + fnName(lit) + ")", is.pos})
						}
					}
				}
			}
			if resolved > 0 {
				return
			}
		}
		issue("escapes", "caller's buffer is passed to a dynamically called function", in.Pos())
		return
	}
	if callee.Pkg == nil || !strings.HasPrefix(callee.Pkg.Pkg.Path(), modPath) {
		// standard library: reviewed by package
		switch callee.Pkg.Pkg.Path() {
		case "fmt", "encoding/binary", "bytes", "hash/crc32", "sync/atomic", "errors", "strings", "unicode/utf8", "sort", "runtime":
			return
		}
		if callee.Pkg.Pkg.Path() == "sync" {
			if callee.Name() == "Put" {
				issue("retained", "caller's object is put into a sync.Pool", in.Pos())
			}
			return
		}
		return
	}
	for i, a := range cc.Args {
		if a != v {
			continue
		}
		sub := c.analyzeParam(callee, i)
		for _, is := range sub.issues {
			s.issues = append(s.issues, taintIssue{is.kind, is.detail + " (via " + fnName(callee) + ")", is.pos})
		}
		if call, ok := in.(*ssa.Call); ok {
			for ri := range sub.toResults {
				if callee.Signature.Results().Len() == 1 {
					add(call)
				} else {
					for _, ref := range *call.Referrers() {
						if e, ok := ref.(*ssa.Extract); ok && e.Index == ri {
							add(e)
						}
					}
				}
			}
		}
	}
	if _, isGo := in.(*ssa.Go); isGo {
		issue("retained", "caller's buffer is handed to a new goroutine", in.Pos())
	}
}
