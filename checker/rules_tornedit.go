package main

import (
	"go/token"

	"golang.org/x/tools/go/ssa"
)

// ruleTornEditIsCorruption: session.recover tolerates a torn manifest tail by skipping an edit whose
// decode error IsCorrupted. The tolerant journal reader reports a record that lost its continuation
// as io.ErrUnexpectedEOF, and a record that simply ends early as io.EOF. The decoder's field readers
// (readUvarintMayEOF, readBytes) must turn both — io.EOF only where a field is required — into an
// ErrCorrupted, or a crash while an edit was being appended makes every later Open fail with
// "unexpected EOF".
func ruleTornEditIsCorruption(p *Prog, r *Report, rule string) {
	r.Begin(rule, "E-GUARD", "manifest edit decoding: a field reader that got io.ErrUnexpectedEOF (torn record) — or io.EOF where the field is required — records an ErrCorrupted, never the raw error: recovery skips such an edit as a torn tail instead of failing the open", 2)
	defer r.End()
	tRec := "leveldb.sessionRecord"
	isGlobalLoad := func(pkg, name string) VMatch {
		return func(v ssa.Value) bool {
			u, ok := stripConv(v).(*ssa.UnOp)
			return ok && isGlobalNamed(u, pkg, name)
		}
	}
	for _, name := range []string{"(*sessionRecord).readUvarintMayEOF", "(*sessionRecord).readBytes"} {
		fn := resolveFn(p, r, "leveldb", name)
		if fn == nil {
			continue
		}
		// stores to p.err: corrupted (value built by NewErrCorrupted) vs raw
		corrupted := func(in ssa.Instruction) bool {
			st, ok := in.(*ssa.Store)
			return ok && isFieldAddr(st.Addr, tRec, "err") && dependsOnCall(st.Val, "leveldb/errors.NewErrCorrupted", 6)
		}
		raw := func(in ssa.Instruction) bool {
			st, ok := in.(*ssa.Store)
			return ok && isFieldAddr(st.Addr, tRec, "err") && !dependsOnCall(st.Val, "leveldb/errors.NewErrCorrupted", 6)
		}
		if !requireSites(p, r, fn, "marks-corruption", "p.err = errors.NewErrCorrupted(…)", corrupted, 1) {
			continue
		}
		r.Site(1)
		// "the reader's error": the error result of ReadUvarint / ReadFull, or a load of p.err at a point
		// the store of that result into p.err dominates
		fromCall := mErrOfCall("encoding/binary.ReadUvarint", "io.ReadFull")
		var callStores []*ssa.Store
		instrs(fn, func(_ *ssa.BasicBlock, _ int, in ssa.Instruction) {
			if st, ok := in.(*ssa.Store); ok && isFieldAddr(st.Addr, tRec, "err") && fromCall(stripConv(st.Val)) {
				callStores = append(callStores, st)
			}
		})
		anyErr := func(v ssa.Value) bool {
			v = stripConv(v)
			if fromCall(v) {
				return true
			}
			u, ok := v.(*ssa.UnOp)
			if !ok || u.Op != token.MUL || !isFieldAddr(u.X, tRec, "err") {
				return false
			}
			for _, st := range callStores {
				if st.Block() == u.Block() {
					if indexOf(st) < indexOf(u) {
						return true
					}
					continue
				}
				if st.Block().Dominates(u.Block()) {
					return true
				}
			}
			return false
		}
		ueof := cmpAtom("err==io.ErrUnexpectedEOF", token.EQL, anyErr, isGlobalLoad("io", "ErrUnexpectedEOF"))
		notNil := nilAtom("err==nil", anyErr) // an error equal to a sentinel is not nil
		as, vs := []Atom{ueof, notNil}, []bool{true, false}
		// a raw store reachable with err == io.ErrUnexpectedEOF that is not replaced before the return
		var w []*ssa.BasicBlock
		if findPathV(entryPoint(fn), atomEdges(as, vs), corrupted, raw, atomVals(as, vs)) != nil {
			w = findPathV(after(fn, raw), atomEdges(as, vs), corrupted, isReturn, atomVals(as, vs))
		}
		if w != nil {
			r.Fail(fnName(fn), "torn-record-is-corruption", "io.ErrUnexpectedEOF is recorded as ErrCorrupted", "with err == io.ErrUnexpectedEOF a path leaves the raw error in p.err: a manifest edit torn across a block boundary fails every later Open instead of being skipped", p.posOfLast(w, isReturn), p.renderPath(w))
		} else {
			r.OK(fnName(fn), "torn-record-is-corruption", "io.ErrUnexpectedEOF is recorded as ErrCorrupted")
		}
	}
}
