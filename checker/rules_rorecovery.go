package main

import (
	"fmt"

	"golang.org/x/tools/go/ssa"
)

// ruleReadOnlyReplayKept: a read-only open cannot flush, so everything the live journals hold must
// end up in the one buffer the DB then serves from. In DB.recoverJournalRO the buffer every batch is
// decoded into is the buffer installed as db.mem, and nothing empties it in between: no Reset, no
// replacement. (The read-write recovery resets its buffer between journals — after flushing it;
// copying that reset here silently drops every journal but the last.)
func ruleReadOnlyReplayKept(p *Prog, r *Report, rule string) {
	r.Begin(rule, "E-FLOW", "read-only recovery keeps every replayed journal: in recoverJournalRO the memdb passed to decodeBatchToMem is the one stored in db.mem, it is created once (outside the journal loop) and memdb.DB.Reset is not reachable from the function", 2)
	defer r.End()
	fn := resolveFn(p, r, "leveldb", "(*DB).recoverJournalRO")
	if fn == nil {
		return
	}
	dec := findCalls(fn, "leveldb.decodeBatchToMem")
	r.Site(len(dec))
	if len(dec) == 0 {
		r.Fail(fnName(fn), "replay:unresolved-anchor", "batches are decoded into a buffer", "no call to decodeBatchToMem", p.Pos(fn.Pos()), nil)
		return
	}
	// the buffer installed as db.mem: the DB field of the memDB literal stored into db.mem
	var installed ssa.Value
	instrs(fn, func(_ *ssa.BasicBlock, _ int, in ssa.Instruction) {
		st, ok := in.(*ssa.Store)
		if !ok {
			return
		}
		if isFieldAddr(st.Addr, "leveldb.memDB", "DB") {
			installed = stripConv(st.Val)
		}
	})
	r.Site(1)
	if installed == nil {
		r.Fail(fnName(fn), "installed:unresolved-anchor", "the replayed buffer is installed as db.mem", "no memDB{DB: …} construction found", p.Pos(fn.Pos()), nil)
		return
	}
	for _, c := range dec {
		arg := stripConv(callCommon(c).Args[2])
		r.Check(arg == installed, fnName(fn), "replayed-buffer-is-served", "the buffer batches are decoded into is the one installed as db.mem", "decodeBatchToMem writes into a different buffer than the one installed", p.Pos(c.Pos()))
	}
	// created once: the buffer is a single call to memdb.New (not a phi, not inside the loop)
	_, isCall := installed.(*ssa.Call)
	r.Check(isCall && isCallTo(installed.(ssa.Instruction), "leveldb/memdb.New"), fnName(fn), "buffer-created-once", "the buffer is one memdb.New result (not re-created per journal)", fmt.Sprintf("the installed buffer is %T", installed), p.Pos(fn.Pos()))
	if c, ok := installed.(*ssa.Call); ok {
		inLoop := blockInLoop(c.Block())
		r.Check(!inLoop, fnName(fn), "buffer-outside-loop", "the buffer is created outside the journal loop", "memdb.New is called inside a loop", p.Pos(c.Pos()))
	}
	// never emptied: Reset unreachable from the function (through module callees)
	resets := 0
	seen := map[*ssa.Function]bool{}
	var walk func(f *ssa.Function, depth int)
	walk = func(f *ssa.Function, depth int) {
		if f == nil || seen[f] || depth > 4 || len(f.Blocks) == 0 {
			return
		}
		seen[f] = true
		instrs(f, func(_ *ssa.BasicBlock, _ int, in ssa.Instruction) {
			cc := callCommon(in)
			if cc == nil {
				return
			}
			if isCallTo(in, "(*leveldb/memdb.DB).Reset") {
				resets++
				r.Fail(fnName(fn), "buffer-never-reset@"+fnName(f), "the replayed buffer is never emptied during read-only recovery", "memdb.DB.Reset is called (in "+fnName(f)+"): a read-only open cannot have flushed what it replayed, the earlier journals' writes are dropped", p.Pos(in.Pos()), nil)
				return
			}
			if g := staticCallee(cc); g != nil && g.Pkg != nil && g.Pkg.Pkg.Path() == "github.com/syndtr/goleveldb/leveldb" {
				walk(g, depth+1)
			}
		})
	}
	walk(fn, 0)
	if resets == 0 {
		r.OK(fnName(fn), "buffer-never-reset", "the replayed buffer is never emptied during read-only recovery")
	}
}

// blockInLoop: b can reach itself.
func blockInLoop(b *ssa.BasicBlock) bool {
	seen := map[*ssa.BasicBlock]bool{}
	var st []*ssa.BasicBlock
	st = append(st, b.Succs...)
	for len(st) > 0 {
		x := st[len(st)-1]
		st = st[:len(st)-1]
		if x == b {
			return true
		}
		if seen[x] {
			continue
		}
		seen[x] = true
		st = append(st, x.Succs...)
	}
	return false
}
