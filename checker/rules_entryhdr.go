package main

import (
	"fmt"
	"go/token"

	"golang.org/x/tools/go/ssa"
)

// ruleEntryHeaderEncoding: a block entry starts with three uvarints (shared, unshared, value length)
// and the reader decodes exactly that. The writers may only produce header bytes through
// binary.PutUvarint — or write a length L as one raw byte where L < 0x80 is established for THAT
// length (a single comparison, or `a|b|c < 0x80` with L among the or-ed operands: for non-negative
// integers the bit-or bounds each operand). A raw byte >= 0x80 carries a continuation bit: the
// reader decodes a different entry, and the block's checksum — computed over what was written —
// does not notice.
func ruleEntryHeaderEncoding(p *Prog, r *Report, rule string) {
	r.Begin(rule, "E-GUARD", "block and index entry headers are uvarints: in the table writer's encoders every byte stored into the varint scratch area comes from binary.PutUvarint, or is a length L written raw on a path where L < 0x80 was established for that very length", 3)
	defer r.End()
	n := 0
	for _, name := range []string{"(*blockWriter).append", "(*Writer).finishBlock", "(*Writer).flushPendingBH", "encodeBlockHandle"} {
		fn := p.Fn("leveldb/table", name)
		if fn == nil {
			continue
		}
		// uvarint producers
		n += countInstr(fn, evCall("encoding/binary.PutUvarint"))
		// raw byte stores into a byte array/slice element
		var raws []*ssa.Store
		instrs(fn, func(_ *ssa.BasicBlock, _ int, in ssa.Instruction) {
			st, ok := in.(*ssa.Store)
			if !ok {
				return
			}
			if _, isIdx := st.Addr.(*ssa.IndexAddr); !isIdx {
				return
			}
			cv, ok := st.Val.(*ssa.Convert)
			if !ok || !isByteType(cv.Type()) {
				return
			}
			if _, isConst := cv.X.(*ssa.Const); isConst {
				return
			}
			raws = append(raws, st)
		})
		if len(raws) == 0 {
			r.OK(fnName(fn), "header-bytes-from-putuvarint", "every header byte comes from binary.PutUvarint")
		}
		for i, st := range raws {
			n++
			L := st.Val.(*ssa.Convert).X
			sigL := exprSig(L, 6)
			var hasLeaf func(v ssa.Value, depth int) bool
			hasLeaf = func(v ssa.Value, depth int) bool {
				if depth == 0 {
					return false
				}
				if exprSig(v, 6) == sigL {
					return true
				}
				if b, ok := v.(*ssa.BinOp); ok && b.Op == token.OR {
					return hasLeaf(b.X, depth-1) || hasLeaf(b.Y, depth-1)
				}
				return false
			}
			small := cmpAtom("L<0x80", token.LSS, func(v ssa.Value) bool { return hasLeaf(v, 5) }, mConstInt(0x80))
			this := st
			checkGuard(p, r, GuardSpec{Rule: fmt.Sprintf("raw-length-byte-fits#%d", i), Fn: fn,
				Target: func(in ssa.Instruction) bool { return in == ssa.Instruction(this) }, TargetDesc: "writing a length as one raw header byte",
				Atoms: []Atom{small}, G: func(a []bool) bool { return a[0] }, GDesc: "that length < 0x80 (alone or as an operand of a bit-or that is < 0x80)", MinTargets: 1})
		}
	}
	r.Site(n)
}

func isByteType(t interface{ String() string }) bool {
	s := t.String()
	return s == "byte" || s == "uint8"
}
