package main

import (
	"fmt"
	"go/token"
	"go/types"

	"golang.org/x/tools/go/ssa"
)

// ruleMemdbReset: the DB recycles write buffers (mpool): a flushed memdb is Reset() and reused. After
// Reset it must be an EMPTY skip list: element count, byte size and height as in New; the arena
// re-sliced to length 0; the node array cut back to the head node; the head's forward pointers —
// ALL tMaxHeight of them, whatever the height in use — zero (a stale pointer refers to a node beyond
// the cut-back array: out-of-range panic, or a phantom key of the previous buffer's contents).
func ruleMemdbReset(p *Prog, r *Report, rule string) {
	r.Begin(rule, "E-SIB", "memdb.DB.Reset leaves an empty skip list: Len and Size zero (n, kvSize), kvData=kvData[:0], nodeData cut back to the head node (the length New allocates), and every head forward pointer nodeData[nNext+k], k<tMaxHeight, zeroed; the stores that only repeat what New set and nothing changes (head height, head kv fields) and maxHeight (a stale larger value is harmless: the unused head pointers are zero) are not demanded", 5)
	defer r.End()
	const T = "leveldb/memdb.DB"
	nf := resolveFn(p, r, "leveldb/memdb", "New")
	rf := resolveFn(p, r, "leveldb/memdb", "(*DB).Reset")
	if nf == nil || rf == nil {
		return
	}
	scalar := func(fn *ssa.Function, f string) (int64, bool, int) {
		var v int64
		ok := false
		n := 0
		instrs(fn, func(_ *ssa.BasicBlock, _ int, in ssa.Instruction) {
			if st, isS := in.(*ssa.Store); isS && isFieldAddr(st.Addr, T, f) {
				n++
				if k, isC := constInt(st.Val); isC {
					v, ok = k, true
				}
			}
		})
		return v, ok, n
	}
	for _, f := range []string{"n", "kvSize"} {
		r.Site(1)
		nv, nok, nn := scalar(nf, f)
		if nn == 0 {
			nv, nok = 0, true // zero value
		}
		rv, rok, rn := scalar(rf, f)
		r.Check(rn >= 1 && rok && nok && rv == nv, T+"."+f, "reset-scalar", "Reset gives the field the constructor's value", fmt.Sprintf("Reset stores %d times (const %v=%d), New gives %d", rn, rok, rv, nv), p.Pos(rf.Pos()))
	}
	// kvData = kvData[:0]
	sliceTo := func(f string) (int64, bool) {
		var hi int64
		ok := false
		instrs(rf, func(_ *ssa.BasicBlock, _ int, in ssa.Instruction) {
			st, isS := in.(*ssa.Store)
			if !isS || !isFieldAddr(st.Addr, T, f) {
				return
			}
			sl, isSl := stripConv(st.Val).(*ssa.Slice)
			if !isSl || sl.Low != nil || sl.High == nil || !isFieldLoad(sl.X, T, f) {
				return
			}
			if k, isC := constInt(sl.High); isC {
				hi, ok = k, true
			}
		})
		return hi, ok
	}
	r.Site(2)
	hi, ok := sliceTo("kvData")
	r.Check(ok && hi == 0, T+".kvData", "arena-emptied", "Reset re-slices the arena to length 0", fmt.Sprintf("kvData re-sliced: %v to %d", ok, hi), p.Pos(rf.Pos()))
	// nodeData cut back to what New allocates
	var newLen int64 = -1
	instrs(nf, func(_ *ssa.BasicBlock, _ int, in ssa.Instruction) {
		if ms, isM := in.(*ssa.MakeSlice); isM {
			if k, isC := constInt(ms.Len); isC && ms.Type().String() == "[]int" {
				newLen = k
			}
		}
		// make with constant length is lowered to `new [N]int` + slice
		if al, isA := in.(*ssa.Alloc); isA {
			if pt, okP := al.Type().Underlying().(*types.Pointer); okP {
				if at, okA := pt.Elem().Underlying().(*types.Array); okA && at.Elem().String() == "int" {
					newLen = at.Len()
				}
			}
		}
	})
	hi, ok = sliceTo("nodeData")
	r.Check(ok && newLen > 0 && hi == newLen, T+".nodeData", "nodes-cut-back", "Reset cuts the node array back to the head node, the length New allocates", fmt.Sprintf("Reset re-slices to %d (found %v), New allocates %d", hi, ok, newLen), p.Pos(rf.Pos()))
	if newLen <= 4 {
		return
	}
	tMax := newLen - 4
	// every forward pointer of the head is zeroed: a store of 0 to nodeData[nNext + k] in a loop
	// whose induction variable runs from 0 while k < tMaxHeight (constant bound = New's length - 4)
	r.Site(1)
	found := ""
	instrs(rf, func(b *ssa.BasicBlock, _ int, in ssa.Instruction) {
		st, isS := in.(*ssa.Store)
		if !isS {
			return
		}
		ia, isIA := st.Addr.(*ssa.IndexAddr)
		if !isIA || !isFieldLoad(ia.X, T, "nodeData") {
			return
		}
		if c, isC := constInt(st.Val); !isC || c != 0 {
			return
		}
		add, isAdd := stripConv(ia.Index).(*ssa.BinOp)
		if !isAdd || add.Op != token.ADD {
			return
		}
		var iv ssa.Value
		if k, isC := constInt(add.X); isC && k == 4 {
			iv = stripConv(add.Y)
		} else if k, isC := constInt(add.Y); isC && k == 4 {
			iv = stripConv(add.X)
		}
		ph, isPhi := iv.(*ssa.Phi)
		if !isPhi {
			return
		}
		// induction: phi [0, phi+1]; loop condition phi < const tMax
		startsZero, stepsOne := false, false
		for _, e := range ph.Edges {
			if k, isC := constInt(e); isC && k == 0 {
				startsZero = true
			}
			if bo, isB := stripConv(e).(*ssa.BinOp); isB && bo.Op == token.ADD && stripConv(bo.X) == ssa.Value(ph) {
				if k, isC := constInt(bo.Y); isC && k == 1 {
					stepsOne = true
				}
			}
		}
		bound := int64(-1)
		for _, ref := range *ph.Referrers() {
			if bo, isB := ref.(*ssa.BinOp); isB && bo.Op == token.LSS && stripConv(bo.X) == ssa.Value(ph) {
				if k, isC := constInt(bo.Y); isC {
					bound = k
				} else {
					bound = -2 // non-constant bound (e.g. the height in use)
				}
			}
		}
		if startsZero && stepsOne && bound == tMax {
			found = "ok"
		} else if found == "" {
			found = fmt.Sprintf("loop from 0:%v step 1:%v bound %d (want %d)", startsZero, stepsOne, bound, tMax)
		}
	})
	r.Check(found == "ok", T+".nodeData[nNext+k]", "all-head-pointers-zeroed", "Reset zeroes all tMaxHeight forward pointers of the head node", "no zeroing loop over k in [0,tMaxHeight) found: "+found, p.Pos(rf.Pos()))
}
