package main

import (
	"bufio"
	"encoding/json"
	"fmt"
	"os"
	"path/filepath"
	"sort"
	"strings"
	"time"
)

// Obl is one obligation: a rule instance applied to one construct.
type Obl struct {
	Rule      string   `json:"rule"`      // e.g. C09.2
	Construct string   `json:"construct"` // e.g. leveldb.(*Transaction).Commit
	Kind      string   `json:"kind"`      // short stable discriminator of what is demanded/failed (part of the finding key)
	What      string   `json:"what"`      // human description of the obligation
	Status    string   `json:"status"`    // ok | violation | known
	Detail    string   `json:"detail,omitempty"`
	Pos       string   `json:"pos,omitempty"`
	Path      []string `json:"path,omitempty"` // witness path (file:line list)
}

func (o *Obl) Key() string { return o.Rule + "|" + o.Construct + "|" + o.Kind }

// RuleStat summarises one rule's run.
type RuleStat struct {
	Rule   string `json:"rule"`
	Engine string `json:"engine"`
	Text   string `json:"text"`
	Sites  int    `json:"sites"`
	Floor  int    `json:"floor"`
	Obls   int    `json:"obligations"`
	Failed int    `json:"failed"`
}

type Report struct {
	Prop     string
	Tier     string
	Seed     int64
	Obls     []*Obl
	Rules    []*RuleStat
	cur      *RuleStat
	Funcs    map[string]bool // functions analysed
	Notes    []string
	Extra    map[string]interface{}
	start    time.Time
	verifDir string
	outDir   string
}

func newReport(prop, tier string, seed int64, verifDir string) *Report {
	return &Report{Prop: prop, Tier: tier, Seed: seed, Funcs: map[string]bool{}, Extra: map[string]interface{}{}, start: progStart, verifDir: verifDir, outDir: verifDir + "/evidence"}
}

// Begin starts a rule; floor is the minimum number of sites the rule must match.
func (r *Report) Begin(rule, engine, text string, floor int) {
	r.cur = &RuleStat{Rule: rule, Engine: engine, Text: text, Floor: floor}
	r.Rules = append(r.Rules, r.cur)
}

// Site counts one matched site for the vacuity floor.
func (r *Report) Site(n int) { r.cur.Sites += n }

func (r *Report) add(o *Obl) *Obl {
	o.Rule = r.cur.Rule
	r.cur.Obls++
	if o.Status != "ok" {
		r.cur.Failed++
	}
	r.Obls = append(r.Obls, o)
	return o
}

func (r *Report) OK(construct, kind, what string) {
	r.add(&Obl{Construct: construct, Kind: kind, What: what, Status: "ok"})
}

func (r *Report) Fail(construct, kind, what, detail, pos string, path []string) {
	r.add(&Obl{Construct: construct, Kind: kind, What: what, Status: "violation", Detail: detail, Pos: pos, Path: path})
}

// Check records ok or violation.
func (r *Report) Check(ok bool, construct, kind, what, detail, pos string) {
	if ok {
		r.OK(construct, kind, what)
	} else {
		r.Fail(construct, kind, what, detail, pos, nil)
	}
}

// End closes a rule and enforces the vacuity floor.
func (r *Report) End() {
	if r.cur == nil {
		return
	}
	if r.cur.Sites < r.cur.Floor {
		r.Fail("rule:"+r.cur.Rule, "vacuous", "rule matches at least the hand-confirmed number of sites",
			fmt.Sprintf("matched %d sites, floor %d: the anchor moved or the rule no longer sees the code it was written for", r.cur.Sites, r.cur.Floor), "", nil)
	}
	r.cur = nil
}

func (r *Report) Fn(name string) { r.Funcs[name] = true }

// ---- known findings ----

type knownEntry struct {
	prop, key, text string
}

func loadKnown(path string) ([]knownEntry, error) {
	f, err := os.Open(path)
	if err != nil {
		if os.IsNotExist(err) {
			return nil, nil
		}
		return nil, err
	}
	defer f.Close()
	var out []knownEntry
	sc := bufio.NewScanner(f)
	for sc.Scan() {
		line := strings.TrimSpace(sc.Text())
		if !strings.HasPrefix(line, "known:") {
			continue // comments and "fixed:" entries suppress nothing
		}
		rest := strings.TrimSpace(strings.TrimPrefix(line, "known:"))
		fields := strings.Fields(rest)
		var e knownEntry
		var txt []string
		for _, f := range fields {
			switch {
			case strings.HasPrefix(f, "property=") && e.prop == "":
				e.prop = strings.TrimPrefix(f, "property=")
			case strings.HasPrefix(f, "key=") && e.key == "":
				e.key = strings.TrimPrefix(f, "key=")
			default:
				txt = append(txt, f)
			}
		}
		e.text = strings.Join(txt, " ")
		if e.prop != "" && e.key != "" {
			out = append(out, e)
		}
	}
	return out, sc.Err()
}

// Finish applies the known-findings file, prints the summary and VIOLATION lines, writes
// replay files and evidence, and returns the exit code.
func (r *Report) Finish(explanation string, assumptions []string, notCovered string) int {
	if r.cur != nil {
		r.End()
	}
	for _, n := range normNotes {
		fmt.Println("NOTE source normalisation:", n)
		assumptions = append(assumptions, "source normalisation (new helper functions inlined before analysis): "+n)
	}
	known, err := loadKnown(filepath.Join(r.verifDir, "known_findings.txt"))
	if err != nil {
		fmt.Printf("cannot read known_findings.txt: %v\n", err)
	}
	used := map[int]bool{}
	for _, o := range r.Obls {
		if o.Status != "violation" {
			continue
		}
		for i, k := range known {
			if k.prop == r.Prop && (k.key == o.Key() || k.key == baseKeyOfCfgObligation(o)) {
				o.Status = "known"
				used[i] = true
				fmt.Printf("KNOWN-FINDING: property=%s %s %s %s: %s\n", r.Prop, o.Rule, o.Construct, o.Kind, k.text)
				break
			}
		}
	}
	// print rule summary
	fmt.Printf("== %s (%s tier): %d rules, %d obligations, %d functions analysed\n", r.Prop, r.Tier, len(r.Rules), len(r.Obls), len(r.Funcs))
	for _, rs := range r.Rules {
		fmt.Printf("   %-8s %-7s sites=%-4d floor=%-3d obligations=%-4d failed=%d  %s\n", rs.Rule, rs.Engine, rs.Sites, rs.Floor, rs.Obls, rs.Failed, rs.Text)
	}
	for _, n := range r.Notes {
		fmt.Printf("   note: %s\n", n)
	}
	vdir := filepath.Join(r.outDir, r.Prop+".violations")
	os.RemoveAll(vdir)
	nviol, nknown, nok := 0, 0, 0
	for _, o := range r.Obls {
		switch o.Status {
		case "ok":
			nok++
		case "known":
			nknown++
		case "violation":
			nviol++
			os.MkdirAll(vdir, 0o755)
			fn := filepath.Join(vdir, fmt.Sprintf("%d.txt", nviol))
			var sb strings.Builder
			fmt.Fprintf(&sb, "property: %s\nrule: %s\nconstruct: %s\nkind: %s\nat: %s\nobligation: %s\nwhat fails: %s\nkey: %s\n", r.Prop, o.Rule, o.Construct, o.Kind, o.Pos, o.What, o.Detail, o.Key())
			if len(o.Path) > 0 {
				fmt.Fprintf(&sb, "witness path:\n")
				for _, p := range o.Path {
					fmt.Fprintf(&sb, "  %s\n", p)
				}
			}
			os.WriteFile(fn, []byte(sb.String()), 0o644)
			fmt.Printf("   FAIL %s %s [%s] at %s: %s\n", o.Rule, o.Construct, o.Kind, o.Pos, o.Detail)
			fmt.Printf("VIOLATION property=%s replay=%s\n", r.Prop, fn)
		}
	}
	// evidence
	type sample struct {
		Rule      string `json:"rule"`
		Construct string `json:"construct"`
		Kind      string `json:"kind"`
		What      string `json:"obligation"`
		Status    string `json:"verdict"`
		Detail    string `json:"detail,omitempty"`
		Pos       string `json:"at,omitempty"`
	}
	var samples []sample
	// all non-ok first, then up to 60 ok samples spread over rules
	perRule := map[string]int{}
	for _, o := range r.Obls {
		if o.Status != "ok" {
			samples = append(samples, sample{o.Rule, o.Construct, o.Kind, o.What, o.Status, o.Detail, o.Pos})
		}
	}
	for _, o := range r.Obls {
		if o.Status == "ok" && perRule[o.Rule] < 4 && len(samples) < 200 {
			perRule[o.Rule]++
			samples = append(samples, sample{o.Rule, o.Construct, o.Kind, o.What, o.Status, "", o.Pos})
		}
	}
	fns := make([]string, 0, len(r.Funcs))
	for f := range r.Funcs {
		fns = append(fns, f)
	}
	sort.Strings(fns)
	distinct := map[string]bool{}
	for _, o := range r.Obls {
		distinct[o.Key()+"|"+o.What] = true
	}
	cov := map[string]interface{}{
		"explanation":         explanation,
		"not_covered":         notCovered,
		"obligations":         len(r.Obls),
		"discharged":          nok,
		"known_findings":      nknown,
		"evaluations":         len(r.Obls),
		"distinct_nontrivial": len(distinct),
		"rule":                "one obligation = one rule instance applied to one construct (function, call site, field access, CFG path family); distinct = distinct (rule, construct, kind, obligation text); every obligation is non-trivial in that it is decided from /repo's current SSA/AST, none is a constant",
		"samples":             samples,
		"rules":               r.Rules,
		"functions_analysed":  fns,
		"checker_cmd":         strings.Join(os.Args, " "),
		"trusted_base":        []string{"go/types and golang.org/x/tools/go/ssa v0.29.0 (SSA construction, VTA call graph)", "the rule tables in /verif/checker (hand-confirmed anchors)", "Go memory model / sync semantics as documented"},
	}
	for k, v := range r.Extra {
		cov[k] = v
	}
	ev := map[string]interface{}{
		"property_id": r.Prop,
		"tier":        r.Tier,
		"seed":        r.Seed,
		"level":       "other",
		"coverage":    cov,
		"assumptions": assumptions,
		"wall_s":      time.Since(r.start).Seconds(),
		"violations":  nviol,
	}
	b, _ := json.MarshalIndent(ev, "", " ")
	os.MkdirAll(r.outDir, 0o755)
	if err := os.WriteFile(filepath.Join(r.outDir, r.Prop+".json"), b, 0o644); err != nil {
		fmt.Printf("cannot write evidence: %v\n", err)
		return 2
	}
	fmt.Printf("== %s: ok=%d known=%d violations=%d wall=%.1fs\n", r.Prop, nok, nknown, nviol, time.Since(r.start).Seconds())
	if nviol > 0 {
		return 1
	}
	return 0
}

// failed counts the obligations recorded as violated so far (used by controls on a scratch report).
func (r *Report) failed() int {
	n := 0
	for _, o := range r.Obls {
		if o.Status != "ok" && o.Status != "known" {
			n++
		}
	}
	return n
}

// baseKeyOfCfgObligation: the thorough tier re-runs every rule on other GOOS/GOARCH loads and
// records a failure there as rule "<prop>.cfg[<os/arch>]", construct "[<os/arch>] <construct>",
// kind "<rule>:<kind>". A known finding is the same finding on every configuration: map such an
// obligation back to the key it has on the native load.
func baseKeyOfCfgObligation(o *Obl) string {
	i := strings.Index(o.Rule, ".cfg[")
	if i < 0 {
		return ""
	}
	c := o.Construct
	if strings.HasPrefix(c, "[") {
		if j := strings.Index(c, "] "); j >= 0 {
			c = c[j+2:]
		}
	}
	k := strings.SplitN(o.Kind, ":", 2)
	if len(k) != 2 {
		return ""
	}
	return k[0] + "|" + c + "|" + k[1]
}
