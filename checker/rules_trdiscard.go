package main

import (
	"fmt"
	"go/token"

	"golang.org/x/tools/go/ssa"
)

// loopCoversAll: idx is the index with which `slice` is read inside a loop; reports whether the loop
// visits EVERY index 0 … len(slice)-1. Recognised: the compiler's range loop (index phi from -1,
// +1 per round, compared `< len`), an ascending counting loop (from 0, +1, while `< len`) and a
// descending one (from len-1, -1, while `>= 0` / `> -1`).
func loopCoversAll(idx ssa.Value, isLenOfSlice func(ssa.Value) bool) (bool, string) {
	idx = stripConv(idx)
	var ph *ssa.Phi
	off := int64(0) // idx = phi + off
	switch x := idx.(type) {
	case *ssa.Phi:
		ph = x
	case *ssa.BinOp:
		if p2, ok := stripConv(x.X).(*ssa.Phi); ok && x.Op == token.ADD {
			if k, isC := constInt(x.Y); isC {
				ph, off = p2, k
			}
		}
	}
	if ph == nil {
		return false, "the index is not a loop variable"
	}
	var init ssa.Value
	step := int64(0)
	for _, e := range ph.Edges {
		e = stripConv(e)
		if b, ok := e.(*ssa.BinOp); ok && (b.Op == token.ADD || b.Op == token.SUB) && stripConv(b.X) == ssa.Value(ph) {
			if k, isC := constInt(b.Y); isC {
				if b.Op == token.SUB {
					k = -k
				}
				step = k
				continue
			}
		}
		init = e
	}
	if init == nil || (step != 1 && step != -1) {
		return false, fmt.Sprintf("not a unit-step counting loop (step %d)", step)
	}
	// the loop condition: a comparison of the phi (or phi+step: the range form compares the
	// incremented value) with a bound
	type cond struct {
		op    token.Token
		delta int64 // compared value = phi + delta
		bound ssa.Value
	}
	var conds []cond
	collect := func(v ssa.Value, delta int64) {
		refs := v.Referrers()
		if refs == nil {
			return
		}
		for _, ref := range *refs {
			b, ok := ref.(*ssa.BinOp)
			if !ok || !isCmpOp(b.Op) {
				continue
			}
			if stripConv(b.X) == v {
				conds = append(conds, cond{b.Op, delta, b.Y})
			} else if stripConv(b.Y) == v {
				flip := map[token.Token]token.Token{token.LSS: token.GTR, token.LEQ: token.GEQ, token.GTR: token.LSS, token.GEQ: token.LEQ, token.EQL: token.EQL, token.NEQ: token.NEQ}
				conds = append(conds, cond{flip[b.Op], delta, b.X})
			}
		}
	}
	collect(ph, 0)
	for _, e := range ph.Edges {
		if b, ok := stripConv(e).(*ssa.BinOp); ok && stripConv(b.X) == ssa.Value(ph) {
			collect(b, step)
		}
	}
	if len(conds) == 0 {
		return false, "no loop condition on the index found"
	}
	lenMinus := func(v ssa.Value, k int64) bool {
		v = stripConv(v)
		if k == 0 {
			return isLenOfSlice(v)
		}
		b, ok := v.(*ssa.BinOp)
		if !ok {
			return false
		}
		c, isC := constInt(b.Y)
		return isC && isLenOfSlice(stripConv(b.X)) && ((b.Op == token.SUB && c == k) || (b.Op == token.ADD && c == -k))
	}
	for _, c := range conds {
		if step == 1 {
			// first index visited = init + off (+ step if the compared value is the incremented one
			// and the body uses it: the range form) — normalise on the VALUE used as index
			first, firstOK := constInt(init)
			if !firstOK {
				continue
			}
			// index used in the body
			usedFirst := first + off
			if c.delta == step && off == step { // range form: idx = phi+1, compared phi+1 < len
				if usedFirst == 0 && c.op == token.LSS && lenMinus(c.bound, 0) {
					return true, ""
				}
			}
			if c.delta == 0 && off == 0 && usedFirst == 0 {
				if (c.op == token.LSS && lenMinus(c.bound, 0)) || (c.op == token.LEQ && lenMinus(c.bound, 1)) || (c.op == token.NEQ && lenMinus(c.bound, 0)) {
					return true, ""
				}
			}
		} else {
			if off != 0 || c.delta != 0 || !lenMinus(init, 1) {
				continue
			}
			if k, isC := constInt(c.bound); isC && ((c.op == token.GEQ && k == 0) || (c.op == token.GTR && k == -1)) {
				return true, ""
			}
			if k, isC := constInt(c.bound); isC {
				return false, fmt.Sprintf("the descending loop runs while index %s %d: index 0 is never visited", c.op, k)
			}
		}
	}
	return false, "the loop bounds do not cover every index (from 0 to len-1)"
}

// ruleDiscardRemovesAllTables: a discarded transaction (Discard, Close with an open transaction, the
// rollback of a failed large-batch Write) leaves no files behind: discard hands EVERY table the
// transaction spilled to tOps.remove — the loop over tr.tables visits every index and the call is
// unconditional in its body.
func ruleDiscardRemovesAllTables(p *Prog, r *Report, rule string) {
	r.Begin(rule, "E-EXH", "Transaction.discard removes every spilled table: tOps.remove(t.fd) is called, unconditionally, for t = tr.tables[i] over a loop that visits every index 0 … len(tr.tables)-1; the list is then forgotten", 2)
	defer r.End()
	fn := resolveFn(p, r, "leveldb", "(*Transaction).discard")
	if fn == nil {
		return
	}
	rms := findCalls(fn, "(*leveldb.tOps).remove")
	r.Site(len(rms))
	if len(rms) == 0 {
		r.Fail(fnName(fn), "removes-tables:unresolved-anchor", "discard removes the transaction's tables through tOps.remove", "no call found", p.Pos(fn.Pos()), nil)
		return
	}
	isLen := func(v ssa.Value) bool {
		c, ok := v.(*ssa.Call)
		return ok && isCallTo(c, "builtin:len") && isFieldLoad(c.Call.Args[0], "leveldb.Transaction", "tables")
	}
	for _, c := range rms {
		// the argument is (*tFile).fd of tr.tables[idx]
		arg := stripConv(callCommon(c).Args[1])
		var idx ssa.Value
		for v, depth := arg, 0; v != nil && depth < 6 && idx == nil; depth++ {
			switch x := v.(type) {
			case *ssa.UnOp:
				v = stripConv(x.X)
			case *ssa.FieldAddr:
				v = stripConv(x.X)
			case *ssa.Field:
				v = stripConv(x.X)
			case *ssa.IndexAddr:
				if isFieldLoad(x.X, "leveldb.Transaction", "tables") {
					idx = x.Index
				}
				v = nil
			default:
				v = nil
			}
		}
		r.Site(1)
		if idx == nil {
			r.Fail(fnName(fn), "every-table-removed", "the table removed is an element of tr.tables", "the argument of tOps.remove is not tr.tables[i].fd", p.Pos(c.Pos()), nil)
			continue
		}
		ok, why := loopCoversAll(idx, isLen)
		r.Check(ok, fnName(fn), "every-table-removed", "the loop that removes the transaction's tables visits every index of tr.tables", why+": a spilled table stays on storage, in no version, until the janitor of the next Open", p.Pos(c.Pos()))
		// unconditional in the loop body: from the element load to the loop's back edge every path passes the call
		if ia, okIA := func() (*ssa.IndexAddr, bool) {
			var found *ssa.IndexAddr
			instrs(fn, func(_ *ssa.BasicBlock, _ int, in ssa.Instruction) {
				if x, isIA := in.(*ssa.IndexAddr); isIA && isFieldLoad(x.X, "leveldb.Transaction", "tables") && found == nil {
					found = x
				}
			})
			return found, found != nil
		}(); okIA {
			r.Site(1)
			this := func(in ssa.Instruction) bool { return in == c }
			loopHead := func(in ssa.Instruction) bool {
				ph, isPhi := in.(*ssa.Phi)
				return isPhi && ph.Block().Dominates(ia.Block()) && ph.Block() != ia.Block()
			}
			if w := findPath([]point{{ia.Block(), indexOf(ia) + 1}}, nil, this, orPred(loopHead, isReturn)); w != nil {
				r.Fail(fnName(fn), "removal-unconditional", "every visited table is removed", "a path through the loop body skips tOps.remove", p.Pos(c.Pos()), p.renderPath(w))
			} else {
				r.OK(fnName(fn), "removal-unconditional", "every visited table is removed")
			}
		}
	}
}
