package main

import (
	"fmt"

	"golang.org/x/tools/go/ssa"
)

// ruleBlockRangeSlicing: a ranged table iterator slices the INDEX block inclusively at the limit
// (the block whose index key is >= Limit may still hold keys below it) and the DATA blocks
// exclusively; the slice bounds of a block iterator are only narrowed when the bound was found.
func ruleBlockRangeSlicing(p *Prog, r *Report, rule string) {
	r.Begin(rule, "E-GUARD", "block range slicing: the index block iterator is built with inclLimit=true (the first index entry >= Limit is still needed), data block iterators with inclLimit=false and with the range handed to the table iterator; newBlockIter narrows offsetLimit only when Seek(Limit) succeeded (and, inclusively, only when a following entry exists), narrows the start only from Seek(Start), and restores the cursor (reset) afterwards", 6)
	defer r.End()
	tbl := "leveldb/table"
	nbi := "(*leveldb/table.Reader).newBlockIter"
	for _, sp := range []struct {
		fn   string
		want bool
		what string
	}{
		{"(*Reader).NewIterator", true, "index block of a ranged table iterator"},
		{"(*Reader).getDataIter", false, "data block"},
		{"(*Reader).find", true, "index block of a lookup"},
	} {
		fn := resolveFn(p, r, tbl, sp.fn)
		if fn == nil {
			continue
		}
		w := sp.want
		checkCallArg(p, r, fn, "limit-inclusion", nbi, 4, func(v ssa.Value) bool { b, ok := constBool(v); return ok && b == w }, fmt.Sprintf("inclLimit=%v for the %s", w, sp.what))
	}
	if fn := resolveFn(p, r, tbl, "(*Reader).NewIterator"); fn != nil {
		checkCallArg(p, r, fn, "index-sliced-with-range", nbi, 3, mParam("slice"), "the caller's range")
		// the data iterators created through the index receive the same range
		r.Site(1)
		okv := false
		instrs(fn, func(_ *ssa.BasicBlock, _ int, in ssa.Instruction) {
			if st, ok := in.(*ssa.Store); ok && isFieldAddr(st.Addr, "leveldb/table.indexIter", "slice") && mParam("slice")(st.Val) {
				okv = true
			}
		})
		r.Check(okv, fnName(fn), "data-blocks-get-range", "the index iterator carries the range to the data block iterators it creates", "indexIter.slice is not the caller's range", p.Pos(fn.Pos()))
	}
	if fn := resolveFn(p, r, tbl, "(*indexIter).Get"); fn != nil {
		// only the first / last block of the walk is sliced; interior blocks are inside the range
		r.Site(1)
		n := len(findCalls(fn, "(*leveldb/table.Reader).getDataIter", "(*leveldb/table.Reader).getDataIterErr"))
		r.Check(n >= 1, fnName(fn), "creates-data-iterators", "indexIter.Get creates the data block iterators", fmt.Sprintf("%d", n), p.Pos(fn.Pos()))
		for _, c := range findCalls(fn, "(*leveldb/table.Reader).getDataIter", "(*leveldb/table.Reader).getDataIterErr") {
			r.Site(1)
			a := callCommon(c).Args[2]
			ok := originsAll(a, func(l ssa.Value) bool { return isNilConst(l) || isFieldLoad(l, "leveldb/table.indexIter", "slice") })
			r.Check(ok, fnName(fn), "data-range-origin@"+branchLabel(c), "a data block is sliced with the iterator's own range (or not at all when interior)", "another range", p.Pos(c.Pos()))
		}
		// the range is applied to the edge blocks: dropping it there leaks out-of-range keys
		first := boolAtom("isFirst()", mCall("(*leveldb/table.blockIter).isFirst"))
		last := boolAtom("isLast()", mCall("(*leveldb/table.blockIter).isLast"))
		hasSlice := nilAtom("slice==nil", mFieldLoad("leveldb/table.indexIter", "slice"))
		unsliced := func(in ssa.Instruction) bool {
			if !isCallTo(in, "(*leveldb/table.Reader).getDataIter", "(*leveldb/table.Reader).getDataIterErr") {
				return false
			}
			a := callCommon(in).Args[2]
			ph, ok := a.(*ssa.Phi)
			if !ok {
				return isNilConst(a)
			}
			_ = ph
			return false
		}
		_ = unsliced
		// phi form: slice = phi[nil, i.slice]; the nil edge must come only from ¬(first ∨ last) or slice==nil
		r.Site(1)
		okEdge := false
		instrs(fn, func(_ *ssa.BasicBlock, _ int, in ssa.Instruction) {
			c, ok := in.(*ssa.Call)
			if !ok || !isCallTo(c, "(*leveldb/table.Reader).getDataIter", "(*leveldb/table.Reader).getDataIterErr") {
				return
			}
			ph, ok := c.Call.Args[2].(*ssa.Phi)
			if !ok {
				return
			}
			for k, e := range ph.Edges {
				if isFieldLoad(e, "leveldb/table.indexIter", "slice") {
					// the edge carrying the range comes from the block reached when isFirst() || isLast()
					pb := ph.Block().Preds[k]
					if w := findPathV(entryPoint(fn), atomEdges([]Atom{first, last, hasSlice}, []bool{false, false, false}), nil, func(i2 ssa.Instruction) bool { return i2.Block() == pb }, atomVals([]Atom{first, last, hasSlice}, []bool{false, false, false})); w == nil {
						// unreachable when neither first nor last: good; and reachable when first
						if w2 := findPathV(entryPoint(fn), atomEdges([]Atom{first, last, hasSlice}, []bool{true, false, false}), nil, func(i2 ssa.Instruction) bool { return i2.Block() == pb }, atomVals([]Atom{first, last, hasSlice}, []bool{true, false, false})); w2 != nil {
							if w3 := findPathV(entryPoint(fn), atomEdges([]Atom{first, last, hasSlice}, []bool{false, true, false}), nil, func(i2 ssa.Instruction) bool { return i2.Block() == pb }, atomVals([]Atom{first, last, hasSlice}, []bool{false, true, false})); w3 != nil {
								okEdge = true
							}
						}
					}
				}
			}
		})
		r.Check(okEdge, fnName(fn), "edge-blocks-sliced", "the first and the last data block of a ranged walk are sliced with the range; interior blocks are not", "the range is not applied exactly to the first/last block", p.Pos(fn.Pos()))
	}
	if fn := resolveFn(p, r, tbl, "(*Reader).newBlockIter"); fn != nil {
		tBI := "leveldb/table.blockIter"
		seekOK := boolAtom("Seek(bound)", mCall("(*leveldb/table.blockIter).Seek"))
		nextOK := boolAtom("Next()", mCall("(*leveldb/table.blockIter).Next"))
		incl := boolAtom("inclLimit", mParam("inclLimit"))
		limStore := func(in ssa.Instruction) bool {
			st, ok := in.(*ssa.Store)
			if !ok || !isFieldAddr(st.Addr, tBI, "offsetLimit") {
				return false
			}
			return isFieldLoad(st.Val, tBI, "prevOffset")
		}
		checkGuard(p, r, GuardSpec{Rule: "limit-narrowed-only-when-found", Fn: fn, Target: limStore, TargetDesc: "offsetLimit = prevOffset", Atoms: []Atom{seekOK, nextOK, incl}, G: func(a []bool) bool { return a[0] && (!a[2] || a[1]) }, GDesc: "Seek(Limit) found an entry ∧ (exclusive ∨ a following entry exists)", MinTargets: 1})
		ordOnSuccess(p, r, fn, "cursor-restored", assumeBool(func(v ssa.Value) (bool, bool) {
			if x, nonNil, ok := condNilTest(v); ok && mParam("slice")(x) {
				return nonNil, true
			}
			return false, false
		}), evCall("(*leveldb/table.blockIter).reset"), "bi.reset() after locating the bounds")
		// an inverted range is an error, not an empty or full walk
		requireSites(p, r, fn, "inverted-range-reported", "offsetStart > offsetLimit is reported through sErr", evCall("(*leveldb/table.blockIter).sErr"), 1)
	}
}
