package main

import (
	"fmt"
	"go/token"
	"strings"

	"golang.org/x/tools/go/ssa"
)

// E-GUARD: "instruction S executes only under condition G".
//
// G is a boolean formula over atoms. An atom is recognised semantically on the condition value of
// an SSA If (comparison kind + operand origins), never by text. For every assignment of the atoms
// that makes G false, all CFG edges that contradict the assignment are removed; if S is still
// reachable the guard is too weak and the assignment plus a witness path are reported.
// Strengthening a guard (a<b where a<=b is required) is accepted: a stronger test only tells us the
// atom holds on its true edge.

type VMatch func(v ssa.Value) bool

type Atom struct {
	Name string
	// Match inspects an If condition (already stripped of leading NOTs by the engine) and returns
	// what the TRUE and FALSE outcomes imply about the atom: +1 atom holds, -1 atom does not hold,
	// 0 nothing known.
	Match func(cond ssa.Value) (whenTrue, whenFalse int)
}

// relImplies: if relation `have` holds between (x,y), what does it say about `want`?
// returns +1 (want holds), -1 (want does not hold), 0 unknown.
func relImplies(have, want token.Token) int {
	type set uint8 // bit0: x<y, bit1: x==y, bit2: x>y
	m := map[token.Token]set{token.LSS: 1, token.EQL: 2, token.GTR: 4, token.LEQ: 3, token.GEQ: 6, token.NEQ: 5}
	h, w := m[have], m[want]
	if h == 0 || w == 0 {
		return 0
	}
	if h&^w == 0 {
		return +1
	}
	if h&w == 0 {
		return -1
	}
	return 0
}

// cmpAtom: the atom "X want Y".
func cmpAtom(name string, want token.Token, X, Y VMatch) Atom {
	return Atom{Name: name, Match: func(cond ssa.Value) (int, int) {
		b, ok := cond.(*ssa.BinOp)
		if !ok || !isCmpOp(b.Op) {
			return 0, 0
		}
		var have token.Token
		switch {
		case X(b.X) && Y(b.Y):
			have = b.Op
		case X(b.Y) && Y(b.X):
			have = flipOp(b.Op)
		default:
			return 0, 0
		}
		return relImplies(have, want), relImplies(negOp(have), want)
	}}
}

// boolAtom: the atom "v is true" for a boolean value recognised by m.
func boolAtom(name string, m VMatch) Atom {
	return Atom{Name: name, Match: func(cond ssa.Value) (int, int) {
		if m(cond) {
			return +1, -1
		}
		return 0, 0
	}}
}

// nilAtom: the atom "v == nil" for values recognised by m.
func nilAtom(name string, m VMatch) Atom {
	return Atom{Name: name, Match: func(cond ssa.Value) (int, int) {
		x, trueNonNil, ok := condNilTest(cond)
		if !ok || !(m(x) || m(testedValue(x))) {
			return 0, 0
		}
		if trueNonNil {
			return -1, +1
		}
		return +1, -1
	}}
}

func ifCond(b *ssa.BasicBlock) (ssa.Value, bool, bool) {
	if len(b.Instrs) == 0 {
		return nil, false, false
	}
	iff, ok := b.Instrs[len(b.Instrs)-1].(*ssa.If)
	if !ok {
		return nil, false, false
	}
	cond := iff.Cond
	neg := false
	for {
		if u, isU := cond.(*ssa.UnOp); isU && u.Op == token.NOT {
			cond = u.X
			neg = !neg
			continue
		}
		break
	}
	return cond, neg, true
}

// atomEdges builds the edge filter for one assignment.
func atomEdges(atoms []Atom, assign []bool) EdgeFilter {
	return func(b *ssa.BasicBlock, succ int) bool {
		cond, neg, ok := ifCond(b)
		if !ok {
			return true
		}
		for i, a := range atoms {
			wt, wf := a.Match(cond)
			if neg {
				wt, wf = wf, wt
			}
			imp := wt
			if succ == 1 {
				imp = wf
			}
			if imp == +1 && !assign[i] {
				return false
			}
			if imp == -1 && assign[i] {
				return false
			}
		}
		return true
	}
}

// atomVals gives the truth of a boolean SSA value that IS an atom (exact match) under assign.
func atomVals(atoms []Atom, assign []bool) boolValFn {
	return func(v ssa.Value) (bool, bool) {
		for i, a := range atoms {
			wt, wf := a.Match(v)
			if wt == +1 && wf == -1 {
				return assign[i], true
			}
			if wt == -1 && wf == +1 {
				return !assign[i], true
			}
		}
		return false, false
	}
}

// atomSites counts the If conditions in fn that each atom recognises.
func atomSites(fn *ssa.Function, atoms []Atom) []int {
	n := make([]int, len(atoms))
	for _, b := range fn.Blocks {
		cond, _, ok := ifCond(b)
		if !ok {
			continue
		}
		for i, a := range atoms {
			if wt, wf := a.Match(cond); wt != 0 || wf != 0 {
				n[i]++
			}
		}
	}
	return n
}

type GuardSpec struct {
	Rule       string // kind key
	Fn         *ssa.Function
	Starts     []point // nil = function entry
	Target     InstrPred
	TargetDesc string
	Atoms      []Atom
	G          func(a []bool) bool
	GDesc      string
	Extra      EdgeFilter
	Avoid      InstrPred           // instructions that end a path (e.g. the start of the next loop iteration)
	Consistent func(a []bool) bool // optional: assignments that cannot occur (mutually exclusive atoms) are skipped
	MinTargets int
}

// evalGuard evaluates the spec: ok, or a description and witness of the falsifying assignment.
func evalGuard(p *Prog, gs GuardSpec) (ok bool, kind, detail, pos string, path []string, nt int) {
	nt = countInstr(gs.Fn, gs.Target)
	if nt < gs.MinTargets || nt == 0 {
		return false, "unresolved-anchor", fmt.Sprintf("guarded construct (%s) matched %d instructions, expected >= %d", gs.TargetDesc, nt, max1(gs.MinTargets)), p.Pos(gs.Fn.Pos()), nil, nt
	}
	sites := atomSites(gs.Fn, gs.Atoms)
	starts := gs.Starts
	if starts == nil {
		starts = entryPoint(gs.Fn)
	}
	n := len(gs.Atoms)
	for mask := 0; mask < 1<<n; mask++ {
		assign := make([]bool, n)
		for i := range assign {
			assign[i] = mask&(1<<i) != 0
		}
		if gs.G(assign) || (gs.Consistent != nil && !gs.Consistent(assign)) {
			continue
		}
		w := findPathV(starts, andEdges(atomEdges(gs.Atoms, assign), gs.Extra), gs.Avoid, gs.Target, atomVals(gs.Atoms, assign))
		if w != nil {
			var as []string
			for i, a := range gs.Atoms {
				as = append(as, fmt.Sprintf("%s=%v", a.Name, assign[i]))
			}
			var missing []string
			for i, a := range gs.Atoms {
				if sites[i] == 0 {
					missing = append(missing, a.Name)
				}
			}
			d := fmt.Sprintf("reachable with {%s}, which falsifies the required guard", strings.Join(as, ", "))
			if len(missing) > 0 {
				d += fmt.Sprintf("; no test of [%s] found in the function (removed, or changed beyond recognition)", strings.Join(missing, ", "))
			}
			last := w[len(w)-1]
			pos := p.Pos(gs.Fn.Pos())
			for _, in := range last.Instrs {
				if gs.Target(in) && in.Pos().IsValid() {
					pos = p.Pos(in.Pos())
					break
				}
			}
			return false, "guard-too-weak", d, pos, p.renderPath(w), nt
		}
	}
	return true, "", "", "", nil, nt
}

// checkGuard evaluates the spec and records obligations in r.
func checkGuard(p *Prog, r *Report, gs GuardSpec) {
	name := fnName(gs.Fn)
	r.Fn(name)
	what := fmt.Sprintf("%s is reached only under %s", gs.TargetDesc, gs.GDesc)
	ok, kind, detail, pos, path, nt := evalGuard(p, gs)
	if !ok {
		r.Fail(name, gs.Rule+":"+kind, what, detail, pos, path)
		return
	}
	r.Site(nt)
	r.OK(name, gs.Rule, what)
}

func max1(n int) int {
	if n < 1 {
		return 1
	}
	return n
}

// ---- common value matchers ----

func mExtract(idx int, callee ...string) VMatch {
	return func(v ssa.Value) bool { _, ok := extractOf(v, idx, callee...); return ok }
}

func mFieldLoad(typ, field string) VMatch {
	return func(v ssa.Value) bool { return isFieldLoad(v, typ, field) }
}

func mConstInt(k int64) VMatch {
	return func(v ssa.Value) bool { c, ok := constInt(v); return ok && c == k }
}

func mCall(callee ...string) VMatch {
	return func(v ssa.Value) bool { _, ok := callValue(v, callee...); return ok }
}

func mAny(v ssa.Value) bool { return true }

func mNot(m VMatch) VMatch { return func(v ssa.Value) bool { return !m(v) } }

func mOr(ms ...VMatch) VMatch {
	return func(v ssa.Value) bool {
		for _, m := range ms {
			if m(v) {
				return true
			}
		}
		return false
	}
}

// mOrigin: some leaf origin of v (through phi / conversions / local cells) satisfies leaf.
func mOriginAny(leaf VMatch) VMatch {
	return func(v ssa.Value) bool {
		seen := map[ssa.Value]bool{}
		var rec func(v ssa.Value) bool
		rec = func(v ssa.Value) bool {
			v = stripConv(v)
			if seen[v] {
				return false
			}
			seen[v] = true
			if leaf(v) {
				return true
			}
			switch x := v.(type) {
			case *ssa.Phi:
				for _, e := range x.Edges {
					if rec(e) {
						return true
					}
				}
			case *ssa.UnOp:
				if x.Op == token.MUL {
					for _, s := range cellStores(x.X) {
						if rec(s) {
							return true
						}
					}
				}
			}
			return false
		}
		return rec(v)
	}
}

func mOriginAll(leaf VMatch) VMatch {
	return func(v ssa.Value) bool { return originsAll(v, leaf) }
}

// mCellNamed: a load of the local cell (Alloc / free variable) with the given source name.
func mCellNamed(name string) VMatch {
	return func(v ssa.Value) bool {
		v = stripConv(v)
		u, ok := v.(*ssa.UnOp)
		if !ok || u.Op != token.MUL {
			return false
		}
		al := resolveCell(u.X)
		return al != nil && cellRefName(al) == name
	}
}

// mShortCircuitAnd: v is the SSA form of `lhs && rhs`: a phi with one constant-false edge coming
// from the block that branches on lhs, and one edge carrying rhs.
func mShortCircuitAnd(lhs, rhs VMatch) VMatch {
	return func(v ssa.Value) bool {
		ph, ok := stripConv(v).(*ssa.Phi)
		if !ok || len(ph.Edges) != 2 {
			return false
		}
		blk := ph.Block()
		okL, okR := false, false
		for i, e := range ph.Edges {
			pred := blk.Preds[i]
			if bv, isC := constBool(e); isC && !bv {
				if cond, neg, ok := ifCond(pred); ok && !neg && lhs(cond) {
					okL = true
				}
			} else if rhs(e) {
				okR = true
			}
		}
		return okL && okR
	}
}

// checkGuardExact: the converse of checkGuard — whenever G holds, the target IS taken: from the
// start points, under every assignment satisfying G, no path reaches `escape` without passing the
// target. Used where the guard is an exact decision (skipping a qualifying entry is as wrong as
// admitting a non-qualifying one).
func checkGuardExact(p *Prog, r *Report, gs GuardSpec, escape InstrPred, escapeDesc string) {
	name := fnName(gs.Fn)
	what := fmt.Sprintf("whenever %s holds, %s (it is not skipped: %s is not reached first)", gs.GDesc, gs.TargetDesc, escapeDesc)
	starts := gs.Starts
	if starts == nil {
		starts = entryPoint(gs.Fn)
	}
	n := len(gs.Atoms)
	r.Site(1)
	for mask := 0; mask < 1<<n; mask++ {
		assign := make([]bool, n)
		for i := range assign {
			assign[i] = mask&(1<<i) != 0
		}
		if !gs.G(assign) || (gs.Consistent != nil && !gs.Consistent(assign)) {
			continue
		}
		avoid := orPred(gs.Target, gs.Avoid)
		if w := findPathV(starts, andEdges(atomEdges(gs.Atoms, assign), gs.Extra), avoid, escape, atomVals(gs.Atoms, assign)); w != nil {
			var as []string
			for i, a := range gs.Atoms {
				as = append(as, fmt.Sprintf("%s=%v", a.Name, assign[i]))
			}
			r.Fail(name, gs.Rule+":qualifying-case-skipped", what, fmt.Sprintf("with {%s} a path reaches %s without %s", strings.Join(as, ", "), escapeDesc, gs.TargetDesc), p.posOfLast(w, escape), p.renderPath(w))
			return
		}
	}
	r.OK(name, gs.Rule+":exact", what)
}
