package main

import (
	"fmt"
	"go/token"
	"sort"
	"strings"

	"golang.org/x/tools/go/ssa"
)

func init() {
	register(&propDef{
		id:          "C07",
		run:         runC07,
		explanation: "Static analysis of file lifetime management: (1) a new version is referenced before the old one is released; (2) table files are removed only through the file cache's deletion callback (which runs after the last handle is released), direct storage Remove calls exist only in a reviewed set of functions, and the reference loop removes a table only when its count reached zero; (3) every session.version() reference is released or transferred on every CFG path (typestate); (4) buffer references are never over-released (every decref is matched by an acquisition in the same function or is a named ownership release); (5) partial outputs are removed on failure (deferred drop/cleanup, revert on the exit panic, discard of transaction tables before the lock is released); (6) the startup sweep deletes a file only on the false edge of its keep-condition and only after the missing-table check passed. Necessary conditions only: the delta arithmetic of refLoop (abandoned ids, >256 queued versions) is value/order dependent and NOT decided.",
		notCovered:  "refLoop's delta arithmetic across abandoned ids and long-pinned versions; that space is actually reclaimed; timing of releases",
		assumptions: []string{"cache.Cache.Delete runs its delFunc after the last handle of the node is released (C17)", "reviewed deleter table in rules_c07.go"},
	})
}

// reviewed functions that may invoke Storage.Remove directly
var reviewedDeleters = map[string]string{
	"(*leveldb.tOps).remove$1":                 "the file-cache deletion callback: runs after the last reader handle is released",
	"(*leveldb.tWriter).drop":                  "a table still being written (never installed)",
	"(*leveldb.DB).memCompaction$2":            "revert of a failed/aborted flush: tables never installed",
	"(*leveldb.tableCompactionBuilder).revert": "revert of an aborted compaction build: outputs never installed",
	"(*leveldb.DB).dropFrozenMem":              "the frozen journal, after its flush was committed (C04.7)",
	"(*leveldb.DB).recoverJournal":             "replayed journals, after the superseding commit (C04.8)",
	"(*leveldb.session).newManifest$1":         "superseded manifest after a successful switch / the failed new manifest (C04.5)",
	"(*leveldb.DB).checkAndCleanFiles":         "startup sweep of files not referenced by the recovered state (C07.6)",
	"leveldb.recoverTable$1$1":                 "temporary file of a failed table rebuild",
}

func runC07(p *Prog, r *Report) {
	if want("C07.17") {
		ruleLegacyNameFallback(p, r, "C07.17")
	}
	if want("C07.16") {
		// handles obtained on tables and blocks are released on every path: a removed table's file can go
		ruleAcquiredHandlesSettled(p, r, "C07.16")
	}
	if want("C07.15") {
		// a compaction deletes exactly its inputs and adds exactly its outputs (shared with C06)
		ruleCompactionEdit(p, r, "C07.15")
	}
	if want("C07.1") {
		r.Begin("C07.1", "E-ORD", "install before release: session.setVersion references the new version before releasing the current one (files shared by both stay referenced)", 1)
		if fn := resolveFn(p, r, "leveldb", "(*session).setVersion"); fn != nil {
			ordPrecede(p, r, fn, "incref-before-release", nil, evCall("(*leveldb.version).incref"), "v.incref()", evCall("(*leveldb.version).releaseNB"), "stVersion.releaseNB()")
			ordPrecede(p, r, fn, "release-before-swap", nil, evCall("(*leveldb.version).incref"), "v.incref()", evStoreField("leveldb.session", "stVersion"), "s.stVersion = v")
			checkCallArg(p, r, fn, "references-new", "(*leveldb.version).incref", 0, mParam("v"), "the new version")
			checkCallArg(p, r, fn, "releases-current", "(*leveldb.version).releaseNB", 0, mFieldLoad("leveldb.session", "stVersion"), "the current version")
			// the delta is sent for the CURRENT version id before it is released
			rNonNil := assumeBool(func(v ssa.Value) (bool, bool) {
				if b, ok := v.(*ssa.BinOp); ok && (b.Op == token.NEQ || b.Op == token.EQL) && mParam("r")(b.X) && isNilConst(b.Y) {
					return b.Op == token.NEQ, true
				}
				return false, false
			})
			ordPrecede(p, r, fn, "delta-before-release", rNonNil, func(in ssa.Instruction) bool {
				s, ok := in.(*ssa.Select)
				if !ok {
					return false
				}
				for _, st := range s.States {
					if st.Dir == 1 && isFieldLoad(st.Chan, "leveldb.session", "deltaCh") {
						return true
					}
				}
				return false
			}, "delta sent to the reference loop", evCall("(*leveldb.version).releaseNB"), "stVersion.releaseNB()")
		}
		r.End()
	}
	if want("C07.2") {
		ruleDeleters(p, r, "C07.2")
	}
	if want("C07.3") {
		ruleVersionRefs(p, r, "C07.3")
	}
	if want("C07.4") {
		ruleMemRefs(p, r, "C07.4")
	}
	if want("C07.5") {
		rulePartialOutputs(p, r, "C07.5")
	}
	if want("C07.6") {
		ruleStartupSweep(p, r, "C07.6")
	}
	if want("C07.7") {
		ruleFileNumRecycling(p, r, "C07.7")
	}
	if want("C07.14") {
		ruleReuseFileNum(p, r, "C07.14")
	}
	if want("C07.13") {
		ruleFileNameTables(p, r, "C07.13")
	}
	if want("C07.12") {
		ruleDiscardRemovesAllTables(p, r, "C07.12")
	}
	if want("C07.11") {
		// files stay while a view pins their version (shared with C03.4)
		ruleViewsPin(p, r, "C07.11")
	}
	if want("C07.10") {
		ruleReleaseOnce(p, r, "C07.10")
	}
	if want("C07.9") {
		ruleSpawnedIdSettled(p, r, "C07.9")
	}
	if want("C07.8") {
		ruleDeltaRecordIsPure(p, r, "C07.8")
	}
}

// ruleFileNumRecycling: session.reuseFileNum hands a file number back to the allocator; the next
// file created gets that number and stor.Create truncates whatever lives under it. So a number may
// be recycled only by the code that has just removed the file (or failed to create it) — in
// particular, for tables, only inside the file cache's deletion callback (which runs once the last
// reader has released the table), never at the time tOps.remove is merely called.
func ruleFileNumRecycling(p *Prog, r *Report, rule string) {
	r.Begin(rule, "E-ORD", "a file number is recycled only after its file is gone: every session.reuseFileNum call is preceded, inside the same function body, by the storage Remove of that file or by its failed Create; for tables that function body is the deletion callback handed to the file cache (run after the last reader released the table)", 4)
	defer r.End()
	reuse := evCall("(*leveldb.session).reuseFileNum")
	gone := orPred(evStorageInvoke("Remove"), evStorageInvoke("Create"))
	n := 0
	for _, fn := range p.SrcFuncs("leveldb") {
		withAnons(fn, func(f *ssa.Function) {
			if f != fn && f.Parent() != fn {
				return // each closure is visited once, through its direct parent
			}
			if countInstr(f, reuse) == 0 {
				return
			}
			n++
			r.Fn(fnName(f))
			ordPrecede(p, r, f, "recycle-after-file-gone", nil, gone, "stor.Remove(fd) / a failed stor.Create(fd)", reuse, "s.reuseFileNum(fd.Num)")
		})
	}
	r.Site(1)
	r.Check(n >= 4, "leveldb", "recycling-sites", "the known recycling sites exist (newMem, newManifest cleanup, tWriter.drop, the table deletion callback)", fmt.Sprintf("%d functions call reuseFileNum", n), "")
	// the table deletion callback is the closure passed to fileCache.Delete
	if fn := resolveFn(p, r, "leveldb", "(*tOps).remove"); fn != nil {
		r.Site(1)
		direct := countInstr(fn, reuse)
		inCb := 0
		for _, a := range fn.AnonFuncs {
			inCb += countInstr(a, reuse)
		}
		// a table's number names its namespace in the shared block cache (key = file number, block
		// offset): recycling it while blocks of the removed table may still be cached serves them
		// as the next table's content (D15). In the callback every path to reuseFileNum passes
		// blockCache.EvictNS, or is on the `blockCache == nil` side of a test.
		for _, a := range fn.AnonFuncs {
			if countInstr(a, reuse) == 0 {
				continue
			}
			r.Site(1)
			evict := func(in ssa.Instruction) bool {
				return isCallTo(in, "(*leveldb/cache.Cache).EvictNS") && argIs(in, 0, mFieldLoad("leveldb.tOps", "blockCache"))
			}
			noCache := nilAtom("t.blockCache==nil", mFieldLoad("leveldb.tOps", "blockCache"))
			// search a path to the recycling that avoids the eviction, assuming a block cache exists
			evR := boolAtom("t.evictRemoved", mFieldLoad("leveldb.tOps", "evictRemoved"))
			var w []*ssa.BasicBlock
			for _, ev := range []bool{true, false} {
				as := []Atom{noCache, evR}
				vs := []bool{false, ev}
				if w = findPathV(entryPoint(a), atomEdges(as, vs), evict, reuse, atomVals(as, vs)); w != nil {
					break
				}
			}
			if w != nil {
				r.Fail(fnName(a), "recycle-after-blocks-evicted", "a table's number is recycled only after its blocks left the block cache (or there is no block cache)", "with a block cache present a path reaches s.reuseFileNum without blockCache.EvictNS(fd.Num): the next table with this number is read through the removed table's cached blocks", p.posOfLast(w, reuse), p.renderPath(w))
			} else {
				r.OK(fnName(a), "recycle-after-blocks-evicted", "a table's number is recycled only after its blocks left the block cache (or there is no block cache)")
			}
		}
		r.Check(direct == 0 && inCb == 1, fnName(fn), "table-number-recycled-in-callback", "tOps.remove recycles the table's number only from the deletion callback (after the last reader released the table and the file was removed)", fmt.Sprintf("%d direct calls, %d in the callback: a number recycled while a reader still holds the table lets the next table overwrite the file under the reader, and the deferred Remove then deletes the new table", direct, inCb), p.Pos(fn.Pos()))
	}
}

func ruleDeleters(p *Prog, r *Report, rule string) {
	r.Begin(rule, "E-REACH", "table files are removed only through the file cache's deletion callback; direct Storage.Remove calls exist only in the reviewed set; the reference loop removes a table only when its reference count reached zero", 10)
	defer r.End()
	rm := evStorageInvoke("Remove")
	seen := map[string]bool{}
	for _, pk := range []string{"leveldb"} {
		for _, fn := range p.SrcFuncs(pk) {
			n := countInstr(fn, rm)
			if n == 0 {
				continue
			}
			name := fnName(fn)
			r.Fn(name)
			r.Site(n)
			if why, ok := reviewedDeleters[name]; ok {
				seen[name] = true
				r.OK(name, "reviewed-deleter", "reviewed direct deleter: "+why)
			} else {
				r.Fail(name, "unreviewed-deleter", "every function that deletes files from storage is reviewed", fmt.Sprintf("%s calls Storage.Remove (%d sites) but is not in the reviewed deleter set: a live table/journal/manifest could be removed while still needed", name, n), p.Pos(fn.Pos()), nil)
			}
		}
	}
	var missing []string
	for k := range reviewedDeleters {
		if !seen[k] {
			missing = append(missing, k)
		}
	}
	sort.Strings(missing)
	for _, k := range missing {
		r.Fail(k, "unresolved-anchor", "reviewed deleter rows resolve", "reviewed deleter no longer calls Storage.Remove (moved: re-review)", "", nil)
	}
	// tOps.remove: the removal closure is the delFunc of fileCache.Delete
	if fn := resolveFn(p, r, "leveldb", "(*tOps).remove"); fn != nil {
		direct := countInstr(fn, rm)
		r.Check(direct == 0, fnName(fn), "no-direct-remove", "tOps.remove never removes the file itself", fmt.Sprintf("%d direct Storage.Remove calls in tOps.remove: the file would vanish under open readers", direct), p.Pos(fn.Pos()))
		okv := false
		for _, c := range findCalls(fn, "(*leveldb/cache.Cache).Delete") {
			cc := callCommon(c)
			if len(cc.Args) == 4 {
				if mc, ok := cc.Args[3].(*ssa.MakeClosure); ok {
					if cf, ok := mc.Fn.(*ssa.Function); ok && countInstr(cf, rm) == 1 && argIs(c, 0, mFieldLoad("leveldb.tOps", "fileCache")) {
						okv = true
					}
				}
			}
		}
		r.Site(1)
		r.Check(okv, fnName(fn), "removal-is-cache-delfunc", "the file removal is the delFunc passed to fileCache.Delete (runs after the last handle is released)", "tOps.remove does not route the removal through fileCache.Delete's callback", p.Pos(fn.Pos()))
	}
	// refLoop: tops.remove only when addFileRef(..) == 0
	if fn := resolveFn(p, r, "leveldb", "(*session).refLoop"); fn != nil {
		n := 0
		withAnons(fn, func(f *ssa.Function) {
			rmT := evCall("(*leveldb.tOps).remove")
			if countInstr(f, rmT) == 0 {
				return
			}
			n++
			zero := cmpAtom("addFileRef(..)==0", token.EQL, func(v ssa.Value) bool {
				c, ok := v.(*ssa.Call)
				if !ok {
					return false
				}
				callee := closureCallee(&c.Call)
				return callee != nil && strings.Contains(fnName(callee), "refLoop$")
			}, mConstInt(0))
			checkGuard(p, r, GuardSpec{Rule: "remove-at-zero-refs", Fn: f, Target: rmT, TargetDesc: "tops.remove(table)", Atoms: []Atom{zero}, G: func(a []bool) bool { return a[0] }, GDesc: "addFileRef(num, -1) == 0", MinTargets: 1})
		})
		r.Check(n >= 2, fnName(fn), "two-removal-sites", "the reference loop removes tables in applyDelta and in the full-release path", fmt.Sprintf("%d removal sites", n), p.Pos(fn.Pos()))
		// converting a long-pinned version to full references: FileRef(i+1) = FileRef(i) + Delta(i):
		// the version's own files are referenced BEFORE its delta is applied (otherwise a table the
		// delta deletes drops to zero and is removed while the pinned version still needs it)
		withAnons(fn, func(f *ssa.Function) {
			isApply := func(in ssa.Instruction) bool {
				c, ok := in.(*ssa.Call)
				if !ok {
					return false
				}
				cal := closureCallee(&c.Call)
				return cal != nil && countInstr(cal, evCall("(*leveldb.tOps).remove")) > 0 && cal.Parent() == fn
			}
			isRefUp := func(in ssa.Instruction) bool {
				c, ok := in.(*ssa.Call)
				if !ok || len(c.Call.Args) != 2 {
					return false
				}
				cal := closureCallee(&c.Call)
				if cal == nil || cal.Parent() != fn || countInstr(cal, isPanic) == 0 {
					return false
				}
				k, ok := constInt(c.Call.Args[1])
				return ok && k == 1
			}
			if countInstr(f, isApply) > 0 && countInstr(f, isRefUp) > 0 && f != fn {
				r.Fn(fnName(f))
				// within one conversion step (between two reads of ref[next].files): apply only after the +1 loop
				r.Site(1)
				nextStep := evStoreCell("next")
				viol := false
				var wit []*ssa.BasicBlock
				for _, pt := range after(f, isApply) {
					if w := findPath([]point{pt}, nil, orPred(isApply, nextStep), isRefUp); w != nil {
						viol = true
						wit = w
					}
				}
				if viol {
					r.Fail(fnName(f), "delta-before-reference", "a pinned version's files are referenced before its delta is applied", "applyDelta can run before the +1 reference loop of the same conversion step: tables deleted by the delta reach zero references and are removed while the pinned version (e.g. under a long-lived iterator) still reads them", p.Pos(f.Pos()), p.renderPath(wit))
					return
				}
				r.OK(fnName(f), "reference-before-delta", "a pinned version's files are referenced before its delta is applied")
			}
		})
		// addFileRef panics on negative counts and deletes the entry at zero
		direct := 0
		withAnons(fn, func(f *ssa.Function) { direct += countInstr(f, rm) })
		r.Check(direct == 0, fnName(fn), "no-direct-remove", "the reference loop never removes files directly", fmt.Sprintf("%d direct removes", direct), p.Pos(fn.Pos()))
	}
	// Transaction.discard goes through tops.remove
	if fn := resolveFn(p, r, "leveldb", "(*Transaction).discard"); fn != nil {
		r.Check(countInstr(fn, evCall("(*leveldb.tOps).remove")) == 1 && countInstr(fn, rm) == 0, fnName(fn), "via-tops-remove", "discarded transaction tables are removed through tOps.remove (iterators may still use them)", "discard does not use tOps.remove", p.Pos(fn.Pos()))
		r.Site(1)
	}
}

func ruleVersionRefs(p *Prog, r *Report, rule string) {
	r.Begin(rule, "E-PAIR", "every session.version() reference is released on every exit or transferred (to a versionReleaser attached to an iterator, or to a compaction that releases it); compaction.release releases once and tableCompaction defers it", 15)
	defer r.End()
	sp := &TSpec{Name: "verref", Instr: func(in ssa.Instruction) ([]Eff, bool) {
		switch {
		case isCallTo(in, "(*leveldb.session).version"):
			return []Eff{{Res: "ver", D: +1}}, true
		case isCallTo(in, "(*leveldb.version).release"):
			return []Eff{{Res: "ver", D: -1}}, true
		case isCallTo(in, "leveldb.newCompaction"):
			return []Eff{{Res: "ver", D: -1}}, true // ownership moves to the compaction
		}
		if st, ok := in.(*ssa.Store); ok && isFieldAddr(st.Addr, "leveldb.versionReleaser", "v") {
			return []Eff{{Res: "ver", D: -1}}, true // ownership moves to the releaser
		}
		return nil, false
	}}
	n := 0
	for _, fn := range p.SrcFuncs("leveldb") {
		if len(findCalls(fn, "(*leveldb.session).version")) == 0 {
			continue
		}
		name := fnName(fn)
		if name == "(*leveldb.session).version" {
			continue
		}
		n++
		r.Fn(name)
		res := sp.Analyze(fn, nil, nil)
		bad := ""
		for _, e := range res.Exits {
			if c := e.State.cnt["ver"]; c != 0 {
				bad = fmt.Sprintf("return at %s is reached with %+d version reference(s) outstanding", p.Pos(e.In.Pos()), c)
			}
		}
		for _, u := range res.Underflows {
			bad = fmt.Sprintf("release at %s without a reference on that path (double release)", p.Pos(u.In.Pos()))
		}
		r.Check(bad == "", name, "version-ref-balanced", "the version reference taken here is released or transferred exactly once on every path", bad+": a leaked reference pins its files forever; a double release lets files of a version still in use be deleted", p.Pos(fn.Pos()))
	}
	r.Site(n)
	if fn := resolveFn(p, r, "leveldb", "(*compaction).release"); fn != nil {
		rel := boolAtom("c.released", mFieldLoad(tComp, "released"))
		checkGuard(p, r, GuardSpec{Rule: "release-once", Fn: fn, Target: evCall("(*leveldb.version).release"), TargetDesc: "c.v.release()", Atoms: []Atom{rel}, G: func(a []bool) bool { return !a[0] }, GDesc: "¬c.released", MinTargets: 1})
		ordPrecede(p, r, fn, "marks-released", nil, evStoreField(tComp, "released"), "c.released = true", evCall("(*leveldb.version).release"), "c.v.release()")
	}
	if fn := resolveFn(p, r, "leveldb", "newCompaction"); fn != nil {
		checkStoreFieldVal(p, r, fn, "compaction-owns-version", tComp, "v", mParam("v"), "the version passed in")
	}
	// every compaction obtained is run through tableCompaction (which defers release)
	for _, fn := range p.SrcFuncs("leveldb") {
		for _, c := range findCalls(fn, "(*leveldb.session).pickCompaction", "(*leveldb.session).getCompactionRange") {
			cc := c.(*ssa.Call)
			name := fnName(fn)
			if strings.HasSuffix(name, "_test") {
				continue
			}
			// on the non-nil edge, tableCompaction(c, ..) is reached on every path
			nonNil := func(b *ssa.BasicBlock, succ int) bool {
				cond, neg, ok := ifCond(b)
				if !ok {
					return true
				}
				x, trueNonNil, ok := condNilTest(cond)
				if !ok || x != ssa.Value(cc) {
					return true
				}
				if neg {
					trueNonNil = !trueNonNil
				}
				e := 1
				if trueNonNil {
					e = 0
				}
				return succ == e
			}
			run := andPred(evCall("(*leveldb.DB).tableCompaction"), predArg(1, func(v ssa.Value) bool { return v == ssa.Value(cc) }))
			r.Site(1)
			r.Fn(name)
			if w := findPath([]point{{cc.Block(), indexOf(cc) + 1}}, nonNil, run, orPred(isReturn, func(in ssa.Instruction) bool { return in == ssa.Instruction(cc) })); w != nil {
				r.Fail(name, "compaction-not-run", "a compaction that was picked is handed to tableCompaction (which releases its version)", "a non-nil compaction at "+p.Pos(cc.Pos())+" can be dropped without tableCompaction: its version reference leaks", p.Pos(cc.Pos()), p.renderPath(w))
			} else {
				r.OK(name, "compaction-run@"+calleeName(&cc.Call), "a picked compaction is handed to tableCompaction")
			}
		}
	}
}

func ruleMemRefs(p *Prog, r *Report, rule string) {
	r.Begin(rule, "E-PAIR", "buffer references are never over-released: every memDB.decref releases a reference acquired in the same function (getMems / getEffectiveMem / getFrozenMem / newMem / rotateMem / flush) or is a named ownership release", 10)
	defer r.End()
	acquirers := []string{"(*leveldb.DB).getMems", "(*leveldb.DB).getEffectiveMem", "(*leveldb.DB).getFrozenMem", "(*leveldb.DB).newMem", "(*leveldb.DB).rotateMem", "(*leveldb.DB).flush"}
	owned := map[string]string{
		"(*leveldb.DB).dropFrozenMem|leveldb.DB.frozenMem":           "the DB's own reference to the frozen buffer, dropped once its flush is committed",
		"(*leveldb.Transaction).setDone|leveldb.Transaction.mem":     "the transaction's own reference",
		"(*leveldb.Transaction).flush|leveldb.Transaction.mem":       "the transaction's own reference (buffer replaced because iterators still hold it)",
		"(*leveldb.memdbReleaser).Release$1|leveldb.memdbReleaser.m": "the reference handed to the iterator's releaser",
	}
	usedOwned := map[string]bool{}
	n := 0
	acq := func(v ssa.Value) bool {
		v = stripConv(v)
		switch x := v.(type) {
		case *ssa.Call:
			return isCallTo(x, acquirers...)
		case *ssa.Extract:
			c, ok := x.Tuple.(*ssa.Call)
			return ok && isCallTo(c, acquirers...)
		}
		return false
	}
	for _, fn := range p.SrcFuncs("leveldb") {
		name := fnName(fn)
		for _, c := range findCalls(fn, "(*leveldb.memDB).decref") {
			n++
			r.Fn(name)
			cc := callCommon(c)
			recv := cc.Args[0]
			switch {
			case mOriginAny(acq)(recv):
				r.OK(name, "releases-acquired@"+branchLabel(c), "decref of a reference acquired in this function")
			case isRangeOverAcquired(recv, acq):
				r.OK(name, "releases-acquired-in-loop@"+branchLabel(c), "decref of a reference acquired in this function (loop element)")
			default:
				key := ""
				if u, ok := stripConv(recv).(*ssa.UnOp); ok {
					if t, f, _, ok := fieldOf(u.X); ok {
						key = name + "|" + t + "." + f
					}
				}
				if why, ok := owned[key]; ok {
					usedOwned[key] = true
					r.OK(name, "ownership-release", "named ownership release: "+why)
				} else {
					r.Fail(name, "decref-without-acquire", "a buffer reference is released only by whoever acquired it", fmt.Sprintf("decref at %s releases a buffer whose reference was not acquired in this function and is not a named ownership release: the buffer can be recycled under a reader", p.Pos(c.Pos())), p.Pos(c.Pos()), nil)
				}
			}
		}
	}
	r.Site(n)
	var stale []string
	for k := range owned {
		if !usedOwned[k] {
			stale = append(stale, k)
		}
	}
	sort.Strings(stale)
	for _, k := range stale {
		r.Fail(k, "unresolved-anchor", "named ownership releases resolve", "no longer matches a decref", "", nil)
	}
	// decref recycles only at zero
	if fn := resolveFn(p, r, "leveldb", "(*memDB).decref"); fn != nil {
		zero := cmpAtom("ref==0", token.EQL, mCall("sync/atomic.AddInt32"), mConstInt(0))
		checkGuard(p, r, GuardSpec{Rule: "recycle-at-zero", Fn: fn, Target: evCall("(*leveldb.DB).mpoolPut", "(*leveldb/memdb.DB).Reset"), TargetDesc: "Reset / return to the pool", Atoms: []Atom{zero}, G: func(a []bool) bool { return a[0] }, GDesc: "reference count reached 0", MinTargets: 2})
		checkCallArg(p, r, fn, "decrement-by-one", "sync/atomic.AddInt32", 1, mConstInt(-1), "-1")
	}
	// getters take a counted reference under the lock
	for _, name := range []string{"(*DB).getEffectiveMem", "(*DB).getFrozenMem"} {
		if fn := resolveFn(p, r, "leveldb", name); fn != nil {
			r.Check(countInstr(fn, evCall("(*leveldb.memDB).incref")) == 1, fnName(fn), "counted", "the getter returns a counted reference", "no incref in getter", p.Pos(fn.Pos()))
			r.Site(1)
		}
	}
}

// isRangeOverAcquired: recv is an element of a local array whose elements are acquired references.
func isRangeOverAcquired(recv ssa.Value, acq VMatch) bool {
	idx, ok := stripConv(recv).(*ssa.Index)
	if !ok {
		return false
	}
	u, ok := idx.X.(*ssa.UnOp)
	if !ok {
		return false
	}
	al, ok := u.X.(*ssa.Alloc)
	if !ok {
		return false
	}
	okAll, n := true, 0
	for _, ref := range *al.Referrers() {
		if ia, ok := ref.(*ssa.IndexAddr); ok {
			for _, r2 := range *ia.Referrers() {
				if st, ok := r2.(*ssa.Store); ok && st.Addr == ia {
					n++
					if !acq(st.Val) {
						okAll = false
					}
				}
			}
		}
	}
	return okAll && n > 0
}

func rulePartialOutputs(p *Prog, r *Report, rule string) {
	r.Begin(rule, "E-ORD", "partial outputs are removed on failure: createFrom drops the table on every error exit, the compaction builder defers cleanup, compactionTransact reverts on the exit panic, a discarded transaction removes its tables before giving up the lock", 6)
	defer r.End()
	// dropping a table writer removes its file on EVERY path that reports success — also when the
	// writer is already closed: tWriter.finish() closes the storage writer on every path, including
	// its failures, and the cleanup of a failed finish goes through drop()
	if fn := resolveFn(p, r, "leveldb", "(*tWriter).drop"); fn != nil {
		r.Site(1)
		rm := evStorageInvoke("Remove")
		okRet := func(in ssa.Instruction) bool {
			ret, ok := in.(*ssa.Return)
			return ok && len(ret.Results) == 1 && isNilConst(retValue(ret, ret.Results[0]))
		}
		if countInstr(fn, rm) == 0 {
			r.Fail(fnName(fn), "drop-removes-file:unresolved-anchor", "tWriter.drop removes the table file", "no Storage.Remove call", p.Pos(fn.Pos()), nil)
		} else if w := findPath(entryPoint(fn), nil, rm, okRet); w != nil {
			r.Fail(fnName(fn), "drop-removes-file", "tWriter.drop reports success only after removing the table file", "a path returns nil without stor.Remove(w.fd): the output of a failed finish (Sync / footer write error) stays on storage unreferenced until the next Open", p.posOfLast(w, okRet), p.renderPath(w))
		} else {
			r.OK(fnName(fn), "drop-removes-file", "tWriter.drop reports success only after removing the table file")
		}
	}
	// the compaction builder forgets its current output writer only once the table is finished: the
	// deferred cleanup() can drop a half-written table only through b.tw
	if fn := resolveFn(p, r, "leveldb", "(*tableCompactionBuilder).flush"); fn != nil {
		fin := evCall("(*leveldb.tWriter).finish")
		forget := func(in ssa.Instruction) bool {
			st, ok := in.(*ssa.Store)
			return ok && isFieldAddr(st.Addr, "leveldb.tableCompactionBuilder", "tw") && isNilConst(st.Val)
		}
		ordPrecede(p, r, fn, "writer-forgotten-after-finish", nil, fin, "tw.finish()", forget, "b.tw = nil")
		ordNotOnError(p, r, fn, "writer-kept-on-finish-error", mErrOfCall("(*leveldb.tWriter).finish"), "tw.finish()", fin, forget, "b.tw = nil")
	}
	if fn := resolveFn(p, r, "leveldb", "(*tableCompactionBuilder).cleanup"); fn != nil {
		hasW := nilAtom("b.tw==nil", mFieldLoad("leveldb.tableCompactionBuilder", "tw"))
		checkGuardExact(p, r, GuardSpec{Rule: "cleanup-drops-open-writer", Fn: fn, Target: evCall("(*leveldb.tWriter).drop"), TargetDesc: "the half-written table is dropped", Atoms: []Atom{hasW}, G: func(a []bool) bool { return !a[0] }, GDesc: "an output writer is open"}, isReturn, "return")
	}
	if fn := resolveFn(p, r, "leveldb", "(*tOps).createFrom"); fn != nil {
		var epi *ssa.Function
		for _, a := range fn.AnonFuncs {
			if countInstr(a, evCall("(*leveldb.tWriter).drop")) > 0 {
				epi = a
			}
		}
		if epi == nil {
			r.Fail(fnName(fn), "drop-epilogue:unresolved-anchor", "createFrom has a deferred epilogue dropping the writer", "not found", p.Pos(fn.Pos()), nil)
		} else {
			r.Fn(fnName(epi))
			isDefer := func(in ssa.Instruction) bool { d, ok := in.(*ssa.Defer); return ok && closureCallee(&d.Call) == epi }
			ordPrecede(p, r, fn, "epilogue-registered-before-writing", nil, isDefer, "defer drop-on-error", evCall("(*leveldb.tWriter).append", "(*leveldb.tWriter).finish"), "writing the table")
			// in the epilogue: on err != nil the writer is dropped
			errNonNil := atomEdges([]Atom{nilAtom("err==nil", mCellNamed("err"))}, []bool{false})
			if w := findPath(entryPoint(epi), errNonNil, evCall("(*leveldb.tWriter).drop"), isReturn); w != nil {
				r.Fail(fnName(epi), "not-dropped-on-error", "when createFrom fails the partially written table is dropped", "with err != nil the epilogue can return without w.drop(): the orphan file stays until the next open", p.posOfLast(w, isReturn), p.renderPath(w))
			} else {
				r.OK(fnName(epi), "dropped-on-error", "when createFrom fails the partially written table is dropped")
			}
			ordNotOnSuccessDrop(p, r, epi)
		}
	}
	if fn := resolveFn(p, r, "leveldb", "(*tableCompactionBuilder).run"); fn != nil {
		n := 0
		for _, a := range fn.AnonFuncs {
			if countInstr(a, evCall("(*leveldb.tableCompactionBuilder).cleanup")) > 0 {
				aa := a
				n += countInstr(fn, func(in ssa.Instruction) bool { d, ok := in.(*ssa.Defer); return ok && closureCallee(&d.Call) == aa })
			}
		}
		r.Site(1)
		r.Check(n == 1, fnName(fn), "cleanup-deferred", "the builder defers cleanup of the table being written", "cleanup not deferred", p.Pos(fn.Pos()))
	}
	if fn := resolveFn(p, r, "leveldb", "(*tableCompactionBuilder).cleanup"); fn != nil {
		twNonNil := atomEdges([]Atom{nilAtom("b.tw==nil", mFieldLoad(tTCB, "tw"))}, []bool{false})
		if w := findPath(entryPoint(fn), twNonNil, evCall("(*leveldb.tWriter).drop"), isReturn); w != nil {
			r.Fail(fnName(fn), "open-writer-not-dropped", "an unfinished output table is dropped by cleanup", "with b.tw != nil cleanup can return without tw.drop()", p.posOfLast(w, isReturn), p.renderPath(w))
		} else {
			r.OK(fnName(fn), "open-writer-dropped", "an unfinished output table is dropped by cleanup")
		}
		r.Site(1)
	}
	if fn := resolveFn(p, r, "leveldb", "(*DB).compactionTransact"); fn != nil {
		var h *ssa.Function
		for _, a := range fn.AnonFuncs {
			if countInstr(a, func(in ssa.Instruction) bool { return isInvokeNamed(in, "revert") }) > 0 {
				h = a
			}
		}
		if h == nil {
			r.Fail(fnName(fn), "revert-handler:unresolved-anchor", "compactionTransact has a recover handler that reverts", "not found", p.Pos(fn.Pos()), nil)
		} else {
			r.Fn(fnName(h))
			isExit := Atom{Name: "x==errCompactionTransactExiting", Match: func(cond ssa.Value) (int, int) {
				b, ok := cond.(*ssa.BinOp)
				if !ok || (b.Op != token.EQL && b.Op != token.NEQ) {
					return 0, 0
				}
				isG := func(v ssa.Value) bool {
					v = stripConv(v)
					if ci, ok := v.(*ssa.ChangeInterface); ok {
						v = ci.X
					}
					u, ok := v.(*ssa.UnOp)
					if !ok {
						return false
					}
					g, ok := u.X.(*ssa.Global)
					return ok && g.Name() == "errCompactionTransactExiting"
				}
				if isG(b.X) || isG(b.Y) {
					if b.Op == token.EQL {
						return +1, -1
					}
					return -1, +1
				}
				return 0, 0
			}}
			rev := func(in ssa.Instruction) bool { return isInvokeNamed(in, "revert") }
			panicking := assumeBool(func(v ssa.Value) (bool, bool) {
				if b, ok := v.(*ssa.BinOp); ok && (b.Op == token.NEQ || b.Op == token.EQL) && isNilConst(b.Y) {
					if c, ok := b.X.(*ssa.Call); ok && isCallTo(c, "builtin:recover") {
						return b.Op == token.NEQ, true
					}
				}
				return false, false
			})
			if w := findPathV(entryPoint(h), andEdges(panicking, atomEdges([]Atom{isExit}, []bool{true})), rev, orPred(isReturn, isPanic), atomVals([]Atom{isExit}, []bool{true})); w != nil {
				r.Fail(fnName(h), "no-revert-on-exit-panic", "on the exit panic the transaction's partial outputs are reverted", "the handler re-panics/returns without t.revert() for errCompactionTransactExiting", p.Pos(h.Pos()), p.renderPath(w))
			} else {
				r.OK(fnName(h), "revert-on-exit-panic", "on the exit panic the transaction's partial outputs are reverted")
			}
			isDefer := func(in ssa.Instruction) bool { d, ok := in.(*ssa.Defer); return ok && closureCallee(&d.Call) == h }
			ordPrecede(p, r, fn, "handler-registered-first", nil, isDefer, "defer revert handler", func(in ssa.Instruction) bool { return isInvokeNamed(in, "run") }, "t.run()")
		}
	}
	if fn := resolveFn(p, r, "leveldb", "(*Transaction).Discard"); fn != nil {
		ordPrecede(p, r, fn, "discard-before-done", nil, evCall("(*leveldb.Transaction).discard"), "tr.discard() (remove tables)", evCall("(*leveldb.Transaction).setDone"), "tr.setDone() (release the lock)")
		closed := boolAtom("tr.closed", mFieldLoad(tTr, "closed"))
		checkGuard(p, r, GuardSpec{Rule: "discard-once", Fn: fn, Target: evCall("(*leveldb.Transaction).setDone"), TargetDesc: "tr.setDone()", Atoms: []Atom{closed}, G: func(a []bool) bool { return !a[0] }, GDesc: "¬tr.closed", MinTargets: 1})
	}
	if fn := resolveFn(p, r, "leveldb", "(*Transaction).discard"); fn != nil {
		// iterates over ALL of tr.tables
		okv := false
		instrs(fn, func(_ *ssa.BasicBlock, _ int, in ssa.Instruction) {
			if c, ok := in.(*ssa.Call); ok && isCallTo(c, "builtin:len") && isFieldLoad(c.Call.Args[0], tTr, "tables") {
				okv = true
			}
		})
		r.Site(1)
		r.Check(okv, fnName(fn), "all-tables", "discard ranges over all of the transaction's tables", "discard does not iterate tr.tables", p.Pos(fn.Pos()))
	}
	if fn := resolveFn(p, r, "leveldb", "(*tWriter).drop"); fn != nil {
		ordPrecede(p, r, fn, "close-before-remove", nil, evCall("(*leveldb.tWriter).close"), "w.close()", evStorageInvoke("Remove"), "stor.Remove(w.fd)")
		checkCallArg(p, r, fn, "removes-own-file", "iface:leveldb/storage.Storage.Remove", 0, mFieldLoad("leveldb.tWriter", "fd"), "w.fd")
	}
}

// ordNotOnSuccessDrop: the epilogue must not drop a successfully finished table.
func ordNotOnSuccessDrop(p *Prog, r *Report, epi *ssa.Function) {
	errNil := atomEdges([]Atom{nilAtom("err==nil", mCellNamed("err"))}, []bool{true})
	if w := findPath(entryPoint(epi), errNil, nil, evCall("(*leveldb.tWriter).drop")); w != nil {
		r.Fail(fnName(epi), "dropped-on-success", "a successfully created table is not dropped", "with err == nil the epilogue can reach w.drop(): a live table's file is deleted", p.Pos(epi.Pos()), p.renderPath(w))
	} else {
		r.OK(fnName(epi), "kept-on-success", "a successfully created table is not dropped")
	}
}

func ruleStartupSweep(p *Prog, r *Report, rule string) {
	r.Begin(rule, "E-GUARD", "startup sweep: a file is queued for removal only on the false edge of its keep-condition (manifest ≥ current, journal ≥ frozen-or-current, table referenced by the version) and files are removed only after the missing-table check passed", 5)
	defer r.End()
	fn := resolveFn(p, r, "leveldb", "(*DB).checkAndCleanFiles")
	if fn == nil {
		return
	}
	rm := evStorageInvoke("Remove")
	// removal only when all version tables are present
	miss := cmpAtom("nt!=len(tmap)", token.NEQ, func(v ssa.Value) bool { _, ok := v.(*ssa.Phi); return ok }, func(v ssa.Value) bool {
		c, ok := v.(*ssa.Call)
		return ok && isCallTo(c, "builtin:len")
	})
	checkGuard(p, r, GuardSpec{Rule: "sweep-after-missing-check", Fn: fn, Target: rm, TargetDesc: "stor.Remove(fd)", Atoms: []Atom{miss}, G: func(a []bool) bool { return !a[0] }, GDesc: "every table of the version was found in storage", MinTargets: 1})
	// keep conditions: the three comparisons
	type kc struct {
		desc  string
		left  VMatch
		right VMatch
	}
	numOf := func(base VMatch) VMatch {
		return func(v ssa.Value) bool {
			v = stripConv(v)
			switch x := v.(type) {
			case *ssa.UnOp:
				fa, ok := x.X.(*ssa.FieldAddr)
				if !ok {
					return false
				}
				_, f, b, ok := fieldOf(fa)
				return ok && f == "Num" && base(b)
			case *ssa.Field:
				_, f, b, ok := fieldOf(x)
				return ok && f == "Num" && base(b)
			}
			return false
		}
	}
	anyFd := func(v ssa.Value) bool { return namedOf(v.Type()) == "leveldb/storage.FileDesc" }
	dbField := func(typ, field string) VMatch {
		return func(v ssa.Value) bool { return isFieldAddr(v, typ, field) }
	}
	fdNum := numOf(func(v ssa.Value) bool {
		// the ranged fd (not a DB/session field)
		if _, ok := v.(*ssa.FieldAddr); ok {
			return false
		}
		return anyFd(v) || namedOf(derefT(v.Type())) == "leveldb/storage.FileDesc"
	})
	conds := []kc{
		{"manifest kept iff fd.Num >= manifestFd.Num", fdNum, numOf(dbField("leveldb.session", "manifestFd"))},
		{"journal kept iff fd.Num >= frozenJournalFd.Num (when a frozen journal exists)", fdNum, numOf(dbField(tDB, "frozenJournalFd"))},
		{"journal kept iff fd.Num >= journalFd.Num (otherwise)", fdNum, numOf(dbField(tDB, "journalFd"))},
	}
	for _, c := range conds {
		n, okv := 0, true
		instrs(fn, func(_ *ssa.BasicBlock, _ int, in ssa.Instruction) {
			b, ok := in.(*ssa.BinOp)
			if !ok || !isCmpOp(b.Op) {
				return
			}
			switch {
			case c.left(b.X) && c.right(b.Y):
				n++
				if b.Op != token.GEQ {
					okv = false
				}
			case c.left(b.Y) && c.right(b.X):
				n++
				if b.Op != token.LEQ {
					okv = false
				}
			}
		})
		r.Site(n)
		r.Check(n == 1 && okv, fnName(fn), "keep:"+c.desc, c.desc, fmt.Sprintf("%d matching comparisons, operator ok=%v: a live manifest/journal could be deleted at open (or garbage kept forever)", n, okv), p.Pos(fn.Pos()))
	}
	// queued only when !keep: the append to rem is guarded by the keep phi being false
	keepPhi := func(v ssa.Value) bool {
		ph, ok := v.(*ssa.Phi)
		return ok && phiNamedOr(ph, "keep", func(q *ssa.Phi) bool { return isBoolType(q.Type()) })
	}
	app := func(in ssa.Instruction) bool {
		c, ok := in.(*ssa.Call)
		if !ok || !isCallTo(c, "builtin:append") {
			return false
		}
		// append([]FileDesc, fd)
		s, ok := c.Type().Underlying().(interface{ Elem() interface{} })
		_ = s
		return strings.Contains(c.Type().String(), "storage.FileDesc") && findPath([]point{{c.Block(), indexOf(c) + 1}}, nil, nil, rm) != nil
	}
	if countInstr(fn, app) == 0 {
		r.Fail(fnName(fn), "queue:unresolved-anchor", "files to remove are collected in a list", "append to the removal list not found", p.Pos(fn.Pos()), nil)
	} else {
		checkGuard(p, r, GuardSpec{Rule: "queued-only-if-not-kept", Fn: fn, Target: app, TargetDesc: "queueing a file for removal", Atoms: []Atom{boolAtom("keep", keepPhi)}, G: func(a []bool) bool { return !a[0] }, GDesc: "¬keep", MinTargets: 1})
	}
	// the table keep-condition is membership in the version's table map, built from all levels
	okv := false
	instrs(fn, func(_ *ssa.BasicBlock, _ int, in ssa.Instruction) {
		if l, ok := in.(*ssa.Lookup); ok && l.CommaOk {
			okv = true
		}
	})
	r.Check(okv, fnName(fn), "table-keep-is-membership", "a table file is kept iff it is in the recovered version", "no comma-ok map lookup for table files", p.Pos(fn.Pos()))
}

// ruleDeltaRecordIsPure: session.setVersion tells the reference loop which tables an edit added and
// deleted by reading the edit record. newManifest COMPLETES the record it is given into a snapshot
// of the whole version (version.fillRecord appends every live table). A record must therefore not
// be both: passing the edit itself to newManifest and then to setVersion references every live
// table once more, and tables that were already live are then never removed (until a reopen).
func ruleDeltaRecordIsPure(p *Prog, r *Report, rule string) {
	r.Begin(rule, "E-FLOW", "the delta given to the reference loop is the edit alone: in session.commit the record passed to setVersion is never passed to newManifest (which appends all tables of the version to its record); version.fillRecord is called only by newManifest (snapshot) and by recover, where it fills the first delta exactly once for the installed version", 5)
	defer r.End()
	fn := resolveFn(p, r, "leveldb", "(*session).commit")
	if fn == nil {
		return
	}
	var deltaRecs []ssa.Value
	for _, c := range findCalls(fn, fSetVer) {
		deltaRecs = append(deltaRecs, stripConv(callCommon(c).Args[1]))
	}
	r.Site(1)
	r.Check(len(deltaRecs) >= 1, fnName(fn), "installs", "commit installs the version with setVersion(r, nv)", "no setVersion call", p.Pos(fn.Pos()))
	for _, c := range findCalls(fn, fNewMan) {
		r.Site(1)
		a := stripConv(callCommon(c).Args[1])
		bad := false
		for _, d := range deltaRecs {
			if a == d {
				bad = true
			}
		}
		r.Check(!bad, fnName(fn), "snapshot-record-is-not-the-delta@"+branchLabel(c), "the record completed into a manifest snapshot is not the edit whose delta is handed to the reference loop", "newManifest at "+p.Pos(c.Pos())+" receives the very record that setVersion later reads: every live table is referenced once more and never released", p.Pos(c.Pos()))
	}
	// who completes records with all tables
	if fr := resolveFn(p, r, "leveldb", "(*version).fillRecord"); fr != nil {
		r.Site(1)
		var callers []string
		if n := p.CG().Nodes[fr]; n != nil {
			for _, e := range n.In {
				callers = append(callers, fnName(e.Caller.Func))
			}
		}
		ok := len(callers) >= 1
		for _, c := range callers {
			if c != "(*leveldb.session).newManifest" && c != "(*leveldb.session).recover" {
				ok = false
			}
		}
		r.Check(ok, fnName(fr), "only-snapshots-fill", "version.fillRecord (all tables into a record) is used by newManifest (manifest snapshot) and recover (first delta) only", fmt.Sprint(callers), p.Pos(fr.Pos()))
	}
	// recover: the reference loop starts empty, so the delta installed with the recovered version
	// lists every recovered table exactly once: v.fillRecord(rec) precedes setVersion(rec, v) on
	// every path, for the same v and rec, and is not repeated.
	rc := resolveFn(p, r, "leveldb", "(*session).recover")
	if rc == nil {
		return
	}
	const fFill = "(*leveldb.version).fillRecord"
	svs := findCalls(rc, fSetVer)
	r.Site(1)
	r.Check(len(svs) == 1, fnName(rc), "installs-once", "recover installs the recovered version with one setVersion", fmt.Sprintf("%d setVersion calls", len(svs)), p.Pos(rc.Pos()))
	if len(svs) != 1 {
		return
	}
	sv := callCommon(svs[0])
	rec, ver := stripConv(sv.Args[1]), stripConv(sv.Args[2])
	fills := func(in ssa.Instruction) bool {
		if !isCallTo(in, fFill) {
			return false
		}
		c := callCommon(in)
		return stripConv(c.Args[0]) == ver && stripConv(c.Args[1]) == rec
	}
	ordPrecede(p, r, rc, "recovered-tables-referenced", nil, fills, "v.fillRecord(rec) for the installed version and record", evCall(fSetVer), "setVersion(rec, v)")
	r.Site(1)
	n := countInstr(rc, func(in ssa.Instruction) bool { return isCallTo(in, fFill) })
	r.Check(n == 1, fnName(rc), "recovered-tables-referenced-once", "the recovered tables are listed once in the first delta", fmt.Sprintf("%d fillRecord calls", n), p.Pos(rc.Pos()))
}
