package main

import (
	"fmt"
	"go/types"
	"os"
	"sort"
	"strings"

	"golang.org/x/tools/go/ssa"
)

func init() {
	register(&propDef{
		id:          "C05",
		run:         runC05,
		explanation: "Static analysis of the publication/acquisition orders and the lock discipline that the consistent-cut argument rests on: readers fix their sequence, then take counted references to the buffers, then the version (must-precede on SSA, in get/has/newRawIterator); writers insert every entry before the single sequence publication; a flush installs the new version before dropping the frozen buffer; a transaction installs its tables before publishing its sequence; the guarded-by discipline of DB.mem/frozenMem, session.stVersion, version.ref/released and the snapshot list (locksets from the typestate engine, helper functions with a requires-lock summary checked at every call site); DB.seq is written only through the atomic helpers after open, by the single writer, and lock-free readers use the atomic load; 64-bit atomics are 8-byte aligned on 32-bit targets; the write-lock token contracts (single writer). Each is a necessary condition for linearizability of the documented design. Interleavings themselves (schedule exploration) are NOT decided.",
		notCovered:  "any statement about actual interleavings or real-time order; the skip list's concurrent reads beyond the lock discipline (C14); linearizability as such",
		assumptions: []string{"Go memory model: sync.Mutex/RWMutex and sync/atomic establish happens-before", "exceptions/requires tables in rules_c05.go (each with its reason)"},
	})
}

var gbyLeveldb = gbyTable{
	fields: []gbyField{
		{"leveldb.DB", "mem", "leveldb.DB.memMu"},
		{"leveldb.DB", "frozenMem", "leveldb.DB.memMu"},
		{"leveldb.session", "stVersion", "leveldb.session.vmu"},
		{"leveldb.DB", "snapsList", "leveldb.DB.snapsMu"},
		{"leveldb.version", "ref", "leveldb.session.vmu"},
		{"leveldb.version", "released", "leveldb.session.vmu"},
	},
	requires: map[string][]string{
		"(*leveldb.version).incref":    {"leveldb.session.vmu"},
		"(*leveldb.version).releaseNB": {"leveldb.session.vmu"},
	},
	exceptions: map[string]string{
		"leveldb.openDB|leveldb.DB.snapsList":                  "construction of the DB value, before it is shared with any goroutine",
		"(*leveldb.DB).recoverJournalRO|leveldb.DB.mem":        "read-only open, before the DB handle is returned or any goroutine exists",
		"(*leveldb.DB).OpenTransaction|leveldb.DB.mem":         "read under the write lock, which excludes the only mutator of db.mem (newMem is called only by the write-lock holder); Close clears the buffers only after taking the write lock",
		"(*leveldb.session).recover|leveldb.session.stVersion": "session recovery is single-threaded (before openDB)",
	},
}

func runC05(p *Prog, r *Report) {
	if want("C05.22") {
		ruleTrBufferResetSoleHolder(p, r, "C05.22")
	}
	if want("C05.21") {
		ruleSnapshotReadsFrozenSeq(p, r, "C05.21")
	}
	if want("C05.20") {
		// an in-flight snapshot read keeps the snapshot registered
		ruleSnapshotReadsUnderLock(p, r, "C05.20")
	}
	if want("C05.1") {
		r.Begin("C05.1", "E-ORD", "readers acquire in the order sequence → buffers → version: getMems precedes session.version() in DB.get, DB.has and newRawIterator; the sequence is fixed by the caller before (C03.5)", 3)
		for _, name := range []string{"(*DB).get", "(*DB).has", "(*DB).newRawIterator"} {
			if fn := resolveFn(p, r, "leveldb", name); fn != nil {
				ordPrecede(p, r, fn, "buffers-before-version", nil, evCall("(*leveldb.DB).getMems"), "getMems()", evCall("(*leveldb.session).version"), "session.version()")
			}
		}
		// and the public entry points fix the sequence before calling them
		for _, name := range []string{"(*DB).Get", "(*DB).Has", "(*DB).NewIterator"} {
			if fn := resolveFn(p, r, "leveldb", name); fn != nil {
				ordPrecede(p, r, fn, "sequence-first", nil, evCall("(*leveldb.DB).acquireSnapshot"), "acquireSnapshot() (fixes the sequence)", evCall("(*leveldb.DB).get", "(*leveldb.DB).has", "(*leveldb.DB).newIterator"), "the read")
			}
		}
		r.End()
	}
	if want("C05.2") {
		rulePublishAfterInsert(p, r, "C05.2")
	}
	if want("C05.3") {
		ruleFlushOrder(p, r, "C05.3")
	}
	if want("C05.4") {
		ruleTrCommitOrder(p, r, "C05.4")
	}
	if want("C05.5") {
		ruleGuardedBy(p, r, "C05.5", "guarded-by: DB.mem/frozenMem under memMu; session.stVersion, version.ref/released under vmu; DB.snapsList under snapsMu", []string{"leveldb"}, gbyLeveldb, 10)
	}
	if want("C05.6") {
		ruleSeqAtomic(p, r, "C05.6")
	}
	if want("C05.7") {
		ruleTokenContracts(p, r, "C05.7", 12)
	}
	if want("C05.8") {
		ruleAtomicAlignment(p, r, "C05.8")
	}
	if want("C05.19") {
		ruleAtomicDiscipline(p, r, "C05.19", os.Getenv("LVCHECK_DUMP_ATOMIC") != "")
	}
	if want("C05.18") {
		// concurrent allocators never receive the same file number
		ruleReuseFileNum(p, r, "C05.18")
	}
	if want("C05.17") {
		// compaction keeps what any registered read can still see (shared with C03.3)
		ruleDropGuard(p, r, "C05.17")
	}
	if want("C05.16") {
		// transaction / large-batch records are numbered above every earlier write (shared with C11.1b)
		ruleTrRecordSeq(p, r, "C05.16")
	}
	if want("C05.15") {
		// every read uses its own view's sequence (shared with C03.5)
		ruleReadSeqOrigin(p, r, "C05.15")
	}
	if want("C05.14") {
		// a read fixes and registers its cut before reading (shared with C03.1)
		ruleReadsRegistered(p, r, "C05.14")
	}
	if want("C05.13") {
		// the registered cuts are what compaction respects (shared with C03)
		ruleSnapshotList(p, r, "C05.13")
	}
	if want("C05.12") {
		ruleMemInsertSeq(p, r, "C05.12")
	}
	if want("C05.11") {
		// a reader's cut is its sequence number: entries above it are invisible in both directions
		ruleDbIterGuards(p, r, "C05.11")
	}
	if want("C05.10") {
		ruleTrSeqAfterFlush(p, r, "C05.10")
	}
	if want("C05.9") {
		ruleBufferRotation(p, r, "C05.9")
	}
}

// ruleSeqAtomic: C05.6 / C11.1.
func ruleSeqAtomic(p *Prog, r *Report, rule string) {
	r.Begin(rule, "E-REACH", "DB.seq discipline: after open it is written only through addSeq/setSeq (sync/atomic), addSeq only by writeLocked and setSeq only by Transaction.Commit (both hold the write lock); plain accesses are confined to the write-lock holder and to single-threaded recovery; everyone else uses the atomic getSeq", 8)
	defer r.End()
	plainOK := map[string]string{
		"leveldb.openDB":                 "construction",
		"(*leveldb.DB).recoverJournal":   "single-threaded recovery",
		"(*leveldb.DB).recoverJournalRO": "single-threaded recovery",
		"(*leveldb.DB).writeLocked":      "write-lock holder (the only writer of seq) reading its own last value",
		"(*leveldb.DB).newMem":           "called only by the write-lock holder",
		"(*leveldb.DB).OpenTransaction":  "write-lock holder",
	}
	atomicFns := map[string]bool{"(*leveldb.DB).getSeq": true, "(*leveldb.DB).addSeq": true, "(*leveldb.DB).setSeq": true}
	n := 0
	for _, fn := range p.SrcFuncs("leveldb") {
		name := fnName(fn)
		instrs(fn, func(_ *ssa.BasicBlock, _ int, in ssa.Instruction) {
			fa, ok := in.(*ssa.FieldAddr)
			if !ok || !isFieldAddr(fa, tDB, "seq") {
				return
			}
			n++
			r.Fn(name)
			kind := accessKind(fa)
			switch {
			case atomicFns[name]:
				// must be passed to sync/atomic only
				okAtomic := true
				for _, ref := range *fa.Referrers() {
					if c, ok := ref.(*ssa.Call); ok {
						if f := staticCallee(&c.Call); f == nil || f.Pkg == nil || f.Pkg.Pkg.Path() != "sync/atomic" {
							okAtomic = false
						}
					} else if _, isDbg := ref.(*ssa.DebugRef); !isDbg {
						okAtomic = false
					}
				}
				r.Check(okAtomic, name, "atomic-helper", "the seq helpers touch DB.seq only through sync/atomic", "non-atomic access inside an atomic helper", p.Pos(fa.Pos()))
			case kind == "w":
				if why, ok := plainOK[name]; ok && (name == "leveldb.openDB" || strings.HasPrefix(name, "(*leveldb.DB).recoverJournal")) {
					r.OK(name, "plain-store-before-sharing", "plain store to DB.seq: "+why)
				} else {
					r.Fail(name, "plain-store-to-seq", "after open DB.seq is stored only through the atomic helpers", "plain store to DB.seq at "+p.Pos(fa.Pos())+": lock-free readers (getSeq) may observe a torn/unordered value", p.Pos(fa.Pos()), nil)
				}
			default:
				if why, ok := plainOK[name]; ok {
					r.OK(name, "plain-load-by-writer", "plain load of DB.seq: "+why)
				} else {
					r.Fail(name, "plain-load-of-seq", "readers that do not hold the write lock use getSeq()", "plain (non-atomic) read of DB.seq at "+p.Pos(fa.Pos())+" in a function that is not the write-lock holder", p.Pos(fa.Pos()), nil)
				}
			}
		})
	}
	r.Site(n)
	// who may call addSeq / setSeq
	callers := func(callee string) []string {
		var out []string
		for _, fn := range p.SrcFuncs("leveldb") {
			if len(findCalls(fn, callee)) > 0 {
				out = append(out, fnName(fn))
			}
		}
		sort.Strings(out)
		return out
	}
	a := callers("(*leveldb.DB).addSeq")
	r.Check(len(a) == 1 && a[0] == "(*leveldb.DB).writeLocked", "(*leveldb.DB).addSeq", "only-writeLocked-publishes", "addSeq is called only from writeLocked", fmt.Sprintf("callers: %v", a), "")
	b := callers("(*leveldb.DB).setSeq")
	r.Check(len(b) == 1 && b[0] == "(*leveldb.Transaction).Commit", "(*leveldb.DB).setSeq", "only-commit-sets", "setSeq is called only from Transaction.Commit", fmt.Sprintf("callers: %v", b), "")
	r.Site(2)
}

// ruleAtomicAlignment: 64-bit fields accessed through sync/atomic are 8-byte aligned under GOARCH=386.
func ruleAtomicAlignment(p *Prog, r *Report, rule string) {
	r.Begin(rule, "E-EXH", "every struct field passed to a 64-bit sync/atomic operation sits at an 8-byte aligned offset under the 386 size model (32-bit targets fault or tear otherwise)", 5)
	defer r.End()
	sizes := types.SizesFor("gc", "386")
	seen := map[string]bool{}
	for _, pk := range enginePkgs {
		for _, fn := range p.SrcFuncs(pk) {
			instrs(fn, func(_ *ssa.BasicBlock, _ int, in ssa.Instruction) {
				c, ok := in.(*ssa.Call)
				if !ok {
					return
				}
				f := staticCallee(&c.Call)
				if f == nil || f.Pkg == nil || f.Pkg.Pkg.Path() != "sync/atomic" || !strings.HasSuffix(f.Name(), "64") || len(c.Call.Args) == 0 {
					return
				}
				fa, ok := c.Call.Args[0].(*ssa.FieldAddr)
				if !ok {
					return
				}
				st, ok := derefT(fa.X.Type()).Underlying().(*types.Struct)
				if !ok {
					return
				}
				t, fname, _, _ := fieldOf(fa)
				key := t + "." + fname
				if seen[key] {
					return
				}
				seen[key] = true
				var fields []*types.Var
				for i := 0; i < st.NumFields(); i++ {
					fields = append(fields, st.Field(i))
				}
				off := sizes.Offsetsof(fields)[fa.Field]
				r.Site(1)
				r.Fn(fnName(fn))
				r.Check(off%8 == 0, key, "aligned", "64-bit atomic field is 8-byte aligned on 386", fmt.Sprintf("offset %d under the 386 size model", off), p.Pos(fa.Pos()))
			})
		}
	}
}

// ruleBufferRotation: newMem swaps the buffers atomically under memMu.
func ruleBufferRotation(p *Prog, r *Report, rule string) {
	r.Begin(rule, "E-ORD", "buffer rotation is one atomic step for readers: newMem sets frozenMem = old mem, mem = new buffer and frozenSeq = seq inside one memMu critical section, refuses when a frozen buffer still exists, and the journal switch precedes the swap; dropFrozenMem clears frozenMem under memMu", 5)
	defer r.End()
	if fn := resolveFn(p, r, "leveldb", "(*DB).newMem"); fn != nil {
		hasFrozen := nilAtom("frozenMem==nil", mFieldLoad(tDB, "frozenMem"))
		checkGuard(p, r, GuardSpec{Rule: "refuse-with-frozen", Fn: fn, Target: evStoreField(tDB, "frozenMem"), TargetDesc: "db.frozenMem = db.mem", Atoms: []Atom{hasFrozen}, G: func(a []bool) bool { return a[0] }, GDesc: "no frozen buffer pending", MinTargets: 1})
		okv := false
		instrs(fn, func(_ *ssa.BasicBlock, _ int, in ssa.Instruction) {
			if st, ok := in.(*ssa.Store); ok && isFieldAddr(st.Addr, tDB, "frozenMem") && isFieldLoad(st.Val, tDB, "mem") {
				okv = true
			}
		})
		r.Check(okv, fnName(fn), "frozen-is-old-mem", "the frozen buffer is the previous effective buffer", "frozenMem not set from db.mem", p.Pos(fn.Pos()))
		ordPrecede(p, r, fn, "freeze-before-replace", nil, evStoreField(tDB, "frozenMem"), "db.frozenMem = db.mem", evStoreField(tDB, "mem"), "db.mem = new")
		ordFollow(p, r, fn, "replace-follows-freeze", nil, evStoreField(tDB, "frozenMem"), "db.frozenMem = db.mem", evStoreField(tDB, "mem"), "db.mem = new")
		ordFollow(p, r, fn, "frozen-seq-recorded", nil, evStoreField(tDB, "frozenMem"), "db.frozenMem = db.mem", evStoreField(tDB, "frozenSeq"), "db.frozenSeq = db.seq")
		checkStoreFieldVal(p, r, fn, "frozen-seq-is-seq", tDB, "frozenSeq", mFieldLoad(tDB, "seq"), "db.seq")
		// the new buffer holds a reference for the DB itself and one for the caller
		n := countInstr(fn, evCall("(*leveldb.memDB).incref"))
		r.Check(n == 2, fnName(fn), "two-references", "the new buffer starts with a reference for the DB and one for the caller", fmt.Sprintf("%d incref calls", n), p.Pos(fn.Pos()))
		// journal: the old journal's writer is closed and its fd becomes the frozen journal
		checkStoreFieldVal(p, r, fn, "frozen-journal-is-old", tDB, "frozenJournalFd", mFieldLoad(tDB, "journalFd"), "db.journalFd")
		ordPrecede(p, r, fn, "journal-reset-before-swap", nil, orPred(evCall(fJReset), evCall("leveldb/journal.NewWriter")), "journal switched to the new file", evStoreField(tDB, "frozenMem"), "the buffer swap")
	}
	if fn := resolveFn(p, r, "leveldb", "(*DB).getMems"); fn != nil {
		// both references are taken inside one critical section
		n := countInstr(fn, evCall("(*leveldb.memDB).incref"))
		r.Site(n)
		r.Check(n == 2, fnName(fn), "both-counted", "getMems takes a counted reference to the effective and to the frozen buffer", fmt.Sprintf("%d incref calls", n), p.Pos(fn.Pos()))
		nl := countInstr(fn, func(in ssa.Instruction) bool { _, d, ok := mutexOp(in); return ok && d > 0 })
		r.Check(nl == 1, fnName(fn), "one-critical-section", "both buffers are read in ONE memMu critical section (a consistent pair)", fmt.Sprintf("%d lock acquisitions", nl), p.Pos(fn.Pos()))
	}
}

// checkStoreFieldVal: every store to T.f in fn stores a value matching m.
func checkStoreFieldVal(p *Prog, r *Report, fn *ssa.Function, kind, typ, field string, m VMatch, desc string) {
	n, bad := 0, ""
	instrs(fn, func(_ *ssa.BasicBlock, _ int, in ssa.Instruction) {
		if st, ok := in.(*ssa.Store); ok && isFieldAddr(st.Addr, typ, field) {
			n++
			if !m(st.Val) {
				bad = p.Pos(st.Pos())
			}
		}
	})
	what := fmt.Sprintf("%s.%s is assigned %s", typ, field, desc)
	if n == 0 {
		r.Fail(fnName(fn), kind+":unresolved-anchor", what, "no store found", p.Pos(fn.Pos()), nil)
		return
	}
	r.Site(n)
	r.Check(bad == "", fnName(fn), kind, what, "store at "+bad+" has a different origin", bad)
}
