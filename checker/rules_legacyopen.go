package main

import (
	"golang.org/x/tools/go/ssa"
)

// ruleLegacyNameFallback: a table descriptor names NNNNNN.ldb or, for files written by old versions,
// NNNNNN.sst. List reports both as tables, so every fileStorage operation that reaches a file
// through its descriptor has to find a legacy-named one: when the operation on the current name
// fails with "does not exist" and the descriptor has a legacy name (fsHasOldName), Open and Remove
// go on to the legacy name before they answer. Without it Recover lists a legacy-named table and
// then cannot open it (it returns the error instead of rebuilding the DB), and a removed table
// stays on disk.
func ruleLegacyNameFallback(p *Prog, r *Report, rule string) {
	r.Begin(rule, "E-ORD", "fileStorage.Open / Remove fall back to the legacy table name: when the operation on fsGenName(fd) fails with IsNotExist and fsHasOldName(fd), every path to a return first performs the operation on fsGenOldName(fd)", 4)
	defer r.End()
	nameUse := func(gen, notGen string) InstrPred {
		return func(in ssa.Instruction) bool {
			c, ok := in.(*ssa.Call)
			if !ok {
				return false
			}
			// the file operation itself: a function of package os, or a local closure wrapping one
			// (logging and name helpers also receive values derived from the name: not operations)
			if f := staticCallee(&c.Call); f != nil {
				if isLocal := f.Parent() != nil; !isLocal && (f.Pkg == nil || f.Pkg.Pkg.Path() != "os") {
					return false
				}
			}
			for _, a := range c.Call.Args {
				if dependsOnCall(a, gen, 8) && (notGen == "" || !dependsOnCall(a, notGen, 8)) {
					return true
				}
			}
			return false
		}
	}
	for _, m := range []string{"Open", "Remove"} {
		fn := resolveFn(p, r, "leveldb/storage", "(*fileStorage)."+m)
		if fn == nil {
			continue
		}
		name := fnName(fn)
		cur := nameUse("leveldb/storage.fsGenName", "leveldb/storage.fsGenOldName")
		legacy := nameUse("leveldb/storage.fsGenOldName", "")
		nl := countInstr(fn, legacy)
		r.Check(nl >= 1, name, "legacy-name-tried", m+" performs its operation on fsGenOldName(fd) somewhere", "no call in "+m+" is given a path built from fsGenOldName(fd): a legacy-named (.sst) table is never reached", p.Pos(fn.Pos()))
		if !requireSites(p, r, fn, "current-name", "the operation on fsGenName(fd)", cur, 1) {
			continue
		}
		r.Site(nl)
		// the error of the operation on the current name
		curErr := func(v ssa.Value) bool {
			v = stripConv(v)
			if ex, ok := v.(*ssa.Extract); ok {
				if in, ok := ex.Tuple.(ssa.Instruction); ok && cur(in) {
					return isErrorType(ex.Type())
				}
				return false
			}
			if in, ok := v.(ssa.Instruction); ok && cur(in) {
				return isErrorType(v.Type())
			}
			return false
		}
		as := []Atom{
			boolAtom("fsHasOldName(fd)", mCall("leveldb/storage.fsHasOldName")),
			boolAtom("os.IsNotExist(err)", mCall("os.IsNotExist")),
			nilAtom("err==nil", curErr),
		}
		vs := []bool{true, true, false}
		if w := findPathV(after(fn, cur), atomEdges(as, vs), legacy, isReturn, atomVals(as, vs)); w != nil {
			r.Fail(name, "legacy-name-fallback", "a missing current-named file of a descriptor with a legacy name is looked for under the legacy name before "+m+" answers", "with {fsHasOldName(fd), the operation on the current name failed, os.IsNotExist(err)} a path returns without the operation on fsGenOldName(fd)", p.posOfLast(w, isReturn), p.renderPath(w))
		} else {
			r.OK(name, "legacy-name-fallback", "a missing current-named file of a descriptor with a legacy name is looked for under the legacy name before "+m+" answers")
		}
	}
}
