package main

// Source normalisation: un-extracting NEW helper functions.
//
// Every rule is anchored on functions of the reference tree. "Extract method" — moving a block of an
// anchored function into a new unexported helper — leaves behaviour unchanged but moves the analysed
// construct out of the anchor. Before loading, the tree is therefore normalised: a function that does
// not exist in the reference inventory (refFuncNames), is only ever called directly, and has a body
// that can be spliced (no defer, no recover, no labels, not variadic, not recursive) is inlined at
// each of its call sites, at source level, into an overlay; the rules then see the pre-extraction
// shape. The transformation is the textbook one:
//
//	var r0 T0; var r1 T1               // result temporaries
//	{
//		recv, p1, p2 := x, a1, a2      // receiver and parameters, evaluated once, in order
//		BODY                           // `return e0, e1` → `{ r0, r1 = e0, e1; goto end }`
//	}
//	end:
//	STATEMENT with the call replaced by r0, r1
//
// `//line` directives keep every reported position in the original files. On the reference tree
// there are no new functions and nothing happens. If anything about a helper or one of its call
// sites is outside what is handled, that helper is left alone (and the rules fail closed as before);
// if the normalised tree does not type-check it is discarded altogether.

import (
	"bytes"
	"crypto/sha1"
	"encoding/hex"
	"fmt"
	"go/ast"
	"go/parser"
	"go/printer"
	"go/token"
	"go/types"
	"os"
	"path/filepath"
	"sort"
	"strings"

	"golang.org/x/tools/go/packages"
)

// normNotes records what the normaliser did (printed in the run summary and the evidence).
var normNotes []string

// declaredFuncs scans the non-test Go files under root/leveldb and returns the declared functions,
// named as fnName names them.
type declInfo struct {
	path string
	hash string // of the declaration with its name blanked: a renamed function keeps it
}

func declaredFuncs(root string, overlay map[string][]byte) (map[string]declInfo, error) {
	out := map[string]declInfo{}
	fset := token.NewFileSet()
	err := filepath.Walk(filepath.Join(root, "leveldb"), func(path string, info os.FileInfo, err error) error {
		if err != nil {
			return err
		}
		if info.IsDir() || !strings.HasSuffix(path, ".go") || strings.HasSuffix(path, "_test.go") {
			return nil
		}
		var src interface{}
		if b, ok := overlay[path]; ok {
			src = b
		}
		f, perr := parser.ParseFile(fset, path, src, parser.SkipObjectResolution)
		if perr != nil {
			return nil // the real load reports it
		}
		rel, _ := filepath.Rel(root, filepath.Dir(path))
		for _, d := range f.Decls {
			fd, ok := d.(*ast.FuncDecl)
			if !ok {
				continue
			}
			out[declName(rel, fd)] = declInfo{path, declHash(fset, fd)}
		}
		return nil
	})
	return out, err
}

// declHash: hash of the printed declaration without doc comment and with the name replaced.
func declHash(fset *token.FileSet, fd *ast.FuncDecl) string {
	cp := *fd
	cp.Doc = nil
	cp.Name = &ast.Ident{Name: "_", NamePos: fd.Name.NamePos}
	var buf bytes.Buffer
	if err := printer.Fprint(&buf, fset, &cp); err != nil {
		return ""
	}
	// positions of comments inside the body are not part of the node: only code is hashed
	sum := sha1.Sum(buf.Bytes())
	return hex.EncodeToString(sum[:8])
}

func declName(pkgrel string, fd *ast.FuncDecl) string {
	if fd.Recv == nil || len(fd.Recv.List) == 0 {
		return pkgrel + "." + fd.Name.Name
	}
	t := fd.Recv.List[0].Type
	ptr := false
	if s, ok := t.(*ast.StarExpr); ok {
		ptr = true
		t = s.X
	}
	// generic receivers T[P] do not occur in this module
	name := "?"
	if id, ok := t.(*ast.Ident); ok {
		name = id.Name
	}
	if ptr {
		return fmt.Sprintf("(*%s.%s).%s", pkgrel, name, fd.Name.Name)
	}
	return fmt.Sprintf("(%s.%s).%s", pkgrel, name, fd.Name.Name)
}

// normalizeNewHelpers returns an overlay (absolute path → content) in which new helpers are inlined,
// or nil when there is nothing to do.
func normalizeNewHelpers(dir string, env []string, base map[string][]byte) map[string][]byte {
	normNotes = nil
	abs, err := filepath.Abs(dir)
	if err != nil {
		return nil
	}
	decl, err := declaredFuncs(abs, base)
	if err != nil {
		return nil
	}
	freshOf := func(decl map[string]declInfo) []string {
		var fresh []string
		for n := range decl {
			if _, ok := refFuncNames[n]; !ok && !strings.HasSuffix(n, ".init") {
				fresh = append(fresh, n)
			}
		}
		sort.Strings(fresh)
		return fresh
	}
	fresh := freshOf(decl)
	if len(fresh) == 0 {
		return nil
	}
	cur := map[string][]byte{}
	for k, v := range base {
		cur[k] = v
	}
	changed := false
	// a function that merely got a new name: same package and receiver, same code, and the old name is gone
	renames := map[string]string{}
	for _, g := range fresh {
		dot := strings.LastIndex(g, ".")
		var cands []string
		for f, h := range refFuncNames {
			if _, still := decl[f]; still || h == "" || h != decl[g].hash {
				continue
			}
			if fd := strings.LastIndex(f, "."); fd == dot && f[:fd] == g[:dot] {
				cands = append(cands, f)
			}
		}
		if len(cands) == 1 {
			renames[g] = cands[0]
		}
	}
	if len(renames) > 0 {
		if next := applyRenames(abs, env, cur, renames); next != nil {
			cur = next
			changed = true
			if d2, err := declaredFuncs(abs, cur); err == nil {
				decl = d2
				fresh = freshOf(decl)
			}
		}
	}
	for round := 0; round < 4; round++ {
		n, next := inlineRound(abs, env, cur, fresh, round*1000)
		if n == 0 {
			break
		}
		cur = next
		changed = true
	}
	if !changed {
		normNotes = append(normNotes, fmt.Sprintf("new functions not normalised: %s", strings.Join(fresh, ", ")))
		return nil
	}
	if len(fresh) > 0 {
		// some were handled; report those that were not
		if d2, err := declaredFuncs(abs, cur); err == nil {
			if rest := freshOf(d2); len(rest) > 0 {
				normNotes = append(normNotes, fmt.Sprintf("new functions not normalised: %s", strings.Join(rest, ", ")))
			}
		}
	}
	if d := os.Getenv("LVCHECK_DUMP_NORM"); d != "" {
		for k, v := range cur {
			if _, isBase := base[k]; !isBase {
				_ = os.MkdirAll(d, 0o755)
				_ = os.WriteFile(filepath.Join(d, filepath.Base(k)), v, 0o644)
			}
		}
	}
	return cur
}

// applyRenames gives renamed functions their reference names back (declaration and every use).
func applyRenames(abs string, env []string, overlay map[string][]byte, renames map[string]string) map[string][]byte {
	cfg := &packages.Config{
		Mode:    packages.NeedName | packages.NeedFiles | packages.NeedCompiledGoFiles | packages.NeedImports | packages.NeedDeps | packages.NeedTypes | packages.NeedSyntax | packages.NeedTypesInfo | packages.NeedTypesSizes,
		Dir:     abs,
		Env:     env,
		Overlay: overlay,
	}
	pkgs, err := packages.Load(cfg, "./leveldb/...")
	if err != nil {
		return nil
	}
	target := map[types.Object]string{}
	for _, pk := range pkgs {
		if len(pk.Errors) > 0 || pk.TypesInfo == nil || !strings.HasPrefix(pk.PkgPath, modPath) {
			continue
		}
		rel := strings.TrimPrefix(pk.PkgPath, modPath)
		for _, f := range pk.Syntax {
			for _, d := range f.Decls {
				if fd, ok := d.(*ast.FuncDecl); ok {
					if to, ok := renames[declName(rel, fd)]; ok {
						if obj := pk.TypesInfo.Defs[fd.Name]; obj != nil {
							target[obj] = to[strings.LastIndex(to, ".")+1:]
						}
					}
				}
			}
		}
	}
	if len(target) == 0 {
		return nil
	}
	edits := map[string][]edit{}
	for _, pk := range pkgs {
		if pk.TypesInfo == nil || !strings.HasPrefix(pk.PkgPath, modPath) {
			continue
		}
		add := func(id *ast.Ident, name string) {
			pos := pk.Fset.Position(id.Pos())
			edits[pos.Filename] = append(edits[pos.Filename], edit{pos.Offset, pos.Offset + len(id.Name), name})
		}
		for id, obj := range pk.TypesInfo.Defs {
			if name, ok := target[obj]; ok {
				add(id, name)
			}
		}
		for id, obj := range pk.TypesInfo.Uses {
			if name, ok := target[obj]; ok {
				add(id, name)
			}
		}
	}
	next := map[string][]byte{}
	for k, v := range overlay {
		next[k] = v
	}
	for path, es := range edits {
		src, ok := overlay[path]
		if !ok {
			src, _ = os.ReadFile(path)
		}
		sort.Slice(es, func(i, j int) bool { return es[i].start > es[j].start })
		for _, e := range es {
			src = append(append(append([]byte{}, src[:e.start]...), []byte(e.text)...), src[e.end:]...)
		}
		next[path] = src
	}
	cfg.Overlay = next
	chk, err := packages.Load(cfg, "./leveldb/...")
	if err != nil {
		return nil
	}
	for _, pk := range chk {
		if len(pk.Errors) > 0 {
			normNotes = append(normNotes, fmt.Sprintf("renaming back does not type-check (%v): skipped", pk.Errors[0]))
			return nil
		}
	}
	for from, to := range renames {
		normNotes = append(normNotes, fmt.Sprintf("%s is the reference function %s under a new name: analysed under its reference name", from, to))
	}
	return next
}

type edit struct {
	start, end int
	text       string
}

// inlineRound inlines the eligible leaf helpers (those that call no other new function) once.
func inlineRound(abs string, env []string, overlay map[string][]byte, fresh []string, counterBase int) (int, map[string][]byte) {
	cfg := &packages.Config{
		Mode:    packages.NeedName | packages.NeedFiles | packages.NeedCompiledGoFiles | packages.NeedImports | packages.NeedDeps | packages.NeedTypes | packages.NeedSyntax | packages.NeedTypesInfo | packages.NeedTypesSizes,
		Dir:     abs,
		Env:     env,
		Overlay: overlay,
	}
	pkgs, err := packages.Load(cfg, "./leveldb/...")
	if err != nil {
		return 0, nil
	}
	isFresh := map[string]bool{}
	for _, n := range fresh {
		isFresh[n] = true
	}
	edits := map[string][]edit{}
	srcOf := func(path string) []byte {
		if b, ok := overlay[path]; ok {
			return b
		}
		b, _ := os.ReadFile(path)
		return b
	}
	total := 0
	counter := counterBase // result temporaries and labels are unique across rounds
	for _, pk := range pkgs {
		if len(pk.Errors) > 0 || pk.TypesInfo == nil || !strings.HasPrefix(pk.PkgPath, modPath) {
			continue
		}
		rel := strings.TrimPrefix(pk.PkgPath, modPath)
		info := pk.TypesInfo
		fset := pk.Fset
		// new helpers declared in this package
		type helper struct {
			fd   *ast.FuncDecl
			obj  *types.Func
			file *ast.File
			path string
		}
		var helpers []*helper
		byObj := map[types.Object]*helper{}
		for _, f := range pk.Syntax {
			path := fset.Position(f.Pos()).Filename
			for _, d := range f.Decls {
				fd, ok := d.(*ast.FuncDecl)
				if !ok || fd.Body == nil || !isFresh[declName(rel, fd)] {
					continue
				}
				obj, _ := info.Defs[fd.Name].(*types.Func)
				if obj == nil {
					continue
				}
				h := &helper{fd, obj, f, path}
				helpers = append(helpers, h)
				byObj[obj] = h
			}
		}
		if len(helpers) == 0 {
			continue
		}
		// uses of each helper
		type use struct {
			id   *ast.Ident
			file *ast.File
		}
		uses := map[*helper][]use{}
		for _, f := range pk.Syntax {
			f := f
			ast.Inspect(f, func(n ast.Node) bool {
				id, ok := n.(*ast.Ident)
				if !ok {
					return true
				}
				if h := byObj[info.Uses[id]]; h != nil {
					uses[h] = append(uses[h], use{id, f})
				}
				return true
			})
		}
		for _, h := range helpers {
			name := declName(rel, h.fd)
			why := helperShapeProblem(h.fd, info, byObjKeys(byObj), h.obj)
			if why != "" {
				normNotes = append(normNotes, fmt.Sprintf("%s left as is: %s", name, why))
				continue
			}
			if lastOwnLabels > 0 && len(uses[h]) > 1 {
				normNotes = append(normNotes, fmt.Sprintf("%s left as is: carries labels of an inlined helper and is called %d times", name, len(uses[h])))
				continue
			}
			if len(uses[h]) == 0 || len(uses[h]) > 6 {
				normNotes = append(normNotes, fmt.Sprintf("%s left as is: %d references", name, len(uses[h])))
				continue
			}
			var hEdits []struct {
				path string
				e    edit
			}
			ok := true
			for _, u := range uses[h] {
				path := fset.Position(u.file.Pos()).Filename
				counter++
				e, why := inlineSite(fset, info, u.file, srcOf(path), u.id, h.fd, srcOf(h.path), h.path, path, counter)
				if why != "" {
					normNotes = append(normNotes, fmt.Sprintf("%s left as is: call at %s: %s", name, fset.Position(u.id.Pos()), why))
					ok = false
					break
				}
				hEdits = append(hEdits, struct {
					path string
					e    edit
				}{path, e})
			}
			if !ok {
				continue
			}
			// no two edits of this round may overlap (a call inside a statement that is itself rewritten)
			overlap := false
			for _, he := range hEdits {
				for _, ex := range edits[he.path] {
					if he.e.start < ex.end && ex.start < he.e.end {
						overlap = true
					}
				}
			}
			// remove the declaration (with its doc comment), keeping the line count
			ds, de := h.fd.Pos(), h.fd.End()
			if h.fd.Doc != nil {
				ds = h.fd.Doc.Pos()
			}
			so, eo := fset.Position(ds).Offset, fset.Position(de).Offset
			declEdit := edit{so, eo, strings.Repeat("\n", bytes.Count(srcOf(h.path)[so:eo], []byte("\n")))}
			for _, ex := range edits[h.path] {
				if declEdit.start < ex.end && ex.start < declEdit.end {
					overlap = true
				}
			}
			for _, he := range hEdits {
				if he.path == h.path && he.e.start < declEdit.end && declEdit.start < he.e.end {
					overlap = true // a call of the helper inside itself cannot happen (not recursive); inside another new helper: next round
				}
			}
			if overlap {
				continue // retried in the next round, after the enclosing rewrite
			}
			for _, he := range hEdits {
				edits[he.path] = append(edits[he.path], he.e)
			}
			edits[h.path] = append(edits[h.path], declEdit)
			normNotes = append(normNotes, fmt.Sprintf("%s inlined at %d call site(s)", name, len(hEdits)))
			total += len(hEdits)
		}
	}
	if total == 0 {
		return 0, nil
	}
	next := map[string][]byte{}
	for k, v := range overlay {
		next[k] = v
	}
	for path, es := range edits {
		src := srcOf(path)
		sort.Slice(es, func(i, j int) bool { return es[i].start > es[j].start })
		for _, e := range es {
			src = append(append(append([]byte{}, src[:e.start]...), []byte(e.text)...), src[e.end:]...)
		}
		next[path] = src
	}
	// the result must type-check
	cfg.Overlay = next
	chk, err := packages.Load(cfg, "./leveldb/...")
	if err != nil {
		return 0, nil
	}
	for _, pk := range chk {
		if len(pk.Errors) > 0 {
			normNotes = append(normNotes, fmt.Sprintf("normalised tree does not type-check (%v): discarded", pk.Errors[0]))
			return 0, nil
		}
	}
	return total, next
}

// lastOwnLabels: labels of an earlier inlining round inside the helper just examined (unique in the
// whole tree, so the helper can be spliced once — not twice into the same function).
var lastOwnLabels int

func isInlLabel(n string) bool {
	return strings.HasPrefix(n, "inl") && strings.HasSuffix(n, "End")
}

func byObjKeys[T any](m map[types.Object]T) map[types.Object]bool {
	out := map[types.Object]bool{}
	for k := range m {
		out[k] = true
	}
	return out
}

// helperShapeProblem: why the helper cannot be spliced ("" = it can).
func helperShapeProblem(fd *ast.FuncDecl, info *types.Info, freshObjs map[types.Object]bool, self types.Object) string {
	if fd.Type.TypeParams != nil {
		return "generic"
	}
	if fd.Type.Params != nil {
		for _, f := range fd.Type.Params.List {
			if _, ok := f.Type.(*ast.Ellipsis); ok {
				return "variadic"
			}
		}
	}
	if fd.Recv != nil && len(fd.Recv.List) == 1 {
		t := fd.Recv.List[0].Type
		if s, ok := t.(*ast.StarExpr); ok {
			t = s.X
		}
		if _, ok := t.(*ast.Ident); !ok {
			return "receiver type not a plain name"
		}
	}
	why := ""
	ownLabels := 0
	defer func() { lastOwnLabels = ownLabels }()
	ast.Inspect(fd.Body, func(n ast.Node) bool {
		switch x := n.(type) {
		case *ast.DeferStmt:
			why = "uses defer"
		case *ast.LabeledStmt:
			if !isInlLabel(x.Label.Name) {
				why = "declares a label"
			} else {
				ownLabels++
			}
		case *ast.BranchStmt:
			if x.Tok == token.GOTO && (x.Label == nil || !isInlLabel(x.Label.Name)) {
				why = "uses goto"
			}
		case *ast.CallExpr:
			if id, ok := x.Fun.(*ast.Ident); ok && id.Name == "recover" {
				if _, isB := info.Uses[id].(*types.Builtin); isB {
					why = "calls recover"
				}
			}
		case *ast.Ident:
			if o := info.Uses[x]; o != nil {
				if o == self {
					why = "recursive"
				} else if freshObjs[o] {
					why = "calls another new function (handled in a later round)"
				}
			}
		}
		return why == ""
	})
	return why
}

// inlineSite builds the edit that replaces the statement containing the call of helper fd (through
// identifier id) by the spliced body. The returned reason is non-empty when the site is not handled.
func inlineSite(fset *token.FileSet, info *types.Info, file *ast.File, src []byte, id *ast.Ident, fd *ast.FuncDecl, hsrc []byte, hpath, path string, k int) (edit, string) {
	// the path from the file down to id
	var stack []ast.Node
	var found []ast.Node
	ast.Inspect(file, func(n ast.Node) bool {
		if found != nil {
			return false
		}
		if n == nil {
			stack = stack[:len(stack)-1]
			return true
		}
		stack = append(stack, n)
		if n == ast.Node(id) {
			found = append([]ast.Node{}, stack...)
			return false
		}
		return true
	})
	if found == nil {
		return edit{}, "identifier not found"
	}
	// the call
	var call *ast.CallExpr
	ci := -1
	for i := len(found) - 2; i >= 0; i-- {
		if c, ok := found[i].(*ast.CallExpr); ok {
			fun := ast.Unparen(c.Fun)
			if fun == ast.Node(id) {
				call, ci = c, i
			} else if sel, ok := fun.(*ast.SelectorExpr); ok && sel.Sel == id {
				call, ci = c, i
			}
			break
		}
		if _, ok := found[i].(*ast.SelectorExpr); ok {
			continue
		}
		if _, ok := found[i].(*ast.ParenExpr); ok {
			continue
		}
		break
	}
	if call == nil {
		return edit{}, "not a direct call (function value)"
	}
	if call.Ellipsis.IsValid() {
		return edit{}, "spread call"
	}
	// a helper that is one expression — `return e` — is substituted in place, wherever the call stands
	// (loop conditions, case expressions, operands of && and ||): parameters are replaced by the
	// arguments, which must be free of calls and receives since they may now be evaluated 0..n times
	if e, ok := exprHelper(fd); ok {
		if ed, why := inlineExpr(fset, info, src, hsrc, hpath, path, call, fd, e); why == "" {
			return ed, ""
		}
	}
	// enclosing statement that sits in a statement list
	var stmt ast.Stmt
	si := -1
	for i := ci - 1; i >= 0; i-- {
		switch found[i].(type) {
		case *ast.FuncLit:
			// statements of the literal's body are fine; keep searching inside it only
		}
		if s, ok := found[i].(ast.Stmt); ok {
			stmt, si = s, i
			break
		}
	}
	if stmt == nil || si == 0 {
		return edit{}, "no enclosing statement"
	}
	// `if x := f(); cond {`: the statement to rewrite is the if
	if is, ok := found[si-1].(*ast.IfStmt); ok && is.Init == stmt && si >= 2 {
		stmt, si = is, si-1
	}
	switch parent := found[si-1].(type) {
	case *ast.BlockStmt, *ast.CaseClause, *ast.CommClause:
		_ = parent
	default:
		return edit{}, fmt.Sprintf("statement not in a statement list (%T)", found[si-1])
	}
	if cc, ok := found[si-1].(*ast.CommClause); ok && cc.Comm == stmt {
		return edit{}, "communication clause"
	}
	// where in the statement may the call sit?
	okCtx := false
	switch s := stmt.(type) {
	case *ast.ExprStmt:
		okCtx = ast.Unparen(s.X) == ast.Expr(call)
	case *ast.AssignStmt:
		okCtx = len(s.Rhs) == 1 && ast.Unparen(s.Rhs[0]) == ast.Expr(call)
	case *ast.ReturnStmt:
		okCtx = len(s.Results) == 1 && ast.Unparen(s.Results[0]) == ast.Expr(call)
	case *ast.IfStmt:
		// in the condition (alone, negated, or compared with something call-free) or as the init statement
		if s.Init != nil {
			switch in := s.Init.(type) {
			case *ast.AssignStmt:
				if len(in.Rhs) == 1 && ast.Unparen(in.Rhs[0]) == ast.Expr(call) {
					okCtx = true
				}
			case *ast.ExprStmt:
				if ast.Unparen(in.X) == ast.Expr(call) {
					okCtx = true
				}
			}
		}
		if !okCtx && s.Init == nil && condHolds(s.Cond, call) {
			okCtx = true
		}
		if !okCtx && s.Init != nil && !containsNode(s.Init, call) && condHolds(s.Cond, call) && !hasCall(s.Init) {
			okCtx = false // the init statement would have to run first: not handled
		}
	}
	// general position: a single-valued call that is the first thing with an effect the statement evaluates
	// (so that hoisting it in front of the statement keeps the order), not under the right operand of && / ||
	generalPos := false
	var guards []condGuard
	if !okCtx {
		var roots []ast.Node
		switch s := stmt.(type) {
		case *ast.ExprStmt:
			roots = []ast.Node{s.X}
		case *ast.AssignStmt:
			for _, e := range s.Lhs {
				roots = append(roots, e)
			}
			for _, e := range s.Rhs {
				roots = append(roots, e)
			}
		case *ast.ReturnStmt:
			for _, e := range s.Results {
				roots = append(roots, e)
			}
		case *ast.SendStmt:
			roots = []ast.Node{s.Chan, s.Value}
		case *ast.IfStmt:
			if s.Init == nil && containsNode(s.Cond, call) {
				roots = []ast.Node{s.Cond}
			}
		}
		if len(roots) > 0 {
			if ok, gs := firstEffect(info, roots, call); ok {
				okCtx, generalPos, guards = true, true, gs
			}
		}
	}
	if !okCtx {
		return edit{}, fmt.Sprintf("call position in %T not handled", stmt)
	}
	// signature
	sig, _ := info.TypeOf(call.Fun).(*types.Signature)
	if sig == nil {
		return edit{}, "no signature"
	}
	if sig.Params().Len() != len(call.Args) {
		return edit{}, "argument count differs from parameter count"
	}
	text := func(b []byte, n ast.Node) string {
		return string(b[fset.Position(n.Pos()).Offset:fset.Position(n.End()).Offset])
	}
	// result types, as written in the helper's file
	var resTypes, resNames []string
	if fd.Type.Results != nil {
		for _, f := range fd.Type.Results.List {
			t := text(hsrc, f.Type)
			if hpath != path && mentionsPackage(f.Type) {
				return edit{}, "result type names a package and the helper lives in another file"
			}
			if len(f.Names) == 0 {
				resTypes = append(resTypes, t)
				resNames = append(resNames, "")
			}
			for _, n := range f.Names {
				resTypes = append(resTypes, t)
				resNames = append(resNames, n.Name)
			}
		}
	}
	nres := len(resTypes)
	if generalPos && nres != 1 {
		return edit{}, "multi-value or void call inside a larger expression"
	}
	switch s := stmt.(type) {
	case *ast.IfStmt:
		if containsNode(s.Cond, call) && nres != 1 {
			return edit{}, "multi-value call in a condition"
		}
	}
	tmp := func(i int) string { return fmt.Sprintf("inl%dR%d", k, i) }
	label := fmt.Sprintf("inl%dEnd", k)
	// indentation of the statement
	so := fset.Position(stmt.Pos()).Offset
	ls := so
	for ls > 0 && src[ls-1] != '\n' {
		ls--
	}
	indent := string(src[ls:so])
	if strings.TrimSpace(indent) != "" {
		return edit{}, "statement does not start its line"
	}
	// `return f(…)`: the helper's returns are the caller's returns — no temporaries, no jump
	tail := false
	if rs, ok := stmt.(*ast.ReturnStmt); ok && len(rs.Results) == 1 && ast.Unparen(rs.Results[0]) == ast.Expr(call) && nres > 0 {
		tail = true
	}
	var b strings.Builder
	if !tail {
		for i, t := range resTypes {
			fmt.Fprintf(&b, "var %s %s\n%s", tmp(i), t, indent)
		}
	}
	if len(guards) > 0 {
		// evaluated only where the original expression would have evaluated the call
		var gs []string
		for _, g := range guards {
			t := "(" + text(src, g.x) + ")"
			if g.neg {
				t = "!" + t
			}
			gs = append(gs, t)
		}
		fmt.Fprintf(&b, "if %s {\n%s", strings.Join(gs, " && "), indent)
	}
	b.WriteString("{\n")
	// receiver and parameters
	var lhs, rhs []string
	if fd.Recv != nil && len(fd.Recv.List) == 1 {
		sel, ok := ast.Unparen(call.Fun).(*ast.SelectorExpr)
		if !ok {
			return edit{}, "method called without a selector"
		}
		selection := info.Selections[sel]
		if selection == nil || len(selection.Index()) != 1 {
			return edit{}, "promoted or unresolved method"
		}
		rx := text(src, sel.X)
		_, declPtr := fd.Recv.List[0].Type.(*ast.StarExpr)
		_, havePtr := info.TypeOf(sel.X).Underlying().(*types.Pointer)
		switch {
		case declPtr && !havePtr:
			rx = "&(" + rx + ")"
		case !declPtr && havePtr:
			rx = "*(" + rx + ")"
		}
		name := "_"
		if len(fd.Recv.List[0].Names) == 1 {
			name = fd.Recv.List[0].Names[0].Name
		}
		lhs, rhs = append(lhs, name), append(rhs, rx)
	}
	ai := 0
	if fd.Type.Params != nil {
		for _, f := range fd.Type.Params.List {
			names := f.Names
			if len(names) == 0 {
				lhs, rhs = append(lhs, "_"), append(rhs, text(src, call.Args[ai]))
				ai++
				continue
			}
			for _, n := range names {
				// the parameter keeps its declared type (an untyped constant argument must not change it)
				lhs = append(lhs, n.Name)
				rhs = append(rhs, "("+text(hsrc, f.Type)+")("+text(src, call.Args[ai])+")")
				if hpath != path && mentionsPackage(f.Type) {
					return edit{}, "parameter type names a package and the helper lives in another file"
				}
				ai++
			}
		}
	}
	if len(lhs) > 0 {
		allBlank := true
		var named []string
		for _, l := range lhs {
			if l != "_" {
				allBlank = false
				named = append(named, l)
			}
		}
		op := ":="
		if allBlank {
			op = "="
		}
		fmt.Fprintf(&b, "%s\t%s %s %s\n", indent, strings.Join(lhs, ", "), op, strings.Join(rhs, ", "))
		if len(named) > 0 {
			fmt.Fprintf(&b, "%s\t%s = %s\n", indent, strings.Repeat("_, ", len(named)-1)+"_", strings.Join(named, ", "))
		}
	}
	for i, n := range resNames {
		if n != "" && n != "_" {
			fmt.Fprintf(&b, "%s\tvar %s %s\n%s\t_ = %s\n", indent, n, resTypes[i], indent, n)
		}
	}
	// body with returns rewritten
	bodyStart := fset.Position(fd.Body.Lbrace).Offset + 1
	bodyEnd := fset.Position(fd.Body.Rbrace).Offset
	var rets []*ast.ReturnStmt
	ast.Inspect(fd.Body, func(n ast.Node) bool {
		switch x := n.(type) {
		case *ast.FuncLit:
			return false
		case *ast.ReturnStmt:
			rets = append(rets, x)
		}
		return true
	})
	var last ast.Stmt
	if n := len(fd.Body.List); n > 0 {
		last = fd.Body.List[n-1]
	}
	usesGoto := false
	body := append([]byte{}, hsrc[bodyStart:bodyEnd]...)
	sort.Slice(rets, func(i, j int) bool { return rets[i].Pos() > rets[j].Pos() })
	for _, rs := range rets {
		var asg string
		switch {
		case nres == 0:
		case len(rs.Results) == 0:
			var ns []string
			for _, n := range resNames {
				if n == "" || n == "_" {
					return edit{}, "bare return with unnamed results"
				}
				ns = append(ns, n)
			}
			asg = joinTmps(tmp, nres) + " = " + strings.Join(ns, ", ")
		default:
			var es []string
			for _, e := range rs.Results {
				es = append(es, text(hsrc, e))
			}
			asg = joinTmps(tmp, nres) + " = " + strings.Join(es, ", ")
		}
		rep := ""
		if tail {
			if len(rs.Results) > 0 {
				continue // stays a return
			}
			var ns []string
			for _, n := range resNames {
				if n == "" || n == "_" {
					return edit{}, "bare return with unnamed results"
				}
				ns = append(ns, n)
			}
			rep = "return " + strings.Join(ns, ", ")
		} else if ast.Stmt(rs) == last {
			rep = asg
		} else {
			usesGoto = true
			if asg != "" {
				rep = "{ " + asg + "; goto " + label + " }"
			} else {
				rep = "goto " + label
			}
		}
		rs0 := fset.Position(rs.Pos()).Offset - bodyStart
		rs1 := fset.Position(rs.End()).Offset - bodyStart
		body = append(append(append([]byte{}, body[:rs0]...), []byte(rep)...), body[rs1:]...)
	}
	// a body that can fall off its end with results pending does not exist in compiled code
	fmt.Fprintf(&b, "//line %s:%d\n", hpath, fset.Position(fd.Body.Lbrace).Line)
	b.Write(body)
	if !bytes.HasSuffix(body, []byte("\n")) {
		b.WriteString("\n")
	}
	if tail {
		fmt.Fprintf(&b, "//line %s:%d\n%s}", path, fset.Position(stmt.End()).Line, indent)
		return edit{ls + len(indent), fset.Position(stmt.End()).Offset, b.String()}, ""
	}
	fmt.Fprintf(&b, "//line %s:%d\n", path, fset.Position(stmt.Pos()).Line-1)
	fmt.Fprintf(&b, "%s}\n", indent)
	// the directive above makes the next line (the closing brace) line-1, so that the statement keeps its line
	if usesGoto {
		fmt.Fprintf(&b, "//line %s:%d\n%s%s:\n", path, fset.Position(stmt.Pos()).Line-1, indent, label)
	}
	if len(guards) > 0 {
		fmt.Fprintf(&b, "//line %s:%d\n%s}\n", path, fset.Position(stmt.Pos()).Line-1, indent)
	}
	// the statement itself, the call replaced by the temporaries
	co0 := fset.Position(call.Pos()).Offset - so
	co1 := fset.Position(call.End()).Offset - so
	st := string(src[so:fset.Position(stmt.End()).Offset])
	repl := joinTmps(tmp, nres)
	var newStmt string
	if es, ok := stmt.(*ast.ExprStmt); ok && ast.Unparen(es.X) == ast.Expr(call) {
		if nres > 0 {
			newStmt = strings.Repeat("_, ", nres-1) + "_ = " + repl
		} else {
			newStmt = ""
		}
	} else if is, ok := stmt.(*ast.IfStmt); ok && is.Init != nil {
		if ie, isExpr := is.Init.(*ast.ExprStmt); isExpr && ast.Unparen(ie.X) == ast.Expr(call) {
			if nres > 0 {
				repl = strings.Repeat("_, ", nres-1) + "_ = " + repl
				newStmt = st[:co0] + repl + st[co1:]
			} else {
				// `if f(); cond {` → `if cond {`
				i0 := fset.Position(is.Init.Pos()).Offset - so
				i1 := fset.Position(is.Cond.Pos()).Offset - so
				newStmt = st[:i0] + st[i1:]
			}
		} else {
			newStmt = st[:co0] + repl + st[co1:]
		}
	} else {
		if nres == 0 {
			return edit{}, "value of a call without results is used"
		}
		newStmt = st[:co0] + repl + st[co1:]
	}
	fmt.Fprintf(&b, "//line %s:%d\n%s%s", path, fset.Position(stmt.Pos()).Line, indent, newStmt)
	return edit{ls + len(indent), fset.Position(stmt.End()).Offset, b.String()}, ""
}

func joinTmps(tmp func(int) string, n int) string {
	var s []string
	for i := 0; i < n; i++ {
		s = append(s, tmp(i))
	}
	return strings.Join(s, ", ")
}

func containsNode(root ast.Node, x ast.Node) bool {
	f := false
	ast.Inspect(root, func(n ast.Node) bool {
		if n == x {
			f = true
		}
		return !f
	})
	return f
}

func hasCall(root ast.Node) bool {
	f := false
	ast.Inspect(root, func(n ast.Node) bool {
		if _, ok := n.(*ast.CallExpr); ok {
			f = true
		}
		return !f
	})
	return f
}

// condHolds: the condition is the call, its negation, or a comparison / conjunction whose FIRST
// evaluated operand chain leads to the call with nothing that has effects before it.
func condHolds(cond ast.Expr, call *ast.CallExpr) bool {
	switch c := ast.Unparen(cond).(type) {
	case *ast.CallExpr:
		return c == call
	case *ast.UnaryExpr:
		return c.Op == token.NOT && condHolds(c.X, call)
	case *ast.BinaryExpr:
		if containsNode(c.X, call) {
			return condHolds(c.X, call)
		}
		// call on the right: the left must be effect-free and (for && / ||) is evaluated first — only comparisons are accepted
		if c.Op == token.LAND || c.Op == token.LOR {
			return false
		}
		return !hasCall(c.X) && condHolds(c.Y, call)
	}
	return false
}

func mentionsPackage(t ast.Expr) bool {
	f := false
	ast.Inspect(t, func(n ast.Node) bool {
		if _, ok := n.(*ast.SelectorExpr); ok {
			f = true
		}
		return !f
	})
	return f
}

// condGuard: the call is evaluated only if x is true (neg=false) or false (neg=true).
type condGuard struct {
	x   ast.Expr
	neg bool
}

// firstEffect: among the calls and channel receives the roots evaluate (in evaluation order:
// operands before the operation, left to right), the first one outside call's own arguments is
// call itself. If call sits under the right operand of && / ||, the left operands are returned as
// guards — they must be free of effects, so that evaluating them twice changes nothing. A call
// inside a function literal is not handled.
func firstEffect(info *types.Info, roots []ast.Node, call *ast.CallExpr) (bool, []condGuard) {
	var order []ast.Node
	bad := false
	var callGuards []condGuard
	var walk func(n ast.Node, guards []condGuard)
	walk = func(n ast.Node, guards []condGuard) {
		switch x := n.(type) {
		case nil:
			return
		case *ast.FuncLit:
			if containsNode(x, call) {
				bad = true
			}
			return
		case *ast.BinaryExpr:
			walk(x.X, guards)
			if (x.Op == token.LAND || x.Op == token.LOR) && containsNode(x.Y, call) {
				if hasCall(x.X) || hasRecv(x.X) {
					bad = true
				}
				walk(x.Y, append(append([]condGuard{}, guards...), condGuard{x.X, x.Op == token.LOR}))
				return
			}
			walk(x.Y, guards)
			return
		case *ast.CallExpr:
			if x == call {
				callGuards = guards
				// the receiver expression is evaluated before; the arguments move with the call
				if sel, ok := ast.Unparen(x.Fun).(*ast.SelectorExpr); ok {
					walk(sel.X, guards)
				}
				order = append(order, x)
				return
			}
			walk(x.Fun, guards)
			for _, a := range x.Args {
				walk(a, guards)
			}
			if tv, ok := info.Types[x.Fun]; ok && tv.IsType() {
				return // conversion
			}
			if id, ok := ast.Unparen(x.Fun).(*ast.Ident); ok {
				if _, isB := info.Uses[id].(*types.Builtin); isB && (id.Name == "len" || id.Name == "cap") {
					return
				}
			}
			order = append(order, x)
			return
		case *ast.UnaryExpr:
			walk(x.X, guards)
			if x.Op == token.ARROW {
				order = append(order, x)
			}
			return
		}
		// generic descent, left to right
		var kids []ast.Node
		ast.Inspect(n, func(m ast.Node) bool {
			if m == nil || m == n {
				return true
			}
			kids = append(kids, m)
			return false
		})
		for _, k := range kids {
			walk(k, guards)
		}
	}
	for _, r := range roots {
		walk(r, nil)
	}
	return !bad && len(order) > 0 && order[0] == ast.Node(call), callGuards
}

func hasRecv(root ast.Node) bool {
	f := false
	ast.Inspect(root, func(n ast.Node) bool {
		if u, ok := n.(*ast.UnaryExpr); ok && u.Op == token.ARROW {
			f = true
		}
		return !f
	})
	return f
}

// exprHelper: the body is exactly `return <one expression>` and the function has one result.
func exprHelper(fd *ast.FuncDecl) (ast.Expr, bool) {
	if fd.Type.Results == nil || len(fd.Type.Results.List) != 1 || len(fd.Type.Results.List[0].Names) > 1 {
		return nil, false
	}
	if len(fd.Body.List) != 1 {
		return nil, false
	}
	rs, ok := fd.Body.List[0].(*ast.ReturnStmt)
	if !ok || len(rs.Results) != 1 {
		return nil, false
	}
	if hasFuncLit(rs.Results[0]) {
		return nil, false
	}
	return rs.Results[0], true
}

func hasFuncLit(n ast.Node) bool {
	f := false
	ast.Inspect(n, func(m ast.Node) bool {
		if _, ok := m.(*ast.FuncLit); ok {
			f = true
		}
		return !f
	})
	return f
}

// inlineExpr replaces the call by the helper's expression with arguments substituted.
func inlineExpr(fset *token.FileSet, info *types.Info, src, hsrc []byte, hpath, path string, call *ast.CallExpr, fd *ast.FuncDecl, e ast.Expr) (edit, string) {
	if hpath != path && mentionsPackage(e) {
		return edit{}, "expression names a package and the helper lives in another file"
	}
	text := func(b []byte, n ast.Node) string {
		return string(b[fset.Position(n.Pos()).Offset:fset.Position(n.End()).Offset])
	}
	// parameter objects → argument text
	sub := map[types.Object]string{}
	pure := func(x ast.Expr) bool { return !hasCall(x) && !hasRecv(x) && !hasFuncLit(x) }
	if fd.Recv != nil && len(fd.Recv.List) == 1 {
		sel, ok := ast.Unparen(call.Fun).(*ast.SelectorExpr)
		if !ok {
			return edit{}, "method called without a selector"
		}
		selection := info.Selections[sel]
		if selection == nil || len(selection.Index()) != 1 || !pure(sel.X) {
			return edit{}, "receiver not substitutable"
		}
		rx := text(src, sel.X)
		_, declPtr := fd.Recv.List[0].Type.(*ast.StarExpr)
		_, havePtr := info.TypeOf(sel.X).Underlying().(*types.Pointer)
		switch {
		case declPtr && !havePtr:
			rx = "&(" + rx + ")"
		case !declPtr && havePtr:
			rx = "*(" + rx + ")"
		}
		if len(fd.Recv.List[0].Names) == 1 {
			if obj := info.Defs[fd.Recv.List[0].Names[0]]; obj != nil {
				sub[obj] = "(" + rx + ")"
			}
		}
	}
	ai := 0
	if fd.Type.Params != nil {
		for _, f := range fd.Type.Params.List {
			if _, ok := f.Type.(*ast.Ellipsis); ok {
				return edit{}, "variadic"
			}
			names := f.Names
			if len(names) == 0 {
				if ai >= len(call.Args) || !pure(call.Args[ai]) {
					return edit{}, "argument with effects"
				}
				ai++
				continue
			}
			for _, n := range names {
				if ai >= len(call.Args) || !pure(call.Args[ai]) {
					return edit{}, "argument with effects"
				}
				if hpath != path && mentionsPackage(f.Type) {
					return edit{}, "parameter type names a package and the helper lives in another file"
				}
				if obj := info.Defs[n]; obj != nil {
					sub[obj] = "((" + text(hsrc, f.Type) + ")(" + text(src, call.Args[ai]) + "))"
				}
				ai++
			}
		}
	}
	if ai != len(call.Args) {
		return edit{}, "argument count differs from parameter count"
	}
	// substitute identifiers of e, right to left
	e0 := fset.Position(e.Pos()).Offset
	out := []byte(text(hsrc, e))
	var ids []*ast.Ident
	ast.Inspect(e, func(n ast.Node) bool {
		if id, ok := n.(*ast.Ident); ok {
			if _, isParam := sub[info.Uses[id]]; isParam {
				ids = append(ids, id)
			}
		}
		return true
	})
	sort.Slice(ids, func(i, j int) bool { return ids[i].Pos() > ids[j].Pos() })
	for _, id := range ids {
		o := fset.Position(id.Pos()).Offset - e0
		out = append(append(append([]byte{}, out[:o]...), []byte(sub[info.Uses[id]])...), out[o+len(id.Name):]...)
	}
	if bytes.Contains(out, []byte("\n")) {
		return edit{}, "multi-line expression"
	}
	return edit{fset.Position(call.Pos()).Offset, fset.Position(call.End()).Offset, "(" + string(out) + ")"}, ""
}
