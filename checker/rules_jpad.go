package main

import (
	"go/token"

	"golang.org/x/tools/go/ssa"
)

// ruleJournalTailPadding: the journal writer may fill the rest of a block with zeroes only when a
// chunk header (7 bytes) no longer fits there; the reader parses any 7 bytes it finds at the end of
// a block as a header, and seven zeroes are a "zero header" — damage, in an undamaged journal
// (strict readers stop, tolerant ones report a drop). Every zero store into the writer's block
// buffer is therefore guarded by "fewer than headerSize bytes remain": j+headerSize > blockSize
// (after j was advanced by headerSize: j > blockSize) or blockSize-j < headerSize.
func ruleJournalTailPadding(p *Prog, r *Report, rule string) {
	r.Begin(rule, "E-GUARD", "journal writer: the tail of a block is zero-filled only where fewer than headerSize (7) bytes remain — `j > blockSize` after j += headerSize, or `blockSize - j < headerSize`; with exactly 7 bytes left a header still fits and the reader would parse the padding as one", 1)
	defer r.End()
	tW := "leveldb/journal.Writer"
	n := 0
	for _, fn := range p.SrcFuncs("leveldb/journal") {
		pad := func(in ssa.Instruction) bool {
			st, ok := in.(*ssa.Store)
			if !ok || !mConstInt(0)(st.Val) {
				return false
			}
			ia, ok := st.Addr.(*ssa.IndexAddr)
			if !ok {
				return false
			}
			_, f, _, ok := fieldOf(ia.X)
			return ok && f == "buf"
		}
		if countInstr(fn, pad) == 0 {
			continue
		}
		n++
		r.Fn(fnName(fn))
		jLoad := mFieldLoad(tW, "j")
		advanced := cmpAtom("j>blockSize", token.GTR, jLoad, mConstInt(32768))
		remaining := cmpAtom("blockSize-j<headerSize", token.LSS, func(v ssa.Value) bool {
			b, ok := v.(*ssa.BinOp)
			return ok && b.Op == token.SUB && mConstInt(32768)(b.X) && jLoad(b.Y)
		}, mConstInt(7))
		checkGuard(p, r, GuardSpec{Rule: "pad-only-when-no-header-fits", Fn: fn, Target: pad, TargetDesc: "zero-filling the block tail", Atoms: []Atom{advanced, remaining}, G: func(a []bool) bool { return a[0] || a[1] }, GDesc: "fewer than headerSize bytes remain in the block", MinTargets: 1})
	}
	r.Site(n)
}
