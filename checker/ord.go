package main

import (
	"fmt"
	"go/token"

	"golang.org/x/tools/go/ssa"
)

// E-ORD helpers that record obligations.

type fnRef struct {
	pkg, name string
}

// resolveFn resolves an anchor or records an unresolved-anchor violation.
func resolveFn(p *Prog, r *Report, pkg, name string) *ssa.Function {
	fn := p.Fn(pkg, name)
	if fn == nil || len(fn.Blocks) == 0 {
		r.Fail(pkg+":"+name, "unresolved-anchor", "the anchored function exists", "function "+pkg+":"+name+" not found (renamed or removed): the rule cannot be evaluated", "", nil)
		return nil
	}
	r.Fn(fnName(fn))
	return fn
}

// requireSites: at least n instructions in fn satisfy pred, else unresolved-anchor.
func requireSites(p *Prog, r *Report, fn *ssa.Function, kind, desc string, pred InstrPred, n int) bool {
	c := countInstr(fn, pred)
	if c < n {
		r.Fail(fnName(fn), kind+":unresolved-anchor", desc+" is present", fmt.Sprintf("expected >= %d sites of %s, found %d", n, desc, c), p.Pos(fn.Pos()), nil)
		return false
	}
	r.Site(c)
	return true
}

// ordPrecede: every path from entry to B passes A.
func ordPrecede(p *Prog, r *Report, fn *ssa.Function, kind string, edges EdgeFilter, A InstrPred, descA string, B InstrPred, descB string) {
	what := fmt.Sprintf("every path to %s passes %s first", descB, descA)
	// B registered with `defer` runs at every exit after the registration
	deferB := func(in ssa.Instruction) bool {
		if _, ok := in.(*ssa.Defer); !ok {
			return false
		}
		if B(in) {
			return false // B is about the registration itself
		}
		deferAsEvent = true
		defer func() { deferAsEvent = false }()
		return B(in)
	}
	nDef := countInstr(fn, deferB)
	if !requireSites(p, r, fn, kind, descB, orPred(B, deferB), 1) || !requireSites(p, r, fn, kind, descA, A, 1) {
		return
	}
	if w := mustPrecede(fn, edges, A, B); w != nil {
		r.Fail(fnName(fn), kind+":order", what, fmt.Sprintf("a path reaches %s without passing %s", descB, descA), p.posOfLast(w, B), p.renderPath(w))
		return
	}
	if nDef > 0 {
		// every way out after the registration — a return, a panic, a call that can unwind the goroutine
		// with the exit panic — must have passed A
		unwinds := exitPanicCalls(p)
		canUnwind := func(in ssa.Instruction) bool {
			c, ok := in.(*ssa.Call)
			if !ok || c.Call.IsInvoke() {
				return false
			}
			callee := staticCallee(&c.Call)
			if callee == nil {
				callee = closureCallee(&c.Call)
			}
			return callee != nil && unwinds[callee]
		}
		// A call of A that returns has completed; one that unwinds has not
		out := func(in ssa.Instruction) bool { return isReturn(in) || isPanic(in) || (canUnwind(in) && !A(in)) }
		unwindingA := func(in ssa.Instruction) bool { return A(in) && canUnwind(in) }
		// only registrations that A need not have preceded matter
		if findPath(entryPoint(fn), edges, A, deferB) == nil {
			r.OK(fnName(fn), kind, what)
			return
		}
		w := findPath(after(fn, deferB), edges, A, out)
		last := out
		if w == nil {
			// reaching an A that can unwind, with no completed A before it
			w = findPath(after(fn, deferB), edges, func(in ssa.Instruction) bool { return A(in) && !canUnwind(in) }, unwindingA)
			last = unwindingA
		}
		if w != nil {
			r.Fail(fnName(fn), kind+":deferred-order", what, fmt.Sprintf("%s is deferred, and after its registration a way out of the function (a return, or a call that can unwind the goroutine with the exit panic) is reachable without passing %s: the deferred call then runs although %s never completed", descB, descA, descA), p.posOfLast(w, last), p.renderPath(w))
			return
		}
	}
	r.OK(fnName(fn), kind, what)
}

// deferAsEvent lets evCall match a Defer instruction (used by ordPrecede to find deferred sites of B).
var deferAsEvent bool

var exitPanicCache map[*Prog]map[*ssa.Function]bool

// exitPanicCalls: functions from which compactionExitTransact (the deliberate exit panic) is reachable.
func exitPanicCalls(p *Prog) map[*ssa.Function]bool {
	if m, ok := exitPanicCache[p]; ok {
		return m
	}
	if exitPanicCache == nil {
		exitPanicCache = map[*Prog]map[*ssa.Function]bool{}
	}
	m := map[*ssa.Function]bool{}
	if exit := p.Fn("leveldb", "(*DB).compactionExitTransact"); exit != nil {
		m = reachersOf(p.CG(), exit)
	}
	exitPanicCache[p] = m
	return m
}

// ordOnSuccess: every success path (no error observed, assumptions applied) from entry to a
// return passes A.
func ordOnSuccess(p *Prog, r *Report, fn *ssa.Function, kind string, edges EdgeFilter, A InstrPred, descA string) {
	what := fmt.Sprintf("every success path to a return passes %s", descA)
	if !requireSites(p, r, fn, kind, descA, A, 1) {
		return
	}
	if w := mustPassBeforeReturn(fn, andEdges(noErrEdges, edges), A); w != nil {
		r.Fail(fnName(fn), kind+":skipped", what, fmt.Sprintf("a success path returns without passing %s", descA), p.posOfLast(w, isReturn), p.renderPath(w))
		return
	}
	r.OK(fnName(fn), kind, what)
}

// ordFollow: after A, every success path to a return passes B.
func ordFollow(p *Prog, r *Report, fn *ssa.Function, kind string, edges EdgeFilter, A InstrPred, descA string, B InstrPred, descB string) {
	what := fmt.Sprintf("after %s every success path to a return passes %s", descA, descB)
	if !requireSites(p, r, fn, kind, descA, A, 1) || !requireSites(p, r, fn, kind, descB, B, 1) {
		return
	}
	if w := mustFollow(fn, andEdges(noErrEdges, edges), A, B); w != nil {
		r.Fail(fnName(fn), kind+":not-followed", what, fmt.Sprintf("after %s a success path returns without %s", descA, descB), p.posOfLast(w, isReturn), p.renderPath(w))
		return
	}
	r.OK(fnName(fn), kind, what)
}

// ordNeverAfter: no path from after A reaches B unless it passes C first.
func ordNeverAfter(p *Prog, r *Report, fn *ssa.Function, kind string, edges EdgeFilter, A InstrPred, descA string, B InstrPred, descB string, C InstrPred, descC string) {
	what := fmt.Sprintf("after %s, %s is not reached", descA, descB)
	if C != nil {
		what += " before " + descC
	}
	if !requireSites(p, r, fn, kind, descA, A, 1) {
		return
	}
	if w := neverAfter(fn, edges, A, B, C); w != nil {
		r.Fail(fnName(fn), kind+":reached-after", what, fmt.Sprintf("%s is reachable after %s", descB, descA), p.posOfLast(w, B), p.renderPath(w))
		return
	}
	r.OK(fnName(fn), kind, what)
}

func (p *Prog) posOfLast(w []*ssa.BasicBlock, pred InstrPred) string {
	if len(w) == 0 {
		return ""
	}
	last := w[len(w)-1]
	for _, in := range last.Instrs {
		if pred(in) {
			if in.Pos().IsValid() {
				return p.Pos(in.Pos())
			}
		}
	}
	for i := len(last.Instrs) - 1; i >= 0; i-- {
		if last.Instrs[i].Pos().IsValid() {
			return p.Pos(last.Instrs[i].Pos())
		}
	}
	return p.Pos(last.Parent().Pos())
}

// errValueOfCall: edge filters relative to the error result of specific calls.
// onlyWhenErr keeps, for nil-tests on values produced by calls matching callPred, only the
// non-nil edge; everything else is unconstrained.
func onlyWhenErr(valPred VMatch) EdgeFilter {
	return func(b *ssa.BasicBlock, succ int) bool {
		cond, neg, ok := ifCond(b)
		if !ok {
			return true
		}
		x, trueNonNil, ok := condNilTest(cond)
		if !ok || !(valPred(x) || valPred(testedValue(x))) {
			return true
		}
		if neg {
			trueNonNil = !trueNonNil
		}
		nonNilEdge := 1
		if trueNonNil {
			nonNilEdge = 0
		}
		return succ == nonNilEdge
	}
}

// mErrOfCall: the value is the error result of a call to one of callees (single result, or
// extract of a tuple at the error position).
func mErrOfCall(callees ...string) VMatch {
	return func(v ssa.Value) bool {
		v = stripConv(v)
		if !isErrorType(v.Type()) {
			return false
		}
		switch x := v.(type) {
		case *ssa.Call:
			return isCallTo(x, callees...)
		case *ssa.Extract:
			c, ok := x.Tuple.(*ssa.Call)
			return ok && isCallTo(c, callees...)
		}
		return false
	}
}

// ordNotOnError: B is unreachable from after the call(s) when the call's error result is non-nil.
func ordNotOnError(p *Prog, r *Report, fn *ssa.Function, kind string, errVal VMatch, descErr string, A InstrPred, B InstrPred, descB string) {
	what := fmt.Sprintf("%s is not reached when %s failed", descB, descErr)
	if !requireSites(p, r, fn, kind, descB, B, 1) {
		return
	}
	// the error must actually be tested somewhere
	tested := false
	for _, b := range fn.Blocks {
		if cond, _, ok := ifCond(b); ok {
			if x, _, ok := condNilTest(cond); ok && (errVal(x) || errVal(testedValue(x))) {
				tested = true
			}
		}
	}
	if !tested {
		r.Fail(fnName(fn), kind+":error-unchecked", what, fmt.Sprintf("the error of %s is never tested against nil in this function", descErr), p.Pos(fn.Pos()), nil)
		return
	}
	starts := entryPoint(fn)
	if A != nil {
		starts = after(fn, A)
	}
	if w := findPath(starts, onlyWhenErr(errVal), nil, B); w != nil {
		r.Fail(fnName(fn), kind+":reached-on-error", what, fmt.Sprintf("%s is reachable on the error edge of %s", descB, descErr), p.posOfLast(w, B), p.renderPath(w))
		return
	}
	r.OK(fnName(fn), kind, what)
}

// argIs: the call's idx-th argument (0 = receiver for methods) satisfies m.
func argIs(in ssa.Instruction, idx int, m VMatch) bool {
	cc := callCommon(in)
	if cc == nil {
		return false
	}
	args := cc.Args
	if idx >= len(args) {
		return false
	}
	return m(args[idx])
}

func andPred(ps ...InstrPred) InstrPred {
	return func(in ssa.Instruction) bool {
		for _, p := range ps {
			if !p(in) {
				return false
			}
		}
		return true
	}
}

func predArg(idx int, m VMatch) InstrPred {
	return func(in ssa.Instruction) bool { return argIs(in, idx, m) }
}

// closureCallee resolves a call through a local function variable to the function literal bound
// to it (single MakeClosure / function value stored in the cell).
func closureCallee(cc *ssa.CallCommon) *ssa.Function {
	if cc == nil || cc.IsInvoke() {
		return nil
	}
	var rec func(v ssa.Value, depth int) *ssa.Function
	rec = func(v ssa.Value, depth int) *ssa.Function {
		if depth > 4 {
			return nil
		}
		switch x := v.(type) {
		case *ssa.MakeClosure:
			f, _ := x.Fn.(*ssa.Function)
			return f
		case *ssa.Function:
			return x
		case *ssa.UnOp:
			if x.Op == token.MUL {
				st := cellStores(x.X)
				if len(st) == 1 {
					return rec(st[0], depth+1)
				}
			}
		}
		return nil
	}
	return rec(cc.Value, 0)
}

func evCallClosure(target *ssa.Function) InstrPred {
	return func(in ssa.Instruction) bool {
		if _, isDefer := in.(*ssa.Defer); isDefer {
			return false
		}
		cc := callCommon(in)
		return cc != nil && target != nil && closureCallee(cc) == target
	}
}
