package main

import (
	"flag"
	"fmt"
	"os"
	"path/filepath"
	"runtime"
	"runtime/debug"
	"sort"
	"strconv"
	"strings"
	"time"

	"golang.org/x/tools/go/ssa"
)

type propDef struct {
	id          string
	run         func(p *Prog, r *Report)
	explanation string
	notCovered  string
	assumptions []string
}

var props = map[string]*propDef{}

func register(d *propDef) { props[d.id] = d }

var progStart = time.Now()

func main() {
	// The analysis is allocation-heavy and short; on oversubscribed VMs many threads only add
	// kernel contention (measured: 16 threads 60 s vs 2 threads 8 s), so stay narrow by default.
	procs := 2
	if v := os.Getenv("LVCHECK_PROCS"); v != "" {
		if n, err := strconv.Atoi(v); err == nil && n > 0 {
			procs = n
		}
	}
	runtime.GOMAXPROCS(procs)
	debug.SetGCPercent(400)
	repo := flag.String("repo", "/repo", "repository root")
	verif := flag.String("verif", "/verif", "verification root (evidence, known findings, fixtures)")
	prop := flag.String("prop", "", "property id (C01..C20) or 'all'")
	tier := flag.String("tier", "", "quick|thorough")
	dump := flag.String("dump", "", "debug: dump SSA of pkgrel:func")
	dumpObl := flag.Bool("dumpobl", false, "debug: print every obligation key")
	mutantSpec := flag.String("mutant", "", "self-test: analyse the tree with mutant file.json:id applied as an overlay (exit 3 if its context is not found)")
	noFx := flag.Bool("nofixtures", false, "debug: skip positive controls")
	only := flag.String("only", "", "debug: run only rules with this prefix")
	out := flag.String("out", "", "evidence output directory (default <verif>/evidence)")
	flag.Parse()
	if *tier == "" {
		*tier = os.Getenv("VERIF_TIER")
	}
	if *tier == "" {
		*tier = "quick"
	}
	var seed int64
	if s := os.Getenv("VERIF_SEED"); s != "" {
		seed, _ = strconv.ParseInt(s, 10, 64)
	}
	onlyRule = *only
	if *mutantSpec != "" {
		ok, err := applyMutantOverlay(*repo, *mutantSpec)
		if err != nil {
			fmt.Println("MUTANT ERROR:", err)
			os.Exit(2)
		}
		if !ok {
			fmt.Println("mutant context not found")
			os.Exit(3)
		}
	}

	if *dump != "" {
		p, err := loadProg(*repo, "", "", []string{"./leveldb/..."}, 13)
		if strings.HasPrefix(*dump, "fixtures/") {
			p, err = loadProg(*verif+"/fixtures", "", "", []string{"./..."}, 1)
		}
		if err != nil {
			fmt.Println("LOAD ERROR:", err)
			os.Exit(2)
		}
		if *dump == "dropped" {
			dumpDropped(p)
			return
		}
		if *dump == "fns" {
			// inventory: every source function of the module with its size (instructions)
			for rel := range p.ByRel {
				for _, f := range p.SrcFuncs(rel) {
					n := 0
					for _, b := range f.Blocks {
						n += len(b.Instrs)
					}
					fmt.Printf("FN\t%s\t%d\n", fnName(f), n)
				}
			}
			return
		}
		if strings.HasPrefix(*dump, "chanops:") {
			dumpChanOps(p, strings.TrimPrefix(*dump, "chanops:"))
			return
		}
		parts := strings.SplitN(*dump, ":", 2)
		fn := p.Fn(parts[0], parts[1])
		if fn == nil {
			fmt.Println("not found")
			os.Exit(2)
		}
		withAnons(fn, func(f *ssa.Function) { f.WriteTo(os.Stdout) })
		return
	}

	var ids []string
	if *prop == "all" {
		for id := range props {
			ids = append(ids, id)
		}
		sort.Strings(ids)
	} else {
		if props[*prop] == nil {
			fmt.Printf("unknown property %q\n", *prop)
			os.Exit(2)
		}
		ids = []string{*prop}
	}

	exit := 0
	p, err := loadProg(*repo, "", "", []string{"./leveldb/..."}, 13)
	var fx *Prog
	var fxErr error
	if !*noFx {
		fx, fxErr = loadProg(*verif+"/fixtures", "", "", []string{"./..."}, 1)
	}
	for _, id := range ids {
		d := props[id]
		r := newReport(id, *tier, seed, *verif)
		if *out != "" {
			r.outDir = *out
		} else if *only != "" || *noFx || *mutantSpec != "" {
			// debug / self-test runs are partial: never overwrite the real evidence files
			r.outDir = filepath.Join(os.TempDir(), "lvcheck-debug-evidence")
		}
		if err != nil {
			r.Begin(id+".load", "LOAD", "the repository loads and type-checks (linux/amd64, no tests)", 0)
			r.Fail("repo", "load-error", "packages load without error", err.Error(), "", nil)
			r.End()
		} else {
			func() {
				defer func() {
					if x := recover(); x != nil {
						if r.cur == nil {
							r.Begin(id+".panic", "ENGINE", "analysis completes", 0)
						}
						r.Fail("checker", "analysis-panic", "analysis completes without internal error", fmt.Sprintf("%v\n%s", x, debug.Stack()), "", nil)
						r.End()
					}
				}()
				r.Extra["packages"] = len(p.Pkgs)
				d.run(p, r)
				if !*noFx {
					if fxErr != nil {
						r.Begin(id+".fixtures", "CONTROL", "positive-control fixtures load", 0)
						r.Fail("fixtures", "load-error", "fixtures load", fxErr.Error(), "", nil)
						r.End()
					} else {
						runControls(id, fx, r)
					}
				}
				if *tier == "thorough" {
					runThorough(id, d, p, r, *repo, *verif)
				}
			}()
		}
		if *dumpObl {
			for _, o := range r.Obls {
				fmt.Printf("OBL\t%s\t%s\t%s\t%s\n", o.Rule, o.Construct, o.Kind, o.Status)
			}
		}
		code := r.Finish(d.explanation, d.assumptions, d.notCovered)
		if code > exit {
			exit = code
		}
	}
	os.Exit(exit)
}

var onlyRule string

// want reports whether a rule should run under the -only debug filter.
func want(rule string) bool {
	return onlyRule == "" || strings.HasPrefix(rule, onlyRule)
}
