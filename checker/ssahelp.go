package main

import (
	"go/constant"
	"go/token"
	"go/types"
	"strings"

	"golang.org/x/tools/go/ssa"
)

// ---------- type helpers ----------

func derefT(t types.Type) types.Type {
	if p, ok := t.Underlying().(*types.Pointer); ok {
		return p.Elem()
	}
	return t
}

// namedOf returns "pkgrel.Name" for a (pointer to) named type, or "".
func namedOf(t types.Type) string {
	t = derefT(t)
	if n, ok := t.(*types.Named); ok {
		o := n.Obj()
		if o.Pkg() == nil {
			return o.Name()
		}
		return strings.TrimPrefix(o.Pkg().Path(), modPath) + "." + o.Name()
	}
	return ""
}

var errorType = types.Universe.Lookup("error").Type()

func isErrorType(t types.Type) bool {
	if t == nil {
		return false
	}
	return types.Identical(t, errorType)
}

// ---------- call helpers ----------

func callCommon(in ssa.Instruction) *ssa.CallCommon {
	switch c := in.(type) {
	case *ssa.Call:
		return &c.Call
	case *ssa.Defer:
		return &c.Call
	case *ssa.Go:
		return &c.Call
	}
	return nil
}

// staticCallee resolves static callees, looking through MakeClosure and bound-method closures.
func staticCallee(cc *ssa.CallCommon) *ssa.Function {
	if cc == nil {
		return nil
	}
	if f := cc.StaticCallee(); f != nil {
		return f
	}
	return nil
}

// calleeName gives "pkgrel.(*T).M" / "pkgrel.F" for static callees, or
// "iface:pkgrel.T.M" for interface invokes, "" for dynamic calls of func values.
func calleeName(cc *ssa.CallCommon) string {
	if cc == nil {
		return ""
	}
	if cc.IsInvoke() {
		return "iface:" + namedOf(cc.Value.Type()) + "." + cc.Method.Name()
	}
	if f := staticCallee(cc); f != nil {
		return fnName(f)
	}
	if b, ok := cc.Value.(*ssa.Builtin); ok {
		return "builtin:" + b.Name()
	}
	return ""
}

// isCallTo reports whether instruction in (Call/Defer/Go) statically calls a function whose
// fnName equals one of names, or invokes an interface method "iface:T.M".
func isCallTo(in ssa.Instruction, names ...string) bool {
	cc := callCommon(in)
	if cc == nil {
		return false
	}
	n := calleeName(cc)
	if n == "" {
		return false
	}
	for _, w := range names {
		if n == w {
			return true
		}
	}
	return false
}

// isInvoke matches an interface method call by method name only (any interface).
func isInvokeNamed(in ssa.Instruction, method string) bool {
	cc := callCommon(in)
	return cc != nil && cc.IsInvoke() && cc.Method.Name() == method
}

// ---------- value helpers ----------

// stripConv removes ChangeType/Convert/MakeInterface/ChangeInterface wrappers.
func stripConv(v ssa.Value) ssa.Value {
	for {
		switch x := v.(type) {
		case *ssa.ChangeType:
			v = x.X
		case *ssa.Convert:
			v = x.X
		case *ssa.MakeInterface:
			v = x.X
		case *ssa.ChangeInterface:
			v = x.X
		default:
			return v
		}
	}
}

// fieldOf: if v is FieldAddr or Field, returns (struct named type "pkgrel.T", field name, base value).
func fieldOf(v ssa.Value) (string, string, ssa.Value, bool) {
	switch x := v.(type) {
	case *ssa.FieldAddr:
		st := derefT(x.X.Type())
		s, ok := st.Underlying().(*types.Struct)
		if !ok {
			return "", "", nil, false
		}
		return namedOf(st), s.Field(x.Field).Name(), x.X, true
	case *ssa.Field:
		st := x.X.Type()
		s, ok := st.Underlying().(*types.Struct)
		if !ok {
			return "", "", nil, false
		}
		return namedOf(st), s.Field(x.Field).Name(), x.X, true
	}
	return "", "", nil, false
}

// isFieldLoad: v is a load (UnOp *) of FieldAddr T.f, or a Field extraction T.f.
func isFieldLoad(v ssa.Value, typ, field string) bool {
	v = stripConv(v)
	if u, ok := v.(*ssa.UnOp); ok && u.Op == token.MUL {
		t, f, _, ok := fieldOf(u.X)
		return ok && t == typ && f == field
	}
	if _, ok := v.(*ssa.Field); ok {
		t, f, _, ok := fieldOf(v)
		return ok && t == typ && f == field
	}
	return false
}

// isFieldAddr: v is &x.f for T.f
func isFieldAddr(v ssa.Value, typ, field string) bool {
	if fa, ok := v.(*ssa.FieldAddr); ok {
		t, f, _, ok := fieldOf(fa)
		return ok && t == typ && f == field
	}
	return false
}

func constInt(v ssa.Value) (int64, bool) {
	v = stripConv(v)
	if c, ok := v.(*ssa.Const); ok && c.Value != nil && c.Value.Kind() == constant.Int {
		i, exact := constant.Int64Val(c.Value)
		if exact {
			return i, true
		}
		// uint64 beyond int64
		u, exact := constant.Uint64Val(c.Value)
		if exact {
			return int64(u), true
		}
	}
	return 0, false
}

func constUint(v ssa.Value) (uint64, bool) {
	v = stripConv(v)
	if c, ok := v.(*ssa.Const); ok && c.Value != nil && c.Value.Kind() == constant.Int {
		u, exact := constant.Uint64Val(c.Value)
		return u, exact
	}
	return 0, false
}

func isNilConst(v ssa.Value) bool {
	c, ok := v.(*ssa.Const)
	return ok && c.Value == nil
}

func constBool(v ssa.Value) (bool, bool) {
	if c, ok := v.(*ssa.Const); ok && c.Value != nil && c.Value.Kind() == constant.Bool {
		return constant.BoolVal(c.Value), true
	}
	return false, false
}

// extractOf: v is Extract #idx of a call matching names (any if names empty); returns the call.
func extractOf(v ssa.Value, idx int, names ...string) (*ssa.Call, bool) {
	v = stripConv(v)
	e, ok := v.(*ssa.Extract)
	if !ok || e.Index != idx {
		return nil, false
	}
	c, ok := e.Tuple.(*ssa.Call)
	if !ok {
		return nil, false
	}
	if len(names) == 0 || isCallTo(c, names...) {
		return c, true
	}
	return nil, false
}

// callValue: v is the (single) result of a call matching names.
func callValue(v ssa.Value, names ...string) (*ssa.Call, bool) {
	v = stripConv(v)
	c, ok := v.(*ssa.Call)
	if !ok {
		return nil, false
	}
	if len(names) == 0 || isCallTo(c, names...) {
		return c, true
	}
	return nil, false
}

// instrs iterates all instructions of fn.
func instrs(fn *ssa.Function, f func(b *ssa.BasicBlock, i int, in ssa.Instruction)) {
	for _, b := range fn.Blocks {
		for i, in := range b.Instrs {
			f(b, i, in)
		}
	}
}

// withAnons iterates fn and all its nested anonymous functions.
func withAnons(fn *ssa.Function, f func(*ssa.Function)) {
	f(fn)
	for _, a := range fn.AnonFuncs {
		withAnons(a, f)
	}
}

// findCalls returns all Call/Defer/Go instructions in fn (not nested anons) matching names.
func findCalls(fn *ssa.Function, names ...string) []ssa.Instruction {
	var out []ssa.Instruction
	instrs(fn, func(_ *ssa.BasicBlock, _ int, in ssa.Instruction) {
		if isCallTo(in, names...) {
			out = append(out, in)
		}
	})
	return out
}

// localVarName returns the source variable name a value is bound to (via DebugRef), if any.
func debugNames(fn *ssa.Function) map[ssa.Value][]string {
	m := map[ssa.Value][]string{}
	instrs(fn, func(_ *ssa.BasicBlock, _ int, in ssa.Instruction) {
		if d, ok := in.(*ssa.DebugRef); ok {
			if id, ok := d.Expr.(interface{ String() string }); ok {
				_ = id
			}
			if obj := d.Object(); obj != nil {
				m[d.X] = append(m[d.X], obj.Name())
			}
		}
	})
	return m
}

// receiver-agnostic comparison operator normalisation ---------------------------------

func flipOp(op token.Token) token.Token {
	switch op {
	case token.LSS:
		return token.GTR
	case token.LEQ:
		return token.GEQ
	case token.GTR:
		return token.LSS
	case token.GEQ:
		return token.LEQ
	}
	return op // EQL, NEQ symmetric
}

func negOp(op token.Token) token.Token {
	switch op {
	case token.LSS:
		return token.GEQ
	case token.LEQ:
		return token.GTR
	case token.GTR:
		return token.LEQ
	case token.GEQ:
		return token.LSS
	case token.EQL:
		return token.NEQ
	case token.NEQ:
		return token.EQL
	}
	return op
}

func isCmpOp(op token.Token) bool {
	switch op {
	case token.LSS, token.LEQ, token.GTR, token.GEQ, token.EQL, token.NEQ:
		return true
	}
	return false
}

func token_EQL() token.Token { return token.EQL }

// isCountingPhi: ph is the induction variable of a counting loop (one of its edges is ph+1).
func isCountingPhi(ph *ssa.Phi) bool {
	for _, e := range ph.Edges {
		if b, ok := stripConv(e).(*ssa.BinOp); ok && b.Op == token.ADD && stripConv(b.X) == ssa.Value(ph) {
			if k, isC := constInt(b.Y); isC && k == 1 {
				return true
			}
		}
	}
	return false
}

// phiNamedOr: the phi carries the source variable name `name`, or — the variable having been
// renamed — satisfies the structural role test.
func phiNamedOr(ph *ssa.Phi, name string, role func(*ssa.Phi) bool) bool {
	return ph.Comment == name || (role != nil && role(ph))
}
