package main

import (
	"fmt"
	"go/types"
	"sort"
	"strings"

	"golang.org/x/tools/go/ssa"
)

// lockID names a mutex by the struct type and field that holds it (type-based, so the same lock
// reached through different variables unifies), or by local variable.
func lockID(v ssa.Value) string {
	switch x := v.(type) {
	case *ssa.FieldAddr:
		t, f, _, ok := fieldOf(x)
		if ok {
			if t == "" {
				t = "struct"
			}
			return t + "." + f
		}
	case *ssa.Alloc:
		return "local:" + x.Comment
	case *ssa.Global:
		return "global:" + x.Name()
	case *ssa.FreeVar:
		return "local:" + x.Name()
	case *ssa.Parameter:
		return "param:" + x.Name()
	case *ssa.UnOp:
		return lockID(x.X)
	}
	return "?" + v.Name()
}

// mutexOp classifies a call as a sync mutex operation.
func mutexOp(in ssa.Instruction) (res string, d int, ok bool) {
	cc := callCommon(in)
	if cc == nil || cc.IsInvoke() {
		return "", 0, false
	}
	f := staticCallee(cc)
	if f == nil || f.Pkg == nil || f.Pkg.Pkg.Path() != "sync" || len(cc.Args) == 0 {
		return "", 0, false
	}
	recv := f.Signature.Recv()
	if recv == nil {
		return "", 0, false
	}
	tn := namedOf(recv.Type())
	if tn != "sync.Mutex" && tn != "sync.RWMutex" {
		return "", 0, false
	}
	id := lockID(cc.Args[0])
	switch f.Name() {
	case "Lock":
		return id, +1, true
	case "Unlock":
		return id, -1, true
	case "RLock":
		return id + "/R", +1, true
	case "RUnlock":
		return id + "/R", -1, true
	}
	return "", 0, false
}

func lockSpec() *TSpec {
	return &TSpec{
		Name: "mutex",
		Instr: func(in ssa.Instruction) ([]Eff, bool) {
			if res, d, ok := mutexOp(in); ok {
				return []Eff{{Res: res, D: d}}, true
			}
			return nil, false
		},
		UseSummaries: true,
		InScope: func(fn *ssa.Function) bool {
			return fn.Pkg != nil && strings.HasPrefix(fn.Pkg.Pkg.Path(), modPath)
		},
	}
}

func hasMutexOps(fn *ssa.Function) bool {
	found := false
	instrs(fn, func(_ *ssa.BasicBlock, _ int, in ssa.Instruction) {
		if _, _, ok := mutexOp(in); ok {
			found = true
		}
	})
	return found
}

// lockContract: functions that are, by design, entered with a lock held and/or leave with a
// different lock state. Each row is a reviewed exception with its reason.
type lockContractRow struct {
	entry  map[string]int
	exit   map[string]int
	reason string
}

var lockContracts = map[string]lockContractRow{}

// ruleLockPairing: every Lock/RLock in the given packages has its unlock on every non-panic
// exit; no unlock of a lock that is not held; no re-lock of a held exclusive lock.
func ruleLockPairing(p *Prog, r *Report, rule string, pkgs []string, floor int) {
	r.Begin(rule, "E-PAIR", "every mutex Lock/RLock is released on every non-panic exit of the function that took it (deferred or explicit); no Unlock of an unheld lock; packages "+strings.Join(pkgs, ","), floor)
	defer r.End()
	sp := lockSpec()
	for _, pk := range pkgs {
		for _, fn := range p.SrcFuncs(pk) {
			if !hasMutexOps(fn) && !callsLockSummarised(sp, fn) {
				continue
			}
			name := fnName(fn)
			r.Fn(name)
			nops := countInstr(fn, func(in ssa.Instruction) bool { _, _, ok := mutexOp(in); return ok })
			r.Site(nops)
			var entry *tsState
			want := map[string]int{}
			if c, ok := lockContracts[name]; ok {
				entry = newState()
				for k, v := range c.entry {
					entry.cnt[k] = v
				}
				want = c.exit
			}
			res := sp.Analyze(fn, entry, nil)
			bad := false
			if res.Truncated {
				r.Fail(name, "state-explosion", "analysis explores all paths", "state set truncated", p.Pos(fn.Pos()), nil)
				bad = true
			}
			seen := map[string]bool{}
			for _, e := range res.Exits {
				if !sameCounts(e.State.cnt, want) {
					held := describeCounts(e.State.cnt, want)
					k := "leak:" + held
					if seen[k+p.Pos(e.In.Pos())] {
						continue
					}
					seen[k+p.Pos(e.In.Pos())] = true
					r.Fail(name, "exit-holding:"+held, "function returns with the same locks held as on entry",
						fmt.Sprintf("return at %s is reached with lock state {%s} (expected {%s})", p.Pos(e.In.Pos()), e.State.cntKey(), countsKey(want)), p.Pos(e.In.Pos()), nil)
					bad = true
				}
			}
			for _, u := range res.Underflows {
				k := "under:" + u.Res + p.Pos(u.In.Pos())
				if seen[k] {
					continue
				}
				seen[k] = true
				r.Fail(name, "unlock-unheld:"+u.Res, "no Unlock of a lock that is not held on that path",
					fmt.Sprintf("%s released at %s on a path where it is not held", u.Res, p.Pos(u.In.Pos())), p.Pos(u.In.Pos()), nil)
				bad = true
			}
			if !bad {
				r.OK(name, "paired", fmt.Sprintf("%d lock operations paired on all %d exits", nops, len(res.Exits)))
			}
		}
	}
}

func callsLockSummarised(sp *TSpec, fn *ssa.Function) bool {
	found := false
	instrs(fn, func(_ *ssa.BasicBlock, _ int, in ssa.Instruction) {
		if found {
			return
		}
		if cc := callCommon(in); cc != nil {
			if len(sp.summaryEffects(cc)) > 0 {
				found = true
			}
		}
	})
	return found
}

func sameCounts(a, b map[string]int) bool {
	for k, v := range a {
		if v != 0 && b[k] != v {
			return false
		}
	}
	for k, v := range b {
		if v != 0 && a[k] != v {
			return false
		}
	}
	return true
}

func countsKey(m map[string]int) string {
	var p []string
	for k, v := range m {
		if v != 0 {
			p = append(p, fmt.Sprintf("%s=%d", k, v))
		}
	}
	sort.Strings(p)
	return strings.Join(p, ";")
}

func describeCounts(got, want map[string]int) string {
	var p []string
	for k, v := range got {
		if v != want[k] {
			p = append(p, k)
		}
	}
	for k, v := range want {
		if v != 0 && got[k] == 0 {
			p = append(p, "!"+k)
		}
	}
	sort.Strings(p)
	return strings.Join(p, ",")
}

var _ = types.Universe
