package main

import (
	"go/token"
	"strings"

	"golang.org/x/tools/go/ssa"
)

func init() {
	register(&propDef{
		id:          "C04",
		run:         runC04,
		explanation: "Static must-precede / must-pass-through / guard analysis over the SSA control-flow graphs of the write path, the table builder, the manifest writer, the flush, journal recovery and transaction commit: on EVERY CFG path (under the assumption NoSync=false, and sync=true where it is a parameter) the durability point (journal Flush+Sync, table Close+Sync, manifest Flush+Sync, CURRENT switch) precedes the action that makes the result visible or deletes the superseded file. These are necessary conditions for crash safety: breaking any of them yields a crash point at which an acknowledged write is lost or the DB cannot reopen. The crash-point enumeration itself (which bytes are on disk) is dynamic and is NOT decided.",
		notCovered:  "actual post-crash images, torn-write tolerance of the decoders, nested crashes, every statement about which bytes are on disk; sufficiency of the orderings",
		assumptions: []string{"Options.NoSync == false and WriteOptions.Sync == true on the checked paths (mode assumptions prune the corresponding CFG edges)", "storage.Writer.Sync makes previously written bytes durable", "an error-typed value tested non-nil marks an error path"},
	})
}

const (
	fJNext         = "(*leveldb/journal.Writer).Next"
	fJFlush        = "(*leveldb/journal.Writer).Flush"
	fJReset        = "(*leveldb/journal.Writer).Reset"
	fCommit        = "(*leveldb.session).commit"
	fSetVer        = "(*leveldb.session).setVersion"
	fNewMan        = "(*leveldb.session).newManifest"
	fFlushMan      = "(*leveldb.session).flushManifest"
	fRecCommitted  = "(*leveldb.session).recordCommited"
	fEncode        = "(*leveldb.sessionRecord).encode"
	fSetSeqNum     = "(*leveldb.sessionRecord).setSeqNum"
	fSetJournalNum = "(*leveldb.sessionRecord).setJournalNum"
)

func mChanField(typ, field string) VMatch {
	return func(v ssa.Value) bool { return isFieldLoad(stripConv(v), typ, field) }
}

// evMemFlushWait: a call that waits for the frozen-buffer flush: compTriggerWait(db.mcompCmdC)
// directly, or (via must-summaries) a callee that always does so first (rotateMem).
func evMemFlushWait() InstrPred {
	base := andPred(evCall("(*leveldb.DB).compTriggerWait"), predArg(1, mChanField(tDB, "mcompCmdC")))
	freeze := evCall("(*leveldb.DB).newMem")
	return func(in ssa.Instruction) bool {
		if base(in) {
			return true
		}
		if _, isDefer := in.(*ssa.Defer); isDefer {
			return false
		}
		if _, isGo := in.(*ssa.Go); isGo {
			return false
		}
		cc := callCommon(in)
		if cc == nil {
			return false
		}
		callee := staticCallee(cc)
		if callee == nil || len(callee.Blocks) == 0 || callee.Pkg == nil || !strings.HasPrefix(callee.Pkg.Pkg.Path(), modPath) {
			return false
		}
		// A helper counts only if — with the boolean constants passed at THIS call site — every
		// success path waits, and waits AFTER the last buffer it froze (rotateMem(n, false) waits
		// for the previous flush only and merely schedules the flush of the buffer it freezes).
		edges := []EdgeFilter{noErrEdges}
		args := cc.Args
		if cc.Signature().Recv() != nil && !cc.IsInvoke() {
			args = args[1:]
		}
		params := callee.Params
		if callee.Signature.Recv() != nil {
			params = params[1:]
		}
		for i, a := range args {
			if b, ok := constBool(a); ok && i < len(params) {
				edges = append(edges, assumeParam(callee, params[i].Name(), b))
			}
		}
		ef := andEdges(edges...)
		if findPath(entryPoint(callee), ef, base, isReturn) != nil {
			return false
		}
		if findPath(after(callee, freeze), ef, base, isReturn) != nil {
			return false
		}
		// … and a failed wait must be the helper's failure
		if failedCallEscapes(callee, base, "(*leveldb.DB).compTriggerWait") != nil {
			return false
		}
		return true
	}
}

// ruleJournalWrite: C04.1 / C10.7 — a write group is ONE journal record, written, flushed and
// (if requested) synced before success; the record is the unit recovery keeps or drops as a whole.
func ruleJournalWrite(p *Prog, r *Report, rule string) {
	r.Begin(rule, "E-ORD", "journal: in writeJournal the record is written, flushed to the file and (sync requested) synced before any success return; one record per write group", 6)
	defer r.End()
	if fn := resolveFn(p, r, "leveldb", "(*DB).writeJournal"); fn != nil {
		syncTrue := assumeParam(fn, "sync", true)
		ordOnSuccess(p, r, fn, "next", nil, evCall(fJNext), "journal.Next")
		ordOnSuccess(p, r, fn, "record-written", nil, evCall("leveldb.writeBatchesWithHeader"), "writeBatchesWithHeader")
		ordOnSuccess(p, r, fn, "flushed", nil, evCall(fJFlush), "journal.Flush")
		ordOnSuccess(p, r, fn, "synced", syncTrue, evSync, "journalWriter.Sync (sync=true)")
		ordPrecede(p, r, fn, "write-before-flush", nil, evCall("leveldb.writeBatchesWithHeader"), "writeBatchesWithHeader", evCall(fJFlush), "journal.Flush")
		ordPrecede(p, r, fn, "flush-before-sync", nil, evCall(fJFlush), "journal.Flush", evSync, "journalWriter.Sync")
		n := countInstr(fn, evCall(fJNext))
		r.Check(n == 1, fnName(fn), "one-record", "exactly one journal.Next per write group (one record = one atomic batch group)", "found "+itoa(n)+" journal.Next calls", p.Pos(fn.Pos()))
		ordNeverAfter(p, r, fn, "one-record-no-loop", nil, evCall(fJNext), "journal.Next", evCall(fJNext), "a second journal.Next", nil, "")
	}
	if fn := resolveFn(p, r, "leveldb", "writeBatchesWithHeader"); fn != nil {
		// the header (sequence + count) is written before any batch body
		hdr := andPred(isWriteInvoke, predArg(0, mCall("leveldb.encodeBatchHeader")))
		body := andPred(isWriteInvoke, predArg(0, mFieldLoad("leveldb.Batch", "data")))
		ordPrecede(p, r, fn, "header-first", nil, hdr, "Write(encodeBatchHeader(..))", body, "Write(batch.data)")
		ordOnSuccess(p, r, fn, "header-written", nil, hdr, "Write(encodeBatchHeader(..))")
	}
}

func runC04(p *Prog, r *Report) {
	if want("C04.38") {
		ruleWriteOptionsForwarded(p, r, "C04.38")
	}
	if want("C04.37") {
		ruleWriteBlockErrorStops(p, r, "C04.37")
	}
	if want("C04.36") {
		ruleRecordBytesFresh(p, r, "C04.36")
	}
	if want("C04.35") {
		ruleOptGetters(p, r, "C04.35", "durability switches", "WriteOptions.GetSync", "Options.GetNoSync")
	}
	if want("C04.34") {
		// a torn manifest edit is skipped, not fatal
		ruleTornEditIsCorruption(p, r, "C04.34")
	}
	if want("C04.33") {
		// (shared with C12) an undamaged journal must read back: no padding that parses as a header
		ruleJournalTailPadding(p, r, "C04.33")
	}
	if want("C04.32") {
		// a failed journal write latches: no later record is reported written (shared with C08/C12)
		ruleStickyWriter(p, r, "C04.32")
	}
	if want("C04.31") {
		// the startup sweep keeps every live file (shared with C07)
		ruleStartupSweep(p, r, "C04.31")
	}
	if want("C04.30") {
		// journal writer and reader agree on the chunk layout (shared with C12)
		ruleJournalLayoutAgreement(p, r, "C04.30")
	}
	if want("C04.29") {
		// a storage read error is not taken for journal damage (shared with C08/C12)
		ruleIOErrorNotCorruption(p, r, "C04.29")
	}
	if want("C04.28") {
		// a manifest delta replays to the version it was taken from (shared with C07)
		ruleDeltaRecordIsPure(p, r, "C04.28")
	}
	syncOn := assumeSyncOn()

	if want("C04.1") {
		ruleJournalWrite(p, r, "C04.1")
	}

	if want("C04.2") {
		ruleAckAfterLog(p, r, "C04.2")
	}

	if want("C04.3") {
		ruleTableDurability(p, r, "C04.3")
	}

	if want("C04.4") {
		r.Begin("C04.4", "E-ORD", "manifest append: in flushManifest the edit is encoded, flushed and synced before the session state is advanced (recordCommited) and before success is returned", 5)
		if fn := resolveFn(p, r, "leveldb", "(*session).flushManifest"); fn != nil {
			ordOnSuccess(p, r, fn, "encoded", nil, evCall(fEncode), "rec.encode")
			ordOnSuccess(p, r, fn, "flushed", nil, evCall(fJFlush), "manifest.Flush")
			ordOnSuccess(p, r, fn, "synced", syncOn, evSync, "manifestWriter.Sync (NoSync=false)")
			ordOnSuccess(p, r, fn, "state-advanced", nil, evCall(fRecCommitted), "recordCommited")
			ordPrecede(p, r, fn, "encode-before-flush", nil, evCall(fEncode), "rec.encode", evCall(fJFlush), "manifest.Flush")
			ordPrecede(p, r, fn, "flush-before-sync", nil, evCall(fJFlush), "manifest.Flush", evSync, "manifestWriter.Sync")
			ordPrecede(p, r, fn, "sync-before-state", syncOn, evSync, "manifestWriter.Sync", evCall(fRecCommitted), "recordCommited")
			ordNotOnError(p, r, fn, "no-state-on-encode-error", mErrOfCall(fEncode), "rec.encode", evCall(fEncode), evCall(fRecCommitted), "recordCommited")
			ordNotOnError(p, r, fn, "no-state-on-flush-error", mErrOfCall(fJFlush), "manifest.Flush", evCall(fJFlush), evCall(fRecCommitted), "recordCommited")
			ordNotOnError(p, r, fn, "no-state-on-sync-error", mErrOfPred(evSync), "manifestWriter.Sync", evSync, evCall(fRecCommitted), "recordCommited")
		}
		r.End()
	}

	if want("C04.5") {
		r.Begin("C04.5", "E-ORD", "manifest switch: in newManifest the snapshot record is encoded, flushed and synced before CURRENT is switched (SetMeta); the old manifest is removed only after a successful switch", 6)
		if fn := resolveFn(p, r, "leveldb", "(*session).newManifest"); fn != nil {
			setMeta := evStorageInvoke("SetMeta")
			ordOnSuccess(p, r, fn, "encoded", nil, evCall(fEncode), "rec.encode")
			ordOnSuccess(p, r, fn, "flushed", nil, evCall(fJFlush), "jw.Flush")
			ordOnSuccess(p, r, fn, "synced", syncOn, evSync, "writer.Sync (NoSync=false)")
			ordOnSuccess(p, r, fn, "current-switched", nil, setMeta, "stor.SetMeta")
			ordPrecede(p, r, fn, "encode-before-flush", nil, evCall(fEncode), "rec.encode", evCall(fJFlush), "jw.Flush")
			ordPrecede(p, r, fn, "flush-before-sync", nil, evCall(fJFlush), "jw.Flush", evSync, "writer.Sync")
			ordPrecede(p, r, fn, "sync-before-setmeta", syncOn, evSync, "writer.Sync", setMeta, "stor.SetMeta")
			ordPrecede(p, r, fn, "flush-before-setmeta", nil, evCall(fJFlush), "jw.Flush", setMeta, "stor.SetMeta")
			// SetMeta is the last fallible step: nothing that can fail follows it in the body
			// deferred epilogue: removal of the old manifest / installation only when err == nil
			var epi *ssa.Function
			for _, a := range fn.AnonFuncs {
				if countInstr(a, evStorageInvoke("Remove")) > 0 {
					epi = a
				}
			}
			if epi == nil {
				r.Fail(fnName(fn), "epilogue:unresolved-anchor", "newManifest has a deferred epilogue that removes the superseded manifest", "no closure with stor.Remove found", p.Pos(fn.Pos()), nil)
			} else {
				r.Fn(fnName(epi))
				rmOld := andPred(evStorageInvoke("Remove"), predArg(0, mFieldLoad("leveldb.session", "manifestFd")))
				ordNotOnError(p, r, epi, "old-manifest-kept-on-error", mCellNamed("err"), "newManifest (named result err)", nil, rmOld, "stor.Remove(s.manifestFd) [old manifest]")
				ordNotOnError(p, r, epi, "no-state-on-error", mCellNamed("err"), "newManifest (named result err)", nil, evCall(fRecCommitted), "recordCommited")
				ordNotOnError(p, r, epi, "no-install-on-error", mCellNamed("err"), "newManifest (named result err)", nil, evStoreField("leveldb.session", "manifest"), "s.manifest = jw")
				// the epilogue is deferred in the parent
				n := countInstr(fn, func(in ssa.Instruction) bool {
					d, ok := in.(*ssa.Defer)
					return ok && closureCallee(&d.Call) == epi
				})
				r.Check(n == 1, fnName(fn), "epilogue-deferred", "the install/cleanup epilogue runs on every exit (deferred)", "epilogue closure is not deferred exactly once", p.Pos(fn.Pos()))
				r.Site(1)
			}
		}
		r.End()
	}

	if want("C04.6") {
		ruleInstallAfterDurable(p, r, "C04.6")
	}

	if want("C04.7") {
		ruleFlushOrder(p, r, "C04.7")
	}

	if want("C04.8") {
		ruleJournalRecoveryOrder(p, r, "C04.8")
	}

	if want("C04.9") {
		ruleTrCommitOrder(p, r, "C04.9")
	}

	if want("C04.10") {
		ruleRotatingCommitCarriesRecord(p, r, "C04.10")
	}
	if want("C04.11") {
		ruleTrSeqAfterFlush(p, r, "C04.11")
	}
	if want("C04.27") {
		// a read-only reopen serves what every live journal holds (shared with C18.11)
		ruleReadOnlyReplayKept(p, r, "C04.27")
	}
	if want("C04.26") {
		ruleRecordReaderFailure(p, r, "C04.26")
	}
	if want("C04.25") {
		ruleReuseFileNum(p, r, "C04.25")
	}
	if want("C04.24") {
		// a failed write/sync/commit step is a failure of the operation that acknowledges (shared with C08.16)
		ruleErrorsPropagate(p, r, "C04.24", []string{"leveldb", "leveldb/journal", "leveldb/table", "leveldb/storage"}, 100)
	}
	if want("C04.23") {
		// replay restores the sequence counter past every replayed record (shared with C01)
		ruleRecoveryRestoresSeq(p, r, "C04.23")
	}
	if want("C04.22") {
		ruleResetEqualsNew(p, r, "C04.22")
	}
	if want("C04.21") {
		ruleSkippedEntryLeavesNoTrace(p, r, "C04.21")
	}
	if want("C04.20") {
		ruleMarkFileNum(p, r, "C04.20")
	}
	if want("C04.19") {
		ruleStorageDurability(p, r, "C04.19")
	}
	if want("C04.18") {
		ruleRecoverySiblings(p, r, "C04.18")
	}
	if want("C04.17") {
		ruleDamageReported(p, r, "C04.17")
	}
	if want("C04.16") {
		ruleManifestReplay(p, r, "C04.16")
	}
	if want("C04.15") {
		ruleBatchCodec(p, r, "C04.15")
	}
	if want("C04.14") {
		ruleSessionStateMirrorsManifest(p, r, "C04.14")
	}
	if want("C04.13") {
		ruleSessionRecordCodec(p, r, "C04.13")
	}
	if want("C04.12") {
		ruleTornTailTolerance(p, r, "C04.12")
	}
}

func itoa(n int) string { return fmtInt(n) }

func ruleFlushOrder(p *Prog, r *Report, rule string) {
	r.Begin(rule, "E-ORD", "flush: memCompaction builds the table, commits the edit, and only then drops the frozen buffer and its journal; the edit records the frozen buffer's sequence and the live journal's number", 5)
	if fn := resolveFn(p, r, "leveldb", "(*DB).memCompaction"); fn != nil {
		build := evCall("(*leveldb.DB).compactionTransactFunc")
		commit := evCall("(*leveldb.DB).compactionCommit")
		drop := evCall("(*leveldb.DB).dropFrozenMem")
		nonEmpty := assumeBool(func(v ssa.Value) (bool, bool) {
			// `mdb.Len() == 0` is false
			if b, ok := v.(*ssa.BinOp); ok && b.Op == token.EQL {
				if _, isLen := callValue(b.X, "(*leveldb/memdb.DB).Len"); isLen && mConstInt(0)(b.Y) {
					return false, true
				}
			}
			return false, false
		})
		ordPrecede(p, r, fn, "build-before-commit", nil, build, "compactionTransactFunc(flush)", commit, "compactionCommit")
		ordPrecede(p, r, fn, "commit-before-drop", nonEmpty, commit, "compactionCommit", drop, "dropFrozenMem (non-empty buffer)")
		ordPrecede(p, r, fn, "seq-before-commit", nil, evCall(fSetSeqNum), "rec.setSeqNum", commit, "compactionCommit")
		ordPrecede(p, r, fn, "journal-before-commit", nil, evCall(fSetJournalNum), "rec.setJournalNum", commit, "compactionCommit")
		// value origins
		checkCallArg(p, r, fn, "seq-is-frozenSeq", fSetSeqNum, 1, mFieldLoad(tDB, "frozenSeq"), "db.frozenSeq (the sequence at the moment the buffer was frozen; db.seq would run ahead of unflushed records)")
		checkCallArg(p, r, fn, "journal-is-live", fSetJournalNum, 1, func(v ssa.Value) bool {
			// db.journalFd.Num
			u, ok := stripConv(v).(*ssa.UnOp)
			if !ok {
				return false
			}
			fa, ok := u.X.(*ssa.FieldAddr)
			if !ok {
				return false
			}
			_, f, base, ok := fieldOf(fa)
			return ok && f == "Num" && isFieldAddr(base, tDB, "journalFd")
		}, "db.journalFd.Num (the journal that replaces the frozen one)")
		// the flush closure really flushes the frozen buffer into the same record
		var fl *ssa.Function
		for _, a := range fn.AnonFuncs {
			if countInstr(a, evCall("(*leveldb.session).flushMemdb")) > 0 {
				fl = a
			}
		}
		r.Check(fl != nil, fnName(fn), "flush-closure", "the transact closure calls session.flushMemdb", "no closure calling flushMemdb", p.Pos(fn.Pos()))
	}
	if fn := resolveFn(p, r, "leveldb", "(*DB).dropFrozenMem"); fn != nil {
		// removal of the journal file and clearing frozenMem happen under memMu
		ordOnSuccess(p, r, fn, "journal-removed", nil, evStorageInvoke("Remove"), "stor.Remove(frozenJournalFd)")
		checkCallArg(p, r, fn, "removes-frozen-journal", "iface:leveldb/storage.Storage.Remove", 0, mFieldLoad(tDB, "frozenJournalFd"), "db.frozenJournalFd")
	}
	r.End()
}

func ruleTrCommitOrder(p *Prog, r *Report, rule string) {
	r.Begin(rule, "E-ORD", "transaction commit: tables are flushed, the edit carries the transaction's sequence, the manifest commit succeeds, and only then is db.seq published", 4)
	if fn := resolveFn(p, r, "leveldb", "(*Transaction).Commit"); fn != nil {
		fl := evCall("(*leveldb.Transaction).flush")
		commit := evCall(fCommit)
		setSeq := evCall("(*leveldb.DB).setSeq")
		ordPrecede(p, r, fn, "flush-before-commit", nil, fl, "tr.flush", commit, "s.commit")
		ordPrecede(p, r, fn, "seqnum-before-commit", nil, evCall(fSetSeqNum), "rec.setSeqNum", commit, "s.commit")
		ordPrecede(p, r, fn, "commit-before-setSeq", nil, commit, "s.commit", setSeq, "db.setSeq")
		ordNotOnError(p, r, fn, "no-setSeq-on-commit-error", mOr(mErrOfCall(fCommit), mCellNamed("cerr")), "s.commit", commit, setSeq, "db.setSeq")
		ordNotOnError(p, r, fn, "no-commit-on-flush-error", mErrOfCall("(*leveldb.Transaction).flush"), "tr.flush", fl, commit, "s.commit")
		checkCallArg(p, r, fn, "seqnum-is-tr.seq", fSetSeqNum, 1, mFieldLoad(tTr, "seq"), "tr.seq")
		checkCallArg(p, r, fn, "setSeq-is-tr.seq", "(*leveldb.DB).setSeq", 1, mFieldLoad(tTr, "seq"), "tr.seq")
	}
	r.End()
}

func ruleAckAfterLog(p *Prog, r *Report, rule string) {
	r.Begin(rule, "E-ORD", "acknowledge after logging: in writeLocked the buffer insert, the sequence publication and the success unlock are reached only after writeJournal returned nil", 3)
	if fn := resolveFn(p, r, "leveldb", "(*DB).writeLocked"); fn != nil {
		wj := evCall("(*leveldb.DB).writeJournal")
		errWJ := mErrOfCall("(*leveldb.DB).writeJournal")
		putMem := evCall("(*leveldb.Batch).putMem")
		addSeq := evCall("(*leveldb.DB).addSeq")
		okUnlock, ackDesc := ackPoints(fn)
		ordPrecede(p, r, fn, "journal-before-putMem", nil, wj, "writeJournal", putMem, "batch.putMem")
		ordPrecede(p, r, fn, "journal-before-addSeq", nil, wj, "writeJournal", addSeq, "db.addSeq")
		ordPrecede(p, r, fn, "journal-before-ack", nil, wj, "writeJournal", okUnlock, ackDesc)
		ordNotOnError(p, r, fn, "putMem-not-on-journal-error", errWJ, "writeJournal", wj, putMem, "batch.putMem")
		ordNotOnError(p, r, fn, "ack-not-on-journal-error", errWJ, "writeJournal", wj, okUnlock, ackDesc)
		// a sync request of ANY writer of the group reaches the journal: every merged request's sync
		// flag is read before the request is told "merged", and the flag handed to writeJournal is fed
		// by the leader's own flag and by the merged requests' flags
		sel := func(in ssa.Instruction) bool {
			s, ok := in.(*ssa.Select)
			return ok && len(s.States) == 1 && isFieldLoad(s.States[0].Chan, tDB, "writeMergeC")
		}
		sendTrue := func(in ssa.Instruction) bool {
			s, ok := in.(*ssa.Send)
			if !ok || !isFieldLoad(s.Chan, tDB, "writeMergedC") {
				return false
			}
			bv, ok := constBool(s.X)
			return ok && bv
		}
		readSync := func(in ssa.Instruction) bool {
			v, ok := in.(ssa.Value)
			return ok && mFieldLoad("leveldb.writeMerge", "sync")(v)
		}
		ordNeverAfter(p, r, fn, "merged-sync-honoured", groupNotYetSync(fn), sel, "receive of a merge request", sendTrue, "writeMergedC <- true", readSync, "reading the request's sync flag")
		checkCallArg(p, r, fn, "sync-includes-merged", "(*leveldb.DB).writeJournal", 3, mOriginAny(mFieldLoad("leveldb.writeMerge", "sync")), "or-ed with every merged request's sync flag")
	}
	r.End()
}

func ruleInstallAfterDurable(p *Prog, r *Report, rule string) {
	r.Begin(rule, "E-ORD", "install after durable: session.commit installs the new version only after the manifest write succeeded", 2)
	if fn := resolveFn(p, r, "leveldb", "(*session).commit"); fn != nil {
		manWrite := evCall(fNewMan, fFlushMan)
		ordPrecede(p, r, fn, "manifest-before-install", nil, manWrite, "newManifest/flushManifest", evCall(fSetVer), "setVersion")
		ordNotOnError(p, r, fn, "no-install-on-error", mCellNamed("err"), "the manifest write", nil, evCall(fSetVer), "setVersion")
		ordOnSuccess(p, r, fn, "installed-on-success", nil, evCall(fSetVer), "setVersion")
		// one edit, one version: what is logged is what is installed
		spawned := mOriginAll(func(v ssa.Value) bool { _, ok := callValue(v, "(*leveldb.version).spawn"); return ok })
		current := mOriginAll(func(v ssa.Value) bool { _, ok := callValue(v, "(*leveldb.session).version"); return ok })
		checkCallArg(p, r, fn, "spawns-from-the-edit", "(*leveldb.version).spawn", 1, mParam("r"), "the edit r")
		checkCallArg(p, r, fn, "logs-the-edit", fFlushMan, 1, mParam("r"), "the edit r")
		checkCallArg(p, r, fn, "installs-the-edit", fSetVer, 1, mParam("r"), "the edit r")
		checkCallArg(p, r, fn, "installs-the-spawned-version", fSetVer, 2, spawned, "the version spawned from r")
		for _, c := range findCalls(fn, fNewMan) {
			cc := callCommon(c)
			r.Site(1)
			if isNilConst(cc.Args[1]) {
				r.Check(current(cc.Args[2]), fnName(fn), "snapshot-manifest-of-current@"+branchLabel(c), "a manifest written without an edit snapshots the CURRENT version", "newManifest(nil, x) with x not the current version: the snapshot would already contain an edit that is appended again / not yet durable", p.Pos(c.Pos()))
			} else {
				r.Check(spawned(cc.Args[2]), fnName(fn), "new-manifest-of-spawned@"+branchLabel(c), "a manifest written with an edit snapshots the version spawned from it", "newManifest(rec, x) with x not the spawned version", p.Pos(c.Pos()))
			}
		}
	}
	r.End()
}

func ruleTableDurability(p *Prog, r *Report, rule string) {
	syncOn := assumeSyncOn()
	r.Begin(rule, "E-ORD", "tables: a table file is closed (all blocks written) and synced before it is handed out as a tFile / renamed into place", 6)
	if fn := resolveFn(p, r, "leveldb", "(*tWriter).finish"); fn != nil {
		twClose := evCall("(*leveldb/table.Writer).Close")
		newTF := evCall("leveldb.newTableFile")
		ordOnSuccess(p, r, fn, "table-closed", nil, twClose, "table.Writer.Close")
		ordOnSuccess(p, r, fn, "table-synced", syncOn, evSync, "w.w.Sync (NoSync=false)")
		ordPrecede(p, r, fn, "close-before-sync", nil, twClose, "table.Writer.Close", evSync, "w.w.Sync")
		ordPrecede(p, r, fn, "sync-before-handout", syncOn, evSync, "w.w.Sync", newTF, "newTableFile")
		ordNotOnError(p, r, fn, "no-handout-on-close-error", mErrOfCall("(*leveldb/table.Writer).Close"), "table.Writer.Close", twClose, newTF, "newTableFile")
		ordNotOnError(p, r, fn, "no-handout-on-sync-error", mErrOfPred(evSync), "w.w.Sync", evSync, newTF, "newTableFile")
	}
	if fn := resolveFn(p, r, "leveldb", "(*tOps).createFrom"); fn != nil {
		ordOnSuccess(p, r, fn, "via-finish", nil, evCall("(*leveldb.tWriter).finish"), "tWriter.finish")
	}
	if fn := resolveFn(p, r, "leveldb", "(*tableCompactionBuilder).flush"); fn != nil {
		ordPrecede(p, r, fn, "finish-before-record", nil, evCall("(*leveldb.tWriter).finish"), "tWriter.finish", evCall("(*leveldb.sessionRecord).addTableFile"), "rec.addTableFile")
		ordNotOnError(p, r, fn, "no-record-on-finish-error", mErrOfCall("(*leveldb.tWriter).finish"), "tWriter.finish", evCall("(*leveldb.tWriter).finish"), evCall("(*leveldb.sessionRecord).addTableFile"), "rec.addTableFile")
	}
	if fn := resolveFn(p, r, "leveldb", "(*Transaction).flush"); fn != nil {
		ordNotOnError(p, r, fn, "no-record-on-create-error", mErrOfCall("(*leveldb.tOps).createFrom"), "tops.createFrom", evCall("(*leveldb.tOps).createFrom"), evCall("(*leveldb.sessionRecord).addTableFile"), "rec.addTableFile")
	}
	if fn := resolveFn(p, r, "leveldb", "(*session).flushMemdb"); fn != nil {
		ordNotOnError(p, r, fn, "no-record-on-create-error", mErrOfCall("(*leveldb.tOps).createFrom"), "tops.createFrom", evCall("(*leveldb.tOps).createFrom"), evCall("(*leveldb.sessionRecord).addTableFile"), "rec.addTableFile")
	}
	// Recover's table rebuild
	if rt := resolveFn(p, r, "leveldb", "recoverTable"); rt != nil {
		var build, rec *ssa.Function
		for _, a := range rt.AnonFuncs {
			if countInstr(a, evCall("leveldb/table.NewWriter")) > 0 {
				build = a
			}
			if countInstr(a, evStorageInvoke("Rename")) > 0 {
				rec = a
			}
		}
		if build == nil || rec == nil {
			r.Fail(fnName(rt), "rebuild:unresolved-anchor", "recoverTable has a table-rebuild closure and a per-table closure that renames", "closures not found", p.Pos(rt.Pos()), nil)
		} else {
			r.Fn(fnName(build))
			r.Fn(fnName(rec))
			twClose := evCall("(*leveldb/table.Writer).Close")
			ordOnSuccess(p, r, build, "rebuild-closed", nil, twClose, "tw.Close")
			ordOnSuccess(p, r, build, "rebuild-synced", syncOn, evSync, "writer.Sync (NoSync=false)")
			ordPrecede(p, r, build, "rebuild-close-before-sync", nil, twClose, "tw.Close", evSync, "writer.Sync")
			ordPrecede(p, r, rec, "rebuild-before-rename", nil, evCallClosure(build), "buildTable", evStorageInvoke("Rename"), "stor.Rename(tmp, fd)")
			ordNotOnError(p, r, rec, "no-rename-on-rebuild-error", func(v ssa.Value) bool {
				e, ok := stripConv(v).(*ssa.Extract)
				if !ok || !isErrorType(e.Type()) {
					return false
				}
				c, ok := e.Tuple.(*ssa.Call)
				return ok && closureCallee(&c.Call) == build
			}, "buildTable", evCallClosure(build), evStorageInvoke("Rename"), "stor.Rename(tmp, fd)")
		}
	}
	r.End()
}

// ruleJournalRecoveryOrder: C04.8 (also C08.10): a replayed journal is removed only after the edit
// that supersedes it is in the manifest.
func ruleJournalRecoveryOrder(p *Prog, r *Report, rule string) {
	r.Begin(rule, "E-ORD", "journal recovery: a replayed journal file is removed only after the edit that supersedes it (tables + next journal number + sequence) was committed", 5)
	if fn := resolveFn(p, r, "leveldb", "(*DB).recoverJournal"); fn != nil {
		commit := evCall(fCommit)
		rm := evStorageInvoke("Remove")
		// a journal file is opened for replay; from then on it may be removed only after a commit
		ofdStore := evCall("(*leveldb.iStorage).Open")
		ordPrecede(p, r, fn, "commit-before-remove", nil, commit, "s.commit", rm, "stor.Remove(ofd)")
		ordNeverAfter(p, r, fn, "remove-needs-fresh-commit", nil, ofdStore, "stor.Open(fd) of a journal to replay", rm, "stor.Remove(ofd)", commit, "s.commit")
		ordNeverAfter(p, r, fn, "commit-carries-journal", nil, ofdStore, "stor.Open(fd) of a journal to replay", commit, "s.commit", evCall(fSetJournalNum), "rec.setJournalNum")
		ordNeverAfter(p, r, fn, "commit-carries-seq", nil, ofdStore, "stor.Open(fd) of a journal to replay", commit, "s.commit", evCall(fSetSeqNum), "rec.setSeqNum")
		ordNotOnError(p, r, fn, "no-remove-on-commit-error", mErrOfCall(fCommit), "s.commit", commit, rm, "stor.Remove(ofd)")
		ordPrecede(p, r, fn, "newMem-before-final-commit", nil, evCall("(*leveldb.DB).newMem"), "db.newMem", andPred(commit, func(in ssa.Instruction) bool {
			// the commit after the loop: not inside a loop body => no path from it back to itself
			return findPath([]point{{in.Block(), indexOf(in) + 1}}, nil, nil, func(x ssa.Instruction) bool { return x == in }) == nil
		}), "final s.commit")
		// seq recorded = db.seq (restored by the replay)
		checkCallArgAll(p, r, fn, "seq-is-db.seq", fSetSeqNum, 1, mFieldLoad(tDB, "seq"), "db.seq")
		// flushed tables precede the commit that drops the journal
		ordOnSuccess(p, r, fn, "final-commit", nil, commit, "s.commit")
	}
	r.End()
}
