package main

import (
	"fmt"
	"go/token"
	"sort"
	"strings"

	"golang.org/x/tools/go/ssa"
)

// E-GBY: guarded-by. For a frozen table field → lock, every SSA access of the field occurs with
// the lock held (exclusively for stores), as computed by the E-PAIR lockset; helpers whose every
// caller holds the lock get a "requires" row, which is itself checked at every static call site.
// Candidates were discovered by counting accesses, then confirmed by reading and frozen here;
// every exception names a function and carries its reason.

type gbyField struct {
	typ, field string // struct type "pkgrel.T", field
	lock       string // lock id as produced by lockID: "pkgrel.T.mu"
}

type gbyTable struct {
	fields     []gbyField
	requires   map[string][]string // fnName → lock ids (W) that the caller must hold; suffix "/R" = at least read
	exceptions map[string]string   // "fnName|T.f" or "fnName|*" → reason
	// elems: slice fields ("T.f") whose ELEMENTS are modified in place under the lock: reading an
	// element through a copy of the slice header taken earlier (hdr := p.f; unlock; hdr[i]) is an
	// access of the guarded data too, at the element load.
	elems map[string]bool
}

// elemLoadOf: in is a load of an element of a slice that was loaded from one of the fields in
// elems (through phis and re-slicing); returns "T.f".
func elemLoadOf(in ssa.Instruction, elems map[string]bool) (string, bool) {
	if len(elems) == 0 {
		return "", false
	}
	u, ok := in.(*ssa.UnOp)
	if !ok || u.Op != token.MUL {
		return "", false
	}
	ia, ok := u.X.(*ssa.IndexAddr)
	if !ok {
		return "", false
	}
	seen := map[ssa.Value]bool{}
	var rec func(v ssa.Value) (string, bool)
	rec = func(v ssa.Value) (string, bool) {
		v = stripConv(v)
		if seen[v] {
			return "", false
		}
		seen[v] = true
		switch x := v.(type) {
		case *ssa.UnOp:
			if x.Op == token.MUL {
				if t, f, _, ok := fieldOf(x.X); ok && elems[t+"."+f] {
					return t + "." + f, true
				}
			}
		case *ssa.Slice:
			return rec(x.X)
		case *ssa.Phi:
			for _, e := range x.Edges {
				if k, ok := rec(e); ok {
					return k, true
				}
			}
		}
		return "", false
	}
	return rec(ia.X)
}

func held(st *tsState, lock string, needWrite bool) bool {
	if st.cnt[lock] > 0 {
		return true
	}
	if !needWrite && st.cnt[lock+"/R"] > 0 {
		return true
	}
	return false
}

// accessKind: how a FieldAddr is used: "w" (stored through), "r" (loaded), "a" (address escapes: treated as read)
func accessKind(fa *ssa.FieldAddr) string {
	kind := ""
	for _, ref := range *fa.Referrers() {
		switch x := ref.(type) {
		case *ssa.Store:
			if x.Addr == fa {
				return "w"
			}
			kind = "a"
		case *ssa.UnOp:
			if kind == "" {
				kind = "r"
			}
		case *ssa.DebugRef:
		case *ssa.IndexAddr:
			// &p.prevNode[h] = ...: array field indexed then stored
			for _, r2 := range *x.Referrers() {
				if st, ok := r2.(*ssa.Store); ok && st.Addr == x {
					return "w"
				}
			}
			if kind == "" {
				kind = "r"
			}
		default:
			if kind == "" {
				kind = "a"
			}
		}
	}
	if kind == "" {
		kind = "r"
	}
	return kind
}

// sliceElemWrites: stores through the elements of a slice loaded from the field (p.nodeData[i] = x)
// count as writes of the guarded data.
func loadedSliceWritten(fa *ssa.FieldAddr) bool {
	for _, ref := range *fa.Referrers() {
		u, ok := ref.(*ssa.UnOp)
		if !ok {
			continue
		}
		for _, r2 := range *u.Referrers() {
			if ia, ok := r2.(*ssa.IndexAddr); ok && ia.X == u {
				for _, r3 := range *ia.Referrers() {
					if st, ok := r3.(*ssa.Store); ok && st.Addr == ia {
						return true
					}
				}
			}
		}
	}
	return false
}

func ruleGuardedBy(p *Prog, r *Report, rule, text string, pkgs []string, tab gbyTable, floor int) {
	r.Begin(rule, "E-GBY", text, floor)
	defer r.End()
	byField := map[string]gbyField{}
	for _, f := range tab.fields {
		byField[f.typ+"."+f.field] = f
	}
	sp := lockSpec()
	usedExc := map[string]bool{}
	usedReq := map[string]bool{}
	for _, pk := range pkgs {
		for _, fn := range p.SrcFuncs(pk) {
			name := fnName(fn)
			// does fn touch anything relevant?
			relevant := false
			instrs(fn, func(_ *ssa.BasicBlock, _ int, in ssa.Instruction) {
				if fa, ok := in.(*ssa.FieldAddr); ok {
					if t, f, _, ok := fieldOf(fa); ok {
						if _, ok := byField[t+"."+f]; ok {
							relevant = true
						}
					}
				}
				if cc := callCommon(in); cc != nil {
					if callee := staticCallee(cc); callee != nil {
						if _, ok := tab.requires[fnName(callee)]; ok {
							relevant = true
						}
					}
				}
				if _, ok := elemLoadOf(in, tab.elems); ok {
					relevant = true
				}
			})
			if !relevant {
				continue
			}
			r.Fn(name)
			var entry *tsState
			if req, ok := tab.requires[name]; ok {
				entry = newState()
				for _, l := range req {
					entry.cnt[l] = 1
				}
				usedReq[name] = true
			}
			watch := func(in ssa.Instruction) bool {
				if fa, ok := in.(*ssa.FieldAddr); ok {
					if t, f, _, ok := fieldOf(fa); ok {
						_, ok := byField[t+"."+f]
						return ok
					}
				}
				if _, isDefer := in.(*ssa.Defer); isDefer {
					return false
				}
				if _, ok := elemLoadOf(in, tab.elems); ok {
					return true
				}
				if cc := callCommon(in); cc != nil {
					if callee := staticCallee(cc); callee != nil {
						_, ok := tab.requires[fnName(callee)]
						return ok
					}
				}
				return false
			}
			res := sp.Analyze(fn, entry, watch)
			type rep struct{ key, detail, pos string }
			var bad []rep
			nacc := 0
			for in, states := range res.At {
				switch x := in.(type) {
				case *ssa.FieldAddr:
					t, f, _, _ := fieldOf(x)
					gf := byField[t+"."+f]
					kind := accessKind(x)
					needW := kind == "w" || loadedSliceWritten(x)
					nacc++
					ek := name + "|" + t + "." + f
					if why, ok := tab.exceptions[ek]; ok {
						usedExc[ek] = true
						_ = why
						continue
					}
					if why, ok := tab.exceptions[name+"|*"]; ok {
						usedExc[name+"|*"] = true
						_ = why
						continue
					}
					for _, st := range states {
						if !held(st, gf.lock, needW) {
							mode := "read"
							if needW {
								mode = "write"
							}
							bad = append(bad, rep{"unguarded-" + mode + ":" + t + "." + f, fmt.Sprintf("%s of %s.%s at %s without %s held (lock state {%s})", mode, t, f, p.Pos(x.Pos()), gf.lock, st.cntKey()), p.Pos(x.Pos())})
							break
						}
					}
				case *ssa.UnOp:
					k, _ := elemLoadOf(x, tab.elems)
					gf := byField[k]
					nacc++
					if _, ok := tab.exceptions[name+"|"+k]; ok {
						usedExc[name+"|"+k] = true
						continue
					}
					if _, ok := tab.exceptions[name+"|*"]; ok {
						usedExc[name+"|*"] = true
						continue
					}
					for _, st := range states {
						if !held(st, gf.lock, false) {
							bad = append(bad, rep{"unguarded-element-read:" + k, fmt.Sprintf("element of %s read at %s without %s held (lock state {%s}): the elements are rewritten in place under the lock, a slice header copied earlier does not protect them", k, p.Pos(x.Pos()), gf.lock, st.cntKey()), p.Pos(x.Pos())})
							break
						}
					}
				default:
					cc := callCommon(in)
					callee := staticCallee(cc)
					req := tab.requires[fnName(callee)]
					nacc++
					for _, l := range req {
						needW := !strings.HasSuffix(l, "/R")
						lock := strings.TrimSuffix(l, "/R")
						for _, st := range states {
							if !held(st, lock, needW) {
								bad = append(bad, rep{"call-without-lock:" + fnName(callee), fmt.Sprintf("%s (which requires %s) is called at %s without it (lock state {%s})", fnName(callee), l, p.Pos(in.Pos()), st.cntKey()), p.Pos(in.Pos())})
								break
							}
						}
					}
				}
			}
			r.Site(nacc)
			if len(bad) == 0 {
				r.OK(name, "guarded", fmt.Sprintf("%d guarded accesses / lock-requiring calls hold their lock", nacc))
				continue
			}
			sort.Slice(bad, func(i, j int) bool { return bad[i].key+bad[i].pos < bad[j].key+bad[j].pos })
			seen := map[string]bool{}
			for _, b := range bad {
				if seen[b.key] {
					continue
				}
				seen[b.key] = true
				r.Fail(name, b.key, "guarded field accessed only with its lock held", b.detail, b.pos, nil)
			}
		}
	}
	var stale []string
	for k := range tab.exceptions {
		if !usedExc[k] {
			stale = append(stale, k)
		}
	}
	sort.Strings(stale)
	for _, k := range stale {
		r.Fail(k, "stale-exception", "every guarded-by exception still matches an access", "exception row no longer matches anything (code moved: re-review)", "", nil)
	}
}
