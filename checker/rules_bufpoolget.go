package main

import (
	"fmt"
	"go/constant"
	"go/token"
	"go/types"

	"golang.org/x/tools/go/ssa"
)

// ruleBufferPoolGet: the table reader asks the pool for a buffer of exactly the block's size
// (block length + trailer, or the decoded length) and reads / decodes INTO it; a shorter buffer
// loses the end of the block, a re-slice beyond the recycled array's capacity panics. Both are
// decided on util.BufferPool.Get and its size-class helper:
//   - every return of Get yields make([]byte, n) or x[:n];
//   - x[:n] of a recycled array happens only where n <= cap(x) was established;
//   - x[:n] of a fresh class-sized array make([]byte, baseline[c]) relies on c = poolNum(n) not being
//     the overflow class, and poolNum returns a class c only where n <= baseline[c] was tested.
func ruleBufferPoolGet(p *Prog, r *Report, rule string) {
	r.Begin(rule, "E-GUARD", "util.BufferPool.Get(n) returns a slice of length exactly n on every path (fresh make of n, or a re-slice [:n] of a recycled array only under n <= cap, or of a fresh class-sized array only for a real size class); poolNum returns a class only under n <= baseline[class] and the overflow class otherwise", 5)
	defer r.End()
	get := resolveFn(p, r, "leveldb/util", "(*BufferPool).Get")
	pn := resolveFn(p, r, "leveldb/util", "(*BufferPool).poolNum")
	if get == nil || pn == nil {
		return
	}
	isN := mParam("n")
	// --- poolNum
	var nClasses int64 = -1
	instrs(pn, func(_ *ssa.BasicBlock, _ int, in ssa.Instruction) {
		if fa, ok := in.(*ssa.FieldAddr); ok {
			if _, f, _, ok := fieldOf(fa); ok && f == "baseline" {
				if at, ok := derefT(fa.Type()).Underlying().(*types.Array); ok {
					nClasses = at.Len()
				}
			}
		}
	})
	r.Check(nClasses > 0, fnName(pn), "size-classes", "the size classes are a fixed array", "field baseline not found as an array", p.Pos(pn.Pos()))
	isBaselineAt := func(idx ssa.Value) VMatch {
		return func(v ssa.Value) bool {
			switch x := v.(type) {
			case *ssa.Index:
				return x.Index == idx
			case *ssa.UnOp:
				if ia, ok := x.X.(*ssa.IndexAddr); ok {
					return ia.Index == idx
				}
			}
			return false
		}
	}
	for _, b := range pn.Blocks {
		ret, ok := b.Instrs[len(b.Instrs)-1].(*ssa.Return)
		if !ok || len(ret.Results) != 1 {
			continue
		}
		r.Site(1)
		res := retValue(ret, ret.Results[0])
		if k, ok := res.(*ssa.Const); ok {
			v, _ := constant.Int64Val(k.Value)
			r.Check(v == nClasses, fnName(pn), "overflow-class-is-last@"+b.Comment, "a constant class is the overflow class (one past the size classes)", fmt.Sprintf("returns the constant %d with %d size classes", v, nClasses), p.Pos(ret.Pos()))
			continue
		}
		at := cmpAtom("n<=baseline[c]", token.LEQ, isN, isBaselineAt(res))
		as, vs := []Atom{at}, []bool{false}
		isRet := func(in ssa.Instruction) bool { return in == ret }
		w := findPathV(entryPoint(pn), atomEdges(as, vs), nil, isRet, atomVals(as, vs))
		if w != nil {
			r.Fail(fnName(pn), "class-fits@"+b.Comment, "a size class c is returned only where n <= baseline[c] was established", "a path returns the class without that test: Get then re-slices a class-sized array beyond its capacity (panic) for larger requests", p.Pos(ret.Pos()), p.renderPath(w))
		} else {
			r.OK(fnName(pn), "class-fits@"+b.Comment, "a size class c is returned only where n <= baseline[c] was established")
		}
	}
	// --- Get
	lastStore := func(b *ssa.BasicBlock, before ssa.Instruction, addr ssa.Value) (ssa.Value, ssa.Instruction) {
		var val ssa.Value
		var at ssa.Instruction
		for _, in := range b.Instrs {
			if in == before {
				break
			}
			if st, ok := in.(*ssa.Store); ok && st.Addr == addr {
				val, at = st.Val, in
			}
		}
		return val, at
	}
	isCapOfPooled := func(v ssa.Value) bool {
		c, ok := v.(*ssa.Call)
		if !ok {
			return false
		}
		bi, ok := c.Call.Value.(*ssa.Builtin)
		return ok && bi.Name() == "cap"
	}
	isPoolNumCall := mCall("(*leveldb/util.BufferPool).poolNum")
	nret := 0
	for _, b := range get.Blocks {
		ret, ok := b.Instrs[len(b.Instrs)-1].(*ssa.Return)
		if !ok || len(ret.Results) != 1 {
			continue
		}
		nret++
		r.Site(1)
		key := "returns-length-n@" + b.Comment + fmt.Sprintf("#%d", b.Index)
		what := "Get returns a slice of length n (or a whole fresh array of n's size class)"
		res := retValue(ret, ret.Results[0])
		var anchor ssa.Instruction = ret
		// a load of the pooled slot right after a store to it: look at the stored value
		if u, ok := res.(*ssa.UnOp); ok && u.Op == token.MUL {
			if v, at := lastStore(b, u, u.X); v != nil {
				res, anchor = v, at
			}
		}
		switch x := res.(type) {
		case *ssa.MakeSlice:
			if isN(x.Len) {
				r.OK(fnName(get), key, what)
				continue
			}
			// a whole fresh class-sized array (longer than n, which no caller minds) — for a real class only
			if cls := classSized(x, isPoolNumCall, isN); cls != nil {
				at := cmpAtom("class==overflow", token.EQL, func(v ssa.Value) bool { return v == cls }, mConstInt(nClasses))
				as, vs := []Atom{at}, []bool{true}
				isAnchor := func(in ssa.Instruction) bool { return in == anchor }
				if w := findPathV(entryPoint(get), atomEdges(as, vs), nil, isAnchor, atomVals(as, vs)); w == nil {
					r.OK(fnName(get), key, what)
					continue
				}
			}
			r.Fail(fnName(get), key, what, "returns a fresh slice whose length is neither n nor that of n's size class", p.Pos(ret.Pos()), nil)
		case *ssa.Slice:
			if x.Low != nil || x.High == nil || !isN(x.High) {
				r.Fail(fnName(get), key, what, "returns a re-slice whose bounds are not [:n]", p.Pos(ret.Pos()), nil)
				continue
			}
			base := x.X
			if u, ok := base.(*ssa.UnOp); ok && u.Op == token.MUL {
				if v, _ := lastStore(b, u, u.X); v != nil {
					base = v
				}
			}
			isAnchor := func(in ssa.Instruction) bool { return in == anchor }
			if mk, ok := base.(*ssa.MakeSlice); ok {
				// fresh class-sized array: its length must be baseline[poolNum(n)] and the class a real one
				cls := classSized(mk, isPoolNumCall, isN)
				if cls == nil {
					r.Fail(fnName(get), key, what, "re-slices a fresh array whose size is not baseline[poolNum(n)]: undecided", p.Pos(ret.Pos()), nil)
					continue
				}
				at := cmpAtom("class==overflow", token.EQL, func(v ssa.Value) bool { return v == cls }, mConstInt(nClasses))
				as, vs := []Atom{at}, []bool{true}
				if w := findPathV(entryPoint(get), atomEdges(as, vs), nil, isAnchor, atomVals(as, vs)); w != nil {
					r.Fail(fnName(get), key, what, "a class-sized array is re-sliced to n although the class may be the overflow class (index out of range / n beyond the array)", p.Pos(ret.Pos()), p.renderPath(w))
				} else {
					r.OK(fnName(get), key, what)
				}
				continue
			}
			// recycled array
			at := cmpAtom("n<=cap", token.LEQ, isN, isCapOfPooled)
			as, vs := []Atom{at}, []bool{false}
			if w := findPathV(entryPoint(get), atomEdges(as, vs), nil, isAnchor, atomVals(as, vs)); w != nil {
				r.Fail(fnName(get), key, what, "a recycled array is re-sliced to n on a path where n <= cap was not established: the re-slice panics for a larger request", p.Pos(ret.Pos()), p.renderPath(w))
			} else {
				r.OK(fnName(get), key, what)
			}
		default:
			r.Fail(fnName(get), key, what, fmt.Sprintf("returns %T: neither make([]byte, n) nor x[:n] — undecided", res), p.Pos(ret.Pos()), nil)
		}
	}
	r.Check(nret >= 3, fnName(get), "return-sites", "Get's returns were found", fmt.Sprintf("%d", nret), "")
}

// classSized: mk is make([]byte, p.baseline[c]) with c = p.poolNum(n); returns c.
func classSized(mk *ssa.MakeSlice, isPoolNumCall, isN VMatch) ssa.Value {
	ld, ok := mk.Len.(*ssa.UnOp)
	if !ok {
		return nil
	}
	ia, ok := ld.X.(*ssa.IndexAddr)
	if !ok {
		return nil
	}
	if _, f, _, ok := fieldOf(ia.X); !ok || f != "baseline" || !isPoolNumCall(ia.Index) {
		return nil
	}
	if c, ok := ia.Index.(*ssa.Call); !ok || len(c.Call.Args) < 2 || !isN(c.Call.Args[1]) {
		return nil
	}
	return ia.Index
}
