package main

import (
	"fmt"
	"go/constant"
	"go/token"
	"sort"
	"strings"

	"golang.org/x/tools/go/ssa"
)

func init() {
	register(&propDef{
		id:          "C08",
		run:         runC08,
		explanation: "Static analysis of error handling on the paths that decide durability and answers: (1) error discipline — across all engine packages every call whose error result is not used at all is in a reviewed list (teardown Close of read handles etc.); any new dropped error is reported; (2) a failed log write is not applied or acknowledged, a failed manifest write leaves the version unchanged and abandons the spawned version id; (3) a failed journal write consumes its sequence numbers (the record may already be in the file) before the next group is logged; (4) the journal writer latches write errors; (5) checksum gates: with verification on, table block bytes are used only on the equal edge of the CRC comparison, meta/index/filter blocks are always verified, the flag comes from StrictBlockChecksum which is in the default strict set; (6) read errors of a source iterator surface as the iterator's error instead of a silent end-of-data; (7) partial outputs are reverted. Necessary conditions only: which answers are returned under which fault sequence is NOT decided.",
		notCovered:  "fault-sequence enumeration; the 'wholly applied or wholly absent' fate of a failed write at runtime; errors that are used but mishandled",
		assumptions: []string{"reviewed dropped-error list in rules_c08.go", "CRC-32C detects the corruption it is given"},
	})
}

// reviewed calls whose error result is intentionally unused: "caller|callee" → reason
var reviewedDropped = map[string]string{
	"(*leveldb.DB).Close|(*leveldb/journal.Writer).Close":                 "teardown: every acknowledged record was flushed (and synced if requested) by writeJournal",
	"(*leveldb.DB).Close|iface:leveldb/storage.Writer.Close":              "teardown of the journal file handle",
	"(*leveldb.DB).GetProperty|fmt.Sscanf":                                "property name parsing; the count n is checked",
	"(*leveldb.DB).recoverJournalRO|iface:leveldb/storage.Reader.Close":   "closing a journal opened for reading",
	"(*leveldb.DB).recoverJournal|iface:leveldb/storage.Reader.Close":     "closing a journal opened for reading",
	"(*leveldb.DB).recoverJournal|(*leveldb/journal.Reader).Reset":        "Reset only reports the previous journal's latched read error, which was already handled",
	"(*leveldb.DB).recoverJournalRO|(*leveldb/journal.Reader).Reset":      "same as recoverJournal (D11: propagating it failed every read-only open with two live journals); agreement of the two is checked by C18.7",
	"(*leveldb.DB).recoverJournal|(*leveldb/journal.Writer).Close":        "error path teardown of the freshly created journal",
	"(*leveldb.DB).recoverJournal|iface:leveldb/storage.Writer.Close":     "error path teardown of the freshly created journal",
	"(*leveldb.Transaction).Commit|(*leveldb.DB).waitCompaction":          "documented: the transaction is already committed; back-pressure wait only",
	"(*leveldb.session).close|(*leveldb/journal.Writer).Close":            "teardown: every committed edit was flushed and synced by flushManifest/newManifest",
	"(*leveldb.session).close|iface:leveldb/storage.Writer.Close":         "teardown of the manifest file handle",
	"(*leveldb.session).newManifest$1|(*leveldb/journal.Writer).Close":    "the superseded manifest writer (its content is already replaced by the new snapshot)",
	"(*leveldb.session).newManifest$1|iface:leveldb/storage.Writer.Close": "superseded / failed manifest file handle",
	"(*leveldb.session).recover$1|iface:leveldb/storage.Storage.List":     "best-effort probe to turn a missing CURRENT into a corruption error when other DB files exist",
	"(*leveldb.session).recover|iface:leveldb/storage.Reader.Close":       "closing the manifest opened for reading",
	"(*leveldb.tOps).open$1|iface:leveldb/storage.Reader.Close":           "closing a table file whose reader could not be created (the NewReader error is returned)",
	"(*leveldb/storage.fileStorage).Close|(*os.File).Close":               "closing the LOG file",
	"(*leveldb/storage.fileStorage).doLog|(*os.File).Close":               "LOG rotation",
	"(*leveldb/storage.fileStorage).doLog|(*os.File).Write":               "diagnostic log line",
	"(*leveldb/table.Reader).Release|iface:io.Closer.Close":               "closing a table file opened for reading",
	"leveldb.OpenFile|iface:leveldb/storage.Storage.Close":                "closing the storage after Open already failed (that error is returned)",
	"leveldb.RecoverFile|iface:leveldb/storage.Storage.Close":             "closing the storage after Recover already failed",
	"leveldb.openDB|(*leveldb/journal.Writer).Close":                      "error path teardown after checkAndCleanFiles failed",
	"leveldb.openDB|iface:leveldb/storage.Writer.Close":                   "error path teardown after checkAndCleanFiles failed",
	"leveldb.recoverTable$2$1|iface:leveldb/storage.Reader.Close":         "closing a table opened for reading during Recover",
	"leveldb.recoverTable$2|iface:leveldb/storage.Reader.Close":           "closing a table opened for reading during Recover",
	"leveldb/storage.OpenFile|(*os.File).Close":                           "closing the LOG file on an error path",
	"leveldb/storage.fsParseName|fmt.Sscanf":                              "file name parsing; the count n is checked",
	"leveldb/storage.newFileLock|(*os.File).Close":                        "closing the lock file after flock failed (that error is returned)",
	"leveldb/storage.syncDir|(*os.File).Close":                            "closing the directory handle after fsync",
}

func runC08(p *Prog, r *Report) {
	if want("C08.22") {
		ruleWriteBlockErrorStops(p, r, "C08.22")
	}
	if want("C08.21") {
		ruleOptGetters(p, r, "C08.21", "strictness decides whether damage is reported", "Options.GetStrict", "ReadOptions.GetStrict")
	}
	if want("C08.20") {
		// (shared with C04)
		ruleTornEditIsCorruption(p, r, "C08.20")
	}
	if want("C08.19") {
		// a damaged compaction input stops the compaction
		ruleCompactionInputsStrict(p, r, "C08.19")
	}
	if want("C08.18") {
		// journal damage is never stepped over silently (shared with C12)
		ruleDamageReported(p, r, "C08.18")
	}
	if want("C08.1") {
		ruleErrorDiscipline(p, r, "C08.1")
	}
	if want("C08.2") {
		ruleAckAfterLog(p, r, "C08.2")
	}
	if want("C08.3") {
		ruleInstallAfterDurable(p, r, "C08.3")
		ruleSpawnedIdSettled(p, r, "C08.3b")
	}
	if want("C08.4") {
		r.Begin("C08.4", "E-ORD", "every error exit of the record writer leaves the sequence consumed: when writeJournal fails (the record may already be in the journal file) writeLocked advances db.seq by the group's length before returning, so a later acknowledged group never reuses those numbers", 2)
		if fn := resolveFn(p, r, "leveldb", "(*DB).writeLocked"); fn != nil {
			wj := evCall("(*leveldb.DB).writeJournal")
			errWJ := mErrOfCall("(*leveldb.DB).writeJournal")
			addSeq := evCall("(*leveldb.DB).addSeq")
			if requireSites(p, r, fn, "journal", "writeJournal", wj, 1) {
				if w := findPath(after(fn, wj), onlyWhenErr(errWJ), addSeq, isReturn); w != nil {
					r.Fail(fnName(fn), "seq-reused-after-failed-journal-write", "a failed journal write consumes its sequence numbers", "on the error edge of writeJournal a path returns without db.addSeq: the next group is logged with the same sequence numbers and is rejected at replay (acknowledged write lost)", p.posOfLast(w, isReturn), p.renderPath(w))
				} else {
					r.OK(fnName(fn), "seq-consumed-on-failed-journal-write", "a failed journal write consumes its sequence numbers")
				}
			}
			for _, c := range findCalls(fn, "(*leveldb.DB).addSeq") {
				r.Site(1)
				r.Check(argIs(c, 1, mOriginAny(mCall("leveldb.batchesLen"))), fnName(fn), "consumes-group-length", "the sequence advances by the whole group's length", "addSeq at "+p.Pos(c.Pos())+" does not advance by batchesLen(batches)", p.Pos(c.Pos()))
			}
			// the group's first sequence is db.seq+1
			okv := false
			instrs(fn, func(_ *ssa.BasicBlock, _ int, in ssa.Instruction) {
				if b, ok := in.(*ssa.BinOp); ok && b.Op == token.ADD && isFieldLoad(b.X, tDB, "seq") && mConstInt(1)(b.Y) {
					okv = true
				}
			})
			r.Check(okv, fnName(fn), "group-starts-at-seq+1", "a group is numbered from db.seq+1", "no db.seq+1", p.Pos(fn.Pos()))
			checkCallArg(p, r, fn, "journal-gets-group-seq", "(*leveldb.DB).writeJournal", 2, func(v ssa.Value) bool {
				b, ok := v.(*ssa.BinOp)
				return ok && b.Op == token.ADD && isFieldLoad(b.X, tDB, "seq") && mConstInt(1)(b.Y)
			}, "db.seq+1")
		}
		r.End()
	}
	if want("C08.5") {
		ruleChecksumGates(p, r, "C08.5")
	}
	if want("C08.6") {
		rulePartialOutputs(p, r, "C08.6")
	}
	if want("C08.7") {
		ruleStickyWriter(p, r, "C08.7")
	}
	if want("C08.8") {
		ruleReadErrorsSurface(p, r, "C08.8")
	}
	if want("C08.17") {
		// a storage read error inside a record is not dressed as a skippable damaged record (shared with C12.10)
		ruleRecordReaderFailure(p, r, "C08.17")
	}
	if want("C08.16") {
		ruleErrorsPropagate(p, r, "C08.16", []string{"leveldb", "leveldb/journal", "leveldb/table", "leveldb/storage"}, 100)
	}
	if want("C08.15") {
		// a failed flush wait is a failure of whoever waited: acknowledged writes must not be left behind a recorded sequence number
		ruleTrSeqAfterFlush(p, r, "C08.15")
	}
	if want("C08.14") {
		// tolerated manifest damage must not lose acknowledged writes (shared with C04.21)
		ruleSkippedEntryLeavesNoTrace(p, r, "C08.14")
	}
	if want("C08.13") {
		// a block or table that cannot be read is never skipped as if it were empty
		ruleIndexedIterator(p, r, "C08.13")
	}
	if want("C08.12") {
		ruleStrictFlagRoles(p, r, "C08.12")
	}
	if want("C08.9") {
		ruleIOErrorNotCorruption(p, r, "C08.9")
	}
	if want("C08.11") {
		ruleRetrySnapshotsAreCopies(p, r, "C08.11")
	}
	if want("C08.10") {
		ruleJournalRecoveryOrder(p, r, "C08.10")
	}
}

// ruleIOErrorNotCorruption: in the journal reader a failed read of the underlying file (anything
// but EOF / unexpected EOF, which mean "the file ends here") is returned as it is. It is never
// turned into a corruption report (which non-strict recovery SKIPS, silently losing acknowledged
// records and then deleting the journal), never followed by parsing the buffer, and never turned
// into a clean end-of-journal.
func ruleIOErrorNotCorruption(p *Prog, r *Report, rule string) {
	r.Begin(rule, "E-GUARD", "journal.Reader.nextChunk: after io.ReadFull fails with an error other than io.EOF / io.ErrUnexpectedEOF the function does nothing but return that error: it does not call corrupt() (skippable damage), does not accept the block (store to r.n) and does not latch a clean io.EOF", 3)
	defer r.End()
	fn := resolveFn(p, r, "leveldb/journal", "(*Reader).nextChunk")
	if fn == nil {
		return
	}
	read := evCall("io.ReadFull")
	errV := mExtract(1, "io.ReadFull")
	global := func(name string) VMatch {
		return func(v ssa.Value) bool {
			u, ok := stripConv(v).(*ssa.UnOp)
			if !ok || u.Op != token.MUL {
				return false
			}
			g, ok := u.X.(*ssa.Global)
			return ok && g.Pkg != nil && g.Pkg.Pkg.Path() == "io" && g.Name() == name
		}
	}
	atoms := []Atom{
		nilAtom("err==nil", errV),
		cmpAtom("err==io.EOF", token.EQL, errV, global("EOF")),
		cmpAtom("err==io.ErrUnexpectedEOF", token.EQL, errV, global("ErrUnexpectedEOF")),
	}
	benign := func(a []bool) bool { return a[0] || a[1] || a[2] }
	// nil excludes the two sentinels
	consistent := func(a []bool) bool { return !(a[0] && (a[1] || a[2])) && !(a[1] && a[2]) }
	tRN := "leveldb/journal.Reader"
	targets := []struct {
		kind string
		pred InstrPred
		desc string
	}{
		{"io-error-not-corruption", evCall("(*leveldb/journal.Reader).corrupt"), "reporting corruption (which non-strict replay skips)"},
		{"io-error-block-not-accepted", evStoreField(tRN, "n"), "accepting the block that was read"},
		{"io-error-not-clean-eof", func(in ssa.Instruction) bool {
			st, ok := in.(*ssa.Store)
			return ok && isFieldAddr(st.Addr, tRN, "err") && global("EOF")(st.Val)
		}, "latching a clean end of journal"},
	}
	for _, t := range targets {
		checkGuard(p, r, GuardSpec{Rule: t.kind, Fn: fn, Starts: after(fn, read), Avoid: read, Target: t.pred, TargetDesc: t.desc + " after a read", Atoms: atoms, G: benign, Consistent: consistent, GDesc: "the read succeeded or hit (unexpected) EOF", MinTargets: 1})
	}
	// and the error returned in that case is the read's own error
	r.Site(1)
	asg := []bool{false, false, false}
	wrongRet := func(in ssa.Instruction) bool {
		ret, ok := in.(*ssa.Return)
		if !ok || len(ret.Results) != 1 {
			return false
		}
		v := retValue(ret, ret.Results[0])
		if errV(stripConv(v)) {
			return false
		}
		// r.err just stored from the read error is fine too
		if u, ok := v.(*ssa.UnOp); ok && u.Op == token.MUL && isFieldAddr(u.X, tRN, "err") {
			b := ret.Block()
			for i := len(b.Instrs) - 1; i >= 0; i-- {
				if st, ok := b.Instrs[i].(*ssa.Store); ok && isFieldAddr(st.Addr, tRN, "err") {
					return !errV(stripConv(st.Val))
				}
			}
		}
		return true
	}
	if w := findPathV(after(fn, read), atomEdges(atoms, asg), read, wrongRet, atomVals(atoms, asg)); w != nil {
		r.Fail(fnName(fn), "io-error-returned-as-is", "a failed read returns the read's own error", "with a non-EOF read error a path returns something else", p.posOfLast(w, wrongRet), p.renderPath(w))
	} else {
		r.OK(fnName(fn), "io-error-returned-as-is", "a failed read returns the read's own error")
	}
}

func ruleErrorDiscipline(p *Prog, r *Report, rule string) {
	r.Begin(rule, "E-ERR", "error discipline: in all engine packages, a call whose error result is never used (not tested, returned, stored, passed on) must be in the reviewed list; durability-relevant callees (Write/Sync/Create/SetMeta/Rename/Flush/Next/Append/commit/…) are never in that list", 30)
	defer r.End()
	never := []string{"Sync", "SetMeta", "Rename", "Create", ".Flush", ".Next", ".Append", ".commit", "writeJournal", "flushManifest", "newManifest", ".encode", "putMem", ".Put", "createFrom", ".finish", "rotateMem", "newMem", "flushMemdb", "Remove"}
	for k := range reviewedDropped {
		callee := k[strings.Index(k, "|")+1:]
		for _, n := range never {
			if strings.HasSuffix(callee, n) && !strings.Contains(callee, "Closer") {
				r.Fail(k, "reviewed-list-contains-durability-call", "the reviewed list holds no durability-relevant callee", "row "+k, "", nil)
			}
		}
	}
	ds := droppedErrors(p, enginePkgs)
	seen := map[string]bool{}
	for _, d := range ds {
		key := fnName(d.fn) + "|" + d.callee
		r.Fn(fnName(d.fn))
		r.Site(1)
		if why, ok := reviewedDropped[key]; ok {
			seen[key] = true
			r.OK(fnName(d.fn), "reviewed-drop:"+d.callee+"@"+branchLabel(d.in), "reviewed: "+why)
			continue
		}
		r.Fail(fnName(d.fn), "dropped-error:"+d.callee, "the error result of every call is used", fmt.Sprintf("the error returned by %s at %s is dropped (never tested, returned or stored)", d.callee, p.Pos(d.in.Pos())), p.Pos(d.in.Pos()), nil)
	}
	var stale []string
	for k := range reviewedDropped {
		if !seen[k] {
			stale = append(stale, k)
		}
	}
	sort.Strings(stale)
	for _, k := range stale {
		// a row that no longer matches is harmless for the property but means the code moved
		r.OK(k, "stale-row", "reviewed row no longer matches (the error is used now)")
	}
	// how many error-returning calls were inspected
	n := 0
	for _, pk := range enginePkgs {
		for _, fn := range p.SrcFuncs(pk) {
			instrs(fn, func(_ *ssa.BasicBlock, _ int, in ssa.Instruction) {
				if cc := callCommon(in); cc != nil && errResultIndex(cc.Signature()) >= 0 {
					n++
				}
			})
		}
	}
	r.Extra["error_returning_calls_inspected"] = n
	r.Site(0)
}

func ruleChecksumGates(p *Prog, r *Report, rule string) {
	r.Begin(rule, "E-GUARD", "checksum gates (verification on): Reader.readRawBlock uses the block bytes only on the equal edge of the CRC comparison; meta/index/filter blocks are read with the constant true, data blocks with the reader's verifyChecksum, which comes from StrictBlockChecksum; the default strict set contains StrictBlockChecksum|StrictJournalChecksum", 8)
	defer r.End()
	if fn := resolveFn(p, r, "leveldb/table", "(*Reader).readRawBlock"); fn != nil {
		verify := assumeParam(fn, "verifyChecksum", true)
		crcEq := cmpAtom("stored CRC == computed CRC", token.EQL, mCall("(encoding/binary.littleEndian).Uint32"), mCall("(leveldb/util.CRC).Value"))
		okRet := func(in ssa.Instruction) bool {
			ret, ok := in.(*ssa.Return)
			return ok && len(ret.Results) == 2 && isNilConst(retValue(ret, ret.Results[1]))
		}
		checkGuard(p, r, GuardSpec{Rule: "bytes-used-only-if-crc-matches", Fn: fn, Target: okRet, TargetDesc: "returning block bytes (nil error)", Atoms: []Atom{crcEq}, G: func(a []bool) bool { return a[0] }, GDesc: "CRC match", Extra: verify, MinTargets: 1})
		// also the decompression / type switch is behind the gate
		checkGuard(p, r, GuardSpec{Rule: "decode-only-if-crc-matches", Fn: fn, Target: evCall("github.com/golang/snappy.Decode"), TargetDesc: "snappy.Decode of the block", Atoms: []Atom{crcEq}, G: func(a []bool) bool { return a[0] }, GDesc: "CRC match", Extra: verify, MinTargets: 1})
		// the CRC covers data plus the type byte: util.NewCRC(data[:n]) with n = bh.length+1; stored CRC read at data[n:]
		okN := 0
		instrs(fn, func(_ *ssa.BasicBlock, _ int, in ssa.Instruction) {
			b, ok := in.(*ssa.BinOp)
			if ok && b.Op == token.ADD && mConstInt(1)(b.Y) {
				if f, ok := b.X.(*ssa.Field); ok {
					if _, n, _, ok := fieldOf(f); ok && n == "length" {
						okN++
					}
				} else if isFieldLoad(b.X, "leveldb/table.blockHandle", "length") {
					okN++
				}
			}
		})
		r.Check(okN >= 1, fnName(fn), "crc-range", "the checksum covers length+1 bytes (data and the compression-type byte)", "no bh.length+1 found", p.Pos(fn.Pos()))
		// a mismatch is reported as corruption
		n := countInstr(fn, evCall("(*leveldb/table.Reader).newErrCorruptedBH"))
		r.Check(n >= 3, fnName(fn), "mismatch-is-corruption", "checksum mismatch / undecodable block surfaces as a corruption error", fmt.Sprintf("%d corruption error constructions", n), p.Pos(fn.Pos()))
	}
	// every caller passes true or the reader's flag
	flagOK := func(v ssa.Value) bool {
		if b, ok := constBool(v); ok {
			return b
		}
		return mParam("verifyChecksum")(v) || isFieldLoad(v, "leveldb/table.Reader", "verifyChecksum")
	}
	argIdx := map[string]int{
		"(*leveldb/table.Reader).readRawBlock": 2, "(*leveldb/table.Reader).readBlock": 2, "(*leveldb/table.Reader).readBlockCached": 2,
		"(*leveldb/table.Reader).getDataIter": 3, "(*leveldb/table.Reader).getDataIterErr": 3,
	}
	n := 0
	for _, fn := range p.SrcFuncs("leveldb/table") {
		withAnons(fn, func(f *ssa.Function) {
			if f != fn {
				return
			}
		})
		for callee, idx := range argIdx {
			for _, c := range findCalls(fn, callee) {
				n++
				r.Fn(fnName(fn))
				ok := argIs(c, idx, func(v ssa.Value) bool { return flagOK(v) || mOriginAll(flagOK)(v) })
				r.Check(ok, fnName(fn), "verify-flag@"+callee, "block reads verify checksums: the flag is the constant true or the reader's verifyChecksum", "call at "+p.Pos(c.Pos())+" passes false or an unrelated flag: a damaged block would be served", p.Pos(c.Pos()))
				// the table's own structure (index, metaindex, filter) is ALWAYS verified, whatever
				// the strictness flags say: StrictBlockChecksum governs data blocks only. A damaged
				// index accepted unverified answers "not found" for stored keys, or panics.
				cc := callCommon(c)
				if len(cc.Args) > 1 {
					for _, hf := range []string{"indexBH", "metaBH", "filterBH"} {
						if isFieldLoad(cc.Args[1], "leveldb/table.Reader", hf) {
							b, isC := constBool(cc.Args[idx])
							r.Check(isC && b, fnName(fn), "structure-block-always-verified:"+hf+"@"+callee, "index / metaindex / filter blocks are read with verification unconditionally on", "the read of r."+hf+" at "+p.Pos(c.Pos())+" does not pass the constant true: with StrictBlockChecksum off (NoStrict, StrictReader, …) a damaged "+hf+" block is accepted and cached", p.Pos(c.Pos()))
						}
					}
				}
			}
		}
	}
	r.Site(n)
	if fn := resolveFn(p, r, "leveldb/table", "NewReader"); fn != nil {
		okv := false
		instrs(fn, func(_ *ssa.BasicBlock, _ int, in ssa.Instruction) {
			if st, ok := in.(*ssa.Store); ok && isFieldAddr(st.Addr, "leveldb/table.Reader", "verifyChecksum") {
				if c, ok := callValue(st.Val, "(*leveldb/opt.Options).GetStrict"); ok {
					if k, ok := constInt(c.Call.Args[1]); ok {
						okv = k == strictConst(p, "StrictBlockChecksum")
					}
				}
			}
		})
		r.Site(1)
		r.Check(okv, fnName(fn), "flag-from-option", "Reader.verifyChecksum = o.GetStrict(opt.StrictBlockChecksum)", "verifyChecksum is not derived from StrictBlockChecksum", p.Pos(fn.Pos()))
	}
	// default strict set
	def := strictConst(p, "DefaultStrict")
	need := strictConst(p, "StrictBlockChecksum") | strictConst(p, "StrictJournalChecksum")
	r.Site(1)
	r.Check(need != 0 && def&need == need, "leveldb/opt.DefaultStrict", "default-includes-checksums", "DefaultStrict contains StrictBlockChecksum|StrictJournalChecksum", fmt.Sprintf("DefaultStrict=%#x needs %#x", def, need), "")
	// journals are read with the journal checksum flag; the manifest always with checksums
	for _, name := range []string{"(*DB).recoverJournal", "(*DB).recoverJournalRO"} {
		if fn := resolveFn(p, r, "leveldb", name); fn != nil {
			for _, c := range findCalls(fn, "leveldb/journal.NewReader", "(*leveldb/journal.Reader).Reset") {
				idx := 3
				if isCallTo(c, "(*leveldb/journal.Reader).Reset") {
					idx = 4
				}
				r.Site(1)
				ok := argIs(c, idx, mOriginAny(func(v ssa.Value) bool {
					cl, ok := callValue(v, "(*leveldb.cachedOptions).GetStrict", "(*leveldb/opt.Options).GetStrict")
					if !ok {
						return false
					}
					k, ok := constInt(cl.Call.Args[1])
					return ok && k == strictConst(p, "StrictJournalChecksum")
				}))
				r.Check(ok, fnName(fn), "journal-checksum-flag", "journal readers get the StrictJournalChecksum flag", "journal reader created with a different checksum flag at "+p.Pos(c.Pos()), p.Pos(c.Pos()))
			}
		}
	}
	if fn := resolveFn(p, r, "leveldb", "(*session).recover"); fn != nil {
		checkCallArg(p, r, fn, "manifest-always-checksummed", "leveldb/journal.NewReader", 3, func(v ssa.Value) bool { b, ok := constBool(v); return ok && b }, "the constant true")
	}
}

func strictConst(p *Prog, name string) int64 {
	op := p.ByRel["leveldb/opt"]
	if op == nil {
		return 0
	}
	o := op.Pkg.Scope().Lookup(name)
	if o == nil {
		return 0
	}
	c, ok := o.(interface{ Val() constant.Value })
	if !ok {
		return 0
	}
	v, _ := constant.Int64Val(c.Val())
	return v
}

// ruleStickyWriter: C08.7 / C12.4.
func ruleStickyWriter(p *Prog, r *Report, rule string) {
	r.Begin(rule, "E-FLOW", "the journal writer latches write errors: every underlying Write/Flush result is stored in w.err, and Next / Flush / the record writer return early when w.err is set (a record is never appended after a failed one)", 6)
	defer r.End()
	tW := "leveldb/journal.Writer"
	for _, name := range []string{"(*Writer).writeBlock", "(*Writer).writePending"} {
		if fn := resolveFn(p, r, "leveldb/journal", name); fn != nil {
			ok := true
			n := 0
			instrs(fn, func(_ *ssa.BasicBlock, _ int, in ssa.Instruction) {
				c, ok2 := in.(*ssa.Call)
				if !ok2 || !isWriteInvoke(c) {
					return
				}
				n++
				stored := false
				for _, ref := range *c.Referrers() {
					if e, ok3 := ref.(*ssa.Extract); ok3 && e.Index == 1 {
						for _, r2 := range *e.Referrers() {
							if st, ok4 := r2.(*ssa.Store); ok4 && isFieldAddr(st.Addr, tW, "err") {
								stored = true
							}
						}
					}
				}
				if !stored {
					ok = false
				}
			})
			r.Site(n)
			r.Check(n >= 1 && ok, fnName(fn), "write-error-latched", "the underlying Write's error is stored in w.err", "a Write result is not latched", p.Pos(fn.Pos()))
		}
	}
	errSet := nilAtom("w.err==nil", mFieldLoad(tW, "err"))
	if fn := resolveFn(p, r, "leveldb/journal", "(*Writer).Next"); fn != nil {
		checkGuard(p, r, GuardSpec{Rule: "next-refuses-after-error", Fn: fn, Target: orPred(evStoreField(tW, "pending"), evStoreField(tW, "first")), TargetDesc: "starting a new record", Atoms: []Atom{errSet}, G: func(a []bool) bool { return a[0] }, GDesc: "w.err == nil", MinTargets: 2})
	}
	if fn := resolveFn(p, r, "leveldb/journal", "(*Writer).writePending"); fn != nil {
		checkGuard(p, r, GuardSpec{Rule: "no-write-after-error", Fn: fn, Target: isWriteInvoke, TargetDesc: "writing the pending bytes", Atoms: []Atom{errSet}, G: func(a []bool) bool { return a[0] }, GDesc: "w.err == nil", MinTargets: 1})
	}
	{
		if fn2 := resolveFn(p, r, "leveldb/journal", "singleWriter.Write"); fn2 != nil {
			checkGuard(p, r, GuardSpec{Rule: "record-write-refuses-after-error", Fn: fn2, Target: evCall("builtin:copy"), TargetDesc: "copying record bytes into the block buffer", Atoms: []Atom{errSet}, G: func(a []bool) bool { return a[0] }, GDesc: "w.err == nil", MinTargets: 1})
		}
	}
	if fn := resolveFn(p, r, "leveldb/journal", "(*Writer).Flush"); fn != nil {
		// flusher error is latched too
		okv := false
		instrs(fn, func(_ *ssa.BasicBlock, _ int, in ssa.Instruction) {
			if st, ok := in.(*ssa.Store); ok && isFieldAddr(st.Addr, tW, "err") {
				if c, ok := st.Val.(*ssa.Call); ok && c.Call.IsInvoke() && c.Call.Method.Name() == "Flush" {
					okv = true
				}
			}
		})
		r.Site(1)
		r.Check(okv, fnName(fn), "flush-error-latched", "the underlying Flush error is stored in w.err", "not latched", p.Pos(fn.Pos()))
		ordOnSuccess(p, r, fn, "flush-writes-pending", nil, evCall("(*leveldb/journal.Writer).writePending"), "writePending()")
	}
	if fn := resolveFn(p, r, "leveldb/journal", "(*Writer).Reset"); fn != nil {
		// Reset clears the latch (that is how rotateMem/newMem recovers the DB journal)
		okv := false
		instrs(fn, func(_ *ssa.BasicBlock, _ int, in ssa.Instruction) {
			if st, ok := in.(*ssa.Store); ok && isFieldAddr(st.Addr, tW, "err") && isNilConst(st.Val) {
				okv = true
			}
		})
		r.Site(1)
		r.Check(okv, fnName(fn), "reset-clears-latch", "Reset clears the latched error for the new file", "Reset does not clear w.err", p.Pos(fn.Pos()))
	}
}

// ruleReadErrorsSurface: C08.8.
func ruleReadErrorsSurface(p *Prog, r *Report, rule string) {
	r.Begin(rule, "E-ORD", "read errors surface: when a source iterator stops (movement returns false) the wrapping iterator records the source's error before reporting end-of-data, so an I/O or corruption error is never presented as 'no more keys'", 8)
	defer r.End()
	// dbIter: after i.iter.<move>() returned false, iterErr() is called before return
	moves := map[string]bool{"First": true, "Last": true, "Seek": true, "Next": true, "Prev": true}
	innerMove := func(recv VMatch) InstrPred {
		return func(in ssa.Instruction) bool {
			c, ok := in.(*ssa.Call)
			return ok && c.Call.IsInvoke() && moves[c.Call.Method.Name()] && recv(c.Call.Value)
		}
	}
	for _, name := range []string{"(*dbIter).First", "(*dbIter).Last", "(*dbIter).Seek", "(*dbIter).Next", "(*dbIter).next", "(*dbIter).Prev", "(*dbIter).prev"} {
		fn := resolveFn(p, r, "leveldb", name)
		if fn == nil {
			continue
		}
		mv := innerMove(mFieldLoad(tDbIter, "iter"))
		if countInstr(fn, mv) == 0 {
			continue
		}
		falseEdge := assumeBool(func(v ssa.Value) (bool, bool) {
			if c, ok := v.(*ssa.Call); ok && mv(c) {
				return false, true
			}
			return false, false
		})
		r.Site(1)
		// from after a failing inner movement to a return: iterErr (or another inner move / helper that does it) is passed
		consultsErr := func(in ssa.Instruction) bool {
			return isInvokeNamed(in, "Error") && argIsRecv(in, mFieldLoad(tDbIter, "iter"))
		}
		handled := orPred(evCall("(*leveldb.dbIter).iterErr"), consultsErr, evCall("(*leveldb.dbIter).prev", "(*leveldb.dbIter).next", "(*leveldb.dbIter).Last", "(*leveldb.dbIter).First"), mv)
		if w := findPath(after(fn, mv), falseEdge, handled, isReturn); w != nil {
			r.Fail(fnName(fn), "inner-error-swallowed", "after the raw iterator stops, its error is consulted/transferred before a result is reported", "a path returns after a failed raw movement without consulting the raw iterator's error: a read error looks like the end of the data (or a stale candidate is presented as valid)", p.posOfLast(w, isReturn), p.renderPath(w))
		} else {
			r.OK(fnName(fn), "inner-error-transferred", "after the raw iterator stops, its error is transferred before end-of-data is reported")
		}
	}
	if fn := resolveFn(p, r, "leveldb", "(*dbIter).iterErr"); fn != nil {
		ordOnSuccess(p, r, fn, "reads-inner-error", nil, func(in ssa.Instruction) bool { return isInvokeNamed(in, "Error") }, "i.iter.Error()")
	}
	// merged iterator: a source that stops is asked for its error
	for _, name := range []string{"(*mergedIterator).First", "(*mergedIterator).Last", "(*mergedIterator).Seek", "(*mergedIterator).Next", "(*mergedIterator).Prev"} {
		fn := resolveFn(p, r, "leveldb/iterator", name)
		if fn == nil {
			continue
		}
		mv := innerMove(func(v ssa.Value) bool { return isIteratorT(v.Type()) })
		if countInstr(fn, mv) == 0 {
			continue
		}
		n := countInstr(fn, evCall("(*leveldb/iterator.mergedIterator).iterErr"))
		r.Site(1)
		r.Check(n >= 1, fnName(fn), "source-error-checked", "a source that stops is asked for its error (iterErr)", "no iterErr call in a method that moves sources", p.Pos(fn.Pos()))
	}
	if fn := resolveFn(p, r, "leveldb/iterator", "(*mergedIterator).iterErr"); fn != nil {
		strict := boolAtom("strict", mFieldLoad("leveldb/iterator.mergedIterator", "strict"))
		corrupted := boolAtom("IsCorrupted(err)", mCall("leveldb/errors.IsCorrupted"))
		checkGuard(p, r, GuardSpec{Rule: "non-corruption-errors-always-stop", Fn: fn, Target: retConstBool(false), TargetDesc: "ignoring a source's error", Atoms: []Atom{strict, corrupted, nilAtom("err==nil", func(v ssa.Value) bool {
			c, ok := v.(*ssa.Call)
			return ok && c.Call.IsInvoke() && c.Call.Method.Name() == "Error"
		})}, G: func(a []bool) bool { return a[2] || (!a[0] && a[1]) }, GDesc: "no error ∨ (¬strict ∧ corrupted)", MinTargets: 1})
	}
	if fn := resolveFn(p, r, "leveldb/iterator", "(*indexedIterator).dataErr"); fn != nil {
		strict := boolAtom("strict", mFieldLoad("leveldb/iterator.indexedIterator", "strict"))
		corrupted := boolAtom("IsCorrupted(err)", mCall("leveldb/errors.IsCorrupted"))
		checkGuard(p, r, GuardSpec{Rule: "non-corruption-errors-always-stop", Fn: fn, Target: retConstBool(false), TargetDesc: "ignoring a data block's error", Atoms: []Atom{strict, corrupted, nilAtom("err==nil", func(v ssa.Value) bool {
			c, ok := v.(*ssa.Call)
			return ok && c.Call.IsInvoke() && c.Call.Method.Name() == "Error"
		})}, G: func(a []bool) bool { return a[2] || (!a[0] && a[1]) }, GDesc: "no error ∨ (¬strict ∧ corrupted)", MinTargets: 1})
	}
	// DB.get: an error from the table lookup is returned (not converted to not-found)
	if fn := resolveFn(p, r, "leveldb", "(*tOps).find"); fn != nil {
		ordNotOnError(p, r, fn, "open-error-returned", mErrOfCall("(*leveldb.tOps).open"), "tOps.open", evCall("(*leveldb.tOps).open"), evCall("(*leveldb/table.Reader).Find"), "Reader.Find")
	}
}
