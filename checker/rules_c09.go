package main

func init() {
	register(&propDef{
		id:  "C09",
		run: runC09,
		explanation: "TBD",
		notCovered:  "TBD",
	})
}

var lockPkgs = []string{"leveldb", "leveldb/cache", "leveldb/memdb", "leveldb/table", "leveldb/storage", "leveldb/util", "leveldb/iterator", "leveldb/journal"}

func runC09(p *Prog, r *Report) {
	if want("C09.1") {
		ruleTokenContracts(p, r, "C09.1", 12)
	}
	if want("C09.2") {
		ruleLockPairing(p, r, "C09.2", lockPkgs, 150)
	}
}
