package main

import (
	"fmt"
	"go/token"
	"sort"
	"strings"

	"golang.org/x/tools/go/callgraph"
	"golang.org/x/tools/go/ssa"
)

func init() {
	register(&propDef{
		id:          "C09",
		run:         runC09,
		explanation: "Static typestate/pairing analysis (path-sensitive, on SSA) of everything a failing or finishing operation must give back: the write-lock token (a capacity-1 channel) against a reviewed per-function exit contract, every sync.Mutex/RWMutex in the engine packages, the internally opened large-batch transaction, and locks held across the compaction exit-panic protocol; plus an exhaustive inventory of every blocking channel operation in package leveldb (each must be a select with a close/timeout case or a reviewed rendezvous), the acknowledge-on-exit epilogues of the background loops, and the order of Close. Each clause is a structural necessary condition: breaking it gives a schedule/fault position at which some call blocks forever. Liveness itself (that waits are eventually signalled, fairness) is NOT decided.",
		notCovered:  "progress under fair scheduling; that every wait is eventually signalled; lock-order cycles BETWEEN different objects of the cache/table-reader layer (one node of the order graph: its instances are ordered by layer and bucket hierarchy, which type-based lock names cannot express; re-acquisition on ONE object — a path crossing no callback — is decided, see D17; the one known callback edge is checked by C17.3), through ambiguous interface dispatch (Releaser/Iterator call sites with several implementations are not followed). Waits under a mutex are checked only against the lock needs of the goroutine on the other end (C09.12), not for that goroutine being alive or scheduled",
		assumptions: []string{"sync.Mutex is not re-entrant; a capacity-1 channel send blocks while the token is out", "the reviewed rendezvous table (plain sends/receives) in rules_c09.go"},
	})
}

var lockPkgs = []string{"leveldb", "leveldb/cache", "leveldb/memdb", "leveldb/table", "leveldb/storage", "leveldb/util", "leveldb/iterator", "leveldb/journal"}

// reviewed plain (non-select) blocking channel operations in package leveldb
var reviewedPlainOps = map[string]string{
	"(*leveldb.DB).Close|send|leveldb.DB.writeLockC":           "terminal acquire, after closeC was closed and the open transaction discarded; every holder releases (token contracts)",
	"(*leveldb.session).commit$1|send|leveldb.session.abandon": "refLoop receives abandon in every iteration until session.close, which runs after all committers have exited",
	"(leveldb.cAuto).ack|send|leveldb.cAuto.ackC":              "ack to a waiter; protected by recover because the waiter closes the channel when it gives up",
	"(leveldb.cRange).ack|send|leveldb.cRange.ackC":            "as cAuto.ack",
	"(*leveldb.DB).unlockWrite|send|leveldb.DB.writeAckC":      "each merged writer is already committed to receiving its result (C10.5)",
	"(*leveldb.DB).unlockWrite|send|leveldb.DB.writeMergedC":   "the overflowed writer is already committed to receiving the reply (C10.3)",
	"(*leveldb.DB).writeLocked|send|leveldb.DB.writeMergedC":   "the requester is committed to `<-writeMergedC` right after its send was taken",
	"(*leveldb.DB).Write|recv|leveldb.DB.writeMergedC":         "the leader that took the request replies exactly once (C10.3)",
	"(*leveldb.DB).Write|recv|leveldb.DB.writeAckC":            "the leader acks every merged writer in unlockWrite on every exit (C10.1/C10.2)",
	"(*leveldb.DB).putRec|recv|leveldb.DB.writeMergedC":        "as Write",
	"(*leveldb.DB).putRec|recv|leveldb.DB.writeAckC":           "as Write",
	"(*leveldb.session).refLoop|recv|time.Timer.C":             "initial tick of time.NewTimer(0)",
	"(*leveldb.session).refLoop|send|?":                        "reply on the test-only fileRefCh request channel",
}

// helperOfReviewed: fn performs a plain blocking op that is not reviewed for fn itself. If every
// caller of fn (resolved call graph, at least one) has a reviewed row for the same op and channel,
// the rows are returned: the rendezvous argument is the caller's, the helper only hosts the
// instruction.
func helperOfReviewed(p *Prog, fn *ssa.Function, kind, ch string) []string {
	n := p.CG().Nodes[fn]
	if n == nil || len(n.In) == 0 {
		return nil
	}
	var rows []string
	seen := map[string]bool{}
	for _, e := range n.In {
		k := fnName(e.Caller.Func) + "|" + kind + "|" + ch
		if _, ok := reviewedPlainOps[k]; !ok {
			return nil
		}
		if !seen[k] {
			seen[k] = true
			rows = append(rows, k)
		}
	}
	sort.Strings(rows)
	return rows
}

func runC09(p *Prog, r *Report) {
	if want("C09.14") {
		// compaction requests never wait on a goroutine that cannot answer
		ruleCompTriggerSiblings(p, r, "C09.14")
	}
	if want("C09.13") {
		// (shared with C18) a send on a closed channel panics the caller
		ruleNoSendOnClosedChannel(p, r, "C09.13")
	}
	if want("C09.1") {
		ruleTokenContracts(p, r, "C09.1", 12)
	}
	if want("C09.2") {
		ruleLockPairing(p, r, "C09.2", lockPkgs, 150)
	}
	if want("C09.3") {
		ruleOpenTrFinished(p, r, "C09.3")
	}
	if want("C09.4") {
		ruleLocksAcrossExitPanic(p, r, "C09.4")
	}
	if want("C09.5") {
		ruleChanInventory(p, r, "C09.5")
	}
	if want("C09.6") {
		ruleLatchedWriterRetried(p, r, "C09.6")
	}
	if want("C09.7") {
		ruleLoopsAckOnExit(p, r, "C09.7")
	}
	if want("C09.8") {
		ruleCloseOrder(p, r, "C09.8")
	}
	if want("C09.9") {
		ruleParkedWritersAnswered(p, r, "C09.9")
	}
	if want("C09.12") {
		ruleWaitUnderLock(p, r, "C09.12")
	}
	if want("C09.11") {
		ruleLockOrder(p, r, "C09.11")
	}
	if want("C09.10") {
		ruleWriteBackpressure(p, r, "C09.10")
	}
}

// ruleWriteBackpressure: DB.flush loops (`for flush() {}`) until the effective buffer has room.
// Every "try again" answer of the closure is preceded by something that lets the situation
// change — the one-off 1 ms slowdown sleep, or a blocking wait for a table compaction that
// returned without error — so the writer neither spins nor waits on a compaction error forever;
// a closed DB and a failed wait end the loop.
func ruleWriteBackpressure(p *Prog, r *Report, rule string) {
	r.Begin(rule, "E-ORD", "write backpressure (DB.flush): the retry closure answers 'again' only after the one-off slowdown sleep or after compTriggerWait(tcompCmdC) returned nil; it stops on a closed DB (no effective buffer) and on a failed wait; the slowdown sleep happens at most once per write (guarded by the delayed flag it sets)", 5)
	defer r.End()
	fn := resolveFn(p, r, "leveldb", "(*DB).flush")
	if fn == nil {
		return
	}
	var cl *ssa.Function
	for _, a := range fn.AnonFuncs {
		if countInstr(a, evCall("(*leveldb.DB).getEffectiveMem")) > 0 {
			cl = a
		}
	}
	if cl == nil {
		r.Fail(fnName(fn), "retry-closure:unresolved-anchor", "flush has a retry closure", "not found", p.Pos(fn.Pos()), nil)
		return
	}
	r.Fn(fnName(cl))
	sleep := evCall("time.Sleep")
	wait := andPred(evCall("(*leveldb.DB).compTriggerWait"), predArg(1, mChanField(tDB, "tcompCmdC")))
	again := func(in ssa.Instruction) bool {
		ret, ok := in.(*ssa.Return)
		if !ok || len(ret.Results) != 1 {
			return false
		}
		b, isC := constBool(retValue(ret, ret.Results[0]))
		return !isC || b
	}
	requireSites(p, r, cl, "slowdown-sleep", "time.Sleep (slowdown)", sleep, 1)
	requireSites(p, r, cl, "pause-wait", "compTriggerWait(tcompCmdC)", wait, 1)
	r.Site(1)
	if w := findPath(entryPoint(cl), nil, orPred(sleep, wait), again); w != nil {
		r.Fail(fnName(cl), "retry-without-progress", "'again' is answered only after sleeping or waiting for a compaction", "a path answers 'again' without having slept or waited: the writer spins", p.posOfLast(w, again), p.renderPath(w))
	} else {
		r.OK(fnName(cl), "retry-only-after-progress", "'again' is answered only after sleeping or waiting for a compaction")
	}
	// a failed wait ends the loop
	ordNotOnError(p, r, cl, "failed-wait-stops", mCellNamed("err"), "compTriggerWait", wait, func(in ssa.Instruction) bool {
		ret, ok := in.(*ssa.Return)
		if !ok || len(ret.Results) != 1 {
			return false
		}
		b, isC := constBool(retValue(ret, ret.Results[0]))
		return isC && b
	}, "answering 'again'")
	// the sleep is one-off
	delayed := boolAtom("delayed", mCellNamed("delayed"))
	checkGuard(p, r, GuardSpec{Rule: "slowdown-once", Fn: cl, Target: sleep, TargetDesc: "the slowdown sleep", Atoms: []Atom{delayed}, G: func(a []bool) bool { return !a[0] }, GDesc: "¬delayed (and it sets delayed)", MinTargets: 1})
	ordPrecede(p, r, cl, "sleep-sets-delayed", nil, evStoreCell("delayed"), "delayed = true", sleep, "time.Sleep")
	// closed DB: no effective buffer → stop with ErrClosed
	noMem := nilAtom("mdb==nil", mCall("(*leveldb.DB).getEffectiveMem"))
	checkGuardExact(p, r, GuardSpec{Rule: "closed-db-stops", Fn: cl, Target: func(in ssa.Instruction) bool {
		ret, ok := in.(*ssa.Return)
		if !ok || len(ret.Results) != 1 {
			return false
		}
		b, isC := constBool(retValue(ret, ret.Results[0]))
		return isC && !b
	}, TargetDesc: "the loop ends", Atoms: []Atom{noMem}, G: func(a []bool) bool { return a[0] }, GDesc: "there is no effective buffer (DB closed)"}, orPred(sleep, wait, evCall("(*leveldb.DB).rotateMem")), "sleeping / waiting / rotating")
}

// ruleParkedWritersAnswered: a writer that was received by a leader but did not fit its group
// (overflow) waits on writeMergedC and on nothing else — not on closeC, not on the error channels.
// Its only way out is the leader's hand-off in unlockWrite, which therefore must happen on EVERY
// exit of the leader, whatever the group's result.
func ruleParkedWritersAnswered(p *Prog, r *Report, rule string) {
	r.Begin(rule, "E-GUARD", "every parked writer is answered: unlockWrite sends the deferred reply (writeMergedC <- false, which also hands over the lock) whenever overflow is set — independent of the group's result — and releases the lock otherwise; every exit of writeLocked after the merge loop goes through unlockWrite", 3)
	defer r.End()
	if fn := resolveFn(p, r, "leveldb", "(*DB).unlockWrite"); fn != nil {
		overflow := boolAtom("overflow", mParam("overflow"))
		handoff := func(in ssa.Instruction) bool {
			s, ok := in.(*ssa.Send)
			if !ok || !isFieldLoad(s.Chan, tDB, "writeMergedC") {
				return false
			}
			bv, ok := constBool(s.X)
			return ok && !bv
		}
		release := evRecvOn(tDB, "writeLockC")
		checkGuardExact(p, r, GuardSpec{Rule: "overflow-writer-answered", Fn: fn, Target: handoff, TargetDesc: "the parked overflow writer gets its reply (and the lock)", Atoms: []Atom{overflow}, G: func(a []bool) bool { return a[0] }, GDesc: "overflow"}, isReturn, "return")
		checkGuardExact(p, r, GuardSpec{Rule: "lock-released-without-overflow", Fn: fn, Target: release, TargetDesc: "the write lock is released", Atoms: []Atom{overflow}, G: func(a []bool) bool { return !a[0] }, GDesc: "¬overflow"}, isReturn, "return")
		// the decision depends on overflow alone (not on err / merged)
		r.Site(1)
		dep := ""
		instrs(fn, func(b *ssa.BasicBlock, _ int, in ssa.Instruction) {
			if !handoff(in) && !release(in) {
				return
			}
			// every If that dominates this instruction's block (walk idom chain) tests overflow or the ack loop bound
			for d := b; d != nil; d = d.Idom() {
				id := d.Idom()
				if id == nil {
					break
				}
				iff, ok := id.Instrs[len(id.Instrs)-1].(*ssa.If)
				if !ok {
					continue
				}
				// is d control dependent on iff (only one successor reaches d)? approximate: d is a successor
				isSucc := id.Succs[0] == d || id.Succs[1] == d
				if !isSucc {
					continue
				}
				c := iff.Cond
				if u, ok := c.(*ssa.UnOp); ok {
					c = u.X
				}
				if mParam("overflow")(c) {
					continue
				}
				if bo, ok := c.(*ssa.BinOp); ok && (mParam("merged")(bo.X) || mParam("merged")(bo.Y)) {
					continue // the ack loop bound i < merged
				}
				dep = p.Pos(iff.Cond.Pos())
			}
		})
		r.Check(dep == "", fnName(fn), "decision-on-overflow-alone", "hand-off vs release is decided by overflow alone", "the hand-off / release also depends on the test at "+dep+" (e.g. the group's result): on that path a parked writer or the lock is forgotten", dep)
	}
}

// C09.3: a transaction opened inside the repository and not returned is finished on every exit.
func ruleOpenTrFinished(p *Prog, r *Report, rule string) {
	r.Begin(rule, "E-PAIR", "a *Transaction obtained from OpenTransaction inside the repository and not returned to the caller reaches Discard, or a Commit whose result is nil, on every exit", 1)
	defer r.End()
	sp := &TSpec{
		Name: "opentr",
		Instr: func(in ssa.Instruction) ([]Eff, bool) {
			if isCallTo(in, "(*leveldb.Transaction).Discard") {
				return []Eff{{Res: "tr", D: -1, Sat: true}}, true
			}
			return nil, false
		},
		Cond: func(in ssa.Instruction) (*CondEff, bool) {
			switch {
			case isCallTo(in, "(*leveldb.DB).OpenTransaction"):
				return &CondEff{ResultIdx: 1, WhenNil: []Eff{{Res: "tr", D: +1}}}, true
			case isCallTo(in, "(*leveldb.Transaction).Commit"):
				return &CondEff{ResultIdx: -1, WhenNil: []Eff{{Res: "tr", D: -1}}}, true
			}
			return nil, false
		},
	}
	for _, pk := range []string{"leveldb"} {
		for _, fn := range p.SrcFuncs(pk) {
			if len(findCalls(fn, "(*leveldb.DB).OpenTransaction")) == 0 {
				continue
			}
			name := fnName(fn)
			r.Fn(name)
			r.Site(1)
			res := sp.Analyze(fn, nil, nil)
			bad := false
			seen := map[string]bool{}
			for _, e := range res.Exits {
				if e.State.cnt["tr"] == 0 {
					continue
				}
				// exempt: the transaction itself is returned
				ret := e.In.(*ssa.Return)
				returned := false
				for _, v := range ret.Results {
					if namedOf(v.Type()) == "leveldb.Transaction" && !isNilConst(retValue(ret, v)) {
						returned = true
					}
				}
				if returned {
					continue
				}
				k := p.Pos(ret.Pos())
				if seen[k] {
					continue
				}
				seen[k] = true
				r.Fail(name, "open-transaction-leaked", "the internally opened transaction is committed successfully or discarded before returning",
					fmt.Sprintf("return at %s leaves the transaction open (e.g. Commit failed and its error is returned without Discard): the write lock stays with the abandoned transaction", k), k, nil)
				bad = true
			}
			if !bad {
				r.OK(name, "transaction-finished", fmt.Sprintf("transaction finished on all %d exit states", len(res.Exits)))
			}
		}
	}
}

// reachersOf: all functions from which target is reachable in the call graph.
func reachersOf(cg *callgraph.Graph, target *ssa.Function) map[*ssa.Function]bool {
	out := map[*ssa.Function]bool{}
	n := cg.Nodes[target]
	if n == nil {
		return out
	}
	var stack []*callgraph.Node
	stack = append(stack, n)
	out[target] = true
	for len(stack) > 0 {
		x := stack[len(stack)-1]
		stack = stack[:len(stack)-1]
		for _, e := range x.In {
			c := e.Caller.Func
			if !out[c] {
				out[c] = true
				stack = append(stack, e.Caller)
			}
		}
	}
	return out
}

// C09.4: any mutex held at a call that can reach compactionExitTransact (which panics by
// design to unwind the compaction goroutine) must be released by defer.
func ruleLocksAcrossExitPanic(p *Prog, r *Report, rule string) {
	r.Begin(rule, "E-PAIR", "a mutex held at a call that can reach compactionExitTransact (exit panic) is released by a deferred unlock", 1)
	defer r.End()
	exit := p.Fn("leveldb", "(*DB).compactionExitTransact")
	if exit == nil {
		r.Fail("leveldb:(*DB).compactionExitTransact", "unresolved-anchor", "exit-panic function exists", "not found", "", nil)
		return
	}
	reach := reachersOf(p.CG(), exit)
	sp := lockSpec()
	for _, fn := range p.SrcFuncs("leveldb") {
		if !hasMutexOps(fn) {
			continue
		}
		name := fnName(fn)
		watch := func(in ssa.Instruction) bool {
			if _, ok := in.(*ssa.Call); !ok {
				return false
			}
			cc := callCommon(in)
			if cc.IsInvoke() {
				return false
			}
			callee := staticCallee(cc)
			if callee == nil {
				callee = closureCallee(cc)
			}
			return callee != nil && reach[callee]
		}
		res := sp.Analyze(fn, nil, watch)
		for in, states := range res.At {
			r.Fn(name)
			bad := ""
			held := false
			for _, st := range states {
				for lk, c := range st.cnt {
					if c <= 0 {
						continue
					}
					held = true
					// must have a pending deferred release of lk
					ok := false
					for dk := range st.defs {
						for _, e := range decEffs(dk) {
							if e.Res == lk && e.D < 0 {
								ok = true
							}
						}
					}
					if !ok {
						bad = lk
					}
				}
			}
			if held {
				r.Site(1)
			}
			if bad != "" {
				r.Fail(name, "lock-held-across-exit-panic:"+bad, "lock held at a call that may panic with errCompactionTransactExiting is defer-released",
					fmt.Sprintf("%s is held at %s (call may reach compactionExitTransact) without a deferred unlock: the exit panic would leave it locked forever", bad, p.Pos(in.Pos())), p.Pos(in.Pos()), nil)
			} else if held {
				r.OK(name, "deferred@"+calleeName(callCommon(in)), "lock held across a possibly exit-panicking call is defer-released")
			}
		}
	}
}

// C09.5: inventory of blocking channel operations.
func ruleChanInventory(p *Prog, r *Report, rule string) {
	r.Begin(rule, "E-EXH", "every blocking channel operation in package leveldb is a select with a `<-closeC` (or timeout) case, or a reviewed rendezvous; every select that acquires the write lock also has `<-compPerErrC` and `<-closeC` cases", 40)
	defer r.End()
	seenReviewed := map[string]bool{}
	for _, fn := range p.SrcFuncs("leveldb") {
		ops := chanOps(fn)
		if len(ops) == 0 {
			continue
		}
		r.Fn(fnName(fn))
		for _, op := range ops {
			if !op.block {
				continue
			}
			r.Site(1)
			pos := p.Pos(op.in.Pos())
			switch op.kind {
			case "select":
				hasClose, hasTimeout, acquires, hasPerErr := false, false, false, false
				for _, c := range op.chans {
					if strings.HasPrefix(c, "<-") && isCloseC(c[2:]) {
						hasClose = true
					}
					if c == "<-call:time.After" {
						hasTimeout = true
					}
					if c == "->leveldb.DB.writeLockC" {
						acquires = true
					}
					if c == "<-leveldb.DB.compPerErrC" {
						hasPerErr = true
					}
				}
				if !hasClose && !hasTimeout {
					r.Fail(fnName(fn), "select-without-exit:"+strings.Join(op.chans, ","), "blocking select has a `<-closeC` or timeout case", "blocking select at "+pos+" has no close/timeout case: it can wait forever once the DB is closing", pos, nil)
					continue
				}
				if acquires && fnName(fn) != "(*leveldb.DB).compactionError" && !(hasPerErr && hasClose) {
					r.Fail(fnName(fn), "lock-acquire-without-error-exit", "a select that acquires the write lock also listens on compPerErrC and closeC", "select at "+pos+" acquires the write lock without the persistent-error/close cases: in read-only or corrupted state the caller blocks forever", pos, nil)
					continue
				}
				r.OK(fnName(fn), "select@"+strings.Join(op.chans, ","), "blocking select has an exit case")
			default:
				if op.kind == "recv" && op.chans[0] == "leveldb.DB.writeLockC" {
					r.OK(fnName(fn), "token-release", "receive on the capacity-1 token channel by its holder never blocks; who may release is decided by the token contracts (C09.1)")
					continue
				}
				if why, ok := reviewedPlainOps[op.key]; ok {
					seenReviewed[op.key] = true
					r.OK(fnName(fn), op.kind+":"+op.chans[0], "reviewed rendezvous: "+why)
				} else if rows := helperOfReviewed(p, fn, op.kind, op.chans[0]); len(rows) > 0 {
					// the operation was extracted into a helper called only from functions
					// reviewed for this very rendezvous
					for _, k := range rows {
						seenReviewed[k] = true
					}
					r.OK(fnName(fn), op.kind+":"+op.chans[0], "reviewed rendezvous, extracted into a helper of "+strings.Join(rows, ", "))
				} else {
					r.Fail(fnName(fn), "unreviewed-blocking-"+op.kind+":"+op.chans[0], "every plain blocking send/receive is a reviewed rendezvous", fmt.Sprintf("plain blocking %s on %s at %s is not in the reviewed table (no closeC alternative)", op.kind, op.chans[0], pos), pos, nil)
				}
			}
		}
	}
	var missing []string
	for k := range reviewedPlainOps {
		if !seenReviewed[k] {
			missing = append(missing, k)
		}
	}
	sort.Strings(missing)
	for _, k := range missing {
		r.Fail(k, "unresolved-anchor", "reviewed rendezvous rows resolve", "row no longer matches any operation (the protocol changed: re-review)", "", nil)
	}
}

// C09.6: operations retried in an unbounded loop must not depend on a latched failure.
func ruleLatchedWriterRetried(p *Prog, r *Report, rule string) {
	r.Begin(rule, "E-REACH", "an operation retried in an unbounded loop (compactionTransact, Transaction.Commit) does not depend on a struct-field *journal.Writer whose write error is sticky, unless its failure path replaces or resets that writer", 1)
	defer r.End()
	commit := resolveFn(p, r, "leveldb", "(*session).commit")
	fm := resolveFn(p, r, "leveldb", "(*session).flushManifest")
	if commit == nil || fm == nil {
		return
	}
	// the retried contexts really reach session.commit
	reach := reachersOf(p.CG(), commit)
	ct := p.Fn("leveldb", "(*DB).compactionCommit")
	tc := p.Fn("leveldb", "(*Transaction).Commit")
	n := 0
	if ct != nil {
		for _, a := range ct.AnonFuncs {
			if reach[a] {
				n++
			}
		}
	}
	if tc != nil && reach[tc] {
		n++
	}
	if n == 0 {
		r.Fail(fnName(commit), "unresolved-anchor", "session.commit is reached from a retry loop", "no retry context reaches session.commit any more: re-review", "", nil)
		return
	}
	r.Site(n)
	// flushManifest uses s.manifest (sticky) — does any function on the failure path reset it?
	usesSticky := countInstr(fm, func(in ssa.Instruction) bool {
		return isCallTo(in, fJNext, fJFlush) && argIs(in, 0, mFieldLoad("leveldb.session", "manifest"))
	}) > 0
	if !usesSticky {
		r.OK(fnName(fm), "no-sticky-writer", "flushManifest does not use a long-lived journal.Writer")
		return
	}
	recovers := func(fn *ssa.Function) bool {
		// on the error path of flushManifest / of the manifest writer calls: a store to s.manifest,
		// a Reset of it, or a fall-back to newManifest
		errVal := mErrOfCall(fFlushMan, fJNext, fJFlush, fEncode, "iface:leveldb/storage.Writer.Sync")
		fix := orPred(evStoreField("leveldb.session", "manifest"), evCall(fJReset), evCall(fNewMan))
		return findPath(entryPoint(fn), onlyWhenErr(errVal), nil, fix) != nil && func() bool {
			// and that recovery is only reachable on an error edge (i.e. it is a failure-path action)
			tested := false
			for _, b := range fn.Blocks {
				if cond, _, ok := ifCond(b); ok {
					if x, _, ok := condNilTest(cond); ok && (errVal(x) || errVal(testedValue(x))) {
						tested = true
					}
				}
			}
			return tested
		}()
	}
	if recoversAfterFlushFailure(commit) || recovers(fm) {
		r.OK(fnName(fm), "latched-writer-recovered", "a failed manifest append replaces/resets the manifest writer before the retry")
		return
	}
	r.Fail(fnName(fm), "latched-writer-retried", "a failed manifest append replaces/resets the sticky manifest journal.Writer before the operation is retried",
		"flushManifest appends through s.manifest (journal.Writer latches its first write error in w.err; Next/Flush then fail forever); neither flushManifest nor session.commit replaces or resets s.manifest on failure, and compactionCommit retries session.commit without bound while holding compCommitLk", p.Pos(fm.Pos()), nil)
}

// recoversAfterFlushFailure: session.commit either falls back to a fresh manifest right after
// flushManifest failed, or remembers the failure in a session field (stored from the error of
// flushManifest) that, when set, makes the next commit switch to a fresh manifest (newManifest)
// before it appends again.
func recoversAfterFlushFailure(commit *ssa.Function) bool {
	errVal := mErrOfCall(fFlushMan)
	fix := orPred(evStoreField("leveldb.session", "manifest"), evCall(fJReset), evCall(fNewMan))
	starts := after(commit, evCall(fFlushMan))
	if len(starts) == 0 {
		return false
	}
	// (a) immediate fallback on the error edge
	if findPath(starts, onlyWhenErr(errVal), nil, fix) != nil {
		for _, b := range commit.Blocks {
			if cond, _, ok := ifCond(b); ok {
				if x, _, ok := condNilTest(cond); ok && errVal(testedValue(x)) {
					return true
				}
			}
		}
	}
	// (b) remembered failure: a session bool field stored from `err != nil` of flushManifest
	var flag string
	instrs(commit, func(_ *ssa.BasicBlock, _ int, in ssa.Instruction) {
		st, ok := in.(*ssa.Store)
		if !ok {
			return
		}
		t, f, _, ok := fieldOf(st.Addr)
		if !ok || t != "leveldb.session" {
			return
		}
		if b, ok := st.Val.(*ssa.BinOp); ok && b.Op == token.NEQ && isNilConst(b.Y) && (errVal(b.X) || errVal(testedValue(b.X))) {
			flag = f
		}
	})
	if flag == "" {
		return false
	}
	// with the flag set, every path from entry to flushManifest passes newManifest first
	flagSet := assumeBool(func(v ssa.Value) (bool, bool) {
		if isFieldLoad(v, "leveldb.session", flag) {
			return true, true
		}
		return false, false
	})
	return findPath(entryPoint(commit), flagSet, evCall(fNewMan), evCall(fFlushMan)) == nil
}

// C09.7: background loops acknowledge in-flight and queued commands and call closeW.Done on
// every exit, including the exit panic.
func ruleLoopsAckOnExit(p *Prog, r *Report, rule string) {
	r.Begin(rule, "E-ORD", "mCompaction and tCompaction register, before anything else, a deferred epilogue that acks the in-flight (and queued) command and calls closeW.Done() on every exit, including the exit panic", 4)
	defer r.End()
	done := evCall("(*sync.WaitGroup).Done")
	ack := func(in ssa.Instruction) bool { return isInvokeNamed(in, "ack") }
	for _, name := range []string{"(*DB).mCompaction", "(*DB).tCompaction"} {
		fn := resolveFn(p, r, "leveldb", name)
		if fn == nil {
			continue
		}
		var epi *ssa.Function
		for _, a := range fn.AnonFuncs {
			if countInstr(a, done) > 0 {
				epi = a
			}
		}
		if epi == nil {
			r.Fail(fnName(fn), "epilogue:unresolved-anchor", "loop has a deferred epilogue calling closeW.Done", "not found", p.Pos(fn.Pos()), nil)
			continue
		}
		r.Fn(fnName(epi))
		// deferred before any call/select in the loop function
		isDeferEpi := func(in ssa.Instruction) bool {
			d, ok := in.(*ssa.Defer)
			return ok && closureCallee(&d.Call) == epi
		}
		risky := func(in ssa.Instruction) bool {
			switch in.(type) {
			case *ssa.Call, *ssa.Select, *ssa.Send:
				return true
			}
			return false
		}
		ordPrecede(p, r, fn, "epilogue-registered-first", nil, isDeferEpi, "defer epilogue", risky, "any call/select/send")
		// the epilogue: Done on every normal completion (re-panic of foreign panics is the only other exit)
		ordOnSuccess(p, r, epi, "done-on-every-exit", nil, done, "closeW.Done()")
		// recover() is called, so the exit panic is absorbed
		rec := func(in ssa.Instruction) bool { return isCallTo(in, "builtin:recover") }
		ordOnSuccess(p, r, epi, "recovers", nil, rec, "recover()")
		// in-flight command acked under x != nil
		if !requireSites(p, r, epi, "ack", "x.ack(..)", ack, 1) {
			continue
		}
		r.OK(fnName(epi), "acks", "epilogue acks the in-flight command")
		// every received command is acked or queued in the loop body: after the receive of a
		// command, x.ack is called or x is appended to waitQ before the next receive — checked
		// as: the loop function itself contains ack calls for every command kind
		n := countInstr(fn, ack)
		r.Check(n >= 1, fnName(fn), "loop-acks", "the loop acks handled commands", "no ack call in loop body", p.Pos(fn.Pos()))
	}
}

// C09.8: Close order.
func ruleCloseOrder(p *Prog, r *Report, rule string) {
	r.Begin(rule, "E-ORD", "DB.Close: close(closeC) → discard the open transaction → terminal write-lock acquire → closeW.Wait() → journal/session teardown; all after the setClosed gate", 5)
	defer r.End()
	fn := resolveFn(p, r, "leveldb", "(*DB).Close")
	if fn == nil {
		return
	}
	closeC := func(in ssa.Instruction) bool {
		return isCallTo(in, "builtin:close") && argIs(in, 0, mFieldLoad(tDB, "closeC"))
	}
	discard := evCall("(*leveldb.Transaction).Discard")
	acquire := evSendOn(tDB, "writeLockC")
	wait := evCall("(*sync.WaitGroup).Wait")
	sclose := evCall("(*leveldb.session).close")
	srelease := evCall("(*leveldb.session).release")
	setClosed := evCall("(*leveldb.DB).setClosed")
	ordPrecede(p, r, fn, "gate-first", nil, setClosed, "setClosed()", closeC, "close(closeC)")
	ordPrecede(p, r, fn, "signal-before-discard", nil, closeC, "close(closeC)", discard, "tr.Discard()")
	ordPrecede(p, r, fn, "signal-before-acquire", nil, closeC, "close(closeC)", acquire, "writeLockC <- (terminal acquire)")
	ordPrecede(p, r, fn, "acquire-before-wait", nil, acquire, "terminal acquire", wait, "closeW.Wait()")
	ordPrecede(p, r, fn, "wait-before-session-close", nil, wait, "closeW.Wait()", sclose, "s.close()")
	ordPrecede(p, r, fn, "session-close-before-release", nil, sclose, "s.close()", srelease, "s.release() (storage lock)")
	// everything on the success path
	for _, e := range []struct {
		k string
		p InstrPred
		d string
	}{{"closes-closeC", closeC, "close(closeC)"}, {"acquires", acquire, "terminal acquire"}, {"waits", wait, "closeW.Wait()"}, {"closes-session", sclose, "s.close()"}, {"releases-storage-lock", srelease, "s.release()"}} {
		// success = setClosed() returned true
		gate := assumeBool(func(v ssa.Value) (bool, bool) {
			if _, ok := callValue(v, "(*leveldb.DB).setClosed"); ok {
				return true, true
			}
			return false, false
		})
		if w := findPath(entryPoint(fn), gate, e.p, isReturn); w != nil {
			r.Fail(fnName(fn), e.k+":skipped", "first Close passes "+e.d, "a path of the first Close returns without "+e.d, p.posOfLast(w, isReturn), p.renderPath(w))
		} else {
			r.OK(fnName(fn), e.k, "first Close passes "+e.d)
		}
	}
	// the discard is under `db.tr != nil`, and when there is an open transaction it is on the path:
	trNonNil := assumeBool(func(v ssa.Value) (bool, bool) {
		if b, ok := v.(*ssa.BinOp); ok {
			if isFieldLoad(b.X, tDB, "tr") && isNilConst(b.Y) {
				return b.Op.String() == "!=", true
			}
		}
		return false, false
	})
	if w := findPath(entryPoint(fn), trNonNil, discard, acquire); w != nil {
		r.Fail(fnName(fn), "acquire-without-discard", "with an open transaction Close discards it before taking the lock", "terminal acquire reachable with db.tr != nil and no Discard: Close would wait for a lock its own transaction holds", p.posOfLast(w, acquire), p.renderPath(w))
	} else {
		r.OK(fnName(fn), "discard-before-acquire-when-open", "with an open transaction Close discards it before taking the lock")
	}
}
