package main

import (
	"fmt"
	"go/types"
	"sort"

	"golang.org/x/tools/go/ssa"
)

func init() {
	register(&propDef{
		id:          "C20",
		run:         runC20,
		explanation: "Static value-flow analysis of buffer ownership across the API boundary — the property closest to a pure static statement: (1) freshness: the value returned by DB.Get / Snapshot.Get / Transaction.Get / table.Reader.Get is on every path nil, a make, or an append onto nil/fresh, followed interprocedurally (result summaries, closure-captured result cells, conversions, re-slicing); (2) argument taint: the []byte and *Batch parameters of Put/Delete/Write/Get/Has (DB, Snapshot, Transaction), Batch.Put/Delete and iterator Seek never reach a store to a non-local location, a channel other than the reviewed merge hand-off (whose receiving side is analysed as its own root), the destination of copy/append, or an element store — through static calls with per-(function,parameter) summaries and callbacks resolved at their call sites; (3) iterator exposure: every store to dbIter.key/value is nil or an append onto the field's own re-sliced buffer, and the memdb copies into its own arena. The heap is modelled cell-/field-based (no points-to analysis in x/tools v0.29.0): aliasing through interface-typed cache values beyond the summarised paths is NOT covered.",
		notCovered:  "aliasing through interface{}-typed cache values beyond the summarised paths; Batch.Load/Dump (documented as sharing); third-party comparer/filter/storage implementations retaining their arguments (assumed not to, per their interface contracts)",
		assumptions: []string{"interface methods in the reviewed read-only set (Compare, Write, Contains, Add, Seek, …) do not retain or modify their []byte arguments, per their documented contracts", "string(b) and append(nil, b...) copy"},
	})
}

func runC20(p *Prog, r *Report) {
	if want("C20.1") {
		r.Begin("C20.1", "E-FLOW", "results are fresh: the []byte returned by DB.Get / Snapshot.Get / Transaction.Get (and table.Reader.Get) is, on every path, nil, a make, or an append onto nil/fresh — followed interprocedurally through db.get → version.get (closure-captured result cells) → tOps.find → table.Reader.Find/find", 4)
		fc := newFresh(p)
		for _, spec := range []struct{ pkg, name string }{{"leveldb", "(*DB).Get"}, {"leveldb", "(*Snapshot).Get"}, {"leveldb", "(*Transaction).Get"}, {"leveldb/table", "(*Reader).Get"}, {"leveldb/table", "(*Reader).Find"}} {
			fn := resolveFn(p, r, spec.pkg, spec.name)
			if fn == nil {
				continue
			}
			// the value result: the []byte result that is not the key of Find
			idx := 0
			if spec.name == "(*Reader).Find" {
				idx = 1
			}
			r.Site(1)
			ok, why := fc.fnResultFresh(fn, idx)
			r.Check(ok, fnName(fn), "result-fresh", "the returned value is a private copy on every path", why+": the caller may scribble over shared storage (cached block / buffer) and change what later reads return", p.Pos(fn.Pos()))
		}
		r.Extra["freshness_summaries"] = len(fc.memo)
		r.End()
	}
	if want("C20.2") {
		ruleArgsNotRetained(p, r, "C20.2")
	}
	if want("C20.4") {
		ruleBufferPoolOwnership(p, r, "C20.4")
	}
	if want("C20.3") {
		r.Begin("C20.3", "E-FLOW", "iterator exposure and arena discipline: every store to dbIter.key / dbIter.value is nil, a make, or an append onto the field's own [:0] re-slice (a private buffer that stays intact until the iterator moves); memdb.Put / Transaction.put / Batch.appendRec copy the caller's bytes into their own storage; the memdb arena is append-only", 8)
		for _, name := range []string{"(*dbIter).next", "(*dbIter).prev", "(*dbIter).setErr", "(*dbIter).Release", "(*DB).newIterator"} {
			fn := resolveFn(p, r, "leveldb", name)
			if fn == nil {
				continue
			}
			for _, f := range []string{"key", "value"} {
				instrs(fn, func(_ *ssa.BasicBlock, _ int, in ssa.Instruction) {
					st, ok := in.(*ssa.Store)
					if !ok || !isFieldAddr(st.Addr, tDbIter, f) {
						return
					}
					r.Site(1)
					okv, _ := newFresh(p).fresh(st.Val, map[ssa.Value]bool{})
					if c, isCall := st.Val.(*ssa.Call); isCall && isCallTo(c, "builtin:append") {
						if sl, isSl := c.Call.Args[0].(*ssa.Slice); isSl && isFieldLoad(sl.X, tDbIter, f) {
							okv = true
						}
					}
					r.Check(okv, fnName(fn), "private-buffer:"+f, "dbIter."+f+" is nil or an append onto its own re-sliced buffer", "dbIter."+f+" is assigned a value that may alias the underlying iterator's / block's storage at "+p.Pos(st.Pos())+": it changes when the source moves or is recycled", p.Pos(st.Pos()))
				})
			}
		}
		// Key()/Value() return the private buffers
		for _, spec := range []struct{ m, f string }{{"(*dbIter).Key", "key"}, {"(*dbIter).Value", "value"}} {
			if fn := resolveFn(p, r, "leveldb", spec.m); fn != nil {
				okv := true
				instrs(fn, func(_ *ssa.BasicBlock, _ int, in ssa.Instruction) {
					if ret, ok := in.(*ssa.Return); ok && len(ret.Results) == 1 {
						v := retValue(ret, ret.Results[0])
						if !isNilConst(v) && !isFieldLoad(v, tDbIter, spec.f) {
							okv = false
						}
					}
				})
				r.Site(1)
				r.Check(okv, fnName(fn), "exposes-private-buffer", spec.m+" returns nil or the iterator's private buffer", "returns something else (e.g. the raw iterator's slice)", p.Pos(fn.Pos()))
			}
		}
		// memdb arena: kvData only grows by append / is re-sliced to [:0]; no element store
		if fn := resolveFn(p, r, "leveldb/memdb", "(*DB).Put"); fn != nil {
			tc := newTaint(p)
			for i, pa := range fn.Params {
				if isByteSlice(pa.Type()) {
					r.Site(1)
					s := tc.analyzeParam(fn, i)
					r.Check(len(s.issues) == 0, fnName(fn), "copies:"+pa.Name(), "memdb.Put copies "+pa.Name()+" into the arena", fmt.Sprint(s.issues), p.Pos(fn.Pos()))
				}
			}
		}
		bad := ""
		for _, fn := range p.SrcFuncs("leveldb/memdb") {
			instrs(fn, func(_ *ssa.BasicBlock, _ int, in ssa.Instruction) {
				if ia, ok := in.(*ssa.IndexAddr); ok && isFieldLoad(ia.X, "leveldb/memdb.DB", "kvData") {
					for _, ref := range *ia.Referrers() {
						if st, ok := ref.(*ssa.Store); ok && st.Addr == ia {
							bad = p.Pos(st.Pos())
						}
					}
				}
				if c, ok := in.(*ssa.Call); ok && isCallTo(c, "builtin:copy") && len(c.Call.Args) == 2 {
					if sl, ok := c.Call.Args[0].(*ssa.Slice); ok && isFieldLoad(sl.X, "leveldb/memdb.DB", "kvData") {
						bad = p.Pos(c.Pos())
					}
				}
			})
		}
		r.Site(1)
		r.Check(bad == "", "leveldb/memdb.DB.kvData", "arena-append-only", "existing bytes of the memdb arena are never overwritten (readers hold sub-slices of it)", "in-place write into kvData at "+bad, bad)
		r.End()
	}
}

// ruleArgsNotRetained: C20.2.
func ruleArgsNotRetained(p *Prog, r *Report, rule string) {
	r.Begin(rule, "E-FLOW", "arguments are neither retained nor modified: the []byte / *Batch parameters of the public write/read API never reach a store to a non-local location, a channel (other than the reviewed merge hand-off), copy/append as destination, or an element store; they may only be read, compared, hashed or be the source of a copy", 18)
	defer r.End()
	tc := newTaint(p)
	type api struct{ pkg, name string }
	apis := []api{
		{"leveldb", "(*DB).Put"}, {"leveldb", "(*DB).Delete"}, {"leveldb", "(*DB).Write"}, {"leveldb", "(*DB).Get"}, {"leveldb", "(*DB).Has"},
		{"leveldb", "(*Snapshot).Get"}, {"leveldb", "(*Snapshot).Has"},
		{"leveldb", "(*Transaction).Put"}, {"leveldb", "(*Transaction).Delete"}, {"leveldb", "(*Transaction).Write"}, {"leveldb", "(*Transaction).Get"}, {"leveldb", "(*Transaction).Has"},
		{"leveldb", "(*Batch).Put"}, {"leveldb", "(*Batch).Delete"},
		{"leveldb", "(*dbIter).Seek"},
	}
	for _, a := range apis {
		fn := resolveFn(p, r, a.pkg, a.name)
		if fn == nil {
			continue
		}
		for i, pa := range fn.Params {
			isBuf := isByteSlice(pa.Type())
			isBatch := namedOf(pa.Type()) == "leveldb.Batch" && i > 0
			if !isBuf && !isBatch {
				continue
			}
			r.Site(1)
			s := tc.analyzeParam(fn, i)
			if len(s.issues) == 0 {
				r.OK(fnName(fn), "param:"+pa.Name(), "parameter "+pa.Name()+" is neither retained nor modified")
				continue
			}
			sort.Slice(s.issues, func(x, y int) bool { return s.issues[x].pos < s.issues[y].pos })
			seen := map[string]bool{}
			for _, is := range s.issues {
				k := is.kind + is.detail
				if seen[k] {
					continue
				}
				seen[k] = true
				r.Fail(fnName(fn), "param:"+pa.Name()+":"+is.kind, "parameter "+pa.Name()+" is neither retained nor modified", is.detail+" at "+is.pos, is.pos, nil)
			}
		}
	}
	// the reviewed merge hand-off: the receiving side treats the received key/value/batch as caller buffers
	if fn := resolveFn(p, r, "leveldb", "(*DB).writeLocked"); fn != nil {
		var roots []ssa.Value
		instrs(fn, func(_ *ssa.BasicBlock, _ int, in ssa.Instruction) {
			if e, ok := in.(*ssa.Extract); ok {
				if sel, ok := e.Tuple.(*ssa.Select); ok && e.Index >= 2 && len(sel.States) == 1 && isFieldLoad(sel.States[0].Chan, tDB, "writeMergeC") {
					roots = append(roots, e)
				}
			}
		})
		r.Site(len(roots))
		if len(roots) == 0 {
			r.Fail(fnName(fn), "merge-handoff:unresolved-anchor", "the leader receives merge requests", "receive on writeMergeC not found", p.Pos(fn.Pos()), nil)
		} else {
			s := tc.analyzeValues(fn, roots)
			if len(s.issues) == 0 {
				r.OK(fnName(fn), "merged-request-buffers", "buffers received through the merge hand-off are only copied (appendRec) or logged/applied before the requester is acknowledged")
			}
			for _, is := range s.issues {
				r.Fail(fnName(fn), "merged-request:"+is.kind, "buffers received through the merge hand-off are neither retained nor modified", is.detail+" at "+is.pos, is.pos, nil)
			}
		}
	}
	_ = types.Typ
	_ = fmt.Sprint
}
