package main

import (
	"fmt"
	"go/token"

	"golang.org/x/tools/go/ssa"
)

func init() {
	register(&propDef{
		id:          "C17",
		run:         runC17,
		explanation: "Static analysis of the structural conditions the cache's guarantees rest on: (1) lock pairing and guarded-by for the bucket table (mBucket.nodes/state under the bucket lock), the replacement policy (lru.used/capacity/recent, Node.CacheData, lruNode.ban/h under lru.mu) and Cache.closed under Cache.mu; (2) the value constructor is invoked only under the node's lock and only when the node has no value (once per residency); (3) the policy never calls Handle.Release — hence finalisers and user deletion callbacks — while holding its own lock; (4) finalisation is idempotent: value.Release is reached only with value != nil and is followed by clearing it, happens in the bucket only at ref == 0 with the node then removed, and delFuncs are cleared after running; (5) Cache.Delete runs or queues the deletion callback exactly once on every path; (6) the capacity trim: every increase of the charge or change of capacity is followed, before the policy lock is released, by the eviction loop whose exit condition is used <= capacity; admission only if the node fits; banned nodes are never re-admitted; every list removal subtracts the charge. Interleaving-dependent statements (per-key uniqueness across resizes, finalisation ordering against handle release at run time) are NOT decided.",
		notCovered:  "uniqueness of live values per key across concurrent resizes; run-time ordering of finalisation against handle release; callback timing relative to outstanding handles",
		assumptions: []string{"sync.Mutex / sync/atomic semantics"},
	})
}

const (
	tBucket  = "leveldb/cache.mBucket"
	tLRU     = "leveldb/cache.lru"
	tLRUNode = "leveldb/cache.lruNode"
	tCNode   = "leveldb/cache.Node"
	tCCache  = "leveldb/cache.Cache"
	lkBucket = "leveldb/cache.mBucket.mu"
	lkLRU    = "leveldb/cache.lru.mu"
	lkCache  = "leveldb/cache.Cache.mu"
	lkCNode  = "leveldb/cache.Node.mu"
)

var gbyCache = gbyTable{
	fields: []gbyField{
		{tBucket, "nodes", lkBucket}, {tBucket, "state", lkBucket},
		{tLRU, "used", lkLRU}, {tLRU, "capacity", lkLRU}, {tLRU, "recent", lkLRU},
		{tCNode, "CacheData", lkLRU}, {tLRUNode, "ban", lkLRU}, // lruNode.h is deliberately used after the unlock: the remover owns the unlinked node
		{tCCache, "closed", lkCache},
	},
	requires: map[string][]string{
		"(*leveldb/cache.mBucket).frozen": {lkBucket},
	},
	exceptions: map[string]string{
		"(*leveldb/cache.lru).reset|*": "called only from NewLRU before the value is shared (checked: single caller)",
		"leveldb/cache.NewLRU|*":       "construction",
		"leveldb/cache.NewCache|*":     "construction",
	},
}

func runC17(p *Prog, r *Report) {
	if want("C17.13") {
		ruleOptGetters(p, r, "C17.13", "cache switches", "Options.GetDisableBlockCache", "ReadOptions.GetDontFillCache", "Options.GetBlockCacheEvictRemoved")
	}
	if want("C17.12") {
		ruleNodeRefOwned(p, r, "C17.12")
	}
	if want("C17.11") {
		// (shared with C07) handles are released on every path
		ruleAcquiredHandlesSettled(p, r, "C17.11")
	}
	if want("C17.1") {
		ruleLockPairing(p, r, "C17.1", []string{"leveldb/cache"}, 15)
		ruleGuardedBy(p, r, "C17.1b", "guarded-by: mBucket.{nodes,state} under the bucket lock; lru.{used,capacity,recent}, Node.CacheData, lruNode.ban under lru.mu; Cache.closed under Cache.mu", []string{"leveldb/cache"}, gbyCache, 40)
		r.Begin("C17.1c", "E-REACH", "lru.reset (unlocked initialisation) is called only from the constructor", 1)
		if fn := resolveFn(p, r, "leveldb/cache", "(*lru).reset"); fn != nil {
			var callers []string
			if n := p.CG().Nodes[fn]; n != nil {
				for _, e := range n.In {
					callers = append(callers, fnName(e.Caller.Func))
				}
			}
			r.Site(len(callers))
			ok := len(callers) >= 1
			for _, c := range callers {
				if c != "leveldb/cache.NewLRU" {
					ok = false
				}
			}
			r.Check(ok, fnName(fn), "constructor-only", "reset is called only by NewLRU", fmt.Sprint("callers: ", callers), p.Pos(fn.Pos()))
		}
		r.End()
	}
	if want("C17.2") {
		r.Begin("C17.2", "E-GUARD", "constructor once per residency: in Cache.Get the user's setFunc is called only with the node's lock held and on the n.value == nil branch; a node created without a constructor (getOnly) is never given one", 3)
		if fn := resolveFn(p, r, "leveldb/cache", "(*Cache).Get"); fn != nil {
			callSet := func(in ssa.Instruction) bool {
				c, ok := in.(*ssa.Call)
				if !ok || c.Call.IsInvoke() {
					return false
				}
				pa, ok := c.Call.Value.(*ssa.Parameter)
				return ok && paramRefName(pa) == "setFunc"
			}
			noValue := nilAtom("value==nil", mFieldLoad(tCNode, "value"))
			hasCtor := nilAtom("setFunc==nil", mParam("setFunc"))
			checkGuard(p, r, GuardSpec{Rule: "ctor-only-when-empty", Fn: fn, Target: callSet, TargetDesc: "setFunc()", Atoms: []Atom{noValue, hasCtor}, G: func(a []bool) bool { return a[0] && !a[1] }, GDesc: "n.value == nil ∧ setFunc != nil", MinTargets: 1})
			sp := lockSpec()
			res := sp.Analyze(fn, nil, callSet)
			okL, n := true, 0
			for in, sts := range res.At {
				if !callSet(in) {
					continue
				}
				n++
				for _, st := range sts {
					if st.cnt[lkCNode] <= 0 {
						okL = false
					}
				}
			}
			r.Site(n)
			r.Check(okL && n >= 1, fnName(fn), "ctor-under-node-lock", "setFunc() runs with n.mu held (two concurrent Gets of the same key cannot both construct)", "setFunc() reachable without n.mu", p.Pos(fn.Pos()))
			// the hit/miss lookup tells the bucket whether creation is allowed
			checkCallArg(p, r, fn, "getonly-iff-no-ctor", "(*leveldb/cache.mBucket).get", 6, func(v ssa.Value) bool {
				b, ok := v.(*ssa.BinOp)
				if !ok || b.Op != token.EQL {
					return false
				}
				return (mParam("setFunc")(b.X) && isNilConst(b.Y)) || (mParam("setFunc")(b.Y) && isNilConst(b.X))
			}, "setFunc == nil")
			// a handle is handed out (and the node promoted into the policy) only for a node that has a
			// value: a lookup-only Get that finds a node whose constructor is still running / failed
			// must miss, not return a handle with a nil value and a zero charge
			handle := func(in ssa.Instruction) bool {
				if al, ok := in.(*ssa.Alloc); ok && al.Heap && namedOf(al.Type()) == "leveldb/cache.Handle" {
					return true
				}
				c, ok := in.(*ssa.Call)
				return ok && c.Call.IsInvoke() && c.Call.Method.Name() == "Promote"
			}
			checkGuard(p, r, GuardSpec{Rule: "no-handle-without-value", Fn: fn, Target: handle, TargetDesc: "promoting the node / returning a handle", Atoms: []Atom{noValue}, G: func(a []bool) bool { return !a[0] }, GDesc: "n.value != nil (as tested under n.mu)", MinTargets: 2})
			// the value read is published (stored) before the lock is released
			storeVal := evStoreField(tCNode, "value")
			unlock := func(in ssa.Instruction) bool { res, d, ok := mutexOp(in); return ok && d < 0 && res == lkCNode }
			ordFollow(p, r, fn, "unlock-after-publish", nil, callSet, "setFunc()", storeVal, "n.value = …")
			_ = unlock
		}
		if fn := resolveFn(p, r, "leveldb/cache", "(*mBucket).get"); fn != nil {
			// a found node's reference is taken under the bucket lock (before it can be removed)
			sp := lockSpec()
			refInc := func(in ssa.Instruction) bool {
				return isCallTo(in, "sync/atomic.AddInt32") && argIs(in, 0, func(v ssa.Value) bool { return isFieldAddr(v, tCNode, "ref") })
			}
			res := sp.Analyze(fn, nil, refInc)
			okL, n := true, 0
			for in, sts := range res.At {
				if !refInc(in) {
					continue
				}
				n++
				for _, st := range sts {
					if st.cnt[lkBucket] <= 0 {
						okL = false
					}
				}
			}
			r.Site(n)
			r.Check(okL && n >= 1, fnName(fn), "ref-under-bucket-lock", "the looked-up node's reference is taken while the bucket lock is held (it cannot be finalised in between)", "reference taken outside the bucket lock", p.Pos(fn.Pos()))
			getOnly := boolAtom("getOnly", mParam("getOnly"))
			checkGuard(p, r, GuardSpec{Rule: "create-only-with-ctor", Fn: fn, Target: func(in ssa.Instruction) bool {
				al, ok := in.(*ssa.Alloc)
				return ok && al.Heap && namedOf(al.Type()) == tCNode
			}, TargetDesc: "creating a node", Atoms: []Atom{getOnly}, G: func(a []bool) bool { return !a[0] }, GDesc: "¬getOnly", MinTargets: 1})
		}
		r.End()
	}
	if want("C17.3") {
		r.Begin("C17.3", "E-PAIR", "the policy releases handles outside its lock: no call that can reach (*Handle).Release — and so finalisers and user deletion callbacks, which re-enter the cache — is made while lru.mu is held", 4)
		rel := p.Fn("leveldb/cache", "(*Handle).Release")
		if rel == nil {
			r.Fail("leveldb/cache", "unresolved-anchor", "(*Handle).Release resolves", "not found", "", nil)
		} else {
			reach := reachersOf(p.CG(), rel)
			reach[rel] = true
			sp := lockSpec()
			for _, fn := range p.SrcFuncs("leveldb/cache") {
				if !hasMutexOps(fn) {
					continue
				}
				isRelCall := func(in ssa.Instruction) bool {
					cc := callCommon(in)
					if cc == nil {
						return false
					}
					if _, isD := in.(*ssa.Defer); isD {
						return false
					}
					if f := staticCallee(cc); f != nil {
						return reach[f]
					}
					if cc.IsInvoke() {
						return cc.Method.Name() == "Release"
					}
					return false
				}
				res := sp.Analyze(fn, nil, isRelCall)
				for in, sts := range res.At {
					if !isRelCall(in) {
						continue
					}
					bad := false
					for _, st := range sts {
						if st.cnt[lkLRU] > 0 {
							bad = true
						}
					}
					r.Site(1)
					r.Fn(fnName(fn))
					r.Check(!bad, fnName(fn), "release-outside-policy-lock@"+branchLabel(in), "handle release happens with lru.mu not held", "call at "+p.Pos(in.Pos())+" can reach (*Handle).Release while lru.mu is held: the finaliser / deletion callback re-enters the cache and deadlocks", p.Pos(in.Pos()))
				}
			}
		}
		r.End()
	}
	if want("C17.4") {
		r.Begin("C17.4", "E-ORD", "finalisation is idempotent and happens at zero references: value.Release() is reached only under value != nil and followed by value = nil; in the bucket it additionally requires ref == 0 and is followed by removal of the node; delFuncs are cleared after being run; the zero-reference paths (unRefInternal / unRefExternal) finalise only when the decrement reached 0", 8)
		relInvoke := func(in ssa.Instruction) bool {
			cc := callCommon(in)
			return cc != nil && cc.IsInvoke() && cc.Method.Name() == "Release" && namedOf(cc.Value.Type()) == "leveldb/util.Releaser"
		}
		hasVal := nilAtom("value==nil", mFieldLoad(tCNode, "value"))
		clearVal := func(in ssa.Instruction) bool {
			st, ok := in.(*ssa.Store)
			return ok && isFieldAddr(st.Addr, tCNode, "value") && isNilConst(st.Val)
		}
		for _, name := range []string{"(*Node).callFinalizer", "(*mBucket).delete"} {
			fn := resolveFn(p, r, "leveldb/cache", name)
			if fn == nil {
				continue
			}
			checkGuard(p, r, GuardSpec{Rule: "finalise-only-live-value", Fn: fn, Target: relInvoke, TargetDesc: "value.Release()", Atoms: []Atom{hasVal}, G: func(a []bool) bool { return !a[0] }, GDesc: "value != nil", MinTargets: 1})
			ordFollow(p, r, fn, "value-cleared-after-finalise", nil, relInvoke, "value.Release()", clearVal, "n.value = nil")
		}
		if fn := resolveFn(p, r, "leveldb/cache", "(*mBucket).delete"); fn != nil {
			zero := cmpAtom("ref==0", token.EQL, func(v ssa.Value) bool {
				c, ok := callValue(v, "sync/atomic.LoadInt32")
				return ok && isFieldAddr(c.Call.Args[0], tCNode, "ref")
			}, mConstInt(0))
			match := cmpAtom("key==key", token.EQL, mFieldLoad(tCNode, "key"), mParam("key"))
			matchNS := cmpAtom("ns==ns", token.EQL, mFieldLoad(tCNode, "ns"), mParam("ns"))
			removal := func(in ssa.Instruction) bool {
				st, ok := in.(*ssa.Store)
				return ok && isFieldAddr(st.Addr, tBucket, "nodes")
			}
			checkGuard(p, r, GuardSpec{Rule: "remove-only-unreferenced", Fn: fn, Target: orPred(relInvoke, removal), TargetDesc: "finalising / removing the node", Atoms: []Atom{zero, match, matchNS}, G: func(a []bool) bool { return a[0] && a[1] && a[2] }, GDesc: "ref == 0 ∧ same (ns,key)", MinTargets: 2})
			ordFollow(p, r, fn, "removed-after-finalise", nil, relInvoke, "value.Release()", removal, "removing the node from the bucket")
			// delFuncs run only for the deleted node, after the lock is released
			dynCall := func(in ssa.Instruction) bool {
				c, ok := in.(*ssa.Call)
				if !ok || c.Call.IsInvoke() || staticCallee(&c.Call) != nil {
					return false
				}
				_, isB := c.Call.Value.(*ssa.Builtin)
				return !isB
			}
			deleted := boolAtom("deleted", mCellNamed("deleted"))
			_ = deleted
			sp := lockSpec()
			res := sp.Analyze(fn, nil, dynCall)
			okL, n := true, 0
			for in, sts := range res.At {
				if !dynCall(in) {
					continue
				}
				n++
				for _, st := range sts {
					if st.cnt[lkBucket] > 0 {
						okL = false
					}
				}
			}
			r.Site(n)
			r.Check(okL && n >= 1, fnName(fn), "callbacks-outside-bucket-lock", "deletion callbacks run after the bucket lock is released", "callback invoked under the bucket lock", p.Pos(fn.Pos()))
			ordPrecede(p, r, fn, "callbacks-after-removal", nil, removal, "removing the node", dynCall, "running the deletion callbacks")
		}
		if fn := resolveFn(p, r, "leveldb/cache", "(*Node).callFinalizer"); fn != nil {
			dynCall := func(in ssa.Instruction) bool {
				c, ok := in.(*ssa.Call)
				if !ok || c.Call.IsInvoke() || staticCallee(&c.Call) != nil {
					return false
				}
				_, isB := c.Call.Value.(*ssa.Builtin)
				return !isB
			}
			clearDF := func(in ssa.Instruction) bool {
				st, ok := in.(*ssa.Store)
				return ok && isFieldAddr(st.Addr, tCNode, "delFuncs") && isNilConst(st.Val)
			}
			requireSites(p, r, fn, "runs-delfuncs", "delFuncs are invoked", dynCall, 1)
			ordOnSuccess(p, r, fn, "delfuncs-cleared", nil, clearDF, "n.delFuncs = nil")
		}
		for _, name := range []string{"(*Node).unRefInternal", "(*Node).unRefExternal"} {
			fn := resolveFn(p, r, "leveldb/cache", name)
			if fn == nil {
				continue
			}
			zero := cmpAtom("ref→0", token.EQL, func(v ssa.Value) bool {
				c, ok := callValue(v, "sync/atomic.AddInt32")
				if !ok || !isFieldAddr(c.Call.Args[0], tCNode, "ref") {
					return false
				}
				k, isC := constInt(c.Call.Args[1])
				return isC && k == -1
			}, mConstInt(0))
			fin := evCall("(*leveldb/cache.Cache).delete", "(*leveldb/cache.Node).callFinalizer")
			checkGuard(p, r, GuardSpec{Rule: "finalise-at-last-unref", Fn: fn, Target: fin, TargetDesc: "deleting / finalising the node", Atoms: []Atom{zero}, G: func(a []bool) bool { return a[0] }, GDesc: "the decrement brought ref to 0", MinTargets: 1})
			checkGuardExact(p, r, GuardSpec{Rule: "finalise-at-last-unref", Fn: fn, Target: fin, TargetDesc: "the node is deleted / finalised", Atoms: []Atom{zero}, G: func(a []bool) bool { return a[0] }, GDesc: "the decrement brought ref to 0"}, isReturn, "return")
		}
		if fn := resolveFn(p, r, "leveldb/cache", "(*Node).unRefExternal"); fn != nil {
			closed := boolAtom("closed", mFieldLoad(tCCache, "closed"))
			checkGuard(p, r, GuardSpec{Rule: "closed-cache-finalises-directly", Fn: fn, Target: evCall("(*leveldb/cache.Node).callFinalizer"), TargetDesc: "callFinalizer", Atoms: []Atom{closed}, G: func(a []bool) bool { return a[0] }, GDesc: "cache closed", MinTargets: 1})
			checkGuard(p, r, GuardSpec{Rule: "open-cache-deletes-through-bucket", Fn: fn, Target: evCall("(*leveldb/cache.Cache).delete"), TargetDesc: "Cache.delete", Atoms: []Atom{closed}, G: func(a []bool) bool { return !a[0] }, GDesc: "cache open", MinTargets: 1})
		}
		if fn := resolveFn(p, r, "leveldb/cache", "(*Handle).Release"); fn != nil {
			// a handle releases its reference at most once: the unref is gated by a successful CAS to nil
			cas := boolAtom("cas", mShortCircuitAnd(mAny, mCall("sync/atomic.CompareAndSwapPointer")))
			cas2 := boolAtom("cas", mCall("sync/atomic.CompareAndSwapPointer"))
			ok1, _, _, _, _, _ := evalGuard(p, GuardSpec{Rule: "x", Fn: fn, Target: evCall("(*leveldb/cache.Node).unRefExternal"), Atoms: []Atom{cas}, G: func(a []bool) bool { return a[0] }, MinTargets: 1})
			ok2, _, _, _, _, _ := evalGuard(p, GuardSpec{Rule: "x", Fn: fn, Target: evCall("(*leveldb/cache.Node).unRefExternal"), Atoms: []Atom{cas2}, G: func(a []bool) bool { return a[0] }, MinTargets: 1})
			r.Site(1)
			r.Fn(fnName(fn))
			r.Check(ok1 || ok2, fnName(fn), "handle-unrefs-once", "unRefExternal is reached only after CompareAndSwapPointer(&h.n, n, nil) succeeded (double Release is a no-op)", "unRefExternal reachable without the CAS succeeding", p.Pos(fn.Pos()))
		}
		if fn := resolveFn(p, r, "leveldb/cache", "(*Node).GetHandle"); fn != nil {
			n := countInstr(fn, func(in ssa.Instruction) bool {
				return isCallTo(in, "sync/atomic.AddInt32") && argIs(in, 0, func(v ssa.Value) bool { return isFieldAddr(v, tCNode, "ref") }) && argIs(in, 1, mConstInt(1))
			})
			r.Site(1)
			r.Check(n == 1, fnName(fn), "handle-takes-reference", "every handle handed out takes exactly one reference", fmt.Sprintf("%d reference increments", n), p.Pos(fn.Pos()))
		}
		r.End()
	}
	if want("C17.5") {
		r.Begin("C17.5", "E-ORD", "deletion callback exactly once: with delFunc != nil every path through Cache.Delete on an open cache either queues delFunc on the existing node or calls it directly — never both, never neither", 3)
		if fn := resolveFn(p, r, "leveldb/cache", "(*Cache).Delete"); fn != nil {
			queue := func(in ssa.Instruction) bool {
				st, ok := in.(*ssa.Store)
				return ok && isFieldAddr(st.Addr, tCNode, "delFuncs")
			}
			direct := func(in ssa.Instruction) bool {
				c, ok := in.(*ssa.Call)
				if !ok || c.Call.IsInvoke() {
					return false
				}
				return mParam("delFunc")(c.Call.Value)
			}
			haveCB := nilAtom("delFunc==nil", mParam("delFunc"))
			closed := boolAtom("closed", mFieldLoad(tCCache, "closed"))
			atoms := []Atom{haveCB, closed}
			asg := []bool{false, false}
			edges := atomEdges(atoms, asg)
			vals := atomVals(atoms, asg)
			requireSites(p, r, fn, "queues", "delFunc is queued on the node", queue, 1)
			requireSites(p, r, fn, "calls", "delFunc is called directly", direct, 1)
			r.Site(3)
			if w := findPathV(entryPoint(fn), edges, orPred(queue, direct), isReturn, vals); w != nil {
				r.Fail(fnName(fn), "callback-lost", "the callback runs or is queued on every path", "a path returns without queueing or calling delFunc", p.posOfLast(w, isReturn), p.renderPath(w))
			} else {
				r.OK(fnName(fn), "callback-never-lost", "the callback runs or is queued on every path")
			}
			for _, pr := range []struct {
				k    string
				a, b InstrPred
			}{{"queued-then-called", queue, direct}, {"called-then-queued", direct, queue}, {"called-twice", direct, direct}, {"queued-twice", queue, queue}} {
				if w := findPathV(after(fn, pr.a), edges, nil, pr.b, vals); w != nil {
					r.Fail(fnName(fn), "callback-twice:"+pr.k, "the callback is not both queued and called / run twice", pr.k, p.posOfLast(w, pr.b), p.renderPath(w))
				} else {
					r.OK(fnName(fn), "callback-once:"+pr.k, "the callback is not "+pr.k)
				}
			}
			// queued under the node's lock, only for a found node, and the node is then banned + unreferenced
			ordFollow(p, r, fn, "found-node-banned-and-unreferenced", nil, queue, "queueing delFunc", evCall("(*leveldb/cache.Node).unRefInternal"), "n.unRefInternal")
			found := nilAtom("n==nil", mExtract(2, "(*leveldb/cache.mBucket).get"))
			checkGuard(p, r, GuardSpec{Rule: "direct-call-only-when-absent", Fn: fn, Target: direct, TargetDesc: "calling delFunc directly", Atoms: []Atom{found, haveCB}, G: func(a []bool) bool { return !a[1] }, GDesc: "delFunc != nil", MinTargets: 1})
		}
		r.End()
	}
	if want("C17.8") {
		ruleCacheResize(p, r, "C17.8")
	}
	if want("C17.9") {
		// the cache's lock-free counters and pointers (shared with C05.19)
		ruleAtomicDiscipline(p, r, "C17.9", false)
	}
	if want("C17.10") {
		ruleBanPermanent(p, r, "C17.10")
	}
	if want("C17.7") {
		ruleBucketOrder(p, r, "C17.7")
	}
	if want("C17.6") {
		r.Begin("C17.6", "E-ORD", "capacity trim: every change of lru.used / lru.capacity in Promote and SetCapacity is followed, before mu.Unlock, by the test used > capacity whose false edge is the only way out of the eviction loop; a node is admitted only if Size() <= capacity and only when not resident; a banned node is never re-inserted; every removal from the list subtracts the node's charge or re-inserts it", 8)
		over := func(v ssa.Value) bool {
			b, ok := v.(*ssa.BinOp)
			if !ok {
				return false
			}
			u, c := mFieldLoad(tLRU, "used"), mFieldLoad(tLRU, "capacity")
			return (b.Op == token.GTR && u(b.X) && c(b.Y)) || (b.Op == token.LSS && c(b.X) && u(b.Y))
		}
		overTest := func(in ssa.Instruction) bool {
			i, ok := in.(*ssa.If)
			return ok && over(i.Cond)
		}
		usedStore := evStoreField(tLRU, "used")
		capStore := evStoreField(tLRU, "capacity")
		unlock := func(in ssa.Instruction) bool { res, d, ok := mutexOp(in); return ok && d < 0 && res == lkLRU }
		removeCall := evCall("(*leveldb/cache.lruNode).remove")
		insertCall := evCall("(*leveldb/cache.lruNode).insert")
		usedSub := func(in ssa.Instruction) bool {
			st, ok := in.(*ssa.Store)
			if !ok || !isFieldAddr(st.Addr, tLRU, "used") {
				return false
			}
			b, ok := isBin(st.Val, token.SUB)
			return ok && isFieldLoad(b.X, tLRU, "used")
		}
		for _, name := range []string{"(*lru).Promote", "(*lru).SetCapacity"} {
			fn := resolveFn(p, r, "leveldb/cache", name)
			if fn == nil {
				continue
			}
			r.Fn(fnName(fn))
			requireSites(p, r, fn, "trim-test", "the test used > capacity", overTest, 1)
			// from any change of used/capacity, Unlock is not reached without passing the test …
			r.Site(1)
			if w := findPath(after(fn, orPred(usedStore, capStore)), nil, overTest, unlock); w != nil {
				r.Fail(fnName(fn), "trim-skipped", "after changing used/capacity the lock is released only after the test used > capacity", "Unlock reached without re-testing", p.posOfLast(w, unlock), p.renderPath(w))
			} else {
				r.OK(fnName(fn), "trim-before-unlock", "after changing used/capacity the lock is released only after the test used > capacity")
			}
			// … and the test's true edge does not leave the critical section (it evicts and re-tests)
			overAtom := boolAtom("used>capacity", over)
			checkGuard(p, r, GuardSpec{Rule: "unlock-only-within-capacity", Fn: fn, Starts: after(fn, overTest), Target: unlock, TargetDesc: "releasing lru.mu after the trim test", Atoms: []Atom{overAtom}, G: func(a []bool) bool { return !a[0] }, GDesc: "used <= capacity", MinTargets: 1})
			ordFollow(p, r, fn, "removal-uncharges", nil, removeCall, "rn.remove()", orPred(usedSub, insertCall), "used -= size (or re-insertion at the front)")
			// evicted nodes are released after the unlock: their handle release follows
			ordFollow(p, r, fn, "evicted-collected", nil, usedSub, "used -= size", func(in ssa.Instruction) bool {
				return isCallTo(in, "builtin:append")
			}, "collecting the evicted node for release")
		}
		if fn := resolveFn(p, r, "leveldb/cache", "(*lru).Promote"); fn != nil {
			fresh := nilAtom("CacheData==nil", mFieldLoad(tCNode, "CacheData"))
			fits := cmpAtom("size<=capacity", token.LEQ, mCall("(*leveldb/cache.Node).Size"), mFieldLoad(tLRU, "capacity"))
			ban := boolAtom("ban", mFieldLoad(tLRUNode, "ban"))
			usedAdd := func(in ssa.Instruction) bool {
				st, ok := in.(*ssa.Store)
				if !ok || !isFieldAddr(st.Addr, tLRU, "used") {
					return false
				}
				_, ok = isBin(st.Val, token.ADD)
				return ok
			}
			checkGuard(p, r, GuardSpec{Rule: "admit-only-if-fits", Fn: fn, Target: orPred(usedAdd, evCall("(*leveldb/cache.Node).GetHandle")), TargetDesc: "charging / taking the policy's handle", Atoms: []Atom{fresh, fits}, G: func(a []bool) bool { return a[0] && a[1] }, GDesc: "not resident ∧ Size() <= capacity", MinTargets: 2})
			checkGuard(p, r, GuardSpec{Rule: "banned-never-readmitted", Fn: fn, Target: insertCall, TargetDesc: "inserting into the recency list", Atoms: []Atom{fresh, ban}, G: func(a []bool) bool { return a[0] || !a[1] }, GDesc: "not resident ∨ ¬ban", MinTargets: 2})
			ordFollow(p, r, fn, "admission-charged", nil, evCall("(*leveldb/cache.Node).GetHandle"), "taking the policy's handle", usedAdd, "used += size")
		}
		if fn := resolveFn(p, r, "leveldb/cache", "(*lru).Ban"); fn != nil {
			// Ban ALWAYS leaves the node banned, resident or not: a node that is alive (held by a user
			// handle) but not in the list gets a banned placeholder, otherwise the next Get re-admits
			// the deleted node and its finalisation / deletion callback is deferred indefinitely
			fresh := nilAtom("CacheData==nil", mFieldLoad(tCNode, "CacheData"))
			ban := boolAtom("ban", mFieldLoad(tLRUNode, "ban"))
			placeholder := func(in ssa.Instruction) bool {
				st, ok := in.(*ssa.Store)
				return ok && isFieldAddr(st.Addr, tCNode, "CacheData") && !isNilConst(st.Val)
			}
			setBan := func(in ssa.Instruction) bool {
				st, ok := in.(*ssa.Store)
				if !ok || !isFieldAddr(st.Addr, tLRUNode, "ban") {
					return false
				}
				b, isC := constBool(st.Val)
				return isC && b
			}
			checkGuardExact(p, r, GuardSpec{Rule: "non-resident-node-gets-banned-placeholder", Fn: fn, Target: placeholder, TargetDesc: "a banned placeholder is installed in n.CacheData", Atoms: []Atom{fresh, ban}, G: func(a []bool) bool { return a[0] }, GDesc: "the node is not known to the policy (CacheData == nil)"}, isReturn, "return")
			checkGuardExact(p, r, GuardSpec{Rule: "resident-node-marked-banned", Fn: fn, Target: setBan, TargetDesc: "rn.ban = true", Atoms: []Atom{fresh, ban}, G: func(a []bool) bool { return !a[0] && !a[1] }, GDesc: "resident and not yet banned"}, isReturn, "return")
			// the placeholder is created banned
			r.Site(1)
			okPh := false
			instrs(fn, func(_ *ssa.BasicBlock, _ int, in ssa.Instruction) {
				if st, ok := in.(*ssa.Store); ok && isFieldAddr(st.Addr, tLRUNode, "ban") {
					if b, isC := constBool(st.Val); isC && b {
						if fa, ok := st.Addr.(*ssa.FieldAddr); ok {
							if al, ok := fa.X.(*ssa.Alloc); ok && al.Heap {
								okPh = true
							}
						}
					}
				}
			})
			r.Check(okPh, fnName(fn), "placeholder-is-banned", "the placeholder lruNode is created with ban = true", "no &lruNode{ban: true}", p.Pos(fn.Pos()))
		}
		for _, name := range []string{"(*lru).Ban", "(*lru).Evict"} {
			fn := resolveFn(p, r, "leveldb/cache", name)
			if fn == nil {
				continue
			}
			ban := boolAtom("ban", mFieldLoad(tLRUNode, "ban"))
			checkGuard(p, r, GuardSpec{Rule: "banned-not-in-list", Fn: fn, Target: removeCall, TargetDesc: "rn.remove()", Atoms: []Atom{ban}, G: func(a []bool) bool { return !a[0] }, GDesc: "¬ban (a banned node is not in the list)", MinTargets: 1})
			ordFollow(p, r, fn, "removal-uncharges", nil, removeCall, "rn.remove()", usedSub, "used -= size")
			ordFollow(p, r, fn, "removed-handle-released", nil, removeCall, "rn.remove()", evCall("(*leveldb/cache.Handle).Release"), "releasing the policy's handle")
		}
		r.End()
	}
}
