package main

import (
	"fmt"
	"go/token"
	"go/types"
	"sort"
	"strings"

	"golang.org/x/tools/go/ssa"
)

// E-SIB helper: a normalised signature of an SSA expression tree, used to compare the quantity
// two sibling functions must agree on (encoder/decoder, filter build/probe). Leaves are labelled
// by role (constant value, parameter/phi as a variable, field name, callee), commutative
// operators have their operands sorted.

func exprSig(v ssa.Value, depth int) string {
	if depth <= 0 {
		return "…"
	}
	switch x := v.(type) {
	case *ssa.Const:
		if x.Value == nil {
			return "nil"
		}
		return "c:" + x.Value.ExactString()
	case *ssa.Phi:
		return "var"
	case *ssa.Parameter:
		return "var"
	case *ssa.FreeVar:
		return "var"
	case *ssa.Convert:
		return exprSig(x.X, depth)
	case *ssa.ChangeType:
		return exprSig(x.X, depth)
	case *ssa.BinOp:
		a, b := exprSig(x.X, depth-1), exprSig(x.Y, depth-1)
		switch x.Op {
		case token.ADD, token.MUL, token.OR, token.AND, token.XOR, token.EQL, token.NEQ:
			if b < a {
				a, b = b, a
			}
		}
		return "(" + a + " " + x.Op.String() + " " + b + ")"
	case *ssa.UnOp:
		if x.Op == token.MUL {
			if _, f, _, ok := fieldOf(x.X); ok {
				return "fld:" + f
			}
			if ia, ok := x.X.(*ssa.IndexAddr); ok {
				return "elem[" + exprSig(ia.Index, depth-1) + "]"
			}
			if resolveCell(x.X) != nil {
				return "var"
			}
			return "load"
		}
		return x.Op.String() + exprSig(x.X, depth-1)
	case *ssa.Index:
		return "elem[" + exprSig(x.Index, depth-1) + "]"
	case *ssa.Extract:
		return fmt.Sprintf("ex%d(%s)", x.Index, exprSig(x.Tuple, depth-1))
	case *ssa.Call:
		if b, ok := x.Call.Value.(*ssa.Builtin); ok {
			var args []string
			for _, a := range x.Call.Args {
				args = append(args, exprSig(a, depth-1))
			}
			return b.Name() + "(" + strings.Join(args, ",") + ")"
		}
		if x.Call.IsInvoke() {
			return "inv:" + x.Call.Method.Name()
		}
		if f := staticCallee(&x.Call); f != nil {
			return "call:" + f.Name()
		}
		return "call"
	case *ssa.Slice:
		lo, hi := "", ""
		if x.Low != nil {
			lo = exprSig(x.Low, depth-1)
		}
		if x.High != nil {
			hi = exprSig(x.High, depth-1)
		}
		return "slice[" + lo + ":" + hi + "]"
	case *ssa.Field:
		if _, f, _, ok := fieldOf(x); ok {
			return "fld:" + f
		}
	}
	return fmt.Sprintf("%T", v)
}

// findExprs returns the signatures of all values in fn satisfying pred, sorted and de-duplicated.
func findExprs(fn *ssa.Function, depth int, pred func(v ssa.Value) bool) []string {
	set := map[string]bool{}
	instrs(fn, func(_ *ssa.BasicBlock, _ int, in ssa.Instruction) {
		if v, ok := in.(ssa.Value); ok && pred(v) {
			set[exprSig(v, depth)] = true
		}
	})
	var out []string
	for k := range set {
		out = append(out, k)
	}
	sort.Strings(out)
	return out
}

func isBin(v ssa.Value, op token.Token) (*ssa.BinOp, bool) {
	b, ok := v.(*ssa.BinOp)
	return b, ok && b.Op == op
}

// offsetFrom: v == load(T.base) + k  → (k, true)
func offsetFrom(v ssa.Value, typ, base string) (int64, bool) {
	v = stripConv(v)
	if isFieldLoad(v, typ, base) {
		return 0, true
	}
	if b, ok := v.(*ssa.BinOp); ok {
		if k, isC := constInt(b.Y); isC {
			if o, ok := offsetFrom(b.X, typ, base); ok {
				switch b.Op {
				case token.ADD:
					return o + k, true
				case token.SUB:
					return o - k, true
				}
			}
		}
		if k, isC := constInt(b.X); isC && b.Op == token.ADD {
			if o, ok := offsetFrom(b.Y, typ, base); ok {
				return o + k, true
			}
		}
	}
	return 0, false
}

// constValString returns the exact constant value of a package-level constant object.
func constValString(o types.Object) string {
	if c, ok := o.(*types.Const); ok {
		return c.Val().ExactString()
	}
	return ""
}

// shapeSig: operator/constant skeleton of an expression: every non-constant leaf below the
// given depth (and every non-BinOp operand) is abstracted to "v".
func shapeSig(v ssa.Value, depth int) string {
	v = stripConv(v)
	if c, ok := v.(*ssa.Const); ok && c.Value != nil {
		return c.Value.ExactString()
	}
	b, ok := v.(*ssa.BinOp)
	if !ok || depth <= 0 {
		return "v"
	}
	a, c := shapeSig(b.X, depth-1), shapeSig(b.Y, depth-1)
	switch b.Op {
	case token.ADD, token.MUL, token.OR, token.AND, token.XOR:
		if c < a {
			a, c = c, a
		}
	}
	return "(" + a + " " + b.Op.String() + " " + c + ")"
}

func findShapes(fn *ssa.Function, depth int, pred func(v ssa.Value) bool) []string {
	set := map[string]bool{}
	instrs(fn, func(_ *ssa.BasicBlock, _ int, in ssa.Instruction) {
		if v, ok := in.(ssa.Value); ok && pred(v) {
			set[shapeSig(v, depth)] = true
		}
	})
	var out []string
	for k := range set {
		out = append(out, k)
	}
	sort.Strings(out)
	return out
}
