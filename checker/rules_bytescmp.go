package main

import (
	"go/token"

	"golang.org/x/tools/go/ssa"
)

// ruleBytewiseShortening: the built-in comparer shortens by "common prefix + (first differing byte
// of a, incremented)". For that construction, a <= sep < b holds exactly when the bytes are
// comparable (i < min len), a[i] < 0xff (no wrap), and a[i]+1 < b[i], or a[i]+1 == b[i] with b
// longer than i+1. Successor increments the first byte that is not 0xff. The rule checks the guard
// of every non-nil return against that condition (stated so that a smarter, still lawful
// shortening is not rejected) and the construction itself.
func ruleBytewiseShortening(p *Prog, r *Report, rule string) {
	r.Begin(rule, "E-GUARD", "bytewise comparer: Separator returns a shortened key only when i < min(len(a),len(b)) and a[i]+1 < b[i] (or a[i]+1 == b[i] with len(b) > i+1), built as a[:i+1] with the last byte incremented; Successor only at a byte != 0xff, built as b[:i+1] with the last byte incremented — the conditions under which a <= separator < b and b <= successor hold for this construction", 4)
	defer r.End()
	retNonNil := func(in ssa.Instruction) bool {
		ret, ok := in.(*ssa.Return)
		return ok && len(ret.Results) == 1 && !isNilConst(ret.Results[0])
	}
	elemOf := func(param string) VMatch {
		return func(v ssa.Value) bool {
			u, ok := stripConv(v).(*ssa.UnOp)
			if !ok || u.Op != token.MUL {
				return false
			}
			ia, ok := u.X.(*ssa.IndexAddr)
			return ok && mParam(param)(ia.X)
		}
	}
	plus1 := func(m VMatch) VMatch {
		return func(v ssa.Value) bool {
			b, ok := isBin(stripConv(v), token.ADD)
			return ok && ((m(b.X) && mConstInt(1)(b.Y)) || (m(b.Y) && mConstInt(1)(b.X)))
		}
	}
	lenOf := func(param string) VMatch {
		return func(v ssa.Value) bool {
			c, ok := v.(*ssa.Call)
			return ok && isCallTo(c, "builtin:len") && mParam(param)(c.Call.Args[0])
		}
	}
	if fn := resolveFn(p, r, "leveldb/comparer", "bytesComparer.Separator"); fn != nil {
		ai, bi := elemOf("a"), elemOf("b")
		lt := cmpAtom("a[i]+1<b[i]", token.LSS, plus1(ai), bi)
		le := Atom{Name: "a[i]<b[i]", Match: func(cond ssa.Value) (int, int) {
			b, ok := cond.(*ssa.BinOp)
			if !ok || !isCmpOp(b.Op) {
				return 0, 0
			}
			// a[i] < b[i]  or  a[i]+1 <= b[i]
			if wt, wf := cmpAtom("", token.LSS, ai, bi).Match(cond); wt != 0 || wf != 0 {
				return wt, wf
			}
			return cmpAtom("", token.LEQ, plus1(ai), bi).Match(cond)
		}}
		longerB := cmpAtom("i+1<len(b)", token.LSS, func(v ssa.Value) bool {
			b, ok := isBin(stripConv(v), token.ADD)
			return ok && mConstInt(1)(b.Y)
		}, lenOf("b"))
		noWrap := cmpAtom("a[i]<0xff", token.LSS, ai, mConstInt(255))
		inRange := cmpAtom("i<n", token.LSS, func(v ssa.Value) bool { _, ok := v.(*ssa.Phi); return ok }, func(v ssa.Value) bool {
			_, isPhi := v.(*ssa.Phi)
			return isPhi || lenOf("a")(v) || lenOf("b")(v)
		})
		atoms := []Atom{lt, le, longerB, noWrap, inRange}
		checkGuard(p, r, GuardSpec{Rule: "separator-below-b", Fn: fn, Target: retNonNil, TargetDesc: "returning a shortened separator", Atoms: atoms,
			G:          func(a []bool) bool { return a[0] || (a[1] && a[2]) },
			Consistent: func(a []bool) bool { return !a[0] || a[1] }, // a+1<b ⇒ a<b
			GDesc:      "a[i]+1 < b[i] ∨ (a[i] < b[i] ∧ len(b) > i+1)", MinTargets: 1})
		// construction: append(dst, a[:i+1]...) then last byte ++
		r.Site(1)
		okApp, okInc := false, false
		instrs(fn, func(_ *ssa.BasicBlock, _ int, in ssa.Instruction) {
			if c, ok := in.(*ssa.Call); ok && isCallTo(c, "builtin:append") {
				if sl, ok := c.Call.Args[1].(*ssa.Slice); ok && mParam("a")(sl.X) && sl.Low == nil {
					okApp = true
				}
			}
			if st, ok := in.(*ssa.Store); ok {
				if b, ok := isBin(stripConv(st.Val), token.ADD); ok && mConstInt(1)(b.Y) {
					if _, ok := st.Addr.(*ssa.IndexAddr); ok {
						okInc = true
					}
				}
			}
		})
		r.Check(okApp && okInc, fnName(fn), "construction", "the separator is a[:i+1] with its last byte incremented", "construction differs", p.Pos(fn.Pos()))
		// the prefix scan compares a[i] with b[i] (the first differing byte is where they differ)
		r.Site(1)
		scan := countInstr(fn, func(in ssa.Instruction) bool {
			b, ok := in.(*ssa.BinOp)
			return ok && (b.Op == token.EQL || b.Op == token.NEQ) && ((ai(b.X) && bi(b.Y)) || (ai(b.Y) && bi(b.X)))
		})
		r.Check(scan >= 1, fnName(fn), "common-prefix-scan", "i is the length of the common prefix (scan while a[i] == b[i])", "no a[i] == b[i] scan", p.Pos(fn.Pos()))
	}
	if fn := resolveFn(p, r, "leveldb/comparer", "bytesComparer.Successor"); fn != nil {
		not255 := cmpAtom("b[i]!=0xff", token.NEQ, func(v ssa.Value) bool {
			return elemOf("b")(v) || func() bool { _, ok := stripConv(v).(*ssa.UnOp); return ok }()
		}, mConstInt(255))
		// construction: the result keeps the prefix in front of the incremented byte — it is
		// b[:i+1] with its last byte incremented, or b[:i] followed by b[i]+1. (Dropping the prefix
		// gives a key that sorts BEFORE b whenever b starts with 0xff bytes: the index entry of the
		// table's last block then precedes the keys stored in it.)
		r.Site(1)
		okShape := false
		detail := "no non-nil return built by append"
		// the index at which b's elements are examined (the `i` of the scan)
		var idxVal ssa.Value
		instrs(fn, func(_ *ssa.BasicBlock, _ int, in ssa.Instruction) {
			if ia, ok := in.(*ssa.IndexAddr); ok && mParam("b")(ia.X) && idxVal == nil {
				idxVal = stripConv(ia.Index)
			}
		})
		instrs(fn, func(_ *ssa.BasicBlock, _ int, in ssa.Instruction) {
			ret, ok := in.(*ssa.Return)
			if !ok || len(ret.Results) != 1 || isNilConst(ret.Results[0]) {
				return
			}
			// walk the append chain back to dst
			type piece struct {
				kind string // "prefix:i", "prefix:i+1", "byte:elem+1", "other"
			}
			var pieces []piece
			v := stripConv(ret.Results[0])
			for depth := 0; depth < 6; depth++ {
				c, isC := v.(*ssa.Call)
				if !isC || !isCallTo(c, "builtin:append") {
					break
				}
				arg := stripConv(c.Call.Args[1])
				pk := piece{"other"}
				if sl, isSl := arg.(*ssa.Slice); isSl {
					if mParam("b")(sl.X) && sl.Low == nil && sl.High != nil {
						hi := stripConv(sl.High)
						if idxVal != nil && hi == idxVal {
							pk.kind = "prefix:i"
						} else if bo, isB := isBin(hi, token.ADD); isB && mConstInt(1)(bo.Y) && idxVal != nil && stripConv(bo.X) == idxVal {
							pk.kind = "prefix:i+1"
						}
					} else if al, isAl := sl.X.(*ssa.Alloc); isAl {
						// varargs array: its element
						for _, ref := range *al.Referrers() {
							if ia, isIA := ref.(*ssa.IndexAddr); isIA {
								for _, r2 := range *ia.Referrers() {
									if st, isSt := r2.(*ssa.Store); isSt && st.Addr == ia {
										if plus1(func(x ssa.Value) bool {
											return elemOf("b")(x) || func() bool { _, isU := stripConv(x).(*ssa.UnOp); return isU }() || func() bool { _, isE := stripConv(x).(*ssa.Extract); return isE }()
										})(st.Val) {
											pk.kind = "byte:elem+1"
										}
									}
								}
							}
						}
					}
				}
				pieces = append([]piece{pk}, pieces...)
				v = stripConv(c.Call.Args[0])
			}
			ks := ""
			for _, pc := range pieces {
				ks += pc.kind + ","
			}
			switch ks {
			case "prefix:i+1,":
				// needs the increment of the last byte
				inc := false
				instrs(fn, func(_ *ssa.BasicBlock, _ int, in2 ssa.Instruction) {
					if st, isSt := in2.(*ssa.Store); isSt {
						if bo, isB := isBin(stripConv(st.Val), token.ADD); isB && mConstInt(1)(bo.Y) {
							if _, isIA := st.Addr.(*ssa.IndexAddr); isIA {
								inc = true
							}
						}
					}
				})
				if inc {
					okShape = true
				} else {
					detail = "b[:i+1] is appended but its last byte is not incremented"
				}
			case "prefix:i,byte:elem+1,":
				okShape = true
			default:
				detail = "the result is built from [" + ks + "]: the bytes in front of the incremented one are not kept"
			}
		})
		r.Check(okShape, fnName(fn), "successor-keeps-prefix", "the successor is b[:i+1] with its last byte incremented (or b[:i] followed by b[i]+1)", detail, p.Pos(fn.Pos()))
		checkGuard(p, r, GuardSpec{Rule: "successor-no-wrap", Fn: fn, Target: retNonNil, TargetDesc: "returning a shortened successor", Atoms: []Atom{not255}, G: func(a []bool) bool { return a[0] }, GDesc: "the incremented byte is not 0xff", MinTargets: 1})
	}
}
