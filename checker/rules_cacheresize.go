package main

import (
	"fmt"
	"go/token"

	"golang.org/x/tools/go/ssa"
)

// ruleCacheResize: the cache's hash table is resized lazily, bucket by bucket, from a frozen
// predecessor table. A node must always be found in bucket hash & mask of the CURRENT table:
// lookups index with hash & h.mask; on growth a new bucket i takes exactly the predecessor nodes
// whose hash & h.mask == i from predecessor bucket i & p.mask (frozen first); on shrink it merges
// predecessor buckets i and i + len(buckets) (both frozen) and re-sorts; the bucket becomes
// initialised only after its nodes were installed.
func ruleCacheResize(p *Prog, r *Report, rule string) {
	r.Begin(rule, "E-SIB", "cache table resize: getBucket indexes with hash & h.mask; initBucket(i) on growth filters the FROZEN predecessor bucket (i & p.mask) by x.hash & h.mask == i, on shrink merges the FROZEN predecessor buckets i and i+len(h.buckets) and sorts the result (buckets are searched by binary search); nodes are installed before the bucket is marked initialised; a frozen bucket refuses get/delete so the caller retries on the new table", 8)
	defer r.End()
	tH, tB := "leveldb/cache.mHead", "leveldb/cache.mBucket"
	maskOf := func(v ssa.Value, headIsRecv bool, recv ssa.Value) bool {
		u, ok := stripConv(v).(*ssa.UnOp)
		if !ok {
			return false
		}
		_, f, base, ok := fieldOf(u.X)
		if !ok || f != "mask" {
			return false
		}
		if headIsRecv {
			return base == recv
		}
		return base != recv
	}
	if fn := resolveFn(p, r, "leveldb/cache", "(*Cache).getBucket"); fn != nil {
		r.Site(1)
		ok := false
		for _, c := range findCalls(fn, "(*leveldb/cache.mHead).initBucket") {
			if b, isB := isBin(stripConv(callCommon(c).Args[1]), token.AND); isB {
				if (mParam("hash")(b.X) && isFieldLoad(b.Y, tH, "mask")) || (mParam("hash")(b.Y) && isFieldLoad(b.X, tH, "mask")) {
					ok = true
				}
			}
		}
		r.Check(ok, fnName(fn), "index-is-hash-and-mask", "the bucket of a hash is hash & h.mask of the current table", "initBucket is not called with hash & h.mask", p.Pos(fn.Pos()))
	}
	fn := resolveFn(p, r, "leveldb/cache", "(*mHead).initBucket")
	if fn == nil {
		return
	}
	recv := ssa.Value(fn.Params[0])
	iP := fn.Params[1]
	// growth filter: x.hash & h.mask == i
	r.Site(1)
	okFilter := false
	instrs(fn, func(_ *ssa.BasicBlock, _ int, in ssa.Instruction) {
		b, ok := in.(*ssa.BinOp)
		if !ok || b.Op != token.EQL {
			return
		}
		and, ok := isBin(stripConv(b.X), token.AND)
		if !ok || stripConv(b.Y) != ssa.Value(iP) {
			return
		}
		hashSide := func(v ssa.Value) bool { return isFieldLoad(v, "leveldb/cache.Node", "hash") }
		if (hashSide(and.X) && maskOf(and.Y, true, recv)) || (hashSide(and.Y) && maskOf(and.X, true, recv)) {
			okFilter = true
		}
	})
	r.Check(okFilter, fnName(fn), "growth-filter", "on growth bucket i receives exactly the nodes with x.hash & h.mask == i (the NEW table's mask)", "the split condition is not x.hash & h.mask == i", p.Pos(fn.Pos()))
	// predecessor buckets: growth i & p.mask; shrink i and i + len(h.buckets); all frozen before use
	var preds []string
	nFrozen := 0
	for _, c := range findCalls(fn, "(*leveldb/cache.mHead).initBucket") {
		a := stripConv(callCommon(c).Args[1])
		desc := "?"
		if b, ok := isBin(a, token.AND); ok && (b.X == ssa.Value(iP) || b.Y == ssa.Value(iP)) && (maskOf(b.X, false, recv) || maskOf(b.Y, false, recv)) {
			desc = "i&p.mask"
		} else if a == ssa.Value(iP) {
			desc = "i"
		} else if b, ok := isBin(a, token.ADD); ok && (b.X == ssa.Value(iP) || b.Y == ssa.Value(iP)) {
			other := b.Y
			if b.Y == ssa.Value(iP) {
				other = b.X
			}
			if l, ok := stripConv(other).(*ssa.Call); ok && isCallTo(l, "builtin:len") && isFieldLoad(l.Call.Args[0], tH, "buckets") {
				if fa, ok := l.Call.Args[0].(*ssa.UnOp); ok {
					if _, _, base, ok := fieldOf(fa.X); ok && base == recv {
						desc = "i+len(h.buckets)"
					}
				}
			}
		}
		preds = append(preds, desc)
		// the result is frozen: its only use is as the receiver of freeze()
		call := c.(*ssa.Call)
		frozen := false
		for _, ref := range *call.Referrers() {
			if fc, ok := ref.(*ssa.Call); ok && isCallTo(fc, "(*leveldb/cache.mBucket).freeze") {
				frozen = true
			}
		}
		if frozen {
			nFrozen++
		}
	}
	r.Site(2)
	want := map[string]bool{"i&p.mask": true, "i": true, "i+len(h.buckets)": true}
	okPreds := len(preds) == 3
	for _, d := range preds {
		if !want[d] {
			okPreds = false
		}
		delete(want, d)
	}
	r.Check(okPreds && len(want) == 0, fnName(fn), "predecessor-buckets", "growth reads predecessor bucket i & p.mask; shrink merges predecessor buckets i and i+len(h.buckets)", fmt.Sprintf("predecessor bucket indices found: %v", preds), p.Pos(fn.Pos()))
	r.Check(nFrozen == len(preds) && nFrozen > 0, fnName(fn), "predecessors-frozen", "every predecessor bucket is frozen before its nodes are taken over (no node can be added to it afterwards)", fmt.Sprintf("%d of %d frozen", nFrozen, len(preds)), p.Pos(fn.Pos()))
	// shrink: merged list is sorted before being installed
	r.Site(1)
	if w := findPath(after(fn, func(in ssa.Instruction) bool {
		c, ok := in.(*ssa.Call)
		return ok && isCallTo(c, "builtin:append") && len(c.Call.Args) == 2 && func() bool {
			// append(nodes, m1...) of a whole predecessor list (variadic spread of a freeze() result)
			_, isCall := callValue(c.Call.Args[1], "(*leveldb/cache.mBucket).freeze")
			return isCall
		}()
	}), nil, evCall("(leveldb/cache.mNodes).sort"), evStoreField(tB, "nodes")); w != nil {
		r.Fail(fnName(fn), "merge-unsorted", "a merged bucket is sorted before it is installed", "the merged node list reaches b.nodes without sort(): binary search misses nodes", p.Pos(fn.Pos()), p.renderPath(w))
	} else {
		r.OK(fnName(fn), "merge-sorted", "a merged bucket is sorted before it is installed")
	}
	// installed before initialised
	setInit := func(in ssa.Instruction) bool {
		st, ok := in.(*ssa.Store)
		return ok && isFieldAddr(st.Addr, tB, "state")
	}
	ordPrecede(p, r, fn, "nodes-before-initialised", nil, evStoreField(tB, "nodes"), "b.nodes = nodes", setInit, "b.state = bucketInitialized")
	// frozen buckets refuse: get/delete return done=false
	for _, name := range []string{"(*mBucket).get", "(*mBucket).delete"} {
		f := resolveFn(p, r, "leveldb/cache", name)
		if f == nil {
			continue
		}
		frozen := boolAtom("frozen()", mCall("(*leveldb/cache.mBucket).frozen"))
		touch := func(in ssa.Instruction) bool {
			if c, ok := in.(*ssa.Call); ok && isCallTo(c, "(leveldb/cache.mNodes).search") {
				return true
			}
			return false
		}
		checkGuard(p, r, GuardSpec{Rule: "frozen-bucket-refuses", Fn: f, Target: touch, TargetDesc: "searching the bucket", Atoms: []Atom{frozen}, G: func(a []bool) bool { return !a[0] }, GDesc: "the bucket is not frozen (a frozen bucket's nodes already moved to the successor table)", MinTargets: 1})
	}
}
