package main

import (
	"fmt"
	"go/types"

	"golang.org/x/tools/go/ssa"
)

// ruleStagingAppliesEdit: a new version = base version − deleted tables + added tables, level by
// level. versionStaging.commit records the edit (also across several records during manifest
// replay: a later delete cancels an earlier add and vice versa); finish keeps a base table exactly
// when it is neither deleted nor re-added, and materialises every added table.
func ruleStagingAppliesEdit(p *Prog, r *Report, rule string) {
	r.Begin(rule, "E-GUARD", "version edits are applied exactly: versionStaging.commit records each deleted table under its own level and number (and cancels a staged add of it), each added table under its own level and number (and cancels a staged delete); versionStaging.finish keeps a base table iff it is neither in the level's deleted set nor in its added set, and turns every staged addition into a table of that level", 8)
	defer r.End()
	tSc := "leveldb.tablesScratch"
	mapOf := func(v ssa.Value, field string) bool { return isFieldLoad(v, tSc, field) }
	if fn := resolveFn(p, r, "leveldb", "(*versionStaging).commit"); fn != nil {
		elemField := func(v ssa.Value, rec, field string) bool {
			// r.<field> of a range element of <rec>Tables
			v = stripConv(v)
			switch x := v.(type) {
			case *ssa.UnOp:
				t, f, _, ok := fieldOf(x.X)
				return ok && f == field && t == "leveldb."+rec
			case *ssa.Field:
				t, f, _, ok := fieldOf(x)
				return ok && f == field && t == "leveldb."+rec
			}
			return false
		}
		nDelUpd, nAddUpd, nDelCancel, nAddCancel := 0, 0, 0, 0
		instrs(fn, func(_ *ssa.BasicBlock, _ int, in ssa.Instruction) {
			switch x := in.(type) {
			case *ssa.MapUpdate:
				if mapOf(x.Map, "deleted") && elemField(x.Key, "dtRecord", "num") {
					nDelUpd++
				}
				if mapOf(x.Map, "added") && elemField(x.Key, "atRecord", "num") {
					nAddUpd++
				}
			case *ssa.Call:
				if isCallTo(x, "builtin:delete") {
					if mapOf(x.Call.Args[0], "added") && elemField(x.Call.Args[1], "dtRecord", "num") {
						nAddCancel++
					}
					if mapOf(x.Call.Args[0], "deleted") && elemField(x.Call.Args[1], "atRecord", "num") {
						nDelCancel++
					}
				}
			}
		})
		r.Site(4)
		r.Check(nDelUpd == 1, fnName(fn), "records-deletions", "each deleted table is recorded under its number in the level's deleted set", fmt.Sprintf("%d such updates", nDelUpd), p.Pos(fn.Pos()))
		r.Check(nAddUpd == 1, fnName(fn), "records-additions", "each added table is recorded under its number in the level's added set", fmt.Sprintf("%d such updates", nAddUpd), p.Pos(fn.Pos()))
		r.Check(nAddCancel == 1, fnName(fn), "delete-cancels-staged-add", "deleting a table cancels a staged addition of it (records are applied one after another during manifest replay)", fmt.Sprintf("%d", nAddCancel), p.Pos(fn.Pos()))
		r.Check(nDelCancel == 1, fnName(fn), "add-cancels-staged-delete", "adding a table cancels a staged deletion of it", fmt.Sprintf("%d", nDelCancel), p.Pos(fn.Pos()))
		// the level used is the record's own
		for _, c := range findCalls(fn, "(*leveldb.versionStaging).getScratch") {
			r.Site(1)
			a := callCommon(c).Args[1]
			ok := elemField(a, "dtRecord", "level") || elemField(a, "atRecord", "level")
			r.Check(ok, fnName(fn), "own-level@"+branchLabel(c), "the edit is staged at the record's own level", "getScratch receives another level", p.Pos(c.Pos()))
		}
	}
	if fn := resolveFn(p, r, "leveldb", "(*versionStaging).finish"); fn != nil {
		// membership in a set kept as a map: `_, ok := m[k]` (any value type) or, for a bool-valued
		// map whose entries are only ever true, the looked-up value itself
		lookupOK := func(field string) VMatch {
			return func(v ssa.Value) bool {
				if l, ok := v.(*ssa.Lookup); ok && !l.CommaOk {
					if bt, isB := l.Type().Underlying().(*types.Basic); isB && bt.Kind() == types.Bool {
						return isFieldLoadOrField(l.X, tSc, field)
					}
					return false
				}
				ex, ok := v.(*ssa.Extract)
				if !ok || ex.Index != 1 {
					return false
				}
				l, ok := ex.Tuple.(*ssa.Lookup)
				return ok && l.CommaOk && isFieldLoadOrField(l.X, tSc, field)
			}
		}
		inDel := boolAtom("deleted[num]", lookupOK("deleted"))
		inAdd := boolAtom("added[num]", lookupOK("added"))
		keep := func(in ssa.Instruction) bool {
			c, ok := in.(*ssa.Call)
			if !ok || !isCallTo(c, "builtin:append") || len(c.Call.Args) != 2 {
				return false
			}
			// append(nt, t): the variadic slice holds one base-table element
			return namedOf(c.Type()) == "leveldb.tFiles" && appendsRangeElem(c)
		}
		anyLookup := func(in ssa.Instruction) bool {
			l, ok := in.(*ssa.Lookup)
			return ok && l.CommaOk
		}
		firstLookup0 := func(in ssa.Instruction) bool {
			l, ok := in.(*ssa.Lookup)
			return ok && isFieldLoadOrField(l.X, tSc, "deleted")
		}
		_ = anyLookup
		if countInstr(fn, keep) >= 1 {
			checkGuard(p, r, GuardSpec{Rule: "base-table-kept-only-if-untouched", Fn: fn, Starts: after(fn, firstLookup0), Avoid: firstLookup0, Target: keep, TargetDesc: "keeping a base table", Atoms: []Atom{inDel, inAdd}, G: func(a []bool) bool { return !a[0] && !a[1] }, GDesc: "¬deleted[num] ∧ ¬added[num]", MinTargets: 1})
			// converse: an untouched base table IS kept (before the next base table is examined)
			firstLookup := func(in ssa.Instruction) bool {
				l, ok := in.(*ssa.Lookup)
				return ok && isFieldLoadOrField(l.X, tSc, "deleted")
			}
			checkGuardExact(p, r, GuardSpec{Rule: "untouched-base-table-kept", Fn: fn, Starts: after(fn, firstLookup), Target: keep, TargetDesc: "the base table is carried over", Atoms: []Atom{inDel, inAdd}, G: func(a []bool) bool { return !a[0] && !a[1] }, GDesc: "¬deleted[num] ∧ ¬added[num]"}, orPred(firstLookup, evCall("leveldb.tableFileFromRecord"), isReturn), "the next table / the additions / return")
		} else {
			r.Fail(fnName(fn), "base-table-kept:unresolved-anchor", "finish carries base tables over with append(nt, t)", "not found", p.Pos(fn.Pos()), nil)
		}
		// every staged addition is materialised
		requireSites(p, r, fn, "additions-materialised", "tableFileFromRecord(r) for the staged additions", evCall("leveldb.tableFileFromRecord"), 1)
	}
}

func isFieldLoadOrField(v ssa.Value, typ, field string) bool {
	if isFieldLoad(v, typ, field) {
		return true
	}
	if f, ok := v.(*ssa.Field); ok {
		t, fn, _, ok := fieldOf(f)
		return ok && t == typ && fn == field
	}
	return false
}

// appendsRangeElem: append(x, e) where e is an element loaded from a slice (a range element).
func appendsRangeElem(c *ssa.Call) bool {
	sl, ok := c.Call.Args[1].(*ssa.Slice)
	if !ok {
		return false
	}
	al, ok := sl.X.(*ssa.Alloc)
	if !ok {
		return false
	}
	for _, ref := range *al.Referrers() {
		if ia, ok := ref.(*ssa.IndexAddr); ok {
			for _, r2 := range *ia.Referrers() {
				if st, ok := r2.(*ssa.Store); ok {
					if u, ok := st.Val.(*ssa.UnOp); ok {
						if _, ok := u.X.(*ssa.IndexAddr); ok {
							return true
						}
					}
				}
			}
		}
	}
	return false
}
