package main

import (
	"fmt"

	"golang.org/x/tools/go/ssa"
)

// ruleNodeRefOwned: inside the cache, a node's reference count is lowered (unRefInternal) only by a
// function that raised it: mBucket.get returns a node with one reference taken for the caller, the
// enumeration helpers return nodes without one. Dropping a reference that was never taken brings a
// node a user still holds to zero: its value is finalised and its deletion callbacks run while the
// handle is outstanding, and the next lookup constructs a second value for the key.
func ruleNodeRefOwned(p *Prog, r *Report, rule string) {
	r.Begin(rule, "E-FLOW", "cache node references: every unRefInternal(n) in the cache package acts on a node this function obtained from mBucket.get (which takes the reference), on every path at most once per lookup", 4)
	defer r.End()
	n := 0
	for _, fn := range p.SrcFuncs("leveldb/cache") {
		k := 0
		for _, c := range findCalls(fn, "(*leveldb/cache.Node).unRefInternal") {
			call, ok := c.(*ssa.Call)
			if !ok {
				continue
			}
			n++
			k++
			r.Fn(fnName(fn))
			recv := call.Call.Args[0]
			owned := mOriginAll(func(v ssa.Value) bool {
				e, ok := stripConv(v).(*ssa.Extract)
				if !ok {
					return false
				}
				gc, ok := e.Tuple.(*ssa.Call)
				return ok && isCallTo(gc, "(*leveldb/cache.mBucket).get") && e.Index == 2
			})(recv)
			r.Check(owned, fnName(fn), fmt.Sprintf("unref-owned#%d", k), "the node whose reference is dropped came from mBucket.get in this function", "unRefInternal on a node that was not obtained through mBucket.get here (enumerated nodes carry no reference for the caller): a reference somebody else holds is dropped", p.Pos(call.Pos()))
		}
	}
	r.Site(n)
}
