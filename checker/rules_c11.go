package main

import (
	"fmt"
	"go/token"
	"go/types"
	"sort"
	"strings"

	"golang.org/x/tools/go/ssa"
)

func init() {
	register(&propDef{
		id:          "C11",
		run:         runC11,
		explanation: "Static analysis of the transaction mechanism: isolation by sequence (entries keyed tr.seq+1.., tr.seq advanced only after a successful insert; db.seq moved only by writeLocked/Transaction.Commit; session.commit with the transaction's record only from Commit); commit order (flush → record seq → manifest commit → publish seq); the sequence is captured only after the frozen buffer is flushed; setDone performs each of its four releases exactly once; every exported method tests `closed` before doing anything, with tr.lk held (exhaustive over the method set, guarded-by for the transaction's fields); reads layer the transaction's own buffer and tables first; Close discards an open transaction before taking the lock; the internally opened large-batch transaction is finished on every exit; discard removes every table through the file cache before the lock is released; the write-lock token contracts. Necessary conditions only: visibility to concurrent readers at runtime and crash images around commit are NOT decided.",
		notCovered:  "visibility from concurrent readers at runtime; crash images around commit; that a discarded transaction's partially committed manifest records cannot resurface",
		assumptions: []string{"token contracts and guarded-by tables in the checker"},
	})
}

var gbyTransaction = gbyTable{
	fields: []gbyField{
		{tTr, "closed", "leveldb.Transaction.lk"},
		{tTr, "seq", "leveldb.Transaction.lk"},
		{tTr, "mem", "leveldb.Transaction.lk"},
		{tTr, "tables", "leveldb.Transaction.lk"},
	},
	requires: map[string][]string{
		"(*leveldb.Transaction).put":     {"leveldb.Transaction.lk"},
		"(*leveldb.Transaction).flush":   {"leveldb.Transaction.lk"},
		"(*leveldb.Transaction).setDone": {"leveldb.Transaction.lk"},
		"(*leveldb.Transaction).discard": {"leveldb.Transaction.lk"},
		"(*leveldb.Transaction).Write$1": {"leveldb.Transaction.lk"}, // callback run by replayInternal inside Write's critical section
	},
	exceptions: map[string]string{
		"(*leveldb.DB).OpenTransaction|*": "constructs the transaction before it is shared",
	},
}

func runC11(p *Prog, r *Report) {
	if want("C11.18") {
		ruleOptGetters(p, r, "C11.18", "large batches go through a transaction", "Options.GetDisableLargeBatchTransaction")
	}
	if want("C11.17") {
		// Transaction.Get reads its buffer with the same lookup (shared with C01)
		ruleMemGet(p, r, "C11.17")
	}
	if want("C11.16") {
		// Transaction.Write replays the batch through the same codec (shared with C04)
		ruleBatchCodec(p, r, "C11.16")
	}
	if want("C11.1") {
		ruleSeqAtomic(p, r, "C11.1")
		ruleTrRecordSeq(p, r, "C11.1b")
		r.Begin("C11.1c", "E-REACH", "the transaction's record is committed only by Commit", 1)
		n := 0
		for _, fn := range p.SrcFuncs("leveldb") {
			for _, c := range findCalls(fn, fCommit) {
				if argIs(c, 1, func(v ssa.Value) bool { return isFieldAddr(v, tTr, "rec") }) {
					n++
					r.Check(fnName(fn) == "(*leveldb.Transaction).Commit", fnName(fn), "only-commit-installs", "the transaction's record reaches session.commit only from Transaction.Commit", "session.commit(&tr.rec) called from "+fnName(fn), p.Pos(c.Pos()))
				}
			}
		}
		r.Site(n)
		r.Check(n == 1, "(*leveldb.Transaction).Commit", "commit-site", "exactly one site commits the transaction's record", fmt.Sprintf("%d sites", n), "")
		r.End()
	}
	if want("C11.2") {
		ruleTrCommitOrder(p, r, "C11.2")
	}
	if want("C11.3") {
		ruleTrSeqAfterFlush(p, r, "C11.3")
	}
	if want("C11.4") {
		r.Begin("C11.4", "E-PAIR", "setDone marks the transaction closed, clears db.tr, drops the buffer reference and releases the write lock — each exactly once; OpenTransaction registers the transaction in db.tr while holding the lock", 5)
		if fn := resolveFn(p, r, "leveldb", "(*Transaction).setDone"); fn != nil {
			cnt := func(pred InstrPred) int { return countInstr(fn, pred) }
			closedTrue := func(in ssa.Instruction) bool {
				st, ok := in.(*ssa.Store)
				if !ok || !isFieldAddr(st.Addr, tTr, "closed") {
					return false
				}
				b, ok := constBool(st.Val)
				return ok && b
			}
			trNil := func(in ssa.Instruction) bool {
				st, ok := in.(*ssa.Store)
				return ok && isFieldAddr(st.Addr, tDB, "tr") && isNilConst(st.Val)
			}
			checks := []struct {
				k string
				n int
				d string
			}{
				{"closed=true", cnt(closedTrue), "tr.closed = true"},
				{"db.tr=nil", cnt(trNil), "tr.db.tr = nil"},
				{"mem.decref", cnt(evCall("(*leveldb.memDB).decref")), "tr.mem.decref()"},
				{"lock-release", cnt(evRecvOn(tDB, "writeLockC")), "<-tr.db.writeLockC"},
			}
			for _, c := range checks {
				r.Site(1)
				r.Check(c.n == 1, fnName(fn), "once:"+c.k, c.d+" happens exactly once in setDone", fmt.Sprintf("%d occurrences", c.n), p.Pos(fn.Pos()))
			}
			// straight-line: no branches (every step on every path)
			r.Check(len(fn.Blocks) == 1, fnName(fn), "unconditional", "setDone is straight-line: every step happens on every path", fmt.Sprintf("%d blocks", len(fn.Blocks)), p.Pos(fn.Pos()))
			ordPrecede(p, r, fn, "closed-before-release", nil, closedTrue, "tr.closed = true", evRecvOn(tDB, "writeLockC"), "releasing the write lock")
		}
		if fn := resolveFn(p, r, "leveldb", "(*DB).OpenTransaction"); fn != nil {
			ordOnSuccessReturningTr(p, r, fn)
		}
		r.End()
	}
	if want("C11.5") {
		ruleTrMethodsCheckClosed(p, r, "C11.5")
		ruleGuardedBy(p, r, "C11.5b", "guarded-by: Transaction.closed/seq/mem/tables are accessed only with tr.lk held (write lock for mutations); put/flush/setDone/discard require it from their callers", []string{"leveldb"}, gbyTransaction, 15)
	}
	if want("C11.6") {
		ruleLookupOrder(p, r, "C11.6")
		r.Begin("C11.6b", "E-FLOW", "transaction reads pass the transaction's own buffer and tables as the first layer", 3)
		for _, spec := range []struct{ m, callee string }{{"(*Transaction).Get", "(*leveldb.DB).get"}, {"(*Transaction).Has", "(*leveldb.DB).has"}, {"(*Transaction).NewIterator", "(*leveldb.DB).newIterator"}} {
			if fn := resolveFn(p, r, "leveldb", spec.m); fn != nil {
				checkCallArg(p, r, fn, "aux-buffer", spec.callee, 1, func(v ssa.Value) bool {
					if isFieldLoad(v, tTr, "mem") {
						return true
					}
					u, ok := v.(*ssa.UnOp)
					if !ok {
						return false
					}
					_, f, base, ok := fieldOf(u.X)
					return ok && f == "DB" && isFieldLoad(base, tTr, "mem")
				}, "tr.mem")
				checkCallArg(p, r, fn, "aux-tables", spec.callee, 2, mFieldLoad(tTr, "tables"), "tr.tables")
			}
		}
		if fn := resolveFn(p, r, "leveldb", "(*Transaction).NewIterator"); fn != nil {
			ordPrecede(p, r, fn, "buffer-pinned-for-iterator", nil, evCall("(*leveldb.memDB).incref"), "tr.mem.incref()", evCall("(*leveldb.DB).newIterator"), "db.newIterator")
		}
		r.End()
	}
	if want("C11.7") {
		ruleCloseOrder(p, r, "C11.7")
	}
	if want("C11.8") {
		ruleOpenTrFinished(p, r, "C11.8")
	}
	if want("C11.9") {
		rulePartialOutputs(p, r, "C11.9")
	}
	if want("C11.10") {
		ruleTokenContracts(p, r, "C11.10", 12)
	}
	if want("C11.15") {
		// a commit's record keeps its own sequence number when it opens a new manifest (shared with C04.14)
		ruleSessionStateMirrorsManifest(p, r, "C11.15")
	}
	if want("C11.14") {
		ruleDiscardRemovesAllTables(p, r, "C11.14")
	}
	if want("C11.13") {
		ruleMemInsertSeq(p, r, "C11.13")
	}
	if want("C11.12") {
		ruleFileNumRecycling(p, r, "C11.12")
	}
	if want("C11.11") {
		r.Begin("C11.11", "E-FLOW", "Transaction.flush turns the buffer into a level-0 table recorded in the transaction's own record and table list (not installed until Commit); a failed table build leaves the buffer untouched", 4)
		if fn := resolveFn(p, r, "leveldb", "(*Transaction).flush"); fn != nil {
			cf := evCall("(*leveldb.tOps).createFrom")
			ordNotOnError(p, r, fn, "buffer-kept-on-failure", mErrOfCall("(*leveldb.tOps).createFrom"), "tops.createFrom", cf, evCall("(*leveldb/memdb.DB).Reset"), "tr.mem.Reset()")
			checkCallArg(p, r, fn, "level-0", "(*leveldb.sessionRecord).addTableFile", 1, mConstInt(0), "level 0")
			checkCallArg(p, r, fn, "own-record", "(*leveldb.sessionRecord).addTableFile", 0, func(v ssa.Value) bool { return isFieldAddr(v, tTr, "rec") }, "&tr.rec")
			ordFollow(p, r, fn, "table-listed", nil, cf, "a successful tops.createFrom", evStoreField(tTr, "tables"), "tr.tables = append(..)")
			ordFollow(p, r, fn, "table-recorded", nil, cf, "a successful tops.createFrom", evCall("(*leveldb.sessionRecord).addTableFile"), "rec.addTableFile")
			// Reset only when this transaction is the sole holder of the buffer
			sole := cmpAtom("getref()==1", token.EQL, mCall("(*leveldb.memDB).getref"), mConstInt(1))
			checkGuard(p, r, GuardSpec{Rule: "reset-only-if-sole-holder", Fn: fn, Target: evCall("(*leveldb/memdb.DB).Reset"), TargetDesc: "tr.mem.Reset()", Atoms: []Atom{sole}, G: func(a []bool) bool { return a[0] }, GDesc: "no iterator holds the buffer (getref()==1)", MinTargets: 1})
		}
		r.End()
	}
}

// ordOnSuccessReturningTr: on the path that returns a transaction, db.tr is set and the buffer referenced.
func ordOnSuccessReturningTr(p *Prog, r *Report, fn *ssa.Function) {
	retTr := func(in ssa.Instruction) bool {
		ret, ok := in.(*ssa.Return)
		return ok && len(ret.Results) == 2 && !isNilConst(retValue(ret, ret.Results[0]))
	}
	for _, e := range []struct {
		k string
		p InstrPred
		d string
	}{
		{"registers-db.tr", evStoreField(tDB, "tr"), "db.tr = tr"},
		{"references-buffer", evCall("(*leveldb.memDB).incref"), "tr.mem.incref()"},
	} {
		r.Site(1)
		if w := findPath(entryPoint(fn), nil, e.p, retTr); w != nil {
			r.Fail(fnName(fn), e.k+":skipped", "a returned transaction passed "+e.d, "a path returns a transaction without "+e.d, p.posOfLast(w, retTr), p.renderPath(w))
		} else {
			r.OK(fnName(fn), e.k, "a returned transaction passed "+e.d)
		}
	}
	// refuses a second transaction
	n := countInstr(fn, isPanic)
	r.Check(n >= 1, fnName(fn), "single-transaction", "OpenTransaction refuses (panics) when db.tr is already set", "no panic on db.tr != nil", p.Pos(fn.Pos()))
}

// ruleTrMethodsCheckClosed: C11.5 — exhaustive over the exported methods of *Transaction.
func ruleTrMethodsCheckClosed(p *Prog, r *Report, rule string) {
	r.Begin(rule, "E-EXH", "every exported method of *Transaction tests tr.closed before it touches the DB, the transaction's buffer or its tables (method set taken from go/types, so a new method is automatically an obligation)", 8)
	defer r.End()
	sp := p.ByRel["leveldb"]
	obj := sp.Pkg.Scope().Lookup("Transaction")
	if obj == nil {
		r.Fail("leveldb.Transaction", "unresolved-anchor", "type exists", "not found", "", nil)
		return
	}
	named := obj.Type().(*types.Named)
	var ms []*types.Func
	for i := 0; i < named.NumMethods(); i++ {
		if m := named.Method(i); m.Exported() {
			ms = append(ms, m)
		}
	}
	sort.Slice(ms, func(i, j int) bool { return ms[i].Name() < ms[j].Name() })
	closed := boolAtom("tr.closed", mFieldLoad(tTr, "closed"))
	for _, m := range ms {
		fn := p.SSA.FuncValue(m)
		if fn == nil {
			continue
		}
		name := fnName(fn)
		r.Fn(name)
		inner := func(in ssa.Instruction) bool {
			c, ok := in.(*ssa.Call)
			if !ok {
				return false
			}
			f := staticCallee(&c.Call)
			if f == nil || f.Pkg == nil || !strings.HasPrefix(f.Pkg.Pkg.Path(), modPath) {
				return false
			}
			switch fnName(f) {
			case "(*leveldb.DB).ok", "leveldb/iterator.NewEmptyIterator", "(*leveldb.Batch).Len":
				return false
			}
			return true
		}
		if countInstr(fn, inner) == 0 {
			r.Site(1)
			r.OK(name, "trivial", "method touches nothing")
			continue
		}
		checkGuard(p, r, GuardSpec{Rule: "closed-checked-first", Fn: fn, Target: inner, TargetDesc: "any use of the DB / buffer / tables", Atoms: []Atom{closed}, G: func(a []bool) bool { return !a[0] }, GDesc: "¬tr.closed", MinTargets: 1})
	}
}
