package main

import (
	"fmt"
	"go/token"
	"sort"
	"strings"

	"golang.org/x/tools/go/ssa"
)

// chanDesc names a channel value by where it lives (struct field, parameter, local).
func chanDesc(v ssa.Value) string {
	v = stripConv(v)
	switch x := v.(type) {
	case *ssa.UnOp:
		if x.Op == token.MUL {
			if t, f, _, ok := fieldOf(x.X); ok {
				return t + "." + f
			}
			if al := resolveCell(x.X); al != nil {
				return "local:" + al.Comment
			}
		}
	case *ssa.Field:
		if t, f, _, ok := fieldOf(x); ok {
			return t + "." + f
		}
	case *ssa.Parameter:
		return "param:" + x.Name()
	case *ssa.MakeChan:
		return "local:make"
	case *ssa.Call:
		return "call:" + calleeName(&x.Call)
	case *ssa.Phi:
		return "phi"
	case *ssa.FreeVar:
		return "local:" + x.Name()
	}
	return "?"
}

type chanOp struct {
	fn    *ssa.Function
	in    ssa.Instruction
	kind  string // send | recv | select
	chans []string
	key   string
	block bool
}

func isCloseC(d string) bool { return d == "leveldb.DB.closeC" || d == "leveldb.session.closeC" }

// chanOps lists every channel operation of fn (not nested anons).
func chanOps(fn *ssa.Function) []chanOp {
	var out []chanOp
	instrs(fn, func(_ *ssa.BasicBlock, _ int, in ssa.Instruction) {
		switch x := in.(type) {
		case *ssa.Send:
			d := chanDesc(x.Chan)
			out = append(out, chanOp{fn: fn, in: in, kind: "send", chans: []string{d}, key: fnName(fn) + "|send|" + d, block: true})
		case *ssa.UnOp:
			if x.Op == token.ARROW {
				d := chanDesc(x.X)
				out = append(out, chanOp{fn: fn, in: in, kind: "recv", chans: []string{d}, key: fnName(fn) + "|recv|" + d, block: true})
			}
		case *ssa.Select:
			var cs []string
			for _, st := range x.States {
				dir := "<-"
				if st.Dir == 1 {
					dir = "->"
				}
				cs = append(cs, dir+chanDesc(st.Chan))
			}
			sorted := append([]string(nil), cs...)
			sort.Strings(sorted)
			out = append(out, chanOp{fn: fn, in: in, kind: "select", chans: cs, key: fnName(fn) + "|select|" + strings.Join(sorted, ","), block: x.Blocking})
		}
	})
	return out
}

func dumpChanOps(p *Prog, pkg string) {
	for _, fn := range p.SrcFuncs(pkg) {
		for _, op := range chanOps(fn) {
			fmt.Printf("%-6s block=%-5v %s  @%s\n", op.kind, op.block, op.key, p.Pos(op.in.Pos()))
		}
	}
}
