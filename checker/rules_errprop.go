package main

import (
	"fmt"
	"sort"
	"strings"

	"golang.org/x/tools/go/ssa"
)

// ruleErrorsPropagate: in the engine packages, when a call to a module function fails (its error
// result is non-nil wherever it is tested) and the calling function itself returns an error, no
// path may reach a return that reports success or an unrelated error — unless the site is in the
// reviewed table of deliberate tolerances (each with its reason). This is the converse of the
// dropped-error inventory (C08.1): there the error is never looked at; here it is looked at
// (compared, logged) and then swallowed.
var toleratedFailures = map[string]string{
	// not-found is an answer, not a failure
	"(*leveldb.DB).get|leveldb.memGet":         "memGet's error is meaningful only together with ok=true (ErrNotFound for a tombstone), and is then returned",
	"(*leveldb.DB).has|leveldb.memGet":         "as DB.get: a tombstone in the buffer answers false, nil",
	"(*leveldb.DB).has|(*leveldb.version).get": "ErrNotFound from the tables is the answer false, nil; every other error is returned",
	// end of input
	"(*leveldb.DB).recoverJournal|(*leveldb/journal.Reader).Next":   "io.EOF ends the replay of one journal; every other error is returned",
	"(*leveldb.DB).recoverJournalRO|(*leveldb/journal.Reader).Next": "as recoverJournal",
	"(*leveldb.session).recover|(*leveldb/journal.Reader).Next":     "io.EOF ends the manifest replay; every other error is returned",
	// documented tolerant modes (their exact conditions are rules C04.12, C12.5/C12.6, C18.7, C04.21)
	"(*leveldb.DB).recoverJournal|(*leveldb/util.Buffer).ReadFrom":        "non-strict journal replay skips a record that ends in io.ErrUnexpectedEOF (damaged chunk); other errors are returned",
	"(*leveldb.DB).recoverJournalRO|(*leveldb/util.Buffer).ReadFrom":      "as recoverJournal (sibling agreement: C18.7)",
	"(*leveldb.DB).recoverJournal|leveldb.decodeBatchToMem":               "non-strict journal replay skips a batch that does not decode (corruption only)",
	"(*leveldb.DB).recoverJournalRO|leveldb.decodeBatchToMem":             "as recoverJournal",
	"(*leveldb.session).recover|(*leveldb.sessionRecord).decode":          "non-strict manifest replay skips a damaged entry (corruption only; nothing of it is kept: C04.21)",
	"(*leveldb.tableCompactionBuilder).run|leveldb.parseInternalKey":      "a key that does not parse is copied through unchanged unless StrictCompaction is set",
	"leveldb.recoverTable$2|leveldb.parseInternalKey":                     "Recover counts an unparsable key as damage and goes on",
	"(*leveldb/table.Reader).find|(*leveldb/table.Reader).getFilterBlock": "a damaged filter block is ignored (fail open: C16.5); other errors are returned",
	"leveldb/table.NewReader|(*leveldb/table.Reader).readBlock":           "a corrupted metaindex block is latched in r.err and reported by every later call; other errors are returned",
	"leveldb/table.NewReader|(*leveldb/table.Reader).readFilterBlock":     "a corrupted filter block disables filtering for this table; other errors are returned",
	"leveldb.recoverTable$1|iface:leveldb/iterator.Iterator.Error":        "Recover's rebuild keeps what could be read: a corruption error of the table iterator ends the copy, other errors are returned",
	"leveldb.recoverTable$2|iface:leveldb/iterator.Iterator.Error":        "Recover's scan counts corruption (the callback does) and goes on; other errors are returned",
	// retried / converted
	"(*leveldb.DB).rotateMem|(*leveldb.DB).newMem":                                 "errHasFrozenMem is retried after waiting for the flush (bounded); every other error is returned",
	"leveldb.Open|(*leveldb.session).recover":                                      "a missing DB (os.IsNotExist, and not ErrorIfMissing / read-only) is created; every other error is returned",
	"(*leveldb/journal.singleReader).Read|(*leveldb/journal.Reader).nextChunk":     "the internal errSkip marker is converted to io.ErrUnexpectedEOF; the error is latched in x.err and returned",
	"(*leveldb/journal.singleReader).ReadByte|(*leveldb/journal.Reader).nextChunk": "as Read",
	"(*leveldb/table.Writer).Close|(*leveldb/table.Writer).writeBlock":             "stored in w.err by a tuple assignment and returned (the analysis does not follow the tuple store on every form)",
	// storage entry point repair
	"(*leveldb/storage.fileStorage).GetMeta|(*leveldb/storage.fileStorage).GetMeta$2": "a CURRENT candidate that cannot be read or is damaged is skipped in favour of the next candidate; the last error is returned if none is usable",
	"(*leveldb/storage.fileStorage).GetMeta|(*leveldb/storage.fileStorage).setMeta":   "the repair of CURRENT is best effort (documented: `Ignore setMeta errors`); the entry point found is still returned",
}

func ruleErrorsPropagate(p *Prog, r *Report, rule string, pkgs []string, floor int) {
	r.Begin(rule, "E-ERR", "a failed call is a failure of its caller: in "+strings.Join(pkgs, ", ")+" every call of a module function whose error result is non-nil leads (path-sensitively: named results and result cells are resolved along each path) to a return carrying that error, unless the (caller, callee) pair is a reviewed tolerance", floor)
	defer r.End()
	type site struct {
		key, pos string
		path     []string
	}
	var escapes []site
	nSites := 0
	used := map[string]bool{}
	for _, pk := range pkgs {
		for _, fn := range p.SrcFuncs(pk) {
			// the caller must return an error
			res := fn.Signature.Results()
			hasErr := false
			for i := 0; i < res.Len(); i++ {
				if isErrorType(res.At(i).Type()) {
					hasErr = true
				}
			}
			if !hasErr {
				continue
			}
			seen := map[string]bool{}
			instrs(fn, func(_ *ssa.BasicBlock, _ int, in ssa.Instruction) {
				c, ok := in.(*ssa.Call)
				if !ok {
					return
				}
				var name string
				if c.Call.IsInvoke() {
					// methods of the module's own interfaces (storage.Writer.Sync, …)
					it := namedOf(c.Call.Value.Type())
					if !strings.HasPrefix(it, "leveldb/") {
						return
					}
					cres := c.Call.Signature().Results()
					if cres.Len() == 0 || !isErrorType(cres.At(cres.Len()-1).Type()) {
						return
					}
					name = calleeName(&c.Call)
				} else {
					callee := staticCallee(&c.Call)
					if callee == nil || callee.Pkg == nil || !strings.HasPrefix(callee.Pkg.Pkg.Path(), modPath) {
						return
					}
					cres := callee.Signature.Results()
					if cres.Len() == 0 || !isErrorType(cres.At(cres.Len()-1).Type()) {
						return
					}
					name = fnName(callee)
					// error CONSTRUCTORS return an error value by design; that is not a failure
					if callee.Pkg.Pkg.Path() == modPath+"leveldb/errors" || strings.Contains(strings.ToLower(callee.Name()), "newerr") || callee.Name() == "corrupt" {
						return
					}
				}
				// an error that is never looked at is the business of the dropped-error inventory (C08.1)
				used := false
				if refs := c.Referrers(); refs != nil {
					for _, ref := range *refs {
						if ex, isEx := ref.(*ssa.Extract); isEx {
							if isErrorType(ex.Type()) && ex.Referrers() != nil && len(*ex.Referrers()) > 0 {
								used = true
							}
						} else if _, isDbg := ref.(*ssa.DebugRef); !isDbg && isErrorType(c.Type()) {
							used = true
						}
					}
				}
				if !used {
					return
				}
				key := fnName(fn) + "|" + name
				if seen[key] {
					return
				}
				seen[key] = true
				nSites++
				this := func(x ssa.Instruction) bool { return isCallTo(x, name) }
				if w := failedCallEscapes(fn, this, name); w != nil {
					escapes = append(escapes, site{key, p.Pos(in.Pos()), p.renderPath(w)})
				}
			})
		}
	}
	r.Site(nSites)
	sort.Slice(escapes, func(i, j int) bool { return escapes[i].key < escapes[j].key })
	for _, e := range escapes {
		if why, ok := toleratedFailures[e.key]; ok {
			used[e.key] = true
			r.OK(e.key, "failure-tolerated:reviewed", "reviewed tolerance: "+why)
			continue
		}
		parts := strings.SplitN(e.key, "|", 2)
		r.Fail(e.key, "failure-swallowed", "a failed call is a failure of its caller", fmt.Sprintf("%s can return without the error of a failed %s (call at %s): the failure is compared or logged and then swallowed", parts[0], parts[1], e.pos), e.pos, e.path)
	}
	for k := range toleratedFailures {
		if !used[k] {
			r.Fail(k, "failure-tolerated:stale", "reviewed tolerances still apply", "the pair no longer swallows the error: remove the row", "", nil)
		}
	}
}
