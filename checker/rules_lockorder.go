package main

import (
	"fmt"
	"sort"
	"strings"

	"golang.org/x/tools/go/callgraph"
	"golang.org/x/tools/go/ssa"
)

// ruleLockOrder: no lock-order inversion between the mutexes of the module. Locks are named by
// (struct type, field) — every instance of a type is one node — and an edge h → l is recorded
// whenever some function acquires l, directly or through any chain of callees (resolved call graph;
// `go` statements excluded, they do not inherit the spawner's locks), at a point where the
// path-sensitive typestate analysis of that function says h may be held. The graph must be acyclic
// apart from a reviewed table of same-type edges that are ordered by instance (parent/child bucket).
// This is a necessary condition of "every call eventually returns under every interleaving": two
// goroutines taking two locks in opposite orders can block each other forever.
// Not covered: waits on channels while a mutex is held (see C09.5), the write-lock token (C09.1).

type lockEdgeWitness struct {
	fn   string
	pos  string
	via  string // callee through which the lock is acquired ("" = directly)
	mode string
}

// reviewed same-type or benign edges: "from→to" -> reason
var lockOrderExceptions = map[string]string{}

// lockCluster: mutex types with many live instances that are ordered by layer or hierarchy — the
// file cache's nodes own table readers, whose reads go through the block cache (a second Cache
// instance); hash buckets lock parent before child while splitting. Type-based lock names cannot
// tell these instances apart, so the whole layer is one node of the order graph: cycles inside
// it are NOT decided here (stated in DESIGN.md), cycles through it are.
var lockCluster = map[string]string{
	"leveldb/cache.Cache.mu":   "cache+table layer",
	"leveldb/cache.Node.mu":    "cache+table layer",
	"leveldb/cache.mBucket.mu": "cache+table layer",
	"leveldb/cache.lru.mu":     "cache+table layer",
	"leveldb/table.Reader.mu":  "cache+table layer",
}

// sameInstanceExceptions: "lock@function" -> why a re-acquisition that crosses no callback is still
// on a DIFFERENT instance.
var sameInstanceExceptions = map[string]string{
	"leveldb/cache.mBucket.mu@(*leveldb/cache.mHead).initBucket": "a bucket of the new table locks itself, then initialises from the bucket(s) of the PREDECESSOR table (p.initBucket): always new → old, the predecessor chain is finite and never points back",
	"leveldb/table.Reader.mu@(*leveldb/table.Reader).Get":        "a genuine recursive read lock (Get → find on the same Reader; Release is the writer), but of the standalone table API only: no DB operation reaches Reader.Get (tOps uses Find / FindKey / OffsetOf / NewIterator) — checked: the function has no caller in the module; outside the operations C09 quantifies over",
}

func baseLock(id string) string {
	id = strings.TrimSuffix(id, "/R")
	if c, ok := lockCluster[id]; ok {
		return c
	}
	return id
}

func isCluster(n string) bool {
	for _, c := range lockCluster {
		if c == n {
			return true
		}
	}
	return false
}

// lockCtx: shared by the lock-order and wait-under-lock rules.
type lockCtx struct {
	fns        []*ssa.Function
	inScope    map[*ssa.Function]bool
	follow     func(e *callgraph.Edge) bool
	calleesOf  func(fn *ssa.Function, in ssa.Instruction) []*ssa.Function
	outEdges   map[*ssa.Function][]*callgraph.Edge
	nAmbiguous map[ssa.Instruction]bool
	mayAcq     map[*ssa.Function]map[string]bool
	// mayAcqSame: exact lock names (not collapsed; /R kept) reachable WITHOUT passing through a
	// callback: calls of function values (setFunc, delFunc, …) and dynamic dispatch outside the
	// reviewed interfaces (finalisers: Value.Release) are not followed. Within one layer object a
	// re-acquisition found this way is on the same instance: callbacks are the only bridges between
	// the instances of the cache/table layer.
	mayAcqSame map[*ssa.Function]map[string]*ssa.Function // lock -> callee through which (nil = direct)
	isCallback func(e *callgraph.Edge) bool
}

func buildLockCtx(p *Prog) *lockCtx {
	var pkgs []string
	for rel := range p.ByRel {
		pkgs = append(pkgs, rel)
	}
	sort.Strings(pkgs)
	var fns []*ssa.Function
	inScope := map[*ssa.Function]bool{}
	for _, pk := range pkgs {
		if strings.HasPrefix(pk, "fixtures") || pk == "leveldb/testutil" || strings.HasPrefix(pk, "manualtest") {
			continue
		}
		for _, fn := range p.SrcFuncs(pk) {
			fns = append(fns, fn)
			inScope[fn] = true
		}
	}
	cg := p.CG()
	// Which call edges are followed. Static calls and calls of function values always; interface
	// method calls only when the resolved graph gives a single in-scope implementation, or the
	// interface is one of the reviewed ones whose implementations are all real alternatives
	// (storage, cacher). Dispatch on util.Releaser / iterator.Iterator is NOT followed when
	// ambiguous: the call graph merges every BasicReleaser.releaser field, so each Release() site
	// appears to reach every releaser of the module, which would fabricate order edges.
	dispatchCount := map[ssa.Instruction]int{}
	for _, fn := range fns {
		if n := cg.Nodes[fn]; n != nil {
			for _, e := range n.Out {
				if e.Site != nil && e.Site.Common().IsInvoke() && e.Callee != nil && inScope[e.Callee.Func] {
					dispatchCount[e.Site] = dispatchCount[e.Site] + 1
				}
			}
		}
	}
	nAmbiguous := map[ssa.Instruction]bool{}
	followEdge := func(e *callgraph.Edge) bool {
		if e.Callee == nil || e.Callee.Func == nil || !inScope[e.Callee.Func] || e.Site == nil {
			return false
		}
		if _, isGo := e.Site.(*ssa.Go); isGo {
			return false
		}
		cc := e.Site.Common()
		if !cc.IsInvoke() || dispatchCount[e.Site] <= 1 {
			return true
		}
		switch namedOf(cc.Value.Type()) {
		case "leveldb/storage.Storage", "leveldb/storage.Reader", "leveldb/storage.Writer", "leveldb/storage.Locker", "leveldb/cache.Cacher":
			return true
		}
		nAmbiguous[e.Site] = true
		return false
	}
	// callees per call instruction (go statements excluded)
	calleesOf := func(fn *ssa.Function, in ssa.Instruction) []*ssa.Function {
		n := cg.Nodes[fn]
		if n == nil {
			return nil
		}
		var out []*ssa.Function
		for _, e := range n.Out {
			if e.Site == in && followEdge(e) {
				out = append(out, e.Callee.Func)
			}
		}
		return out
	}
	outEdges := map[*ssa.Function][]*callgraph.Edge{}
	for _, fn := range fns {
		if n := cg.Nodes[fn]; n != nil {
			for _, e := range n.Out {
				if followEdge(e) {
					outEdges[fn] = append(outEdges[fn], e)
				}
			}
		}
	}
	// may-acquire (lock names collapsed by baseLock), transitively over followed edges
	mayAcq := map[*ssa.Function]map[string]bool{}
	for _, fn := range fns {
		mayAcq[fn] = map[string]bool{}
		instrs(fn, func(_ *ssa.BasicBlock, _ int, in ssa.Instruction) {
			if id, d, ok := mutexOp(in); ok && d > 0 {
				mayAcq[fn][baseLock(id)] = true
			}
		})
	}
	for changed := true; changed; {
		changed = false
		for _, fn := range fns {
			for _, e := range outEdges[fn] {
				for l := range mayAcq[e.Callee.Func] {
					if !mayAcq[fn][l] {
						mayAcq[fn][l] = true
						changed = true
					}
				}
			}
		}
	}
	isCallback := func(e *callgraph.Edge) bool {
		cc := e.Site.Common()
		if cc.IsInvoke() {
			switch namedOf(cc.Value.Type()) {
			case "leveldb/storage.Storage", "leveldb/storage.Reader", "leveldb/storage.Writer", "leveldb/storage.Locker", "leveldb/cache.Cacher":
				return false
			}
			return true
		}
		return cc.StaticCallee() == nil // call of a function value
	}
	mayAcqSame := map[*ssa.Function]map[string]*ssa.Function{}
	for _, fn := range fns {
		mayAcqSame[fn] = map[string]*ssa.Function{}
		instrs(fn, func(_ *ssa.BasicBlock, _ int, in ssa.Instruction) {
			if _, isDefer := in.(*ssa.Defer); isDefer {
				return
			}
			if id, d, ok := mutexOp(in); ok && d > 0 {
				mayAcqSame[fn][id] = nil
			}
		})
	}
	for changed := true; changed; {
		changed = false
		for _, fn := range fns {
			for _, e := range outEdges[fn] {
				if isCallback(e) {
					continue
				}
				for l := range mayAcqSame[e.Callee.Func] {
					if _, ok := mayAcqSame[fn][l]; !ok {
						mayAcqSame[fn][l] = e.Callee.Func
						changed = true
					}
				}
			}
		}
	}
	return &lockCtx{fns: fns, inScope: inScope, follow: followEdge, calleesOf: calleesOf, outEdges: outEdges, nAmbiguous: nAmbiguous, mayAcq: mayAcq, mayAcqSame: mayAcqSame, isCallback: isCallback}
}

func ruleLockOrder(p *Prog, r *Report, rule string) {
	r.Begin(rule, "E-PAIR", "the lock-order graph over all mutexes of the module (edge h→l when l is acquired, directly or through callees, while h may be held) is acyclic, apart from reviewed instance-ordered edges; no mutex is re-acquired while held", 20)
	defer r.End()
	lc := buildLockCtx(p)
	fns, calleesOf, followEdge, nAmbiguous, cg := lc.fns, lc.calleesOf, lc.follow, lc.nAmbiguous, p.CG()
	_ = calleesOf
	// direct acquisitions
	direct := map[*ssa.Function]map[string]bool{}
	for _, fn := range fns {
		instrs(fn, func(_ *ssa.BasicBlock, _ int, in ssa.Instruction) {
			if _, isDefer := in.(*ssa.Defer); isDefer {
				// a deferred Lock is still an acquisition of this function
			}
			if id, d, ok := mutexOp(in); ok && d > 0 {
				if direct[fn] == nil {
					direct[fn] = map[string]bool{}
				}
				direct[fn][id] = true
			}
		})
	}
	// may-acquire fixed point; next[fn][lock] = callee through which it is reached
	may := map[*ssa.Function]map[string]bool{}
	next := map[*ssa.Function]map[string]*ssa.Function{}
	for _, fn := range fns {
		may[fn] = map[string]bool{}
		next[fn] = map[string]*ssa.Function{}
		for l := range direct[fn] {
			may[fn][l] = true
		}
	}
	outEdges := lc.outEdges
	_, _ = cg, followEdge
	for changed := true; changed; {
		changed = false
		for _, fn := range fns {
			for _, e := range outEdges[fn] {
				for l := range may[e.Callee.Func] {
					if !may[fn][l] {
						may[fn][l] = true
						next[fn][l] = e.Callee.Func
						changed = true
					}
				}
			}
		}
	}
	chain := func(fn *ssa.Function, l string) string {
		var parts []string
		for i := 0; fn != nil && i < 12; i++ {
			parts = append(parts, fnName(fn))
			if direct[fn][l] {
				break
			}
			fn = next[fn][l]
		}
		return strings.Join(parts, " → ")
	}
	// held sets at acquisition points and calls
	sp := lockSpec()
	edges := map[string]map[string]lockEdgeWitness{}
	addEdge := func(h, l string, w lockEdgeWitness) {
		hb, lb := baseLock(h), baseLock(l)
		if strings.HasPrefix(hb, "?") || strings.HasPrefix(lb, "?") {
			return
		}
		if edges[hb] == nil {
			edges[hb] = map[string]lockEdgeWitness{}
		}
		if _, ok := edges[hb][lb]; !ok {
			w.mode = h + " then " + l
			edges[hb][lb] = w
		}
	}
	nSites := 0
	analysed := 0
	sameInst := map[string]string{}
	sameInstPos := map[string]string{}
	for _, fn := range fns {
		if !hasMutexOps(fn) && !callsLockSummarised(sp, fn) {
			continue
		}
		analysed++
		r.Fn(fnName(fn))
		watch := func(in ssa.Instruction) bool {
			if _, isGo := in.(*ssa.Go); isGo {
				return false
			}
			return callCommon(in) != nil
		}
		res := sp.Analyze(fn, nil, watch)
		if res.Truncated {
			r.Fail(fnName(fn), "state-explosion", "analysis explores all paths", "state set truncated", p.Pos(fn.Pos()), nil)
		}
		// locks held at any exit (for deferred calls, which run there)
		exitHeld := map[string]bool{}
		for _, e := range res.Exits {
			for k, v := range e.State.cnt {
				if v > 0 {
					exitHeld[k] = true
				}
			}
		}
		for in, sts := range res.At {
			held := map[string]bool{}
			for _, st := range sts {
				for k, v := range st.cnt {
					if v > 0 {
						held[k] = true
					}
				}
			}
			_, isDefer := in.(*ssa.Defer)
			if isDefer {
				for k := range exitHeld {
					held[k] = true
				}
			}
			if len(held) == 0 {
				continue
			}
			if id, d, ok := mutexOp(in); ok {
				if d > 0 && !isDefer {
					nSites++
					for h := range held {
						addEdge(h, id, lockEdgeWitness{fn: fnName(fn), pos: p.Pos(in.Pos())})
					}
				}
				continue
			}
			for _, c := range calleesOf(fn, in) {
				for l := range may[c] {
					nSites++
					for h := range held {
						addEdge(h, l, lockEdgeWitness{fn: fnName(fn), pos: p.Pos(in.Pos()), via: chain(c, l)})
					}
				}
			}
			// same-instance re-acquisition inside the collapsed layer (see lockCtx.mayAcqSame)
			if n := cg.Nodes[fn]; n != nil {
				for _, e := range n.Out {
					if e.Site != in || !followEdge(e) || lc.isCallback(e) {
						continue
					}
					for l := range lc.mayAcqSame[e.Callee.Func] {
						lb := strings.TrimSuffix(l, "/R")
						if _, clustered := lockCluster[lb]; !clustered {
							continue
						}
						for h := range held {
							if strings.TrimSuffix(h, "/R") != lb {
								continue
							}
							key := lb + "@" + fnName(fn)
							if _, ok := sameInst[key]; !ok {
								// reconstruct the chain
								var parts []string
								for f, i := e.Callee.Func, 0; f != nil && i < 12; i++ {
									parts = append(parts, fnName(f))
									nx, ok := lc.mayAcqSame[f][l]
									if !ok || nx == nil {
										break
									}
									f = nx
								}
								sameInst[key] = fmt.Sprintf("%s holds %s at %s and re-acquires %s through %s", fnName(fn), h, p.Pos(in.Pos()), l, strings.Join(parts, " → "))
								sameInstPos[key] = p.Pos(in.Pos())
							}
						}
					}
				}
			}
		}
	}
	r.Site(nSites)
	// report: self loops and cycles (Tarjan SCC)
	var nodes []string
	nodeSet := map[string]bool{}
	for h, m := range edges {
		nodeSet[h] = true
		for l := range m {
			nodeSet[l] = true
		}
	}
	for n := range nodeSet {
		nodes = append(nodes, n)
	}
	sort.Strings(nodes)
	nEdges := 0
	usedExc := map[string]bool{}
	adj := map[string][]string{}
	for _, h := range nodes {
		var ls []string
		for l := range edges[h] {
			ls = append(ls, l)
		}
		sort.Strings(ls)
		for _, l := range ls {
			nEdges++
			key := h + "→" + l
			w := edges[h][l]
			desc := fmt.Sprintf("%s at %s", w.fn, w.pos)
			if w.via != "" {
				desc += " via " + w.via
			}
			if reason, ok := lockOrderExceptions[key]; ok {
				usedExc[key] = true
				r.OK(key, "order-edge:reviewed", "reviewed exception: "+reason+" ("+desc+")")
				continue
			}
			if h == l {
				if isCluster(h) {
					r.OK(key, "order-edge:within-layer", "instances of this layer are ordered by layer/hierarchy; not decided by type-based names ("+desc+")")
					continue
				}
				r.Fail(key, "reacquired-while-held", "no mutex is acquired while a mutex of the same type/field may be held (self-deadlock, or an instance order that needs review)", w.mode+": "+desc, w.pos, nil)
				continue
			}
			adj[h] = append(adj[h], l)
			r.OK(key, "order-edge", "lock order "+key+" ("+desc+")")
		}
	}
	for key := range lockOrderExceptions {
		if !usedExc[key] {
			r.Fail(key, "stale-exception", "every reviewed lock-order exception still matches an edge", "the edge no longer exists: remove the row", "", nil)
		}
	}
	// cycles among the remaining edges
	index, low := map[string]int{}, map[string]int{}
	onStack := map[string]bool{}
	var stack []string
	idx := 0
	var sccs [][]string
	var strong func(v string)
	strong = func(v string) {
		idx++
		index[v], low[v] = idx, idx
		stack = append(stack, v)
		onStack[v] = true
		for _, w := range adj[v] {
			if index[w] == 0 {
				strong(w)
				if low[w] < low[v] {
					low[v] = low[w]
				}
			} else if onStack[w] && index[w] < low[v] {
				low[v] = index[w]
			}
		}
		if low[v] == index[v] {
			var comp []string
			for {
				w := stack[len(stack)-1]
				stack = stack[:len(stack)-1]
				onStack[w] = false
				comp = append(comp, w)
				if w == v {
					break
				}
			}
			if len(comp) > 1 {
				sort.Strings(comp)
				sccs = append(sccs, comp)
			}
		}
	}
	for _, n := range nodes {
		if index[n] == 0 {
			strong(n)
		}
	}
	for _, comp := range sccs {
		in := map[string]bool{}
		for _, c := range comp {
			in[c] = true
		}
		var det []string
		for _, h := range comp {
			for _, l := range adj[h] {
				if in[l] {
					w := edges[h][l]
					d := fmt.Sprintf("%s→%s: %s at %s", h, l, w.fn, w.pos)
					if w.via != "" {
						d += " via " + w.via
					}
					det = append(det, d)
				}
			}
		}
		r.Fail(strings.Join(comp, ","), "lock-order-cycle", "the lock-order graph is acyclic", "locks taken in opposite orders: "+strings.Join(det, " | "), edges[comp[0]][adj[comp[0]][0]].pos, det)
	}
	var sk []string
	for k := range sameInst {
		sk = append(sk, k)
	}
	sort.Strings(sk)
	usedSame := map[string]bool{}
	for _, k := range sk {
		if why, ok := sameInstanceExceptions[k]; ok {
			usedSame[k] = true
			if k == "leveldb/table.Reader.mu@(*leveldb/table.Reader).Get" {
				// the exception holds only while nothing in the module calls it
				callers := 0
				for _, fn := range fns {
					if fnName(fn) == "(*leveldb/table.Reader).Get" {
						if n := cg.Nodes[fn]; n != nil {
							callers = len(n.In)
						}
					}
				}
				if callers > 0 {
					r.Fail(k, "reacquired-same-instance", "table.Reader.Get (recursive read lock) is not reachable from DB operations", fmt.Sprintf("%d callers in the module now reach it: %s", callers, sameInst[k]), sameInstPos[k], nil)
					continue
				}
			}
			r.OK(k, "reacquired-same-layer:reviewed", "reviewed: "+why)
			continue
		}
		r.Fail(k, "reacquired-same-instance", "inside the cache/table layer no lock is re-acquired on a path that stays within one object (no callback crossed): sync.RWMutex read locks are not re-entrant — with a writer waiting in between, the second RLock and the writer block each other for ever", sameInst[k], sameInstPos[k], nil)
	}
	for k := range sameInstanceExceptions {
		if !usedSame[k] {
			r.Fail(k, "stale-exception", "every reviewed same-layer exception still matches", "no longer found: remove the row", "", nil)
		}
	}
	r.Site(analysed)
	r.Check(analysed >= 60 && nEdges >= 8, "module", "lock-order-graph", "the functions using mutexes were analysed and the order graph is non-trivial", fmt.Sprintf("%d functions, %d order edges, %d nodes", analysed, nEdges, len(nodes)), "")
	r.Notes = append(r.Notes, fmt.Sprintf("%s: %d interface call sites with several possible implementations outside the reviewed interfaces were not followed", rule, len(nAmbiguous)))
	if len(sccs) == 0 {
		r.OK("module", "acyclic", fmt.Sprintf("no cycle among %d lock-order edges over %d locks", nEdges, len(nodes)))
	}
}
