package main

import (
	"fmt"
	"go/token"
	"sort"
	"strings"

	"golang.org/x/tools/go/ssa"
)

// ruleMemInsertSeq: every entry that enters a write buffer gets a sequence number strictly above
// the counter it is drawn from — the DB's (db.seq) for ordinary writes, the transaction's private
// one (tr.seq) inside a transaction — and the counter then moves past all numbers used. An entry
// numbered AT the counter collides with the previous write: same user key ⇒ the newer record is
// shadowed (a delete is lost, a committed update stays invisible), and a reader whose cut is the
// old counter sees a write made after its cut.
func ruleMemInsertSeq(p *Prog, r *Report, rule string) {
	r.Begin(rule, "E-FLOW", "write-buffer insertions in package leveldb come from a reviewed set of writers (Transaction.put, Batch.putMem, journal replay); every Batch.putMem call starts at counter+1 (db.seq / tr.seq) and a transaction that uses it advances tr.seq by the batch length", 4)
	defer r.End()
	const fPut = "(*leveldb/memdb.DB).Put"
	reviewed := map[string]string{
		"(*leveldb.Transaction).put": "single record, numbered tr.seq+1",
		"(*leveldb.Batch).putMem":    "records numbered seq+i from the caller's starting number",
		"leveldb.decodeBatchToMem$1": "journal replay: numbers come from the journal record (checked against the expected sequence)",
	}
	var writers []string
	for _, fn := range p.SrcFuncs("leveldb") {
		if len(findCalls(fn, fPut)) > 0 {
			writers = append(writers, fnName(fn))
		}
	}
	sort.Strings(writers)
	r.Site(len(writers))
	for _, w := range writers {
		_, ok := reviewed[w]
		r.Check(ok, w, "reviewed-buffer-writer", "every function that inserts into a write buffer is a reviewed writer", "unreviewed call of memdb.DB.Put: who numbers its entries?", "")
	}
	counterPlus := func(v ssa.Value, k int64) bool {
		b, ok := stripConv(v).(*ssa.BinOp)
		if !ok || b.Op != token.ADD {
			return false
		}
		isCounter := func(x ssa.Value) bool {
			return isFieldLoad(x, "leveldb.DB", "seq") || isFieldLoad(x, "leveldb.Transaction", "seq")
		}
		if c, isC := constInt(b.Y); isC && c == k && isCounter(b.X) {
			return true
		}
		if c, isC := constInt(b.X); isC && c == k && isCounter(b.Y) {
			return true
		}
		return false
	}
	// putMem call sites
	n := 0
	for _, fn := range p.SrcFuncs("leveldb") {
		for _, c := range findCalls(fn, "(*leveldb.Batch).putMem") {
			n++
			r.Site(1)
			r.Fn(fnName(fn))
			a := callCommon(c).Args[1]
			ok := counterPlus(a, 1)
			if !ok {
				// a running position over a group of batches: starts at counter+1 and moves on by
				// the length of each batch already inserted
				if ph, isPhi := stripConv(a).(*ssa.Phi); isPhi {
					ok = true
					nInit := 0
					for _, e := range ph.Edges {
						e = stripConv(e)
						if counterPlus(e, 1) {
							nInit++
							continue
						}
						b, isB := e.(*ssa.BinOp)
						isLen := func(v ssa.Value) bool {
							cv, isCall := stripConv(v).(*ssa.Call)
							return isCall && isCallTo(cv, "(*leveldb.Batch).Len")
						}
						if !(isB && b.Op == token.ADD && ((stripConv(b.X) == ssa.Value(ph) && isLen(b.Y)) || (stripConv(b.Y) == ssa.Value(ph) && isLen(b.X)))) {
							ok = false
						}
					}
					ok = ok && nInit >= 1
				}
			}
			r.Check(ok, fnName(fn), "batch-starts-at-counter+1@"+branchLabel(c), "Batch.putMem starts numbering at counter+1", "putMem at "+p.Pos(c.Pos())+" starts at "+strings.TrimSpace(stripConv(a).String())+": the first record collides with the previous write's number", p.Pos(c.Pos()))
			// inside a transaction the private counter must move past the batch
			owner := fn
			for owner.Parent() != nil {
				owner = owner.Parent()
			}
			if recv := owner.Signature.Recv(); recv != nil && namedOf(derefT(recv.Type())) == "leveldb.Transaction" {
				adv := func(in ssa.Instruction) bool {
					st, isS := in.(*ssa.Store)
					if !isS || !isFieldAddr(st.Addr, "leveldb.Transaction", "seq") {
						return false
					}
					b, isB := stripConv(st.Val).(*ssa.BinOp)
					if !isB || b.Op != token.ADD {
						return false
					}
					isLen := func(v ssa.Value) bool {
						cv, isCall := stripConv(v).(*ssa.Call)
						return isCall && isCallTo(cv, "(*leveldb.Batch).Len")
					}
					return (isFieldLoad(b.X, "leveldb.Transaction", "seq") && isLen(b.Y)) || (isFieldLoad(b.Y, "leveldb.Transaction", "seq") && isLen(b.X))
				}
				r.Site(1)
				this := func(in ssa.Instruction) bool { return in == c }
				if w := findPath(after(fn, this), noErrEdges, adv, isReturn); w != nil {
					r.Fail(fnName(fn), "counter-advanced-by-batch-length", "after Batch.putMem the transaction's counter moves past the batch", "a success path returns without tr.seq += b.Len()", p.posOfLast(w, isReturn), p.renderPath(w))
				} else {
					r.OK(fnName(fn), "counter-advanced-by-batch-length", "after Batch.putMem the transaction's counter moves past the batch")
				}
			}
		}
	}
	r.Check(n >= 1, "leveldb", "putMem-sites", "Batch.putMem call sites were found (DB.writeLocked)", fmt.Sprintf("%d", n), "")
}
