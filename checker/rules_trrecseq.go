package main

import (
	"fmt"
	"go/constant"
	"go/token"

	"golang.org/x/tools/go/ssa"
)

// ruleTrRecordSeq: a transaction (and every batch larger than the write buffer, which the DB routes
// through one) numbers its records itself. tr.seq is "the last sequence number in use" — db.seq when
// the transaction opens. Writing s0 for tr.seq at entry of Transaction.put, the record is keyed
// s0+a and a successful put leaves tr.seq = s0+b; the record is newer than everything before it
// iff a >= 1, and the next record (keyed s0+b+a) and Commit (which publishes tr.seq as the DB's
// sequence) cover it iff b >= a. With a = 0 the first record shares its number with the newest
// record of the DB: a snapshot taken just before sees it, and of two entries (k, s) the older wins.
// Decided by walking every path of put with tr.seq as a symbolic s0 + constant.
func ruleTrRecordSeq(p *Prog, r *Report, rule string) {
	r.Begin(rule, "E-FLOW", "Transaction.put numbers its record s0+a and leaves tr.seq = s0+b on success with a >= 1 (newer than every earlier record, so invisible to earlier snapshots and winning over earlier versions) and b >= a (the next record and Commit's published sequence cover it); the record inserted is the internal key just built", 3)
	defer r.End()
	fn := resolveFn(p, r, "leveldb", "(*Transaction).put")
	if fn == nil {
		return
	}
	isSeqAddr := func(v ssa.Value) bool { return isFieldAddr(v, tTr, "seq") }
	mk := evCall("leveldb.makeInternalKey")
	ins := evCall("(*leveldb/memdb.DB).Put")
	if !requireSites(p, r, fn, "key-built", "makeInternalKey", mk, 1) || !requireSites(p, r, fn, "record-inserted", "tr.mem.Put", ins, 1) {
		return
	}
	type st struct {
		delta    int64
		loadAt   map[ssa.Value]int64 // loads of tr.seq → delta at the time of the load
		a        int64
		haveA    bool
		inserted bool
		nonNil   map[ssa.Value]bool // error values found non-nil (true) / nil (false) on this path
	}
	var eval func(v ssa.Value, s *st, depth int) (int64, bool)
	eval = func(v ssa.Value, s *st, depth int) (int64, bool) {
		if depth == 0 {
			return 0, false
		}
		switch x := v.(type) {
		case *ssa.UnOp:
			if d, ok := s.loadAt[x]; ok {
				return d, true
			}
		case *ssa.BinOp:
			if x.Op == token.ADD || x.Op == token.SUB {
				var base ssa.Value
				var k *ssa.Const
				if c, ok := x.Y.(*ssa.Const); ok {
					base, k = x.X, c
				} else if c, ok := x.X.(*ssa.Const); ok && x.Op == token.ADD {
					base, k = x.Y, c
				}
				if k != nil && k.Value != nil && k.Value.Kind() == constant.Int {
					c, _ := constant.Int64Val(k.Value)
					if x.Op == token.SUB {
						c = -c
					}
					if d, ok := eval(base, s, depth-1); ok {
						return d + c, true
					}
				}
			}
		case *ssa.Convert:
			return eval(x.X, s, depth-1)
		case *ssa.ChangeType:
			return eval(x.X, s, depth-1)
		}
		return 0, false
	}
	type verdict struct{ key, why, pos string }
	var fails []verdict
	seenFail := map[string]bool{}
	fail := func(key, why, pos string) {
		if !seenFail[key] {
			seenFail[key] = true
			fails = append(fails, verdict{key, why, pos})
		}
	}
	succ := 0
	onPath := map[*ssa.BasicBlock]bool{}
	steps := 0
	var dfs func(b *ssa.BasicBlock, s st)
	dfs = func(b *ssa.BasicBlock, s st) {
		steps++
		if steps > 5000 {
			fail("paths", "too many paths through Transaction.put: undecided", p.Pos(fn.Pos()))
			return
		}
		onPath[b] = true
		defer func() { onPath[b] = false }()
		cur := s
		cur.loadAt = map[ssa.Value]int64{}
		for k, v := range s.loadAt {
			cur.loadAt[k] = v
		}
		cur.nonNil = map[ssa.Value]bool{}
		for k, v := range s.nonNil {
			cur.nonNil[k] = v
		}
		for _, in := range b.Instrs {
			switch x := in.(type) {
			case *ssa.UnOp:
				if x.Op == token.MUL && isSeqAddr(x.X) {
					cur.loadAt[x] = cur.delta
				}
			case *ssa.Store:
				if isSeqAddr(x.Addr) {
					d, ok := eval(x.Val, &cur, 6)
					if !ok {
						fail("seq-symbolic", "tr.seq is assigned a value that is not tr.seq plus a constant: undecided", p.Pos(x.Pos()))
						return
					}
					cur.delta = d
				}
			case *ssa.Return:
				isErrNil := false
				for _, res := range x.Results {
					if isErrorType(res.Type()) && isNilConst(retValue(x, res)) {
						isErrNil = true
					}
				}
				// a return of the insert's own (nil-tested or not) error: success when that error is nil
				if !isErrNil && cur.inserted {
					for _, res := range x.Results {
						rv := retValue(x, res)
						if !isErrorType(res.Type()) || !mErrOfCall("(*leveldb/memdb.DB).Put")(rv) {
							continue
						}
						if nn, tested := cur.nonNil[rv]; !tested || !nn {
							isErrNil = true // `return tr.mem.Put(...)` untested, or found nil: the success case of this return
						}
					}
				}
				if !isErrNil {
					return
				}
				succ++
				if !cur.inserted || !cur.haveA {
					fail("success-inserts", "a success return is reached without building a key and inserting it", p.Pos(x.Pos()))
					return
				}
				if cur.a < 1 {
					fail("record-seq-fresh", fmt.Sprintf("the record is keyed tr.seq%+d relative to the value at entry: it shares its sequence number with (or is older than) the newest record written before it", cur.a), p.Pos(x.Pos()))
				}
				if cur.delta < cur.a {
					fail("seq-covers-record", fmt.Sprintf("after a successful put tr.seq is entry%+d but the record was keyed entry%+d: the next record reuses the number and Commit publishes a sequence below the record", cur.delta, cur.a), p.Pos(x.Pos()))
				}
				return
			}
			if mk(in) {
				c := in.(*ssa.Call)
				d, ok := eval(c.Call.Args[2], &cur, 6)
				if !ok {
					fail("seq-symbolic", "the record's sequence number is not tr.seq plus a constant: undecided", p.Pos(in.Pos()))
					return
				}
				cur.a, cur.haveA = d, true
			}
			if ins(in) {
				cur.inserted = true
			}
		}
		var tested ssa.Value
		trueNonNil, isTest := false, false
		if iff, ok := b.Instrs[len(b.Instrs)-1].(*ssa.If); ok {
			tested, trueNonNil, isTest = condNilTest(iff.Cond)
		}
		for si, s2 := range b.Succs {
			if onPath[s2] {
				continue
			}
			next := cur
			if isTest {
				next.nonNil = map[ssa.Value]bool{}
				for k, v := range cur.nonNil {
					next.nonNil[k] = v
				}
				next.nonNil[tested] = (si == 0) == trueNonNil
			}
			dfs(s2, next)
		}
	}
	dfs(fn.Blocks[0], st{loadAt: map[ssa.Value]int64{}, nonNil: map[ssa.Value]bool{}})
	r.Site(succ)
	for _, k := range []string{"record-seq-fresh", "seq-covers-record", "success-inserts", "seq-symbolic", "paths"} {
		what := map[string]string{
			"record-seq-fresh":  "the record's sequence number is above tr.seq at entry (a >= 1)",
			"seq-covers-record": "a successful put leaves tr.seq at or above the record's number (b >= a)",
			"success-inserts":   "every success return built and inserted a record",
			"seq-symbolic":      "sequence values are tr.seq plus a constant",
			"paths":             "all paths walked",
		}[k]
		found := false
		for _, f := range fails {
			if f.key == k {
				r.Fail(fnName(fn), k, what, f.why, f.pos, nil)
				found = true
			}
		}
		if !found {
			r.OK(fnName(fn), k, what)
		}
	}
	r.Check(succ >= 1, fnName(fn), "success-returns", "success returns were found", fmt.Sprintf("%d", succ), "")
	// the record inserted is the key just built, and a failed flush inserts nothing
	checkCallArg(p, r, fn, "inserts-internal-key", "(*leveldb/memdb.DB).Put", 1, func(v ssa.Value) bool { return isFieldLoad(stripConv(v), tTr, "ikScratch") }, "the internal key just built")
	ordNotOnError(p, r, fn, "no-insert-on-failed-flush", mErrOfCall("(*leveldb.Transaction).flush"), "tr.flush", evCall("(*leveldb.Transaction).flush"), ins, "tr.mem.Put")
}
