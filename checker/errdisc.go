package main

import (
	"fmt"
	"go/types"
	"sort"
	"strings"

	"golang.org/x/tools/go/ssa"
)

// E-ERR: error discipline. For every call (in the given packages) to a function whose result
// list ends in `error`, the error value must be USED: tested, returned, stored, passed on, or
// sent. A call whose error result has no use at all is a dropped error.

type droppedErr struct {
	fn     *ssa.Function
	in     ssa.Instruction
	callee string
}

func errResultIndex(sig *types.Signature) int {
	res := sig.Results()
	if res.Len() == 0 {
		return -1
	}
	if isErrorType(res.At(res.Len() - 1).Type()) {
		return res.Len() - 1
	}
	return -1
}

func droppedErrors(p *Prog, pkgs []string) []droppedErr {
	var out []droppedErr
	for _, pk := range pkgs {
		for _, fn := range p.SrcFuncs(pk) {
			instrs(fn, func(_ *ssa.BasicBlock, _ int, in ssa.Instruction) {
				cc := callCommon(in)
				if cc == nil {
					return
				}
				sig := cc.Signature()
				idx := errResultIndex(sig)
				if idx < 0 {
					return
				}
				name := calleeName(cc)
				if name == "" {
					name = "dynamic:" + sig.String()
				}
				switch x := in.(type) {
				case *ssa.Defer, *ssa.Go:
					out = append(out, droppedErr{fn, in, name})
				case *ssa.Call:
					used := false
					if sig.Results().Len() == 1 {
						for _, ref := range *x.Referrers() {
							if _, isDbg := ref.(*ssa.DebugRef); !isDbg {
								used = true
							}
						}
					} else {
						for _, ref := range *x.Referrers() {
							if e, ok := ref.(*ssa.Extract); ok && e.Index == idx {
								for _, r2 := range *e.Referrers() {
									if _, isDbg := r2.(*ssa.DebugRef); !isDbg {
										used = true
									}
								}
							}
						}
					}
					if !used {
						out = append(out, droppedErr{fn, in, name})
					}
				}
			})
		}
	}
	sort.Slice(out, func(i, j int) bool {
		a, b := fnName(out[i].fn)+"|"+out[i].callee, fnName(out[j].fn)+"|"+out[j].callee
		return a < b
	})
	return out
}

func dumpDropped(p *Prog) {
	for _, d := range droppedErrors(p, enginePkgs) {
		fmt.Printf("%s|%s  @%s\n", fnName(d.fn), d.callee, p.Pos(d.in.Pos()))
	}
}

var _ = strings.HasPrefix
