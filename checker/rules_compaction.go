package main

import (
	"fmt"
	"go/token"

	"golang.org/x/tools/go/ssa"
)

const (
	tTCB       = "leveldb.tableCompactionBuilder"
	fParseIKey = "leveldb.parseInternalKey"
	keyMaxSeqV = uint64(1)<<56 - 1
	fUCompare  = "(*leveldb.iComparer).uCompare"
)

func mKeyMaxSeq(v ssa.Value) bool {
	c, ok := constUint(v)
	return ok && c == keyMaxSeqV
}

func isInvokeOf(in ssa.Instruction, method string) bool { return isInvokeNamed(in, method) }

// ruleDropGuard (C03.3): the compaction drops an entry only when it is shadowed for every live
// snapshot, or is an obsolete tombstone at the base level.
func ruleDropGuard(p *Prog, r *Report, rule string) {
	r.Begin(rule, "E-GUARD", "compaction drop guard: in tableCompactionBuilder.run an entry is dropped (not appended to the output) only under kerr==nil ∧ (lastSeq <= minSeq ∨ (kt==Del ∧ seq <= minSeq ∧ baseLevelForKey(lastUkey))); lastSeq is keyMaxSeq at the first occurrence of a user key; minSeq comes from db.minSeq()", 5)
	defer r.End()
	fn := resolveFn(p, r, "leveldb", "(*tableCompactionBuilder).run")
	if fn == nil {
		return
	}
	parse := evCall(fParseIKey)
	next := func(in ssa.Instruction) bool { return isInvokeOf(in, "Next") }
	iterBody := orPred(parse, next)
	seq := mExtract(1, fParseIKey)
	minSeq := mFieldLoad(tTCB, "minSeq")
	lastSeqM := func(v ssa.Value) bool { return !seq(v) && mOriginAny(mKeyMaxSeq)(v) }
	atoms := []Atom{
		nilAtom("kerr==nil", mExtract(3, fParseIKey)),
		cmpAtom("lastSeq<=minSeq", token.LEQ, lastSeqM, minSeq),
		cmpAtom("kt==keyTypeDel", token.EQL, mExtract(2, fParseIKey), mConstInt(0)),
		cmpAtom("seq<=minSeq", token.LEQ, seq, minSeq),
		boolAtom("baseLevelForKey", mCall("(*leveldb.compaction).baseLevelForKey")),
	}
	G := func(a []bool) bool { return a[0] && (a[1] || (a[2] && a[3] && a[4])) }
	gdesc := "kerr==nil ∧ (lastSeq<=minSeq ∨ (kt==Del ∧ seq<=minSeq ∧ baseLevelForKey))"
	dropCnt := evStoreField(tTCB, "dropCnt")
	checkGuard(p, r, GuardSpec{Rule: "drop-counted", Fn: fn, Starts: after(fn, parse), Target: dropCnt, TargetDesc: "the drop (dropCnt++)", Atoms: atoms, G: G, GDesc: gdesc, Avoid: iterBody, MinTargets: 1})
	// the real obligation: skipping appendKV for a parsed entry
	appendKV := evCall("(*leveldb.tableCompactionBuilder).appendKV")
	if requireSites(p, r, fn, "append", "appendKV", appendKV, 1) {
		checkGuard(p, r, GuardSpec{Rule: "not-appended", Fn: fn, Starts: after(fn, parse), Target: next, TargetDesc: "moving to the next entry without appending this one", Atoms: atoms, G: G, GDesc: gdesc, Avoid: orPred(parse, appendKV), MinTargets: 1})
	}
	// baseLevelForKey is asked about the CURRENT user key (lastUkey was just set to it)
	// lastSeq discipline
	var lastSeqPhi *ssa.Phi
	instrs(fn, func(_ *ssa.BasicBlock, _ int, in ssa.Instruction) {
		if b, ok := in.(*ssa.BinOp); ok && isCmpOp(b.Op) {
			for _, pair := range [][2]ssa.Value{{b.X, b.Y}, {b.Y, b.X}} {
				if lastSeqM(pair[0]) && minSeq(pair[1]) {
					if ph, ok := pair[0].(*ssa.Phi); ok {
						lastSeqPhi = ph
					}
				}
			}
		}
	})
	if lastSeqPhi == nil {
		r.Fail(fnName(fn), "lastSeq:unresolved-anchor", "the lastSeq <= minSeq comparison is on a loop-carried variable", "comparison not found", p.Pos(fn.Pos()), nil)
	} else {
		r.Site(1)
		okOrigins := originsAll(lastSeqPhi, func(v ssa.Value) bool {
			return mKeyMaxSeq(v) || seq(v) || isFieldLoad(v, tTCB, "snapLastSeq")
		})
		r.Check(okOrigins, fnName(fn), "lastSeq-origins", "lastSeq only ever holds keyMaxSeq, the current entry's seq, or the saved snapLastSeq", "lastSeq has another origin (e.g. initialised to 0, or assigned something else): the shadowing test is wrong for the first entry of a key", p.Pos(lastSeqPhi.Pos()))
		// first occurrence of a user key: the edge that comes from the block appending ukey to lastUkey carries keyMaxSeq
		ukey := mExtract(0, fParseIKey)
		found, good := 0, 0
		for i, pred := range lastSeqPhi.Block().Preds {
			hasAppend := false
			for _, in := range pred.Instrs {
				if c, ok := in.(*ssa.Call); ok && isCallTo(c, "builtin:append") && len(c.Call.Args) == 2 && ukey(c.Call.Args[1]) {
					hasAppend = true
				}
			}
			if hasAppend {
				found++
				if mKeyMaxSeq(lastSeqPhi.Edges[i]) {
					good++
				}
			}
		}
		r.Check(found >= 1 && found == good, fnName(fn), "lastSeq-reset-at-new-ukey", "at the first occurrence of a user key lastSeq is reset to keyMaxSeq (so the newest entry of a key is never dropped as shadowed)", fmt.Sprintf("%d new-user-key edges, %d carry keyMaxSeq", found, good), p.Pos(lastSeqPhi.Pos()))
	}
	// minSeq source
	if tc := resolveFn(p, r, "leveldb", "(*DB).tableCompaction"); tc != nil {
		okv, n := true, 0
		instrs(tc, func(_ *ssa.BasicBlock, _ int, in ssa.Instruction) {
			if st, ok := in.(*ssa.Store); ok && isFieldAddr(st.Addr, tTCB, "minSeq") {
				n++
				if _, isCall := callValue(st.Val, "(*leveldb.DB).minSeq"); !isCall {
					okv = false
				}
			}
		})
		r.Site(n)
		r.Check(n >= 1 && okv, fnName(tc), "minSeq-from-snapshots", "the builder's minSeq is db.minSeq() (the oldest live snapshot, else the current sequence)", "builder.minSeq is not fed from db.minSeq()", p.Pos(tc.Pos()))
		// and it is computed before the builder runs
		ordPrecede(p, r, tc, "minSeq-before-build", nil, evCall("(*leveldb.DB).minSeq"), "db.minSeq()", evCall("(*leveldb.DB).compactionTransact"), "compactionTransact(build)")
	}
}

// ruleCutAtUkeyBoundary (C06.2): output tables are cut only at the first occurrence of a user key.
func ruleCutAtUkeyBoundary(p *Prog, r *Report, rule string) {
	r.Begin(rule, "E-GUARD", "compaction outputs are cut only at user-key boundaries: the in-loop b.flush() is reached only at the first occurrence of a user key (¬hasLastUkey ∨ uCompare(lastUkey, ukey) ≠ 0)", 1)
	defer r.End()
	fn := resolveFn(p, r, "leveldb", "(*tableCompactionBuilder).run")
	if fn == nil {
		return
	}
	parse := evCall(fParseIKey)
	next := func(in ssa.Instruction) bool { return isInvokeOf(in, "Next") }
	hasLast := func(v ssa.Value) bool {
		ph, ok := v.(*ssa.Phi)
		return ok && mOriginAny(mFieldLoad(tTCB, "snapHasLastUkey"))(ph)
	}
	ukey := mExtract(0, fParseIKey)
	ucmp := func(v ssa.Value) bool {
		c, ok := callValue(v, fUCompare)
		if !ok {
			return false
		}
		// one operand is the current entry's user key
		return ukey(c.Call.Args[1]) || ukey(c.Call.Args[2])
	}
	// the remembered key: the other operand of the boundary comparison
	var lastVals []ssa.Value
	instrs(fn, func(_ *ssa.BasicBlock, _ int, in ssa.Instruction) {
		if c, ok := in.(*ssa.Call); ok && ucmp(c) {
			for _, a := range c.Call.Args[1:] {
				if !ukey(a) {
					lastVals = append(lastVals, a)
				}
			}
		}
	})
	isLast := func(v ssa.Value) bool {
		for _, l := range lastVals {
			if l == v {
				return true
			}
		}
		return false
	}
	// "a previous user key exists": the boolean flag, or — if the code uses a nil sentinel — a
	// non-nil remembered key (the sentinel form is then checked for soundness below).
	nilForm := 0
	hasPrev := Atom{Name: "hasLastUkey", Match: func(cond ssa.Value) (int, int) {
		if hasLast(cond) {
			return +1, -1
		}
		if x, trueNonNil, ok := condNilTest(cond); ok && isLast(x) {
			nilForm++
			if trueNonNil {
				return +1, -1
			}
			return -1, +1
		}
		return 0, 0
	}}
	atoms := []Atom{
		hasPrev,
		cmpAtom("uCompare(lastUkey,ukey)!=0", token.NEQ, ucmp, mConstInt(0)),
	}
	checkGuard(p, r, GuardSpec{Rule: "cut-at-ukey-boundary", Fn: fn, Starts: after(fn, parse), Target: evCall("(*leveldb.tableCompactionBuilder).flush"), TargetDesc: "the in-loop b.flush() (output table rotation)",
		Atoms: atoms, G: func(a []bool) bool { return !a[0] || a[1] }, GDesc: "¬hasLastUkey ∨ uCompare(lastUkey, ukey) ≠ 0", Avoid: orPred(parse, next), MinTargets: 1})
	if nilForm > 0 {
		// nil is used as the "no key yet" sentinel: every assignment of a real key must be provably
		// non-nil, or the EMPTY user key is indistinguishable from "no key yet" (append(x[:0], k...)
		// and append([]byte(nil), k...) are nil for a nil x / empty k).
		r.Site(1)
		bad := ""
		seen := map[ssa.Value]bool{}
		var nonNil func(v ssa.Value) bool
		nonNil = func(v ssa.Value) bool {
			switch x := v.(type) {
			case *ssa.MakeSlice:
				return true
			case *ssa.Slice:
				return nonNil(x.X)
			case *ssa.Call:
				if isCallTo(x, "builtin:append") {
					return nonNil(x.Call.Args[0])
				}
			}
			return false
		}
		var walk func(v ssa.Value)
		walk = func(v ssa.Value) {
			if seen[v] {
				return
			}
			seen[v] = true
			switch x := v.(type) {
			case *ssa.Phi:
				for _, e := range x.Edges {
					walk(e)
				}
				return
			case *ssa.Const:
				if x.Value == nil {
					return
				}
			}
			if !nonNil(v) {
				if in, ok := v.(ssa.Instruction); ok {
					bad = p.Pos(in.Pos())
				} else {
					bad = v.String()
				}
			}
		}
		for _, l := range lastVals {
			walk(l)
		}
		r.Check(bad == "", fnName(fn), "nil-sentinel-sound", "when nil stands for 'no user key seen yet', every remembered key is provably non-nil (the empty user key must not look like 'no key yet')", "the remembered key assigned at "+bad+" can be nil for the empty user key (append onto a nil/[:0] base): all versions of \"\" are treated as first occurrences — never dropped, and cut across output tables", bad)
	}
	// the comparison is between the remembered key and the current key
	n := countInstr(fn, func(in ssa.Instruction) bool { c, ok := in.(*ssa.Call); return ok && ucmp(c) })
	r.Check(n >= 1, fnName(fn), "compares-current-ukey", "the boundary test compares lastUkey with the current entry's user key through the comparer", "no uCompare(.., ukey) found", p.Pos(fn.Pos()))
}

// ruleBaseLevel: compaction.baseLevelForKey answers "no deeper level can hold this user key":
// it may answer true only after every deeper level was examined, and false only when a table's
// range covers the key.
func ruleBaseLevel(p *Prog, r *Report, rule string) {
	r.Begin(rule, "E-GUARD", "baseLevelForKey (which licenses dropping a tombstone): returns false exactly when a deeper table's [imin, imax] user-key range covers the key; returns true only after ALL deeper levels (sourceLevel+2 …) were examined; the trivial move is taken only for a single input table with no parent-level overlap", 3)
	defer r.End()
	fn := resolveFn(p, r, "leveldb", "(*compaction).baseLevelForKey")
	if fn != nil {
		moreLevels := cmpAtom("level<len(levels)", token.LSS, func(v ssa.Value) bool {
			ph, ok := v.(*ssa.Phi)
			return ok && phiNamedOr(ph, "level", isCountingPhi)
		}, func(v ssa.Value) bool {
			c, ok := v.(*ssa.Call)
			return ok && isCallTo(c, "builtin:len") && isFieldLoad(c.Call.Args[0], "leveldb.version", "levels")
		})
		leImax := cmpAtom("uCompare(ukey,t.imax.ukey())<=0", token.LEQ, func(v ssa.Value) bool {
			c, ok := callValue(v, fUCompare)
			return ok && isUkeyOf(ukeyArg(c, 2), "imax")
		}, mConstInt(0))
		geImin := cmpAtom("uCompare(ukey,t.imin.ukey())>=0", token.GEQ, func(v ssa.Value) bool {
			c, ok := callValue(v, fUCompare)
			return ok && isUkeyOf(ukeyArg(c, 2), "imin")
		}, mConstInt(0))
		maybeTrue := func(in ssa.Instruction) bool {
			ret, ok := in.(*ssa.Return)
			if !ok || len(ret.Results) != 1 {
				return false
			}
			b, isC := constBool(ret.Results[0])
			return !isC || b
		}
		maybeFalse := func(in ssa.Instruction) bool {
			ret, ok := in.(*ssa.Return)
			if !ok || len(ret.Results) != 1 {
				return false
			}
			b, isC := constBool(ret.Results[0])
			return !isC || !b
		}
		checkGuard(p, r, GuardSpec{Rule: "true-only-after-all-levels", Fn: fn, Target: maybeTrue, TargetDesc: "answering 'base level' (true)", Atoms: []Atom{moreLevels}, G: func(a []bool) bool { return !a[0] }, GDesc: "all deeper levels examined (level >= len(levels))", MinTargets: 1})
		checkGuard(p, r, GuardSpec{Rule: "false-only-if-covered", Fn: fn, Target: maybeFalse, TargetDesc: "answering 'not base level' (false)", Atoms: []Atom{leImax, geImin}, G: func(a []bool) bool { return a[0] && a[1] }, GDesc: "imin <= ukey <= imax for some deeper table", MinTargets: 1})
		// and a covering table does yield false (not skipped)
		if w := findPathV(entryPoint(fn), atomEdges([]Atom{leImax, geImin}, []bool{true, true}), func(in ssa.Instruction) bool {
			ret, ok := in.(*ssa.Return)
			if !ok {
				return false
			}
			b, isC := constBool(ret.Results[0])
			return isC && !b
		}, maybeTrue, atomVals([]Atom{leImax, geImin}, []bool{true, true})); w != nil {
			// only meaningful if the comparisons are evaluated at all on that path: require the path to pass a uCompare
			passes := false
			for _, b := range w {
				for _, in := range b.Instrs {
					if isCallTo(in, fUCompare) {
						passes = true
					}
				}
			}
			if passes {
				r.Fail(fnName(fn), "covered-key-reported-base", "a key covered by a deeper table is never reported as base level", "with imin <= ukey <= imax a path answers true", p.posOfLast(w, maybeTrue), p.renderPath(w))
			} else {
				r.OK(fnName(fn), "covered-key-not-base", "a key covered by a deeper table is never reported as base level")
			}
		} else {
			r.OK(fnName(fn), "covered-key-not-base", "a key covered by a deeper table is never reported as base level")
		}
		// starts two levels below the source
		okStart := false
		instrs(fn, func(_ *ssa.BasicBlock, _ int, in ssa.Instruction) {
			if ph, ok := in.(*ssa.Phi); ok && phiNamedOr(ph, "level", isCountingPhi) {
				for _, e := range ph.Edges {
					if mSourceLevelPlus(2, true)(e) {
						okStart = true
					}
				}
			}
		})
		r.Site(1)
		r.Check(okStart, fnName(fn), "starts-at-grandparent", "the scan starts at sourceLevel+2 (the first level not rewritten by this compaction)", "level does not start at sourceLevel+2", p.Pos(fn.Pos()))
	}
	if fn := resolveFn(p, r, "leveldb", "(*compaction).trivial"); fn != nil {
		lenOf := func(i int64) VMatch {
			return func(v ssa.Value) bool {
				c, ok := v.(*ssa.Call)
				if !ok || !isCallTo(c, "builtin:len") {
					return false
				}
				u, ok := c.Call.Args[0].(*ssa.UnOp)
				if !ok {
					return false
				}
				ia, ok := u.X.(*ssa.IndexAddr)
				if !ok || !isFieldAddr(ia.X, tComp, "levels") {
					return false
				}
				k, ok := constInt(ia.Index)
				return ok && k == i
			}
		}
		one := cmpAtom("len(levels[0])==1", token.EQL, lenOf(0), mConstInt(1))
		none := cmpAtom("len(levels[1])==0", token.EQL, lenOf(1), mConstInt(0))
		maybeTrue := func(in ssa.Instruction) bool {
			ret, ok := in.(*ssa.Return)
			if !ok || len(ret.Results) != 1 {
				return false
			}
			b, isC := constBool(ret.Results[0])
			return !isC || b
		}
		// the function is one && chain returning a phi: evaluate through the phi with the atoms
		ok := true
		for mask := 0; mask < 4; mask++ {
			as := []bool{mask&1 != 0, mask&2 != 0}
			if as[0] && as[1] {
				continue
			}
			// with a conjunct false the result must not be (possibly) true
			if w := findPathV(entryPoint(fn), atomEdges([]Atom{one, none}, as), nil, func(in ssa.Instruction) bool {
				ret, isRet := in.(*ssa.Return)
				if !isRet {
					return false
				}
				return maybeTrue(in) && !phiKnownFalse(ret.Results[0])
			}, atomVals([]Atom{one, none}, as)); w != nil {
				// findPathV prunes Ifs on known phis but a returned phi needs its value: check edge constants
				if !returnsFalseOnPath(w, fn) {
					ok = false
				}
			}
		}
		r.Site(1)
		r.Check(ok, fnName(fn), "trivial-needs-single-input-no-overlap", "a trivial move needs exactly one input table and no overlapping parent-level table", "trivial() can answer true with more inputs or a parent overlap: a table would be moved onto overlapping tables", p.Pos(fn.Pos()))
	}
}

func ukeyArg(c *ssa.Call, i int) ssa.Value {
	if i < len(c.Call.Args) {
		return c.Call.Args[i]
	}
	return nil
}

func phiKnownFalse(v ssa.Value) bool { b, ok := constBool(v); return ok && !b }

// returnsFalseOnPath: the return at the end of path w returns a boolean phi whose incoming edge
// along w is the constant false.
func returnsFalseOnPath(w []*ssa.BasicBlock, fn *ssa.Function) bool {
	if len(w) < 2 {
		return false
	}
	last, prev := w[len(w)-1], w[len(w)-2]
	for _, in := range last.Instrs {
		ret, ok := in.(*ssa.Return)
		if !ok {
			continue
		}
		ph, ok := ret.Results[0].(*ssa.Phi)
		if !ok || ph.Block() != last {
			return false
		}
		for i, pb := range last.Preds {
			if pb == prev {
				b, isC := constBool(ph.Edges[i])
				return isC && !b
			}
		}
	}
	return false
}

// isUkeyOf: v is t.<field>.ukey() for a tFile field.
func isUkeyOf(v ssa.Value, field string) bool {
	if v == nil {
		return false
	}
	c, ok := callValue(v, "(leveldb.internalKey).ukey")
	return ok && isFieldLoad(stripConv(c.Call.Args[0]), "leveldb.tFile", field)
}
