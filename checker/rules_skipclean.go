package main

import (
	"fmt"
	"go/token"

	"golang.org/x/tools/go/ssa"
)

// ruleSkippedEntryLeavesNoTrace: session.recover tolerates a damaged manifest entry in non-strict
// mode by skipping it. sessionRecord.decode fills its receiver field by field and reports the
// damage only when it reaches it, so the record holds a PREFIX of the damaged entry — typically its
// journal / sequence / next-file numbers, which are encoded before the table lists. Nothing of a
// skipped entry may survive: on every path that continues after a failed decode, the first thing
// done to the decoded-into record is a whole-record restore of the value it had before the decode
// (or the record is a per-entry scratch value that is not touched again). Otherwise a torn
// memdb-flush edit moves the journal pointer without adding the flushed table and the old journal,
// with its synced writes, is dropped (D14).
func ruleSkippedEntryLeavesNoTrace(p *Prog, r *Report, rule string) {
	r.Begin(rule, "E-ORD", "session.recover: after a manifest entry failed to decode and is skipped, the record it was decoded into is first restored to its value from before the decode (or never touched again): no field of a skipped entry reaches recordCommited / setNextFileNum / the final checks", 2)
	defer r.End()
	fn := resolveFn(p, r, "leveldb", "(*session).recover")
	if fn == nil {
		return
	}
	const fDecode = "(*leveldb.sessionRecord).decode"
	decs := findCalls(fn, fDecode)
	r.Site(len(decs))
	if len(decs) == 0 {
		r.Fail(fnName(fn), "decode:unresolved-anchor", "recover decodes manifest entries with sessionRecord.decode", "no call found", p.Pos(fn.Pos()), nil)
		return
	}
	for _, dc := range decs {
		dci := dc.(ssa.Instruction)
		X := stripConv(callCommon(dc).Args[0])
		// restoring store: *X = v where v is the value loaded from X before the decode
		loadedBefore := func(v ssa.Value) bool {
			v = stripConv(v)
			u, ok := v.(*ssa.UnOp)
			if !ok || u.Op != token.MUL {
				return false
			}
			src := stripConv(u.X)
			if src == X {
				// the load must come before the decode on every path: same block and earlier, or a dominating block
				if u.Block() == dci.Block() {
					return indexOf(u) < indexOf(dci)
				}
				return u.Block().Dominates(dci.Block())
			}
			// saved kept in a local cell: single store of a load of X before the decode
			if a, ok := src.(*ssa.Alloc); ok {
				var stores []*ssa.Store
				for _, ref := range *a.Referrers() {
					if st, ok := ref.(*ssa.Store); ok && st.Addr == a {
						stores = append(stores, st)
					}
				}
				if len(stores) == 1 {
					if l, ok := stripConv(stores[0].Val).(*ssa.UnOp); ok && l.Op == token.MUL && stripConv(l.X) == X {
						if stores[0].Block() == dci.Block() {
							return indexOf(stores[0]) < indexOf(dci)
						}
						return stores[0].Block().Dominates(dci.Block())
					}
				}
			}
			return false
		}
		restore := func(in ssa.Instruction) bool {
			st, ok := in.(*ssa.Store)
			return ok && stripConv(st.Addr) == X && loadedBefore(st.Val)
		}
		touch := func(in ssa.Instruction) bool {
			if in == dci || restore(in) {
				return false
			}
			if _, isDbg := in.(*ssa.DebugRef); isDbg {
				return false
			}
			for _, op := range in.Operands(nil) {
				if *op != nil && stripConv(*op) == X {
					return true
				}
			}
			return false
		}
		r.Site(1)
		errCell := func(v ssa.Value) bool { return mCellNamed("err")(v) || mErrOfCall(fDecode)(v) }
		start := []point{{dci.Block(), indexOf(dci) + 1}}
		if w := findPath(start, onlyWhenErr(errCell), restore, touch); w != nil {
			r.Fail(fnName(fn), "skipped-entry-restored", "a skipped manifest entry leaves nothing in the accumulated record", fmt.Sprintf("after the decode at %s failed, the record is used again at %s without having been restored to its value from before the decode: the journal/sequence/file numbers of the damaged entry are kept", p.Pos(dci.Pos()), p.posOfLast(w, touch)), p.posOfLast(w, touch), p.renderPath(w))
		} else {
			r.OK(fnName(fn), "skipped-entry-restored", "a skipped manifest entry leaves nothing in the accumulated record")
		}
	}
}
